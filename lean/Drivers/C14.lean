/-
Line-protocol driver for C14.
  index <pkgs>      pkgs := '-' | pkg (',' pkg)*   pkg := 'x' (no purl) | <hextype> ':' <hexname>
     -> obs=<observation of the MODEL index: A=ids;T<type>=ids;…;S<type>:<name>=ids;…> spec=<the same queries answered by filtering the list>
  harvest <hex extractor> <hex fixture>  |  layout <hex os-release variant>
     -> issues=-      (the specification: a harvested package raises no issue; the harvest itself is testing, see c14gen)
  accept <e|c> <hextype> <hex origin>
     -> acc=1 accs=1 idem=1 must=<1 for e: a type some built-in ToPURL can emit must be accepted by purl.FromString>
Package ids are positions in the list. Query pool: types and names in order of first appearance, plus "zz".
-/
import Scalibr.Base.Wire
import Scalibr.Base.Sort
import Scalibr.Spec.Index
open Scalibr Scalibr.Wire Scalibr.Index

def unhex? (s : String) : Option String := if s = "-" then some "" else strOfHex s
def hexE (s : String) : String := if s.isEmpty then "-" else hexOfStr s
def sortNats (xs : List Nat) : List Nat := isort (fun a b => decide (a < b)) xs

def parsePkg (s : String) : Option (Option (String × String)) :=
  if s = "x" then some none else
  match s.splitOn ":" with
  | [t, n] => match unhex? t, unhex? n with
    | some t, some n => some (some (t, n))
    | _, _ => none
  | _ => none

def idsStr (ps : List Pkg) (sorted : Bool) : String :=
  let ids := ps.map (·.id)
  joinWith "." ((if sorted then sortNats ids else ids).map toString)

def dedup (xs : List String) : List String := xs.foldl (fun acc x => if acc.contains x then acc else acc ++ [x]) []

def observe (types names : List String) (all : List Pkg) (ofType : String → List Pkg) (spec : String → String → List Pkg) : String :=
  let a := ["A=" ++ idsStr all true]
  let t := types.map fun t => s!"T{hexE t}={idsStr (ofType t) true}"
  let s := types.flatMap fun t => names.map fun n => s!"S{hexE t}:{hexE n}={idsStr (spec n t) false}"
  ";".intercalate (a ++ t ++ s)

def handle (line : String) : String :=
  match line.splitOn " " with
  | ["index", ps] =>
    match (listOf ps ",").mapM parsePkg with
    | some specs =>
      let pkgs : List Pkg := (specs.zip (List.range specs.length)).map fun (p, i) => ⟨i, p⟩
      let types := dedup (specs.filterMap fun p => p.map (·.1)) ++ ["zz"]
      let names := dedup (specs.filterMap fun p => p.map (·.2)) ++ ["zz"]
      let px := Index.new pkgs
      s!"obs={observe types names (getAll px) (getAllOfType px) (getSpecific px)} " ++
      s!"spec={observe types names (specAll pkgs) (specOfType pkgs) (specSpecific pkgs)}"
    | none => "bad-op"
  | ["harvest", _, _] => "issues=-"
  | ["layout", _] => "issues=-"
  -- the specification: a purl type a built-in extractor can emit (`e`) must be accepted and round-trip;
  -- a declared constant no extractor emits (`c`) is reported only
  | ["accept", "e", _, _] => "acc=1 accs=1 idem=1 must=1"
  | ["accept", "c", _, _] => "acc=1 accs=1 idem=1 must=0"
  | _ => "bad-op"

def main : IO Unit := serve handle
