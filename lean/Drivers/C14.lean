/-
Line-protocol driver for C14.
  index <pkgs>      pkgs := '-' | pkg (',' pkg)*   pkg := 'x' (no purl) | <hextype> ':' <hexname>
     -> obs=<observation of the MODEL index: A=ids;T<type>=ids;…;S<type>:<name>=ids;…> spec=<the same queries answered by filtering the list>
  harvest <hex extractor> <hex fixture>  |  layout <hex os-release variant>
     -> issues=-      (the specification: a harvested package raises no issue; the harvest itself is testing, see c14gen)
  accept <e|c> <hextype> <hex origin>
     -> acc=1 accs=1 idem=1 must=<1 for e: a type some built-in ToPURL can emit must be accepted by purl.FromString>
Package ids are positions in the list. Query pool: types and names in order of first appearance, plus "zz".
-/
import Scalibr.Base.Wire
import Scalibr.Base.Sort
import Scalibr.Spec.Index
import Scalibr.Spec.ProtoPkg
import Scalibr.Proofs.ProtoResult
import Scalibr.Gen.Purl
open Scalibr Scalibr.Wire Scalibr.Index

def unhex? (s : String) : Option String := if s = "-" then some "" else strOfHex s
def hexE (s : String) : String := if s.isEmpty then "-" else hexOfStr s
def sortNats (xs : List Nat) : List Nat := isort (fun a b => decide (a < b)) xs

def parsePkg (s : String) : Option (Option (String × String)) :=
  if s = "x" then some none else
  match s.splitOn ":" with
  | [t, n] => match unhex? t, unhex? n with
    | some t, some n => some (some (t, n))
    | _, _ => none
  | _ => none

def idsStr (ps : List Pkg) (sorted : Bool) : String :=
  let ids := ps.map (·.id)
  joinWith "." ((if sorted then sortNats ids else ids).map toString)

def dedup (xs : List String) : List String := xs.foldl (fun acc x => if acc.contains x then acc else acc ++ [x]) []

def observe (types names : List String) (all : List Pkg) (ofType : String → List Pkg) (spec : String → String → List Pkg) : String :=
  let a := ["A=" ++ idsStr all true]
  let t := types.map fun t => s!"T{hexE t}={idsStr (ofType t) true}"
  let s := types.flatMap fun t => names.map fun n => s!"S{hexE t}:{hexE n}={idsStr (spec n t) false}"
  ";".intercalate (a ++ t ++ s)

/-! ### `proto` cases (grammar: harness/cmd/c14gen/protopurl.go) -/
def itemsOf? (s : String) : Option (List String) := if s = "_" then some [] else (s.splitOn ",").mapM unhex?

def itemsStr (xs : List String) : String := if xs.isEmpty then "_" else ",".intercalate (xs.map hexE)

def qualsOf? (s : String) : Option (List (String × String)) :=
  if s = "_" then some [] else (s.splitOn ";").mapM fun q =>
    match q.splitOn "=" with
    | [k, v] => match unhex? k, unhex? v with
      | some k, some v => some (k, v)
      | _, _ => none
    | _ => none

def qualsStr (qs : List (String × String)) : String :=
  if qs.isEmpty then "_" else ";".intercalate (qs.map fun (k, v) => hexE k ++ "=" ++ hexE v)

def purlOf? (s : String) : Option (Option ProtoPkg.Purl) :=
  if s = "_" then some none else
  match s.splitOn ":" with
  | [t, ns, n, v, qs, sub] =>
    match unhex? t, unhex? ns, unhex? n, unhex? v, qualsOf? qs, unhex? sub with
    | some t, some ns, some n, some v, some qs, some sub => some (some ⟨t, ns, n, v, qs, sub⟩)
    | _, _, _, _, _, _ => none
  | _ => none

def srcOf? (s : String) : Option (Option ProtoPkg.SourceCode) :=
  if s = "_" then some none else
  match s.splitOn ":" with
  | [r, c] => match unhex? r, unhex? c with
    | some r, some c => some (some ⟨r, c⟩)
    | _, _ => none
  | _ => none

def layerOf? (s : String) : Option (Option ProtoPkg.LayerDetails) :=
  if s = "_" then some none else
  match s.splitOn ":" with
  | [i, d, c, b] => match i.toInt?, unhex? d, unhex? c, boolOf? b with
    | some i, some d, some c, some b => some (some ⟨i, d, c, b⟩)
    | _, _, _, _ => none
  | _ => none

def annsOf? (s : String) : Option (List Int) := if s = "_" then some [] else (s.splitOn ",").mapM (·.toInt?)

def annStr : ProtoPkg.ProtoAnnotation → String
  | .unspecified => "U" | .transitional => "T" | .insideOSPackage => "O" | .insideCacheDir => "C"

/-- the metadata of a `proto` case is its Go type name; `setProtoMetadata` sets the oneof iff its switch has that type -/
def protoOps (eco ex : String) (u : Option ProtoPkg.Purl) : ProtoPkg.Ops String Unit :=
  { toPURL := fun _ => u, ecosystem := fun _ => eco, extractorName := fun _ => ex,
    purlString := fun _ => "S", setMeta := fun t => if Scalibr.Gen.Purl.protoMetaTypes.contains t then some () else none }

def handleProto (t : List String) : String :=
  match t with
  | [n, v, locs, src, anns, layer, pu, eco, ex, mt] =>
    match unhex? n, unhex? v, itemsOf? locs, srcOf? src, annsOf? anns, layerOf? layer, purlOf? pu, unhex? eco, unhex? ex,
          (if mt = "_" then some "" else unhex? mt) with
    | some n, some v, some locs, some src, some anns, some layer, some pu, some eco, some ex, some mty =>
      let pkg : ProtoPkg.Package String := ⟨n, v, src, locs, anns, layer, mty⟩
      let r := ProtoPkg.packageToProto (protoOps eco ex pu) pkg
      let srcS := match r.sourceCode with | none => "_" | some s => hexE s.repo ++ ":" ++ hexE s.commit
      let layS := match r.layerDetails with
        | none => "_"
        | some l => s!"{l.index}:{hexE l.diffID}:{hexE l.command}:{boolStr l.inBaseImage}"
      let puS := match r.purl with
        | none => "_"
        | some p => ":".intercalate [hexE p.typ, hexE p.ns, hexE p.name, hexE p.version, qualsStr p.qualifiers, hexE p.subpath]
      let annS := if r.annotations.isEmpty then "_" else ",".intercalate (r.annotations.map annStr)
      -- SPEC side: the package's generic content (`genericOf`), rendered; the harness renders what the spec reader (`read`)
      -- recovers from the REAL record the same way. `repr` = `Representable pkg` (C14_proto_lossless_partial's hypothesis)
      let g := ProtoPkg.genericOf (protoOps eco ex pu) pkg
      let gSrc := match g.sourceCode with | none => "_" | some s => hexE s.repo ++ ":" ++ hexE s.commit
      let gLay := match g.layerDetails with
        | none => "_"
        | some l => s!"{l.index}:{hexE l.diffID}:{hexE l.command}:{boolStr l.inBaseImage}"
      let gPu := match g.purl with
        | none => "_"
        | some p => ":".intercalate [hexE p.typ, hexE p.ns, hexE p.name, hexE p.version, qualsStr p.qualifiers, hexE p.subpath]
      let gAnn := if g.annotations.isEmpty then "_" else ",".intercalate (g.annotations.map toString)
      let sgen := "|".intercalate [hexE g.name, hexE g.version, itemsStr g.locations, gSrc, gAnn, gLay, gPu, g.purlString.getD "_",
        hexE g.ecosystem, hexE g.extractor]
      let repr := anns.all (fun a => a == 0 || a == 1 || a == 2 || a == 3) &&
        (match layer with | none => true | some l => decide (-2147483648 ≤ l.index) && decide (l.index < 2147483648))
      s!"sgen={sgen} repr={boolStr repr} " ++
      s!"name={hexE r.name} version={hexE r.version} locs={itemsStr r.locations} src={srcS} anns={annS} layer={layS} purl={puS} " ++
      s!"eco={hexE r.ecosystem} ex={hexE r.extractor} meta={boolStr r.metadata.isSome} pstr=1"
    | _, _, _, _, _, _, _, _, _, _ => "bad-op"
  | _ => "bad-op"


/-! ### `result` cases: the non-package part of the result proto (grammar: harness/cmd/c14gen/result.go) -/
section Result
open Scalibr.ProtoResult

abbrev RFinding := Finding String (String × String)

def hexList? (sep : String) (s : String) : Option (List String) := if s = "_" then some [] else (s.splitOn sep).mapM unhex?
def hexListStr (sep : String) (xs : List String) : String := if xs.isEmpty then "_" else sep.intercalate (xs.map hexE)

def cvssOf? (s : String) : Option (Option (CVSS String)) :=
  if s = "n" then some none else
  match s.splitOn "/" with
  | [b, t, e] => some (some ⟨b, t, e⟩)
  | _ => none
def cvssStr : Option (CVSS String) → String
  | none => "n"
  | some c => s!"{c.base}/{c.temporal}/{c.environmental}"

def sevOf? (s : String) : Option (Option (Severity String)) :=
  if s = "n" then some none else
  match s.splitOn "+" with
  | [e, v2, v3] => match e.toInt?, cvssOf? v2, cvssOf? v3 with
    | some e, some v2, some v3 => some (some ⟨e, v2, v3⟩)
    | _, _, _ => none
  | _ => none
def sevStr : Option (Severity String) → String
  | none => "n"
  | some v => s!"{v.sev}+{cvssStr v.v2}+{cvssStr v.v3}"

def pairOf? (s : String) : Option (Option (String × String)) :=
  if s = "n" then some none else
  match s.splitOn "+" with
  | [a, b] => match unhex? a, unhex? b with
    | some a, some b => some (some (a, b))
    | _, _ => none
  | _ => none
def pairStr : Option (String × String) → String
  | none => "n"
  | some (a, b) => hexE a ++ "+" ++ hexE b

def advOf? (s : String) : Option (Option (Advisory String)) :=
  if s = "n" then some none else
  match s.splitOn "~" with
  | [id, ty, t, d, r, sev] => match pairOf? id, ty.toInt?, unhex? t, unhex? d, unhex? r, sevOf? sev with
    | some id, some ty, some t, some d, some r, some sev => some (some ⟨id, ty, t, d, r, sev⟩)
    | _, _, _, _, _, _ => none
  | _ => none
def advStr : Option (Advisory String) → String
  | none => "n"
  | some a => "~".intercalate [pairStr a.id, toString a.typ, hexE a.title, hexE a.description, hexE a.recommendation, sevStr a.sev]

def targetOf? (s : String) : Option (Option (Target (String × String))) :=
  if s = "n" then some none else
  match s.splitOn "~" with
  | [pk, locs] => match pairOf? pk, hexList? "." locs with
    | some pk, some locs => some (some ⟨pk, locs⟩)
    | _, _ => none
  | _ => none
def targetStr : Option (Target (String × String)) → String
  | none => "n"
  | some t => pairStr t.pkg ++ "~" ++ hexListStr "." t.location

def findingOf? (s : String) : Option RFinding :=
  match s.splitOn ";" with
  | [adv, tg, extra, dets] => match advOf? adv, targetOf? tg, unhex? extra, hexList? "." dets with
    | some adv, some tg, some extra, some dets => some ⟨adv, tg, extra, dets⟩
    | _, _, _, _ => none
  | _ => none
def findingStr (f : RFinding) : String :=
  ";".intercalate [advStr f.adv, targetStr f.target, hexE f.extra, hexListStr "." f.detectors]

def statusOf? (s : String) : Option ScanStatus :=
  match s.splitOn ":" with
  | [e, r] => match e.toInt?, unhex? r with
    | some e, some r => some ⟨e, r⟩
    | _, _ => none
  | _ => none
def statusStr (s : ScanStatus) : String := s!"{s.status}:{hexE s.reason}"

def pluginOf? (s : String) : Option PluginStatus :=
  match s.splitOn ":" with
  | [n, v, e, r] => match unhex? n, v.toInt?, e.toInt?, unhex? r with
    | some n, some v, some e, some r => some ⟨n, v, ⟨e, r⟩⟩
    | _, _, _, _ => none
  | _ => none
def pluginStr (s : PluginStatus) : String := s!"{hexE s.name}:{s.version}:{statusStr s.status}"

def listOf? {α : Type} (f : String → Option α) (s : String) : Option (List α) := if s = "_" then some [] else (s.splitOn ",").mapM f
def listStr {α : Type} (f : α → String) (xs : List α) : String := if xs.isEmpty then "_" else ",".intercalate (xs.map f)

/-- the generic content, in the grammar of the case -/
def genStr (r : ScanResult String (String × String) String) : String :=
  "|".intercalate [hexE r.version, r.startTime, r.endTime, statusStr r.status, listStr pluginStr r.pluginStatus,
    listStr (fun p => pairStr (some p)) r.packages, listStr findingStr r.findings]

def pStatusName : PStatusEnum → String
  | .unspecified => "UNSPECIFIED" | .succeeded => "SUCCEEDED" | .partiallySucceeded => "PARTIALLY_SUCCEEDED" | .failed => "FAILED"
def pTypeName : PType → String
  | .unknown => "UNKNOWN" | .vulnerability => "VULNERABILITY" | .cisFinding => "CIS_FINDING"
def pSevName : PSeverityEnum → String
  | .unspecified => "UNSPECIFIED" | .minimal => "MINIMAL" | .low => "LOW" | .medium => "MEDIUM" | .high => "HIGH" | .critical => "CRITICAL"
def pStatusStr (s : PScanStatus) : String := s!"{pStatusName s.status}:{hexE s.reason}"
def pSevStr : Option (PSeverity String) → String
  | none => "n"
  | some v => s!"{pSevName v.sev}+{cvssStr v.v2}+{cvssStr v.v3}"
def pFindingStr (f : PFinding String (String × String)) : String :=
  ";".intercalate ["~".intercalate [pairStr (some f.adv.id), pTypeName f.adv.typ, hexE f.adv.title, hexE f.adv.description,
      hexE f.adv.recommendation, pSevStr f.adv.sev],
    targetStr f.target, hexE f.extra, hexListStr "." f.detectors]

/-- the RECORD of the model, enum constants by their proto names -/
def recStr (p : PScanResult String (String × String) String) : String :=
  "|".intercalate [hexE p.version, p.startTime, p.endTime, pStatusStr p.status,
    listStr (fun s => s!"{hexE s.name}:{s.version}:{pStatusStr s.status}") p.pluginStatus,
    listStr (fun q => pairStr (some q)) p.packages, listStr pFindingStr p.findings,
    boolStr (decide (p.inventoriesDeprecated = p.packages) && decide (p.findingsDeprecated = p.findings))]

def resName {α : Type} : Res α → String
  | .ok _ => "ok" | .advisoryMissing => "adv" | .advisoryIDMissing => "id" | .panic => "panic"

def statusOKb (s : ScanStatus) : Bool := decide (0 ≤ s.status) && decide (s.status ≤ 3)
def advOKb (a : Advisory String) : Bool :=
  decide (0 ≤ a.typ) && decide (a.typ ≤ 2) && (match a.sev with | none => true | some v => decide (0 ≤ v.sev) && decide (v.sev ≤ 5))

def handleResult (t : List String) : String :=
  match t with
  | [ver, st, en, status, plugins, pkgs, findings] =>
    match unhex? ver, statusOf? status, listOf? pluginOf? plugins, listOf? (fun s => (pairOf? s).join) pkgs, listOf? findingOf? findings with
    | some ver, some status, some plugins, some pkgs, some findings =>
      let r : ScanResult String (String × String) String := ⟨ver, st, en, status, plugins, pkgs, findings⟩
      let out := scanResultToProto (fun p => p) r
      let rec_ := match out with | .ok p => recStr p | _ => "-"
      -- SPEC side: the outcome (`specOutcome`: never a panic), the generic content a reader must get back (`generic`), and whether
      -- every value is one the record can represent (`StatusOK`, `PluginOK`, `AdvisoryOK`)
      let repr := statusOKb status &&
        plugins.all (fun s => statusOKb s.status && decide (-2147483648 ≤ s.version) && decide (s.version < 2147483648)) &&
        findings.all (fun f => match f.adv with | none => true | some a => advOKb a)
      s!"sres={resName (specOutcome findings)} sgen={genStr (generic (fun p => p) r)} repr={boolStr repr} res={resName out} rec={rec_}"
    | _, _, _, _, _ => "bad-op"
  | _ => "bad-op"

def ftStr : FileType → String
  | ⟨gz, bin⟩ => (if bin then "bin" else "text") ++ (if gz then "+gz" else "")

/-- `pfile <hex path>`: model `typeForPath` (ft=) and the specification by endings (sft=) -/
def handlePfile (h : String) : String :=
  match unhex? h with
  | some p =>
    let m := match typeForPath p.toList with
      | .ok ft => ftStr ft
      | .error .noExtension => "err:noext" | .error .gzNoExtension => "err:gznoext" | .error .notProto => "err:notproto"
    let sp := match specFileType p.toList with | some ft => ftStr ft | none => "err"
    s!"sft={sp} ft={m}"
  | none => "bad-op"

end Result

def handle (line : String) : String :=
  match line.splitOn " " with
  | ["index", ps] =>
    match (listOf ps ",").mapM parsePkg with
    | some specs =>
      let pkgs : List Pkg := (specs.zip (List.range specs.length)).map fun (p, i) => ⟨i, p⟩
      let types := dedup (specs.filterMap fun p => p.map (·.1)) ++ ["zz"]
      let names := dedup (specs.filterMap fun p => p.map (·.2)) ++ ["zz"]
      let px := Index.new pkgs
      s!"obs={observe types names (getAll px) (getAllOfType px) (getSpecific px)} " ++
      s!"spec={observe types names (specAll pkgs) (specOfType pkgs) (specSpecific pkgs)}"
    | none => "bad-op"
  | "proto" :: rest => handleProto rest
  | "result" :: rest => handleResult rest
  | ["pfile", h] => handlePfile h
  | ["wfmt", h] => match unhex? h with
    | some f => s!"sft={if f = "binproto" then "bin" else "text"} ft={ftStr (Scalibr.ProtoResult.formatType f)}"
    | none => "bad-op"
  | ["fname", _, _] => "issues=-"
  | ["harvestv", _, _, _] => "issues=-"
  | ["boundaryv", _, _, _, _] => "issues=-"
  | ["jsonmut", _, _, _] => "issues=-"
  -- the specification: no public selection function hands out an extractor the harvest (list.All) has not seen
  | ["reach", k] => if ["names", "caps", "unknown"].contains k then "escaped=- bad=-" else "bad-op"
  -- the specification: a write that cannot be completed is reported, and no regular file appears where none was written completely
  | ["pwerr", v] => if ["nodir", "isdir", "utf8bin", "utf8text", "utf8gz", "devfull", "devfullgz", "devfulltext"].contains v then "werr=1 left=0" else "bad-op"
  -- the specification: printing, parsing and printing again is the identity, and the index finds the package
  | ["purlrt", _, _, _] => "ok=1 same=1 idx=1"
  | ["harvest", _, _] => "issues=-"
  | ["layout", _] => "issues=-"
  | ["boundary", _, _, _] => "issues=-"
  -- the specification: a purl type a built-in extractor can emit (`e`) must be accepted and round-trip;
  -- a declared constant no extractor emits (`c`) is reported only
  | ["accept", "e", _, _] => "acc=1 accs=1 idem=1 must=1"
  | ["accept", "c", _, _] => "acc=1 accs=1 idem=1 must=0"
  -- negative probe: a type outside the declared table (compared after lower-casing, as the parser does) must be rejected
  | ["accept", "n", h, _] =>
    match unhex? h with
    | some t =>
      if !Scalibr.Gen.Purl.validTableFound then "acc=0 accs=0 idem=0 must=0"
      else if Scalibr.Gen.Purl.validTypes.contains t.toLower then "acc=1 accs=1 idem=1 must=1" else "acc=0 accs=0 idem=0 must=-1"
    | none => "bad-op"
  | _ => "bad-op"

def main : IO Unit := serve handle
