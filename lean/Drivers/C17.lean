/-
Line-protocol driver for C17.
request : sym <dmax> [<hist>] <entry>,<entry>,…      entry = <hexname>:<K>:<hexlink|->
          hist: how the image's config history is written (H valid, E valid with empty-layer entries, N none,
                S short, G one entry too many, X empty entries + a missing one), optionally followed by t (the
                image is loaded through FromTarball). The property quantifies over images and depths: the
                answer does NOT depend on the history or the entry point, so the driver only validates the token.
          K: F file, D directory (with a child file "c"), M missing, X file deleted by layer 1,
             Z directory (with a child) deleted by layer 1, W file deleted by layer 1 through a whiteout entry of type symlink, L symlink, Y symlink deleted by layer 1, H tar hard link (TypeLink; the link name is an archive entry name)
          the image has two layers: layer 0 holds the entries, layer 1 the whiteouts and a file "keep"
reply   : d<k>=<view0>/<view1> (k = 0..dmax)  s<k>=<view0>/<view1>  cls=<…>
          per name (comma separated)   d: <Stat>.<Open>.<ReadDir>     s: the specification's verdict
          Stat f<hexbase> d<hexbase> n c p ; Open o(f<hex>|d<hex>|n) n c p (o… = a handle was returned, then
          Stat on the handle) ; ReadDir l<hex_hex…> n c p
          verdict f<hexbase> d<hexbase> n (must be not-exist) e (cycle or depth)
          or `loaderr` when a link name is empty (the loader fails)
The model graph stores link targets as `handleSymlink` does; the specification graph uses the target
the link denotes (`denotes`). By `C17_stored_target` they coincide; `cls` carries a `u` if they ever differ.
-/
import Scalibr.Base.Wire
import Scalibr.Base.Sort
import Scalibr.Spec.Symlink
open Scalibr Scalibr.Symlink Scalibr.Wire

abbrev Key := List String

structure Ent where
  name : String
  kind : Char
  link : String

def parseEnt (s : String) : Option Ent :=
  match s.splitOn ":" with
  | [n, k, l] =>
    match strOfHex n, k.toList, (if l = "-" then some "" else strOfHex l) with
    | some n, [k], some l => if "FDMXLYHZW".toList.contains k then some ⟨n, k, l⟩ else none
    | _, _, _ => none
  | _ => none

/-- nodes an entry contributes to a view; `none` = loader error -/
def entNodes (spec : Bool) (view : Nat) (e : Ent) : Option (List (Key × Node Key)) :=
  let key := e.name.splitOn "/"
  let dir := key.dropLast
  let linkNode : Option (List (Key × Node Key)) :=
    let ls := e.link.splitOn "/"
    if spec then
      (if ls = [""] then none else
       match denotes dir ls with
       | some t => some [(key, .link t)]
       | none => some [(key, .term .wh)])        -- not followed: the path is absent (fix b2f92f5d leaves a whiteout node)
    else
      match handleSymlink dir ls with
      | .loadError => none
      | .skipped => some [(key, .term .wh)]     -- fillChainLayersWithFilesFromTar: a rejected entry leaves a whiteout node
      | .node t => some [(key, .link t)]
  -- a hard link: the code makes it a link node whose target is read from the image root; the specification
  -- says the same (a hard link names another archive entry)
  let hardNode : Option (List (Key × Node Key)) :=
    let ls := hardLinkSegs (e.link.splitOn "/")
    if spec then
      (match resolveLex [] ls with
       | some t => some [(key, .link t)]
       | none => some [(key, .term .wh)])
    else
      match handleHardLink dir (e.link.splitOn "/") with
      | .loadError => none
      | .skipped => some [(key, .term .wh)]
      | .node t => some [(key, .link t)]
  match e.kind with
  | 'H' => hardNode
  | 'F' => some [(key, .term .file)]
  | 'D' => some [(key, .term .dir), (key ++ ["c"], .term .file)]
  | 'M' => some []
  | 'X' => some [(key, if view = 0 then .term .file else .term .wh)]
  -- W: deleted by a whiteout entry of TYPE symlink: a whiteout is a whiteout whatever the entry type (its link name is ignored)
  | 'W' => some [(key, if view = 0 then .term .file else .term .wh)]
  | 'Z' => if view = 0 then some [(key, .term .dir), (key ++ ["c"], .term .file)] else some [(key, .term .wh)]
  | 'L' => linkNode
  | 'Y' => match linkNode with
           | none => none
           | some ns => if view = 0 then some ns else some [(key, .term .wh)]
  | _ => none

def prefixes : Key → List Key
  | [] => [[]]
  | k => (List.range k.length).map (fun i => k.take i)

def buildView (spec : Bool) (view : Nat) (es : List Ent) : Option (List (Key × Node Key)) := do
  let parts ← es.mapM (entNodes spec view)
  let own := parts.flatten ++ (if view = 1 then [(["keep"], .term .file)] else [])
  let parents := own.flatMap (fun kn => (prefixes kn.1).map (fun k => (k, (Node.term .dir : Node Key))))
  some (own ++ ([], .term .dir) :: parents)

def graphOf (tbl : List (Key × Node Key)) : Graph Key := fun k => (tbl.find? (fun kn => kn.1 = k)).map (·.2)

def dedup (xs : List String) : List String := xs.foldl (fun acc x => if acc.contains x then acc else acc ++ [x]) []

def kidsOf (tbl : List (Key × Node Key)) (g : Graph Key) (n : Key) : List String :=
  let names := tbl.filterMap fun kn =>
    if kn.1.length = n.length + 1 && kn.1.take n.length = n then
      (match g kn.1 with
       | none => none                      -- pruned from the final view
       | some (.term .wh) => none
       | _ => kn.1.getLast?)
    else none
  isort (fun a b => decide (a < b)) (dedup names)

def baseHex (k : Key) : String := hexOfStr (k.getLast?.getD "")

def statTok : StatRes Key → String
  | .file n => "f" ++ baseHex n
  | .dir n => "d" ++ baseHex n
  | .notExist => "n" | .cycle => "c" | .depth => "p"

def openTok (g : Graph Key) : Res Key → String
  | .ok n => "o" ++ (match g n with
      | some (.term .file) => "f" ++ baseHex n
      | some (.term .dir) => "d" ++ baseHex n
      | _ => "n")
  | .notExist => "n" | .cycle => "c" | .depth => "p"

def dirTok : DirRes → String
  | .ok names => "l" ++ "_".intercalate (names.map hexOfStr)
  | .notExist => "n" | .cycle => "c" | .depth => "p"

def verdictTok (g : Graph Key) : Verdict Key → String
  | .mustOk n => (match g n with | some (.term .dir) => "d" | _ => "f") ++ baseHex n
  | .mustNotExist => "n" | .cycleOrDepth => "e"

/-- the observed names: the entries and, last, the root spelled "." -/
def obsKeys (es : List Ent) : List Key := es.map (fun e => e.name.splitOn "/") ++ [[]]

/-- `Layer().FS().Stat(name)` on the chain layer a view is observed on: the layer's OWN entries, symlinks not
followed. View 0 is observed on layer 0's chain layer (history mode E: on the empty layer after it, whose
own file system is empty); view 1 on layer 1's (or a trailing empty layer): there every named entry is absent
or a whiteout. -/
def layerTok (ownLayer0 : Bool) (m0 : List (Key × Node Key)) (e : Option Ent) : String :=
  match e with
  | none => "n"                                    -- the root has no node in a layer's own tree
  | some e =>
    if !ownLayer0 then "n" else
    match e.kind with
    | 'F' => "f" | 'X' => "f" | 'W' => "f" | 'D' => "d" | 'Z' => "d" | 'M' => "n"
    | _ => (match graphOf m0 (e.name.splitOn "/") with | some (.link _) => "l" | _ => "n")

def viewToks (g : Graph Key) (tbl : List (Key × Node Key)) (d : Nat) (es : List Ent) (ownLayer0 : Bool)
    (m0 : List (Key × Node Key)) : String :=
  let ents : List (Option Ent) := es.map some ++ [none]
  ",".intercalate (((obsKeys es).zip ents).map fun (k, e) =>
    statTok (stat g d k) ++ "." ++ openTok g (openNode g d k) ++ "." ++ dirTok (readDir g (kidsOf tbl g) d k)
      ++ "." ++ layerTok ownLayer0 m0 e)

def specToks (g : Graph Key) (d : Nat) (es : List Ent) : String :=
  ",".intercalate ((obsKeys es).map fun k => verdictTok g (specWalk g d k))

/-- the graph of the FINAL view: pruned when the requirer wants only the link entries (flag q) -/
def finalGraph (q : Bool) (tbl : List (Key × Node Key)) (es : List Ent) (d : Nat) : Graph Key :=
  let g := graphOf tbl
  if !q then g else
  let req : Key → Bool := fun k => es.any fun e => (e.kind = 'L' || e.kind = 'Y' || e.kind = 'H') && e.name.splitOn "/" = k
  pruned g (tbl.map (·.1)) req d

def classify (es : List Ent) (m0 s0 : List (Key × Node Key)) : String :=
  let nl := (es.filter fun e => e.kind = 'L' || e.kind = 'Y' || e.kind = 'H').length
  let differs := es.any fun e => graphOf m0 (e.name.splitOn "/") != graphOf s0 (e.name.splitOn "/")
  s!"n{es.length}l{nl}{if differs then "u" else ""}"

def handle (line : String) : String :=
  let okHist (h : String) : Bool :=
    match h.toList with
    | m :: fl => "HENSGXC".toList.contains m && fl.all (fun c => c = 't' || c = 'r' || c = 'q')
    | [] => false
  let toks := match line.splitOn " " with
    | ["sym", dmax, ents] => some (dmax, "H", ents)
    | ["sym", dmax, hist, ents] => if okHist hist then some (dmax, hist, ents) else none
    | _ => none
  match toks with
  | some (dmax, hist, ents) =>
    match dmax.toNat?, (listOf ents ",").mapM parseEnt with
    | some dmax, some es =>
      if es.any (fun e => !canonical (e.name.splitOn "/")) then "bad-op" else
      match buildView false 0 es, buildView false 1 es, buildView true 0 es, buildView true 1 es with
      | some m0, some m1, some s0, some s1 =>
        let modeE := hist.toList.head? = some 'E'
        let q := hist.toList.contains 'q'
        let ds := (List.range (dmax+1)).map fun d =>
          s!"d{d}={viewToks (graphOf m0) m0 d es (!modeE) m0}/{viewToks (finalGraph q m1 es d) m1 d es false m0}"
        let ss := (List.range (dmax+1)).map fun d =>
          s!"s{d}={specToks (graphOf s0) d es}/{specToks (finalGraph q s1 es d) d es}"
        let ix := ".".intercalate ((List.range (if modeE then 5 else 2)).map toString)
        " ".intercalate (["ix=" ++ ix] ++ ds ++ ss ++ ["cls=" ++ classify es m0 s0])
      | _, _, _, _ => "loaderr"
    | _, _ => "bad-op"
  | _ => "bad-op"

/-- the `probe` case: what the entry points must do with unusable inputs. cfg: the three invalid configurations are
refused as invalid (i), the valid one loads (o) — `validConfig`; a missing tarball, an unreadable layer list and
unreadable layer contents are errors (e); the empty image loads and has no chain layer. -/
def handleProbe : String :=
  let c (b : Int) (r : Bool) (d : Int) : String := if validConfig b r d then "o" else "i"
  s!"cfg={c 1048576 true (-1)}{c 0 true 0}{c 1048576 false 0}{c 1048576 true 0} tb=e ly=e un=e empty=o0"

def main : IO Unit := serve fun l => if l = "probe" then handleProbe else handle l
