/-
Line-protocol driver for C17.
request : sym <dmax> [<hist>] <entry>,<entry>,…      entry = <hexname>:<K>:<hexlink|->
          hist: how the image's config history is written (H valid, E valid with empty-layer entries, N none,
                S short, G one entry too many, X empty entries + a missing one), optionally followed by t (the
                image is loaded through FromTarball). The property quantifies over images and depths: the
                answer does NOT depend on the history or the entry point, so the driver only validates the token.
          K: F file, D directory (with a child file "c"), M missing, X file deleted by layer 1,
             L symlink, Y symlink deleted by layer 1, H tar hard link (TypeLink; the link name is an archive entry name)
          the image has two layers: layer 0 holds the entries, layer 1 the whiteouts and a file "keep"
reply   : d<k>=<view0>/<view1> (k = 0..dmax)  s<k>=<view0>/<view1>  cls=<…>
          per name (comma separated)   d: <Stat>.<Open>.<ReadDir>     s: the specification's verdict
          Stat f<hexbase> d<hexbase> n c p ; Open o(f<hex>|d<hex>|n) n c p (o… = a handle was returned, then
          Stat on the handle) ; ReadDir l<hex_hex…> n c p
          verdict f<hexbase> d<hexbase> n (must be not-exist) e (cycle or depth)
          or `loaderr` when a link name is empty (the loader fails)
The model graph stores link targets as `handleSymlink` does; the specification graph uses the target
the link denotes (`denotes`). By `C17_stored_target` they coincide; `cls` carries a `u` if they ever differ.
-/
import Scalibr.Base.Wire
import Scalibr.Base.Sort
import Scalibr.Spec.Symlink
open Scalibr Scalibr.Symlink Scalibr.Wire

abbrev Key := List String

structure Ent where
  name : String
  kind : Char
  link : String

def parseEnt (s : String) : Option Ent :=
  match s.splitOn ":" with
  | [n, k, l] =>
    match strOfHex n, k.toList, (if l = "-" then some "" else strOfHex l) with
    | some n, [k], some l => if "FDMXLYH".toList.contains k then some ⟨n, k, l⟩ else none
    | _, _, _ => none
  | _ => none

/-- nodes an entry contributes to a view; `none` = loader error -/
def entNodes (spec : Bool) (view : Nat) (e : Ent) : Option (List (Key × Node Key)) :=
  let key := e.name.splitOn "/"
  let dir := key.dropLast
  let linkNode : Option (List (Key × Node Key)) :=
    let ls := e.link.splitOn "/"
    if spec then
      (if ls = [""] then none else
       match denotes dir ls with
       | some t => some [(key, .link t)]
       | none => some [])
    else
      match handleSymlink dir ls with
      | .loadError => none
      | .skipped => some []
      | .node t => some [(key, .link t)]
  -- a hard link: the code makes it a link node whose target is read from the image root; the specification
  -- says the same (a hard link names another archive entry)
  let hardNode : Option (List (Key × Node Key)) :=
    let ls := hardLinkSegs (e.link.splitOn "/")
    if spec then
      (match resolveLex [] ls with
       | some t => some [(key, .link t)]
       | none => some [])
    else
      match handleHardLink dir (e.link.splitOn "/") with
      | .loadError => none
      | .skipped => some []
      | .node t => some [(key, .link t)]
  match e.kind with
  | 'H' => hardNode
  | 'F' => some [(key, .term .file)]
  | 'D' => some [(key, .term .dir), (key ++ ["c"], .term .file)]
  | 'M' => some []
  | 'X' => some [(key, if view = 0 then .term .file else .term .wh)]
  | 'L' => linkNode
  | 'Y' => match linkNode with
           | none => none
           | some ns => if view = 0 then some ns else some [(key, .term .wh)]
  | _ => none

def prefixes : Key → List Key
  | [] => [[]]
  | k => (List.range k.length).map (fun i => k.take i)

def buildView (spec : Bool) (view : Nat) (es : List Ent) : Option (List (Key × Node Key)) := do
  let parts ← es.mapM (entNodes spec view)
  let own := parts.flatten ++ (if view = 1 then [(["keep"], .term .file)] else [])
  let parents := own.flatMap (fun kn => (prefixes kn.1).map (fun k => (k, (Node.term .dir : Node Key))))
  some (own ++ ([], .term .dir) :: parents)

def graphOf (tbl : List (Key × Node Key)) : Graph Key := fun k => (tbl.find? (fun kn => kn.1 = k)).map (·.2)

def dedup (xs : List String) : List String := xs.foldl (fun acc x => if acc.contains x then acc else acc ++ [x]) []

def kidsOf (tbl : List (Key × Node Key)) (g : Graph Key) (n : Key) : List String :=
  let names := tbl.filterMap fun kn =>
    if kn.1.length = n.length + 1 && kn.1.take n.length = n then
      (match g kn.1 with
       | some (.term .wh) => none
       | _ => kn.1.getLast?)
    else none
  isort (fun a b => decide (a < b)) (dedup names)

def baseHex (k : Key) : String := hexOfStr (k.getLast?.getD "")

def statTok : StatRes Key → String
  | .file n => "f" ++ baseHex n
  | .dir n => "d" ++ baseHex n
  | .notExist => "n" | .cycle => "c" | .depth => "p"

def openTok (g : Graph Key) : Res Key → String
  | .ok n => "o" ++ (match g n with
      | some (.term .file) => "f" ++ baseHex n
      | some (.term .dir) => "d" ++ baseHex n
      | _ => "n")
  | .notExist => "n" | .cycle => "c" | .depth => "p"

def dirTok : DirRes → String
  | .ok names => "l" ++ "_".intercalate (names.map hexOfStr)
  | .notExist => "n" | .cycle => "c" | .depth => "p"

def verdictTok (g : Graph Key) : Verdict Key → String
  | .mustOk n => (match g n with | some (.term .dir) => "d" | _ => "f") ++ baseHex n
  | .mustNotExist => "n" | .cycleOrDepth => "e"

def viewToks (tbl : List (Key × Node Key)) (d : Nat) (es : List Ent) : String :=
  let g := graphOf tbl
  ",".intercalate (es.map fun e =>
    let k := e.name.splitOn "/"
    statTok (stat g d k) ++ "." ++ openTok g (openNode g d k) ++ "." ++ dirTok (readDir g (kidsOf tbl g) d k))

def specToks (tbl : List (Key × Node Key)) (d : Nat) (es : List Ent) : String :=
  let g := graphOf tbl
  ",".intercalate (es.map fun e => verdictTok g (specWalk g d (e.name.splitOn "/")))

def classify (es : List Ent) (m0 s0 : List (Key × Node Key)) : String :=
  let nl := (es.filter fun e => e.kind = 'L' || e.kind = 'Y' || e.kind = 'H').length
  let differs := es.any fun e => graphOf m0 (e.name.splitOn "/") != graphOf s0 (e.name.splitOn "/")
  s!"n{es.length}l{nl}{if differs then "u" else ""}"

def handle (line : String) : String :=
  let toks := match line.splitOn " " with
    | ["sym", dmax, ents] => some (dmax, ents)
    | ["sym", dmax, hist, ents] =>
      (match hist.toList with
       | [m] => if "HENSGX".toList.contains m then some (dmax, ents) else none
       | [m, 't'] => if "HENSGX".toList.contains m then some (dmax, ents) else none
       | _ => none)
    | _ => none
  match toks with
  | some (dmax, ents) =>
    match dmax.toNat?, (listOf ents ",").mapM parseEnt with
    | some dmax, some es =>
      if es.any (fun e => !canonical (e.name.splitOn "/")) then "bad-op" else
      match buildView false 0 es, buildView false 1 es, buildView true 0 es, buildView true 1 es with
      | some m0, some m1, some s0, some s1 =>
        let ds := (List.range (dmax+1)).map fun d => s!"d{d}={viewToks m0 d es}/{viewToks m1 d es}"
        let ss := (List.range (dmax+1)).map fun d => s!"s{d}={specToks s0 d es}/{specToks s1 d es}"
        " ".intercalate (ds ++ ss ++ ["cls=" ++ classify es m0 s0])
      | _, _, _, _ => "loaderr"
    | _, _ => "bad-op"
  | _ => "bad-op"

def main : IO Unit := serve handle
