/-
Line-protocol driver for the unpack half of C06.
request : up <entry;entry;...>          entry = <t>:<hexname>:<cid>:<hexlink>, t in r l h d o   (harness/cmd/c06gen/main.go)
          upc <retain 0|1>,<errReturn 0|1>,<MaxPass>,<MaxFileBytes> <A|N|P<hex,hex,…>> <entry;…>
              the same with an UnpackerConfig (MaxPass ≤ 0: 3; MaxFileBytes ≤ 0: 1 TB, as NewUnpacker does) and a requirer
              (all / none / these path strings); `up` = `upc 1,0,3,1073741824 A`.  The process's working directory holds
              a, c, b/a, b/c, target, secret with the contents 90 … 95 (model: below @cwd/w/w/w/w).
          upx <k> <cfg> <req> <entry;…>     the tarball is cut inside its k-th entry (0-based): the unpacker returns an error
reply   : err=<0|1> snap=<items> contained=<0|1> out=<0|1> links=<0|1> h=<0|1>
  snap      : every object of the sandbox except the 30 chain directories, as the harness prints it
  contained : the specification `Contained` evaluated on the model's final state (out = nothing outside changed,
              links = every link inside resolves inside);  h : hypothesis `noDotDotTargets`
-/
import Scalibr.Base.Wire
import Scalibr.Spec.Unpack
open Scalibr Scalibr.Wire Scalibr.Unpack

def depth : Nat := 30
def chain : Path := List.replicate depth "n"
def sbP : Path := chain ++ ["sb"]
def D : Path := sbP ++ ["target"]

def cwdP : Path := ["@cwd", "w", "w", "w", "w"]

def fs0 : FS :=
  let dirs : List Path := (List.range (depth + 1)).map (fun k => List.replicate k "n") ++ [sbP, D, sbP ++ ["target-evil"]]
    ++ (List.range 5).map (fun k => cwdP.take (k + 1)) ++ [cwdP ++ ["b"]]
  let s : FS := ⟨fun _ => none, []⟩
  let s := dirs.foldl (fun s p => s.put p .dir) s
  let s := s.put (sbP ++ ["secret"]) (.file 0)
  [(["a"], 90), (["c"], 91), (["b", "a"], 92), (["b", "c"], 93), (["target"], 94), (["secret"], 95)].foldl
    (fun s (x : Path × Nat) => s.put (cwdP ++ x.1) (.file x.2)) s

def hexS (s : String) : String := if s = "" then "-" else hexOfStr s
def unhexS (s : String) : Option String := if s = "-" || s = "" then some "" else strOfHex s

def parseEntry (s : String) : Option TarEntry :=
  match s.splitOn ":" with
  | [t, name, cid, link] =>
    match t.toList, unhexS name, cid.toNat?, unhexS link with
    | [c], some name, some cid, some link0 =>
      -- @D@ = the actual unpack directory: the sandbox root (one symbolic component @R@), the 30 chain levels, sb/target
      let dpath := "@R@/" ++ String.join (List.replicate depth "n/") ++ "sb/target"
      let link := (link0.replace "@D@" ("/" ++ dpath)).replace "@d@" dpath
      let typ := if c = 'h' then 'l' else c          -- hard links are unpacked as symbolic links
      -- the harness writes the body "c<cid>"
      some ⟨typ, GoPath.isAbs name, GoPath.comps name, cid, GoPath.isAbs link, GoPath.comps link, link, if c = 'r' then 1 + (toString cid).length else 0⟩
    | _, _, _, _ => none
  | _ => none

def relStr (p : Path) : String :=
  if chain.length ≤ p.length && p.take chain.length == chain then "@/" ++ "/".intercalate (p.drop chain.length)
  else "/".intercalate p

def targetStr (t : Target) : String := if t.abs then "/" ++ relStr (D ++ t.comps) else t.raw

def snapshot (s : FS) : String :=
  let items := s.keys.eraseDups.filterMap fun p =>
    if p.length ≤ depth && p == List.replicate p.length "n" then none else
    if p.head? == some "@cwd" then none else
    match s.get p with
    | some .dir => some (hexS (relStr p) ++ "=d")
    | some (.file c) => some (hexS (relStr p) ++ s!"=f{c}")
    | some (.link t) => some (hexS (relStr p) ++ "=l" ++ hexS (targetStr t))
    | none => none
  joinWith "," (sortNames items)

def dirText : String := "/@R@/" ++ String.join (List.replicate depth "n/") ++ "sb/target"

def parseCfg (c r : String) : Option Cfg :=
  match c.splitOn ",", (if r = "A" then some Req.all else if r = "N" then some Req.none
                        else if r.startsWith "P" then ((listOf (r.drop 1).toString ",").mapM unhexS).map (fun ps => Req.paths (ps.map fun q => q.replace "@D@" dirText)) else none) with
  | [a, b, mp, mb], some req =>
    match a.toNat?, b.toNat?, mp.toInt?, mb.toInt? with
    | some a, some b, some mp, some mb =>
      some ⟨a == 1, b == 1, if mp > 0 then mp.toNat else 3, if mb > 0 then mb.toNat else 1024 * 1024 * 1024 * 1024, req, dirText, cwdP⟩
    | _, _, _, _ => none
  | _, _ => none

def run (cfg : Cfg) (es : String) (cut : Option Nat := none) : String :=
  match (listOf es ";").mapM parseEntry with
  | some es =>
    let (s, ok) := match cut with | some k => unpackAllCut cfg D fs0 es k | none => unpackAllC cfg D fs0 es
    s!"err={boolStr (!ok)} snap={snapshot s} contained={boolStr (containedB D fs0 s)} out={boolStr (outsideUnchangedB D fs0 s)} links={boolStr (linksInsideB D s)} h={boolStr (noDotDotTargets es)}"
  | none => "bad-op"

def handle (line : String) : String :=
  match line.splitOn " " with
  | ["up", es] => run { Cfg.dflt with dirStr := dirText, cwd := cwdP } es
  | ["upc", c, r, es] =>
    match parseCfg c r with
    | some cfg => run cfg es
    | none => "bad-op"
  | ["upx", k, c, r, es] =>
    match parseCfg c r, k.toNat? with
    | some cfg, some k => run cfg es (some k)
    | _, _ => "bad-op"
  | _ => "bad-op"

def main : IO Unit := serve handle
