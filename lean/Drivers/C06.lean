/-
Line-protocol driver for the unpack half of C06.
request : up <entry;entry;...>          entry = <t>:<hexname>:<cid>:<hexlink>, t in r l h d o   (harness/cmd/c06gen/main.go)
reply   : err=<0|1> snap=<items> contained=<0|1> out=<0|1> links=<0|1> h=<0|1>
  snap      : every object of the sandbox except the 30 chain directories, as the harness prints it
  contained : the specification `Contained` evaluated on the model's final state (out = nothing outside changed,
              links = every link inside resolves inside);  h : hypothesis `noDotDotTargets`
-/
import Scalibr.Base.Wire
import Scalibr.Spec.Unpack
open Scalibr Scalibr.Wire Scalibr.Unpack

def depth : Nat := 30
def chain : Path := List.replicate depth "n"
def sbP : Path := chain ++ ["sb"]
def D : Path := sbP ++ ["target"]

def fs0 : FS :=
  let dirs : List Path := (List.range (depth + 1)).map (fun k => List.replicate k "n") ++ [sbP, D, sbP ++ ["target-evil"]]
  let s : FS := ⟨fun _ => none, []⟩
  let s := dirs.foldl (fun s p => s.put p .dir) s
  s.put (sbP ++ ["secret"]) (.file 0)

def hexS (s : String) : String := if s = "" then "-" else hexOfStr s
def unhexS (s : String) : Option String := if s = "-" || s = "" then some "" else strOfHex s

def parseEntry (s : String) : Option TarEntry :=
  match s.splitOn ":" with
  | [t, name, cid, link] =>
    match t.toList, unhexS name, cid.toNat?, unhexS link with
    | [c], some name, some cid, some link0 =>
      -- @D@ = the actual unpack directory: the sandbox root (one symbolic component @R@), the 30 chain levels, sb/target
      let dpath := "@R@/" ++ String.join (List.replicate depth "n/") ++ "sb/target"
      let link := (link0.replace "@D@" ("/" ++ dpath)).replace "@d@" dpath
      let typ := if c = 'h' then 'l' else c          -- hard links are unpacked as symbolic links
      some ⟨typ, GoPath.isAbs name, GoPath.comps name, cid, GoPath.isAbs link, GoPath.comps link, link⟩
    | _, _, _, _ => none
  | _ => none

def relStr (p : Path) : String :=
  if chain.length ≤ p.length && p.take chain.length == chain then "@/" ++ "/".intercalate (p.drop chain.length)
  else "/".intercalate p

def targetStr (t : Target) : String := if t.abs then "/" ++ relStr (D ++ t.comps) else t.raw

def snapshot (s : FS) : String :=
  let items := s.keys.eraseDups.filterMap fun p =>
    if p.length ≤ depth && p == List.replicate p.length "n" then none else
    match s.get p with
    | some .dir => some (hexS (relStr p) ++ "=d")
    | some (.file c) => some (hexS (relStr p) ++ s!"=f{c}")
    | some (.link t) => some (hexS (relStr p) ++ "=l" ++ hexS (targetStr t))
    | none => none
  joinWith "," (sortNames items)

def handle (line : String) : String :=
  match line.splitOn " " with
  | ["up", es] =>
    match (listOf es ";").mapM parseEntry with
    | some es =>
      let (s, ok) := unpackAll D fs0 es
      s!"err={boolStr (!ok)} snap={snapshot s} contained={boolStr (containedB D fs0 s)} out={boolStr (outsideUnchangedB D fs0 s)} links={boolStr (linksInsideB D s)} h={boolStr (noDotDotTargets es)}"
    | none => "bad-op"
  | _ => "bad-op"

def main : IO Unit := serve handle
