/-
C16(b) — `datasource.RequestCache` (clients/datasource/cache.go) as a transition system at lock
granularity.  `Get` is cut at its two critical sections:

    lookup  (first  `rq.mu.Lock() … rq.mu.Unlock()`): cache hit → return; pending call → wait on it;
            otherwise register a new call and go and run `fn()` outside the lock
    publish (second `rq.mu.Lock()`, after `fn()` returned `r`): `c.val, c.err = r` (written just before the
            lock by the only goroutine that owns `c`; readable by the waiters after `wg.Done`), `wg.Done()`,
            `cache[key] = val` on success, `delete(calls, key)` if the entry is still this call
    wake    a waiter's `c.wg.Wait()` returns and it reads `c.val, c.err`
    setMap  `SetMap(m)`: `rq.cache = maps.Clone(m)` under the lock (`calls` is left alone)
    getMap  `GetMap()`: a clone of `rq.cache` under the lock

Maps are functions (`none` = absent).  Fields after `maps` are ghosts: they do not influence the other
fields and exist to state the theorems.
-/
namespace Scalibr.Cache

abbrev K := Nat
abbrev V := Nat
abbrev Cid := Nat

inductive R | ok (v : V) | err
deriving DecidableEq, Repr

inductive PC
  | idle
  | start (k : K)
  | waiting (c : Cid) (k : K)
  | fetching (c : Cid) (k : K)
  | done (k : K) (r : R)
deriving DecidableEq, Repr

structure St where
  cache : K → Option V
  calls : K → Option Cid          -- rq.calls
  results : Cid → Option R        -- c.val / c.err, readable after wg.Done
  pcs : Nat → PC                  -- where each caller of Get is
  next : Cid                      -- fresh call identity (`new(requestCacheCall)`)
  nfetch : K → Nat                -- how many times fn ran for k
  maps : List (K → Option V)      -- results of GetMap, newest first
  -- ghosts
  succeeded : K → Bool            -- a fetch for k has succeeded since the last SetMap
  lateFetch : Bool                -- a fetch was STARTED for a key that had succeeded since the last SetMap
  ckey : Cid → Option K           -- the key a call was created for
  pub : K → R → Bool              -- some fetch for k has published r
  setv : K → V → Bool             -- some SetMap installed k ↦ v
  nerr : K → Nat                  -- failed fetches for k
  nokT : K → Nat                  -- successful fetches for k
  nok : K → Nat                   -- successful fetches for k since the last SetMap

def upd {α} (f : Nat → α) (i : Nat) (x : α) : Nat → α := fun j => if j = i then x else f j

inductive Act
  | lookup (t : Nat)
  | publish (t : Nat) (r : R)
  | wake (t : Nat)
  | setMap (m : K → Option V)
  | getMap

def step (s : St) : Act → St
  | .lookup t =>
    match s.pcs t with
    | .start k =>
      match s.cache k with
      | some v => { s with pcs := upd s.pcs t (.done k (.ok v)) }
      | none =>
        match s.calls k with
        | some c => { s with pcs := upd s.pcs t (.waiting c k) }
        | none => { s with calls := upd s.calls k (some s.next), pcs := upd s.pcs t (.fetching s.next k),
                           next := s.next + 1, nfetch := upd s.nfetch k (s.nfetch k + 1),
                           lateFetch := s.lateFetch || s.succeeded k,
                           ckey := upd s.ckey s.next (some k) }
    | _ => s
  | .publish t r =>
    match s.pcs t with
    | .fetching c k =>
      { s with results := upd s.results c (some r),
               cache := (match r with | .ok v => upd s.cache k (some v) | .err => s.cache),
               calls := (if s.calls k = some c then upd s.calls k none else s.calls),
               pcs := upd s.pcs t (.done k r),
               succeeded := (match r with | .ok _ => upd s.succeeded k true | .err => s.succeeded),
               pub := fun k' r' => if k' = k ∧ r' = r then true else s.pub k' r',
               nerr := (match r with | .ok _ => s.nerr | .err => upd s.nerr k (s.nerr k + 1)),
               nokT := (match r with | .ok _ => upd s.nokT k (s.nokT k + 1) | .err => s.nokT),
               nok := (match r with | .ok _ => upd s.nok k (s.nok k + 1) | .err => s.nok) }
    | _ => s
  | .wake t =>
    match s.pcs t with
    | .waiting c k =>
      match s.results c with
      | some r => { s with pcs := upd s.pcs t (.done k r) }
      | none => s
    | _ => s
  | .setMap m =>
    { s with cache := m, succeeded := fun _ => false, nok := fun _ => 0,
             setv := fun k v => s.setv k v || decide (m k = some v) }
  | .getMap => { s with maps := s.cache :: s.maps }

def init (keyOf : Nat → Option K) : St :=
  { cache := fun _ => none, calls := fun _ => none, results := fun _ => none,
    pcs := fun t => match keyOf t with | some k => .start k | none => .idle,
    next := 0, nfetch := fun _ => 0, maps := [],
    succeeded := fun _ => false, lateFetch := false, ckey := fun _ => none,
    pub := fun _ _ => false, setv := fun _ _ => false,
    nerr := fun _ => 0, nokT := fun _ => 0, nok := fun _ => 0 }

def runFrom (s : St) (as : List Act) : St := as.foldl step s
def run (keyOf : Nat → Option K) (as : List Act) : St := runFrom (init keyOf) as

def Act.isSetMap : Act → Bool
  | .setMap _ => true
  | _ => false

end Scalibr.Cache
