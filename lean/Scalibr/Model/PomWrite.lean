/-
Model of the pom.xml writer above the XML layer (C13): `buildPatches`, `OriginalDependency`,
`addPatch`, the origin bookkeeping of `writeProject` / `writeDependency` / `writeString`, and the part
of `Read` that turns dependencies into requirements (`${…}` interpolation with the project's own
properties).  A pom is abstracted to its dependency entries and property entries in the order
`buildOriginalRequirements` / `buildPropertiesWithOrigins` list them; XML tokenising, escaping and
layout are outside this model (checked byte-wise by the harness for the "no updates" case).

Keys may hold `${project.groupId}` / `${pom.version}`-style placeholders (`ResolvedKey`, fix e5fd6d2f) or a user property
(not resolved by the writer: class C13/pom-key-property).

Not modelled (the generator stays outside): two entries of one section with the same interpolated key (deps.dev keeps the
first), local parent POMs (`parent@path` origins), the
`<parent>` element itself, plugins outside pluginManagement, dependencyManagement imports, active profiles, property values that
reference other properties.
-/
import Scalibr.Spec.PomProps
namespace Scalibr.Pom

def sManagement : Str := "management".toList
def sProfile : Str := "profile".toList
def sJar : Str := "jar".toList

/-- `maven.Dependency.Key()` normalises an empty type to "jar" -/
def normTyp (t : Str) : Str := if t = [] then sJar else t

/-- one `<dependency>`; `origin` as `buildOriginalRequirements` spells it:
"" (project dependencies), "management", "profile@ID", "profile@ID@management",
"plugin@GROUP:ARTIFACT" (dependencies of a build/pluginManagement plugin; GROUP empty when the plugin has no <groupId>; Read
interpolates these like project dependencies and lists them among the requirements for updates) -/
structure Dep where
  origin : Str
  g : Str
  a : Str
  typ : Str
  cls : Str
  ver : Str          -- raw text of <version>, possibly with ${…}
  wsKey : Bool       -- groupId/artifactId written with surrounding white space (layout only: `Read` trims
                     -- it, and since fix 5743d35a the writer compares `trimmedDependencyKey(rawDep)`)
deriving Repr, DecidableEq

structure Prp where
  origin : Str       -- "" or "profile@ID"
  name : Str
  value : Str
deriving Repr, DecidableEq

structure Pom where
  deps : List Dep
  props : List Prp
  projVersion : Str  -- ${project.version}
  projGroup : Str    -- ${project.groupId}
deriving Repr, DecidableEq

/-- `result.PackageUpdate` for Maven: Name (expected to be `groupId:artifactId`), the `dep.Type` attributes that
matter, VersionFrom / VersionTo -/
structure Upd where
  name : Str
  typ : Str
  cls : Str
  origin : Str       -- dep.MavenDependencyOrigin attribute of the update's Type ("" or "management")
  frm : Str
  to : Str
deriving Repr, DecidableEq

abbrev Key := Str × Str × Str × Str
def Dep.key (d : Dep) : Key := (d.g, d.a, normTyp d.typ, d.cls)
/-- `strings.Split(s, ":")` -/
def splitColon : Str → List Str
  | [] => [[]]
  | c :: cs =>
    if c = ':' then [] :: splitColon cs
    else match splitColon cs with
      | p :: ps => (c :: p) :: ps
      | [] => [[c]]

/-- `substrings := strings.Split(Name, ":"); len(substrings) == 2` -/
def Upd.ga (u : Upd) : Option (Str × Str) :=
  match splitColon u.name with
  | [g, a] => some (g, a)
  | _ => none

def Upd.key (u : Upd) : Key :=
  match u.ga with
  | some (g, a) => (g, a, normTyp u.typ, u.cls)
  | none => ([], [], normTyp u.typ, u.cls)

/-- entry of `DependencyPatches[origin]`: key, NewRequire, and the map value ("from this project") -/
structure DPatch where
  origin : Str
  key : Key
  newReq : Str
  exist : Bool
deriving Repr, DecidableEq

structure Patches where
  deps : List DPatch                 -- a Go map keyed by (origin, key, newReq): inserting twice overwrites `exist`
  props : List (Str × Str × Str)     -- (origin, name, value); first assignment stays
deriving Repr, DecidableEq

def addPatch (ps : List DPatch) (p : DPatch) : List DPatch :=
  if ps.any (fun q => q.origin = p.origin ∧ q.key = p.key ∧ q.newReq = p.newReq) then
    ps.map fun q => if q.origin = p.origin ∧ q.key = p.key ∧ q.newReq = p.newReq then p else q
  else ps ++ [p]

/-- a dependency key with `${…}` replaced through `σ` (a name `σ` does not define stays as it is) -/
def interpKey (σ : Str → Option Str) (d : Dep) : Key :=
  (interpolate σ d.g, interpolate σ d.a, interpolate σ (normTyp d.typ), interpolate σ d.cls)

/-- `projectCoordinates` (fix e5fd6d2f): the placeholders `buildOriginalRequirements` replaces in a key — the project's own
group id and version under the `project.` and `pom.` prefixes; an empty value is skipped.  (`project.parent.*` too in the
code; this model has no `<parent>`.)  The code does one `strings.ReplaceAll` per name, which is this left-to-right
replacement as long as the values themselves hold no `${`. -/
def coordDict (pom : Pom) (n : Str) : Option Str :=
  if n = "project.groupId".toList ∨ n = "pom.groupId".toList then (if pom.projGroup = [] then none else some pom.projGroup)
  else if n = "project.version".toList ∨ n = "pom.version".toList then (if pom.projVersion = [] then none else some pom.projVersion)
  else none

def attrOrigin (o : Str) : Str := if sManagement.isSuffixOf o then sManagement else []

/-- the score `OriginalDependency` gives a declaration with the update's key (fix b0b162fc): 2 when it is a dependencyManagement
declaration exactly if the update is for a dependencyManagement requirement, plus 1 when its version as written is the version
the update starts from; `none`: a dependencyManagement requirement is never matched with a declaration outside dependencyManagement.
(The code tests `origin == "management" || HasSuffix(origin, "@management")`; origins are joined with "@", so that is this suffix test.) -/
def matchScore (u : Upd) (d : Dep) : Option Nat :=
  let mgmt : Bool := attrOrigin d.origin = sManagement
  let want : Bool := u.origin = sManagement
  if mgmt != want && want then none
  else some ((if mgmt == want then 2 else 0) + (if u.frm ≠ [] && d.ver = u.frm then 1 else 0))

def scoreVal (u : Upd) (d : Dep) : Nat := (matchScore u d).getD 0

/-- the best-scoring declaration, the first one among equals -/
def pickBest (u : Upd) : List Dep → Option Dep
  | [] => none
  | d :: ds =>
    match pickBest u ds with
    | some e => if scoreVal u e > scoreVal u d then some e else some d
    | none => some d

/-- `OriginalDependency`: among the declarations with the update's key — as written, or as `ResolvedKey` has it — and a
non-empty version, the one the update is for: by kind of requirement and current version (fix b0b162fc; it was the first) -/
def originalDependency (σ : Str → Option Str) (u : Upd) (deps : List Dep) : Option Dep :=
  if u.ga.isNone then none                       -- `len(IDs) != 2`: the empty DependencyWithOrigin
  else pickBest u (deps.filter fun d => (d.key = u.key || interpKey σ d = u.key) && d.ver ≠ [] && (matchScore u d).isSome)

def hasPrefix (p s : Str) : Bool := p.isPrefixOf s

/-- `strings.CutSuffix(s, suf)` (first result) -/
def cutSuffix (s suf : Str) : Str :=
  if suf.isSuffixOf s then s.take (s.length - suf.length) else s

def propPatchLookup (pp : List (Str × Str × Str)) (o n : Str) : Option Str :=
  (pp.find? fun x => x.1 = o ∧ x.2.1 = n).map (·.2.2)

/-- the `for name, value := range properties` loop of `buildPatches` for one update -/
def addProps (props : List Prp) (depOrigin : Str) (direct : DPatch) :
    List (Str × Str) → Patches → Patches
  | [], ps => ps
  | (name, value) :: rest, ps =>
    let propertyOrigin : Str :=
      if props.any (fun p => p.name = name ∧ p.origin ≠ [] ∧ p.origin = depOrigin) then depOrigin else []
    let ps' : Patches :=
      match propPatchLookup ps.props propertyOrigin name with
      | none => { ps with props := ps.props ++ [(propertyOrigin, name, value)] }
      | some preset => if preset ≠ value then { ps with deps := addPatch ps.deps direct } else ps
    addProps props depOrigin direct rest ps'

/-- one iteration of `buildPatches`; `none` is `addPatch`'s error "invalid Maven name" (the other error return,
a `dep.Type` carrying both Test and Scope, is not representable here) -/
def buildPatch1 (pom : Pom) (ps : Patches) (u : Upd) : Option Patches :=
  if u.ga.isNone then none else
  some <|
  match originalDependency (coordDict pom) u pom.deps with
  | none =>
    -- not in the base project: goes to dependencyManagement
    { ps with deps := addPatch ps.deps ⟨sManagement, u.key, u.to, false⟩ }
  | some od =>
    -- `patch.Name = origDep.Name()`: the patch carries the key as the file spells it
    let direct : DPatch := ⟨od.origin, od.key, u.to, true⟩
    if !containsProperty od.ver then { ps with deps := addPatch ps.deps direct } else
    let depOrigin : Str :=
      if hasPrefix sProfile od.origin then cutSuffix od.origin ('@' :: sManagement) else []
    match gen od.ver u.to with
    | .ok assigns =>
      -- `propertyDefinition` (fixes f5d17448, 95fbdd2e): every property name must have a definition that applies to this
      -- dependency — a universal one or one in the dependency's own profile (a definition in ANOTHER profile does not count)
      if !(asMap assigns).all (fun a => pom.props.any (fun p => p.name = a.1 ∧ (p.origin = [] ∨ p.origin = depOrigin))) then
        { ps with deps := addPatch ps.deps direct }
      else
      addProps pom.props depOrigin direct (asMap assigns) ps
    | _ => { ps with deps := addPatch ps.deps direct }

def buildFrom (pom : Pom) : Patches → List Upd → Option Patches
  | ps, [] => some ps
  | ps, u :: us => match buildPatch1 pom ps u with
    | some ps' => buildFrom pom ps' us
    | none => none                                  -- `return nil, err`

def buildPatches (pom : Pom) (us : List Upd) : Option Patches := buildFrom pom ⟨[], []⟩ us

/-- origin under which `writeProject` looks up property patches for a `<properties>` element -/
def applyProp (ps : Patches) (p : Prp) : Prp :=
  match propPatchLookup ps.props p.origin p.name with
  | some v => { p with value := v }
  | none => p

/-- `writeDependency` on one `<dependency>`: `for patch := range patches { if patch.DependencyKey == trimmedDependencyKey(rawDep) … }`.
(Several patches with the same key and different versions would make the result depend on Go's map
order; the generator never addresses one key twice.) -/
def applyDep (ps : Patches) (d : Dep) : Dep :=
  match ps.deps.reverse.find? (fun p => p.origin = d.origin ∧ p.key = d.key) with
  | some p => { d with ver := p.newReq }
  | none => d

def newDeps (ps : Patches) : List Dep :=
  (ps.deps.filter fun p => !p.exist).map fun p => ⟨p.origin, p.key.1, p.key.2.1, p.key.2.2.1, p.key.2.2.2, p.newReq, false⟩

def applyPatches (pom : Pom) (ps : Patches) : Pom :=
  { pom with deps := pom.deps.map (applyDep ps) ++ newDeps ps, props := pom.props.map (applyProp ps) }

/-- `Write` on the abstract pom; `none` = an error is returned and no file is written -/
def write (pom : Pom) (us : List Upd) : Option Pom := (buildPatches pom us).map (applyPatches pom)

/-! ### Read: requirements -/

structure Req where
  origin : Str       -- dep.MavenDependencyOrigin attribute ("" or "management")
  key : Key
  ver : Str
deriving Repr, DecidableEq

/-- the interpolation dictionary of the project itself -/
def dict (pom : Pom) (n : Str) : Option Str :=
  if n = "project.version".toList ∨ n = "version".toList ∨ n = "pom.version".toList then some pom.projVersion
  else if n = "project.groupId".toList ∨ n = "groupId".toList ∨ n = "pom.groupId".toList then some pom.projGroup
  else ((pom.props.filter (·.origin = [])).reverse.find? (·.name = n)).map (·.value)

/-- true when every `${…}` of the string is defined (deps.dev drops a dependency it cannot interpolate) -/
def resolvable (σ : Str → Option Str) : Nat → Str → Bool
  | 0, _ => true
  | fuel + 1, s =>
    match indexOf dollarBrace s with
    | none => true
    | some st =>
      let after := s.drop (st + 2)
      match indexOf closeBrace after with
      | none => true
      | some e => (σ (after.take e)).isSome && resolvable σ fuel (after.drop (e + 1))

def keyResolvable (σ : Str → Option Str) (d : Dep) : Bool :=
  resolvable σ (d.g.length + 1) d.g && resolvable σ (d.a.length + 1) d.a &&
  resolvable σ ((normTyp d.typ).length + 1) (normTyp d.typ) && resolvable σ (d.cls.length + 1) d.cls

/-- dictionary seen by a dependency inside a profile: the profile's own properties shadow the project's -/
def profDict (pom : Pom) (profOrigin : Str) (n : Str) : Option Str :=
  match ((pom.props.filter (·.origin = profOrigin)).reverse.find? (·.name = n)).map (·.value) with
  | some v => some v
  | none => dict pom n

/-- the requirements after `Read`, with their effective versions: `Requirements()` (project
dependencies and dependencyManagement, interpolated by deps.dev; an uninterpolable entry is dropped)
followed by `RequirementsForUpdates` (profile entries; `Read` reports their raw text, the harness
interpolates it with the profile's and the project's properties as read back) -/
def requirements (pom : Pom) : List Req :=
  pom.deps.filterMap fun d =>
    if hasPrefix sProfile d.origin then
      let σ := profDict pom (cutSuffix d.origin ('@' :: sManagement))
      some ⟨attrOrigin d.origin, d.key,
        if resolvable σ (d.ver.length + 1) d.ver then interpolate σ d.ver else d.ver⟩
    else if resolvable (dict pom) (d.ver.length + 1) d.ver && keyResolvable (dict pom) d then
      -- deps.dev interpolates the coordinates as well: the requirement is known by its interpolated key
      some ⟨attrOrigin d.origin, interpKey (dict pom) d, interpolate (dict pom) d.ver⟩
    else none

end Scalibr.Pom
