/-
Model of `extractor/filesystem/language/ruby/gemfilelock`: `parseLockfileSections` + `Extract`, on raw bytes.
  * empty lines are skipped; a line without leading space starts a section (the line is its name);
    exactly four leading spaces add a spec (the text after them) to the current section;
    a line starting `  revision: ` needs a current section too; a spec or revision before any section is an error;
    everything else is ignored;
  * `scanner.Err()` is only looked at inside the loop (where it is always nil): a too-long line silently ends
    the file — the model mirrors that (`scan`'s flag is ignored);
  * only sections named GIT, GEM, PATH, PLUGIN SOURCE are sources; a spec is kept when
    `^(.*?)(?: \(([^-]*)(?:-(.*))?\))?(!)?$` gives a non-empty name (group 1) and version (group 2).
The regular expression is modelled by a hand-written matcher with the same leftmost / lazy / greedy choices:
shortest name for which the rest matches; the parenthesised group is preferred; longest dash-free version.
The commit (`revision`) is not part of the compared output and is not stored.
Go indexing: `m[1]`, `m[2]` of the submatch slice behind the `len(m) < 3` guard are modelled with `goIndex`
(`specPkgGo`); `m[0]` of `indentRegexp` is taken on a non-nil match, i.e. it exists by the regexp package's
contract, and is not an index the extractor has to guard. `specPkg` / `pkgsOf` are the index-free
reformulations used by the proofs (`pkgsOfGo_eq`).
-/
import Scalibr.Model.Parsers.Common
namespace Scalibr.Parsers.Gemfile
open Scalibr.Parsers

structure Sec where
  name : List Char
  specs : List (List Char)
deriving Repr

/-- `(!)?$` -/
def tailOk (t : List Char) : Bool := t.isEmpty || t = ['!']

/-- with `L` characters captured as the version: does the rest of the group and of the line match? -/
def check (body : List Char) (L : Nat) : Option (List Char) :=
  match body[L]? with
  | some ')' => if tailOk (body.drop (L + 1)) then some (body.take L) else none
  | some '-' =>
    let rem := body.drop (L + 1)
    if rem.getLast? = some ')' || (rem.length ≥ 2 && rem.drop (rem.length - 2) = [')', '!']) then some (body.take L) else none
  | _ => none

/-- greedy `[^-]*`: try the longest dash-free prefix first -/
def tryLen (body : List Char) : Nat → Option (List Char)
  | 0 => check body 0
  | L + 1 => match check body (L + 1) with
    | some v => some v
    | none => tryLen body L

/-- `(?: \(([^-]*)(?:-(.*))?\))?(!)?$` at the current position; the captured version ("" when the group is absent) -/
def groupMatch : List Char → Option (List Char)
  | ' ' :: '(' :: body => tryLen body (body.takeWhile (· ≠ '-')).length
  | _ => none

def matchRest (rest : List Char) : Option (List Char) :=
  match groupMatch rest with
  | some v => some v
  | none => if tailOk rest then some [] else none

/-- lazy `(.*?)`: the shortest name after which the rest matches; `acc` is the name so far, reversed -/
def specNV : List Char → List Char → Option (List Char × List Char)
  | s, acc =>
    match matchRest s with
    | some v => some (acc.reverse, v)
    | none => match s with
      | [] => none
      | c :: t => specNV t (c :: acc)

def addSpec (c : Sec) (s : List Char) : Sec := { c with specs := c.specs ++ [s] }

def flush (cur : Option Sec) (acc : List Sec) : List Sec :=
  match cur with | some c => acc ++ [c] | none => acc

/-- `parseLockfileSections` -/
def gemSections : List Line → Option Sec → List Sec → Option (List Sec)
  | [], cur, acc => some (flush cur acc)
  | l :: rest, cur, acc =>
    if l.isEmpty then gemSections rest cur acc else
    let ind := (l.takeWhile (· = ' ')).length
    if ind = 0 then gemSections rest (some ⟨l, []⟩) (flush cur acc)
    else if ind = 4 then
      (match cur with | none => none | some c => gemSections rest (some (addSpec c (l.drop 4))) acc)
    else if hasPrefix "  revision: ".toList l then
      (match cur with | none => none | some _ => gemSections rest cur acc)
    else gemSections rest cur acc

def sourceNames : List (List Char) := ["GIT".toList, "GEM".toList, "PATH".toList, "PLUGIN SOURCE".toList]

def specPkg (s : List Char) : Option (List Char × List Char) :=
  match specNV s [] with
  | some (n, v) => if n.isEmpty || v.isEmpty then none else some (n, v)
  | none => none

/-- `nameVersionRegexp.FindStringSubmatch(s)`: nil, or the whole match followed by the four groups (platform and
`!` are not used by the extractor and left empty here) -/
def submatch (s : List Char) : List (List Char) :=
  match specNV s [] with
  | some (n, v) => [s, n, v, [], []]
  | none => []

/-- the loop body of `Extract` as written: `len(m) < 3 || m[1] == "" || m[2] == ""`, then `m[1], m[2]`.
Outer `none` = Go would panic with an index out of range. -/
def specPkgGo (s : List Char) : Option (Option (List Char × List Char)) :=
  let m := submatch s
  if m.length < 3 then some none else
  match goIndex m 1, goIndex m 2 with
  | some n, some v => if n.isEmpty || v.isEmpty then some none else some (some (n, v))
  | _, _ => none

def pkgsOfGo (secs : List Sec) : Option (List (List Char × List Char)) :=
  (secs.mapM fun sec => if sourceNames.contains sec.name then (sec.specs.mapM specPkgGo).map (·.filterMap id) else some []).map List.flatten

def pkgsOf (secs : List Sec) : List (List Char × List Char) :=
  secs.flatMap fun sec => if sourceNames.contains sec.name then sec.specs.filterMap specPkg else []

def parse (bytes : List Char) : Outcome (List (List Char × List Char)) :=
  let (ls, tl) := scan bytes
  match gemSections ls none [] with
  | none => .err
  | some secs =>
    -- `scanner.Err()` behind the loop: a line beyond the token limit fails the file
    if tl then .err else
    match pkgsOfGo secs with
    | none => .panic
    | some ps => .ok ps

end Scalibr.Parsers.Gemfile
