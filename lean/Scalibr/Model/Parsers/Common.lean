/-
Shared pieces of the line-format parser models (C03 (a), C02): byte strings, `bufio.Scanner` with
`bufio.ScanLines`, `strings.Cut`, `strings.TrimSpace`, `strings.HasPrefix`.

Byte strings are `List Char` under the Latin-1 embedding: byte `b` is `Char.ofNat b`. Every function
here is byte-level (no function inspects more than one element at a time except through explicit
sequences), so the theorems, which quantify over all `List Char`, cover all byte strings; the driver
converts hex → bytes → `Char.ofNat` and back with `c.toNat % 256`.
-/
namespace Scalibr.Parsers

abbrev Line := List Char

/-- what an `Extract` call can do: return packages, return an error, or crash -/
inductive Outcome (α : Type) where
  | ok (a : α)
  | err
  | panic
deriving Repr, DecidableEq

/-- `bufio.MaxScanTokenSize`: a line whose first 65536 bytes hold no '\n' is `ErrTooLong` -/
def maxTok : Nat := 65536

/-- the raw chunks between '\n' bytes; a final unterminated non-empty chunk counts, an empty one does not
(`bufio.ScanLines` at EOF). `cur` is the current chunk, reversed. -/
def chunks : List Char → List Char → List (List Char)
  | [], cur => if cur.isEmpty then [] else [cur.reverse]
  | c :: s, cur => if c = '\n' then cur.reverse :: chunks s [] else chunks s (c :: cur)

/-- `dropCR` of bufio: one trailing '\r' is removed -/
def dropCR (l : List Char) : List Char := if l.getLast? = some '\r' then l.dropLast else l

/-- All tokens a `bufio.Scanner` with `ScanLines` yields before it stops, and whether it stopped with
`ErrTooLong` (`scanner.Err() != nil`) rather than at EOF. -/
def scan (s : List Char) : List Line × Bool :=
  let cs := chunks s []
  let good := cs.takeWhile (fun c => c.length < maxTok)
  (good.map dropCR, good.length < cs.length)

/-- `strings.Cut(l, string(c))` -/
def cutAt (c : Char) (l : List Char) : Option (List Char × List Char) :=
  let k := l.takeWhile (· ≠ c)
  if k.length < l.length then some (k, l.drop (k.length + 1)) else none

/-- Go indexing `l[i]`: `none` = "index out of range" run-time panic -/
def goIndex {α : Type} (l : List α) (i : Nat) : Option α := l[i]?

/-- Go slicing `s[lo:hi]`: `none` = "slice bounds out of range" run-time panic -/
def goSliceC (s : List Char) (lo hi : Nat) : Option (List Char) :=
  if lo ≤ hi ∧ hi ≤ s.length then some ((s.take hi).drop lo) else none

/-- Go slicing with `int` bounds (as computed by expressions such as `len(s)-1`, which may be negative) -/
def goSliceI (s : List Char) (lo hi : Int) : Option (List Char) :=
  if 0 ≤ lo ∧ lo ≤ hi ∧ hi ≤ (s.length : Int) then some ((s.take hi.toNat).drop lo.toNat) else none

/-- `strings.SplitN(s, string(c), n)` for n ≥ 1 -/
def splitN (c : Char) : Nat → List Char → List (List Char)
  | 0, l => [l]
  | 1, l => [l]
  | n + 2, l => match cutAt c l with
    | none => [l]
    | some (a, r) => a :: splitN c (n + 1) r

def hasPrefix (p s : List Char) : Bool := s.take p.length = p

def hasSuffix (p s : List Char) : Bool := s.drop (s.length - p.length) = p

/-- ASCII `asciiSpace` table of the strings package -/
def isAsciiSp (c : Char) : Bool := c = ' ' || c = '\t' || c = '\n' || c = '\r' || c.toNat = 11 || c.toNat = 12

/-- third byte of the three-byte spaces starting E2 80: U+2000–U+200A, U+2028, U+2029, U+202F -/
def e280 (n : Nat) : Bool := (0x80 ≤ n && n ≤ 0x8A) || n = 0xA8 || n = 0xA9 || n = 0xAF

/-- `strings.TrimSpace` removes ASCII `\t \n \v \f \r ' '` and the other `unicode.IsSpace` code points
(U+0085, U+00A0, U+1680, U+2000–U+200A, U+2028, U+2029, U+202F, U+205F, U+3000). UTF-8 is prefix-free and
`DecodeLastRuneInString` resynchronises on the lead byte, so trimming code points at either end is the same
as stripping their byte sequences. `leadSpace s` = length of the space sequence `s` starts with (0: none). -/
def leadSpace : List Char → Nat
  | [] => 0
  | c :: rest =>
    if isAsciiSp c then 1
    else if c.toNat = 0xC2 then
      (match rest with | d :: _ => if d.toNat = 0x85 || d.toNat = 0xA0 then 2 else 0 | _ => 0)
    else if c.toNat = 0xE1 then
      (match rest with | d :: e :: _ => if d.toNat = 0x9A && e.toNat = 0x80 then 3 else 0 | _ => 0)
    else if c.toNat = 0xE2 then
      (match rest with
       | d :: e :: _ => if (d.toNat = 0x80 && e280 e.toNat) || (d.toNat = 0x81 && e.toNat = 0x9F) then 3 else 0
       | _ => 0)
    else if c.toNat = 0xE3 then
      (match rest with | d :: e :: _ => if d.toNat = 0x80 && e.toNat = 0x80 then 3 else 0 | _ => 0)
    else 0

/-- strip leading space sequences; `fuel` bounds the number of steps (the length of the input suffices) -/
def trimLeft : Nat → List Char → List Char
  | 0, s => s
  | f+1, s => match leadSpace s with
    | 0 => s
    | n => trimLeft f (s.drop n)

/-- the same on the reversed string: length of the space sequence the string ends with -/
def trailSpace : List Char → Nat
  | [] => 0
  | c :: rest =>
    if isAsciiSp c then 1
    else match rest with
      | d :: rest2 =>
        if d.toNat = 0xC2 && (c.toNat = 0x85 || c.toNat = 0xA0) then 2
        else (match rest2 with
          | e :: _ =>
            if (e.toNat = 0xE1 && d.toNat = 0x9A && c.toNat = 0x80)
               || (e.toNat = 0xE2 && ((d.toNat = 0x80 && e280 c.toNat) || (d.toNat = 0x81 && c.toNat = 0x9F)))
               || (e.toNat = 0xE3 && d.toNat = 0x80 && c.toNat = 0x80) then 3 else 0
          | _ => 0)
      | _ => 0

def trimRightRev : Nat → List Char → List Char
  | 0, s => s
  | f+1, s => match trailSpace s with
    | 0 => s
    | n => trimRightRev f (s.drop n)

/-- `strings.TrimSpace` -/
def trimSpace (s : List Char) : List Char :=
  let t := trimLeft s.length s
  (trimRightRev t.length t.reverse).reverse

end Scalibr.Parsers
