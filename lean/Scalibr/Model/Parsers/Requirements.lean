/-
Model of `extractor/filesystem/language/python/requirements` (`extractFromPath` and helpers) on raw bytes,
for a file whose `-r` references cannot be opened (the harness scans with an empty FS). Code as of fixes
c0539e29 (PEP 508 names + "the name must be a prefix of the trimmed requirement") and 0b3783b7 (an option needs white
space or the start of the line in front of it).
Regular expressions are replaced by hand-written byte-level functions with the same leftmost-first semantics
(all classes involved are ASCII; `.` and negated classes consume one invalid byte or one whole UTF-8
sequence, which covers the same bytes):
  reComment                       `(^|\s+)#.*$`                 → `rmComment`
  reEnvVar                        `\$\{[A-Z0-9_]+\}`            → `hasEnvVar`
  reTextAfterFirstOptionInclusive `(?:^|\s)(?:--hash|--global-option|--config-settings|-C).*` → `cutOptions` (fix 0b3783b7)
  reWhitespace                    `[ \t\r]`                     → filter
  reExtras                        `\[[^\[\]]*\]`                → `rmExtras`
  reUnsupportedConstraints        `\*|<[^=]|,|!=`               → `unsupported`
  reValidPkg                      `^\w([\w.-]*\w)?$`            → `validPkg`
-/
import Scalibr.Model.Parsers.Common
namespace Scalibr.Parsers.Requirements
open Scalibr.Parsers

/-- RE2 `\s` = `[\t\n\f\r ]` -/
def isS (c : Char) : Bool := c = ' ' || c = '\t' || c = '\n' || c = '\r' || c.toNat = 12

/-- `reComment.ReplaceAllString(s, "")`: cut at the white-space run in front of the first '#' that is at the
start of the line or preceded by white space. `out`: kept text, reversed; `ws`: pending white-space run, reversed. -/
def rmComment : List Char → List Char → List Char → List Char
  | [], out, ws => (ws ++ out).reverse
  | c :: t, out, ws =>
    if c = '#' && ((out.isEmpty && ws.isEmpty) || !ws.isEmpty) then out.reverse
    else if isS c then rmComment t out (c :: ws)
    else rmComment t (c :: (ws ++ out)) []

def isEnvCh (c : Char) : Bool := ('A'.toNat ≤ c.toNat && c.toNat ≤ 'Z'.toNat) || ('0'.toNat ≤ c.toNat && c.toNat ≤ '9'.toNat) || c = '_'

/-- does `s` start with `${NAME}` -/
def envAt : List Char → Bool
  | '$' :: '{' :: t =>
    let n := t.takeWhile isEnvCh
    !n.isEmpty && (t.drop n.length).head? = some '}'
  | _ => false

def hasEnvVar : List Char → Bool
  | [] => false
  | c :: t => envAt (c :: t) || hasEnvVar t

/-- `strings.Cut(s, pat)` for a non-empty pattern -/
def cutSub (pat : List Char) : List Char → List Char → Option (List Char × List Char)
  | [], _ => none
  | c :: t, acc =>
    if hasPrefix pat (c :: t) then some (acc.reverse, (c :: t).drop pat.length)
    else cutSub pat t (c :: acc)

def containsSub (pat s : List Char) : Bool := (cutSub pat s []).isSome

def optionStarts : List (List Char) := ["--hash".toList, "--global-option".toList, "--config-settings".toList, "-C".toList]

def optAt (s : List Char) : Bool := optionStarts.any (fun p => hasPrefix p s)

/-- `reTextAfterFirstOptionInclusive.ReplaceAllString(s, "")`: cut at the first option that stands at the start
of the line or right after ONE white-space character (which is cut too). `acc`: text so far, reversed. -/
def cutOptions : List Char → List Char → List Char
  | [], acc => acc.reverse
  | c :: t, acc =>
    if (acc.isEmpty && optAt (c :: t)) || (isS c && optAt t) then acc.reverse
    else cutOptions t (c :: acc)

/-- `reExtras.ReplaceAllString(s, "")`. `pend`: text since the last unmatched '[' (inclusive), reversed. -/
def rmExtras : List Char → Option (List Char) → List Char → List Char
  | [], pend, out => ((pend.getD []) ++ out).reverse
  | c :: t, none, out => if c = '[' then rmExtras t (some ['[']) out else rmExtras t none (c :: out)
  | c :: t, some p, out =>
    if c = ']' then rmExtras t none out
    else if c = '[' then rmExtras t (some ['[']) (p ++ out)
    else rmExtras t (some (c :: p)) out

/-- `reUnsupportedConstraints.FindString(s) != ""` -/
def unsupported : List Char → Bool
  | [] => false
  | c :: t =>
    c = '*' || c = ',' || (c = '<' && (match t with | d :: _ => d ≠ '=' | [] => false))
      || (c = '!' && t.head? = some '=') || unsupported t

def cutOr (pat s : List Char) : List Char := match cutSub pat s [] with | some (a, _) => a | none => s

/-- `nameFromRequirement` -/
def nameFromRequirement (s : List Char) : List Char :=
  ["===".toList, "==".toList, ">=".toList, "<=".toList, "~=".toList, "!=".toList, "<".toList].foldl (fun s p => cutOr p s) s

/-- `getLowestVersion` -/
def getLowestVersion (s : List Char) : List Char × List Char × List Char :=
  if unsupported s then (nameFromRequirement s, [], [])
  else
    match ["===".toList, "==".toList, ">=".toList, "<=".toList, "~=".toList].find? (fun p => containsSub p s) with
    | none => (s, [], [])
    | some sep => match cutSub sep s [] with
      | some (a, b) => (a, b, sep)
      | none => (s, [], [])

def isW (c : Char) : Bool :=
  ('a'.toNat ≤ c.toNat && c.toNat ≤ 'z'.toNat) || ('A'.toNat ≤ c.toNat && c.toNat ≤ 'Z'.toNat) ||
  ('0'.toNat ≤ c.toNat && c.toNat ≤ '9'.toNat) || c = '_'

/-- `reValidPkg.MatchString` -/
def validPkg (s : List Char) : Bool :=
  match s with
  | [] => false
  | [c] => isW c
  | c :: t => isW c && (t.getLast? |>.map isW |>.getD false) && t.all (fun x => isW x || x = '.' || x = '-')

/-- `readLine`: one logical line (comments removed, backslash continuations joined; a physical line holding an
environment variable makes the whole logical line empty) and the physical lines left -/
def readLogical : List Line → List Char → List Char × List Line
  | [], b => (b, [])
  | l :: rest, b =>
    let l' := rmComment l [] []
    if hasEnvVar l' then ([], rest)
    else if l'.getLast? = some '\\' then readLogical rest (b ++ l'.dropLast)
    else (b ++ l', rest)

/-- `ignorePythonSpecifier`: the text before the first ';' -/
def beforeSemi (l : List Char) : List Char := match cutAt ';' l with | some (a, _) => a | none => l

/-- what one logical line contributes -/
def lineReq (l0 : List Char) : Option (List Char × List Char) :=
  let l1 := cutOptions l0 []
  let requirement := trimSpace l1
  let l2 := l1.filter (fun c => !(c = ' ' || c = '\t' || c = '\r'))
  let l3 := beforeSemi l2
  let l := rmExtras l3 none []
  if l.isEmpty then none
  else if hasPrefix ['-'] l then none
  else
    let (name, version, comp) := getLowestVersion l
    if name.isEmpty then none
    else if version.isEmpty && !comp.isEmpty then none
    else if !validPkg name then none
    else if !hasPrefix name requirement then none
    else some (name, version)

/-- the `for s.Scan()` loop -/
def loop : Nat → List Line → List (List Char × List Char) → List (List Char × List Char)
  | 0, _, acc => acc
  | _ + 1, [], acc => acc
  | fuel + 1, l :: rest, acc =>
    let (logical, rest') := readLogical (l :: rest) []
    loop fuel rest' (match lineReq logical with | some p => acc ++ [p] | none => acc)

/-! ### the same functions as written in Go, with indexing and slicing that can fail

`readLine` slices `l[:len(l)-1]`; `ignorePythonSpecifier` takes `strings.SplitN(s, ";", 2)[0]`; `getLowestVersion`
takes `t[0], t[1]` of `strings.SplitN(s, sep, 2)` behind `len(t) != 2`. In the `…Go` functions these are `goSliceI` /
`goIndex`, whose `none` is a run-time panic; `parse` runs the Go-shaped loop. `readLogical`, `beforeSemi`,
`getLowestVersion`, `lineReq`, `loop` above are the index-free reformulations used by the proofs (`…_eq` lemmas in
Proofs/Parsers/GoShape.lean show they coincide, i.e. that no index or slice is ever out of range).
(`hashOptionMatch[1]` of the --hash values and the `extraPaths` queue are not modelled: neither reaches the compared output.) -/

def readLogicalGo : List Line → List Char → Option (List Char × List Line)
  | [], b => some (b, [])
  | l :: rest, b =>
    let l' := rmComment l [] []
    if hasEnvVar l' then some ([], rest)
    else if l'.getLast? = some '\\' then
      match goSliceI l' 0 ((l'.length : Int) - 1) with
      | none => none
      | some pre => readLogicalGo rest (b ++ pre)
    else some (b ++ l', rest)

/-- `strings.SplitN(s, sep, 2)` for a non-empty separator -/
def splitSub2 (sep s : List Char) : List (List Char) :=
  match cutSub sep s [] with
  | some (a, b) => [a, b]
  | none => [s]

def getLowestVersionGo (s : List Char) : Option (List Char × List Char × List Char) :=
  if unsupported s then some (nameFromRequirement s, [], [])
  else
    match ["===".toList, "==".toList, ">=".toList, "<=".toList, "~=".toList].find? (fun p => containsSub p s) with
    | none => some (s, [], [])
    | some sep =>
      let t := splitSub2 sep s
      if t.length ≠ 2 then some ([], [], []) else
      match goIndex t 0, goIndex t 1 with
      | some a, some b => some (a, b, sep)
      | _, _ => none

def lineReqGo (l0 : List Char) : Option (Option (List Char × List Char)) :=
  let l1 := cutOptions l0 []
  let requirement := trimSpace l1
  let l2 := l1.filter (fun c => !(c = ' ' || c = '\t' || c = '\r'))
  match goIndex (splitN ';' 2 l2) 0 with
  | none => none
  | some l3 =>
    let l := rmExtras l3 none []
    if l.isEmpty then some none
    else if hasPrefix ['-'] l then some none
    else
      match getLowestVersionGo l with
      | none => none
      | some (name, version, comp) =>
        if name.isEmpty then some none
        else if version.isEmpty && !comp.isEmpty then some none
        else if !validPkg name then some none
        else if !hasPrefix name requirement then some none
        else some (some (name, version))

def loopGo : Nat → List Line → List (List Char × List Char) → Option (List (List Char × List Char))
  | 0, _, acc => some acc
  | _ + 1, [], acc => some acc
  | fuel + 1, l :: rest, acc =>
    match readLogicalGo (l :: rest) [] with
    | none => none
    | some (logical, rest') =>
      match lineReqGo logical with
      | none => none
      | some r => loopGo fuel rest' (match r with | some p => acc ++ [p] | none => acc)

def parse (bytes : List Char) : Outcome (List (List Char × List Char)) :=
  let (ls, tl) := scan bytes
  match loopGo (ls.length + 1) ls [] with
  | none => .panic
  | some pkgs => if tl then .err else .ok pkgs

end Scalibr.Parsers.Requirements
