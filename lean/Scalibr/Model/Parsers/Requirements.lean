/-
Model of `extractor/filesystem/language/python/requirements` (`extractFromPath` and helpers) on raw bytes,
(`parse`: one file; `extractAll` at the end of this file: the file plus the closure of its `-r` includes over a
path → content map). Code as of fixes
c0539e29 (PEP 508 names + "the name must be a prefix of the trimmed requirement") and 0b3783b7 (an option needs white
space or the start of the line in front of it).
Regular expressions are replaced by hand-written byte-level functions with the same leftmost-first semantics
(all classes involved are ASCII; `.` and negated classes consume one invalid byte or one whole UTF-8
sequence, which covers the same bytes):
  reComment                       `(^|\s+)#.*$`                 → `rmComment`
  reEnvVar                        `\$\{[A-Z0-9_]+\}`            → `hasEnvVar`
  reTextAfterFirstOptionInclusive `(?:^|\s)(?:--hash|--global-option|--config-settings|-C).*` → `cutOptions` (fix 0b3783b7)
  reWhitespace                    `[ \t\r]`                     → filter
  reExtras                        `\[[^\[\]]*\]`                → `rmExtras`
  reUnsupportedConstraints        `\*|<[^=]|,|!=`               → `unsupported`
  reValidPkg                      `^\w([\w.-]*\w)?$`            → `validPkg`
-/
import Scalibr.Model.Parsers.Common
namespace Scalibr.Parsers.Requirements
open Scalibr.Parsers

/-- RE2 `\s` = `[\t\n\f\r ]` -/
def isS (c : Char) : Bool := c = ' ' || c = '\t' || c = '\n' || c = '\r' || c.toNat = 12

/-- `reComment.ReplaceAllString(s, "")`: cut at the white-space run in front of the first '#' that is at the
start of the line or preceded by white space. `out`: kept text, reversed; `ws`: pending white-space run, reversed. -/
def rmComment : List Char → List Char → List Char → List Char
  | [], out, ws => (ws ++ out).reverse
  | c :: t, out, ws =>
    if c = '#' && ((out.isEmpty && ws.isEmpty) || !ws.isEmpty) then out.reverse
    else if isS c then rmComment t out (c :: ws)
    else rmComment t (c :: (ws ++ out)) []

def isEnvCh (c : Char) : Bool := ('A'.toNat ≤ c.toNat && c.toNat ≤ 'Z'.toNat) || ('0'.toNat ≤ c.toNat && c.toNat ≤ '9'.toNat) || c = '_'

/-- does `s` start with `${NAME}` -/
def envAt : List Char → Bool
  | '$' :: '{' :: t =>
    let n := t.takeWhile isEnvCh
    !n.isEmpty && (t.drop n.length).head? = some '}'
  | _ => false

def hasEnvVar : List Char → Bool
  | [] => false
  | c :: t => envAt (c :: t) || hasEnvVar t

/-- `strings.Cut(s, pat)` for a non-empty pattern -/
def cutSub (pat : List Char) : List Char → List Char → Option (List Char × List Char)
  | [], _ => none
  | c :: t, acc =>
    if hasPrefix pat (c :: t) then some (acc.reverse, (c :: t).drop pat.length)
    else cutSub pat t (c :: acc)

def containsSub (pat s : List Char) : Bool := (cutSub pat s []).isSome

def optionStarts : List (List Char) := ["--hash".toList, "--global-option".toList, "--config-settings".toList, "-C".toList]

def optAt (s : List Char) : Bool := optionStarts.any (fun p => hasPrefix p s)

/-- `reTextAfterFirstOptionInclusive.ReplaceAllString(s, "")`: cut at the first option that stands at the start
of the line or right after ONE white-space character (which is cut too). `acc`: text so far, reversed. -/
def cutOptions : List Char → List Char → List Char
  | [], acc => acc.reverse
  | c :: t, acc =>
    if (acc.isEmpty && optAt (c :: t)) || (isS c && optAt t) then acc.reverse
    else cutOptions t (c :: acc)

/-- `reExtras.ReplaceAllString(s, "")`. `pend`: text since the last unmatched '[' (inclusive), reversed. -/
def rmExtras : List Char → Option (List Char) → List Char → List Char
  | [], pend, out => ((pend.getD []) ++ out).reverse
  | c :: t, none, out => if c = '[' then rmExtras t (some ['[']) out else rmExtras t none (c :: out)
  | c :: t, some p, out =>
    if c = ']' then rmExtras t none out
    else if c = '[' then rmExtras t (some ['[']) (p ++ out)
    else rmExtras t (some (c :: p)) out

/-- `reUnsupportedConstraints.FindString(s) != ""` -/
def unsupported : List Char → Bool
  | [] => false
  | c :: t =>
    c = '*' || c = ',' || (c = '<' && (match t with | d :: _ => d ≠ '=' | [] => false))
      || (c = '!' && t.head? = some '=') || unsupported t

def cutOr (pat s : List Char) : List Char := match cutSub pat s [] with | some (a, _) => a | none => s

/-- `nameFromRequirement` -/
def nameFromRequirement (s : List Char) : List Char :=
  ["===".toList, "==".toList, ">=".toList, "<=".toList, "~=".toList, "!=".toList, "<".toList].foldl (fun s p => cutOr p s) s

/-- `getLowestVersion` -/
def getLowestVersion (s : List Char) : List Char × List Char × List Char :=
  if unsupported s then (nameFromRequirement s, [], [])
  else
    match ["===".toList, "==".toList, ">=".toList, "<=".toList, "~=".toList].find? (fun p => containsSub p s) with
    | none => (s, [], [])
    | some sep => match cutSub sep s [] with
      | some (a, b) => (a, b, sep)
      | none => (s, [], [])

def isW (c : Char) : Bool :=
  ('a'.toNat ≤ c.toNat && c.toNat ≤ 'z'.toNat) || ('A'.toNat ≤ c.toNat && c.toNat ≤ 'Z'.toNat) ||
  ('0'.toNat ≤ c.toNat && c.toNat ≤ '9'.toNat) || c = '_'

/-- `reValidPkg.MatchString` -/
def validPkg (s : List Char) : Bool :=
  match s with
  | [] => false
  | [c] => isW c
  | c :: t => isW c && (t.getLast? |>.map isW |>.getD false) && t.all (fun x => isW x || x = '.' || x = '-')

/-- `readLine`: one logical line (comments removed, backslash continuations joined; a physical line holding an
environment variable makes the whole logical line empty) and the physical lines left -/
def readLogical : List Line → List Char → List Char × List Line
  | [], b => (b, [])
  | l :: rest, b =>
    let l' := rmComment l [] []
    if hasEnvVar l' then ([], rest)
    else if l'.getLast? = some '\\' then readLogical rest (b ++ l'.dropLast)
    else (b ++ l', rest)

/-- `ignorePythonSpecifier`: the text before the first ';' -/
def beforeSemi (l : List Char) : List Char := match cutAt ';' l with | some (a, _) => a | none => l

/-- what one logical line contributes -/
def lineReq (l0 : List Char) : Option (List Char × List Char) :=
  let l1 := cutOptions l0 []
  let requirement := trimSpace l1
  let l2 := l1.filter (fun c => !(c = ' ' || c = '\t' || c = '\r'))
  let l3 := beforeSemi l2
  let l := rmExtras l3 none []
  if l.isEmpty then none
  else if hasPrefix ['-'] l then none
  else
    let (name, version, comp) := getLowestVersion l
    if name.isEmpty then none
    else if version.isEmpty && !comp.isEmpty then none
    else if !validPkg name then none
    else if !hasPrefix name requirement then none
    else some (name, version)

/-- the `for s.Scan()` loop -/
def loop : Nat → List Line → List (List Char × List Char) → List (List Char × List Char)
  | 0, _, acc => acc
  | _ + 1, [], acc => acc
  | fuel + 1, l :: rest, acc =>
    let (logical, rest') := readLogical (l :: rest) []
    loop fuel rest' (match lineReq logical with | some p => acc ++ [p] | none => acc)

/-! ### the same functions as written in Go, with indexing and slicing that can fail

`readLine` slices `l[:len(l)-1]`; `ignorePythonSpecifier` takes `strings.SplitN(s, ";", 2)[0]`; `getLowestVersion`
takes `t[0], t[1]` of `strings.SplitN(s, sep, 2)` behind `len(t) != 2`. In the `…Go` functions these are `goSliceI` /
`goIndex`, whose `none` is a run-time panic; `parse` runs the Go-shaped loop. `readLogical`, `beforeSemi`,
`getLowestVersion`, `lineReq`, `loop` above are the index-free reformulations used by the proofs (`…_eq` lemmas in
Proofs/Parsers/GoShape.lean show they coincide, i.e. that no index or slice is ever out of range).
(`hashOptionMatch[1]` of the --hash values and the `extraPaths` queue are not modelled: neither reaches the compared output.) -/

def readLogicalGo : List Line → List Char → Option (List Char × List Line)
  | [], b => some (b, [])
  | l :: rest, b =>
    let l' := rmComment l [] []
    if hasEnvVar l' then some ([], rest)
    else if l'.getLast? = some '\\' then
      match goSliceI l' 0 ((l'.length : Int) - 1) with
      | none => none
      | some pre => readLogicalGo rest (b ++ pre)
    else some (b ++ l', rest)

/-- `strings.SplitN(s, sep, 2)` for a non-empty separator -/
def splitSub2 (sep s : List Char) : List (List Char) :=
  match cutSub sep s [] with
  | some (a, b) => [a, b]
  | none => [s]

def getLowestVersionGo (s : List Char) : Option (List Char × List Char × List Char) :=
  if unsupported s then some (nameFromRequirement s, [], [])
  else
    match ["===".toList, "==".toList, ">=".toList, "<=".toList, "~=".toList].find? (fun p => containsSub p s) with
    | none => some (s, [], [])
    | some sep =>
      let t := splitSub2 sep s
      if t.length ≠ 2 then some ([], [], []) else
      match goIndex t 0, goIndex t 1 with
      | some a, some b => some (a, b, sep)
      | _, _ => none

def lineReqGo (l0 : List Char) : Option (Option (List Char × List Char)) :=
  let l1 := cutOptions l0 []
  let requirement := trimSpace l1
  let l2 := l1.filter (fun c => !(c = ' ' || c = '\t' || c = '\r'))
  match goIndex (splitN ';' 2 l2) 0 with
  | none => none
  | some l3 =>
    let l := rmExtras l3 none []
    if l.isEmpty then some none
    else if hasPrefix ['-'] l then some none
    else
      match getLowestVersionGo l with
      | none => none
      | some (name, version, comp) =>
        if name.isEmpty then some none
        else if version.isEmpty && !comp.isEmpty then some none
        else if !validPkg name then some none
        else if !hasPrefix name requirement then some none
        else some (some (name, version))

def loopGo : Nat → List Line → List (List Char × List Char) → Option (List (List Char × List Char))
  | 0, _, acc => some acc
  | _ + 1, [], acc => some acc
  | fuel + 1, l :: rest, acc =>
    match readLogicalGo (l :: rest) [] with
    | none => none
    | some (logical, rest') =>
      match lineReqGo logical with
      | none => none
      | some r => loopGo fuel rest' (match r with | some p => acc ++ [p] | none => acc)

def parse (bytes : List Char) : Outcome (List (List Char × List Char)) :=
  let (ls, tl) := scan bytes
  match loopGo (ls.length + 1) ls [] with
  | none => .panic
  | some pkgs => if tl then .err else .ok pkgs

/-! ### `-r` includes: `Extract` + `extractFromExtraPaths`

`extractFromPath` also collects, per logical line, the operand of a `-r` option (the text after "-r" in the line
with options, white space, marker and extras removed) joined to the directory of the file it stands in; `Extract`
then runs a work list over those paths: a path already in `found` is skipped, a file that cannot be opened or whose
scanner fails is skipped (logged), every other file is parsed once, its packages get the location list
`[top-level path, its own path]` and its own includes go to the END of the queue. Only the `-r` spelling is followed
(`--requirement`, `-c`, `--constraint` are "global options other than -r": skipped). -/

/-- the line `extractFromPath` tests for a leading "-r" -/
def normLine (l0 : List Char) : List Char :=
  rmExtras (beforeSemi ((cutOptions l0 []).filter (fun c => !(c = ' ' || c = '\t' || c = '\r')))) none []

/-- operand of a `-r` line (`strings.TrimPrefix(l, "-r")`) -/
def lineInc (l0 : List Char) : Option (List Char) :=
  let l := normLine l0
  if hasPrefix ['-', 'r'] l then some (l.drop 2) else none

/-- the `extraPaths` a file contributes (operands, in file order), same loop as `loop` -/
def incLoop : Nat → List Line → List (List Char) → List (List Char)
  | 0, _, acc => acc
  | _ + 1, [], acc => acc
  | fuel + 1, l :: rest, acc =>
    let (logical, rest') := readLogical (l :: rest) []
    incLoop fuel rest' (match lineInc logical with | some p => acc ++ [p] | none => acc)

def includes (bytes : List Char) : List (List Char) :=
  let (ls, _) := scan bytes
  incLoop (ls.length + 1) ls []

/-! #### `filepath.Join(filepath.Dir(path), operand)` on slash paths -/

def splitAll (c : Char) : List Char → List Char → List (List Char)
  | [], cur => [cur.reverse]
  | x :: t, cur => if x = c then cur.reverse :: splitAll c t [] else splitAll c t (x :: cur)

/-- `path.Clean` on components; `st`: components kept so far, innermost first -/
def cleanComps (rooted : Bool) : List (List Char) → List (List Char) → List (List Char)
  | [], st => st.reverse
  | c :: t, st =>
    if c = [] || c = ['.'] then cleanComps rooted t st
    else if c = ['.', '.'] then
      match st with
      | top :: st' => if top = ['.', '.'] then cleanComps rooted t (c :: st) else cleanComps rooted t st'
      | [] => if rooted then cleanComps rooted t [] else cleanComps rooted t [c]
    else cleanComps rooted t (c :: st)

def joinSlash : List (List Char) → List Char
  | [] => []
  | [c] => c
  | c :: d :: t => c ++ '/' :: joinSlash (d :: t)

/-- `filepath.Clean` (unix) -/
def clean (p : List Char) : List Char :=
  if p.isEmpty then ['.'] else
  let rooted := p.head? = some '/'
  let out := joinSlash (cleanComps rooted (splitAll '/' p []) [])
  if rooted then '/' :: out else if out.isEmpty then ['.'] else out

/-- `filepath.Dir`: `Clean` of everything up to and including the last '/' -/
def dirOf (p : List Char) : List Char := clean (p.reverse.dropWhile (· ≠ '/')).reverse

/-- `filepath.Join(filepath.Dir(from), operand)`: the include is relative to the directory of the INCLUDING file -/
def resolve (src operand : List Char) : List Char := clean (dirOf src ++ '/' :: operand)

/-! #### the work list -/

/-- path → content; `fs.Open` of a path that is not a key fails -/
abbrev Files := List (Line × List Char)

def openFile (fs : Files) (p : Line) : Option (List Char) := (fs.find? (fun x => x.1 = p)).map (·.2)

/-- `openAndExtractFromFile`: packages and resolved includes of one file; `.err` = cannot open / scanner error (skipped) -/
def visit (fs : Files) (p : Line) : Outcome (List (List Char × List Char) × List Line) :=
  match openFile fs p with
  | none => .err
  | some b =>
    match parse b with
    | .ok pk => .ok (pk, (includes b).map (resolve p))
    | .err => .err
    | .panic => .panic

/-- `pkgs = append(pkgs, newPKG...)` in front of what the rest of the loop reads -/
def pushRead {α : Type} (x : Line × α) : Outcome (List (Line × α)) → Outcome (List (Line × α))
  | .ok r => .ok (x :: r)
  | o => o

/-- the loop of `extractFromExtraPaths` over `queue` with the `found` set; the result lists every file read, in the order read -/
def walk {α : Type} (visit : Line → Outcome (α × List Line)) : Nat → List Line → List Line → Outcome (List (Line × α))
  | 0, _, _ => .ok []
  | _ + 1, [], _ => .ok []
  | fuel + 1, p :: q, found =>
    if p ∈ found then walk visit fuel q found
    else
      match visit p with
      | .panic => .panic
      | .err => walk visit fuel q found
      | .ok (a, incs) => pushRead (p, a) (walk visit fuel (q ++ incs) (p :: found))

/-- what reading `p` appends to the queue -/
def incCount {α : Type} (visit : Line → Outcome (α × List Line)) (p : Line) : Nat :=
  match visit p with
  | .ok (_, incs) => incs.length
  | _ => 0

/-- enough iterations for the Go loop (which has no bound): every iteration either drops a queue entry or reads a file
that was not read before and appends its includes (`walk_fuel` in Proofs/Parsers/RequirementsTree.lean: any larger value gives the same result) -/
def walkFuel (fs : Files) (q : List Line) : Nat :=
  q.length + (fs.map fun x => 1 + incCount (visit fs) x.1).sum + 1

/-- `Extract`: (name, version, locations) of the top-level file and of every file its includes reach -/
def extractAll (fs : Files) (top : Line) (bytes : List Char) : Outcome (List (List Char × List Char × List Line)) :=
  match parse bytes with
  | .ok pk =>
    let q := (includes bytes).map (resolve top)
    match walk (visit fs) (walkFuel fs q) q [top] with
    | .ok r => .ok (pk.map (fun x => (x.1, x.2, [top])) ++ r.flatMap (fun y => y.2.map (fun x => (x.1, x.2, [top, y.1]))))
    | .err => .err
    | .panic => .panic
  | .err => .err
  | .panic => .panic

end Scalibr.Parsers.Requirements
