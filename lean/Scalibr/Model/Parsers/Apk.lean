/-
Model of `extractor/filesystem/os/apk`: `parseSingleApkRecord` + the record loop of `extractFromInput`,
on raw bytes. Mirrors the Go code:
  * `bufio.Scanner` lines (`Common.scan`), `scanner.Err()` = the too-long flag;
  * a non-empty line without ':' is an error; `group[key] = val` is a Go map (last duplicate wins);
  * an empty line ends a record only when the group is non-empty;
  * at end of input the pending group is returned together with `scanner.Err()`;
  * an empty record ends the loop; a record with empty `P` or `V` is skipped.
Only (name, version) are kept.
-/
import Scalibr.Model.Parsers.Common
namespace Scalibr.Parsers.Apk
open Scalibr.Parsers

/-- the Go map of one record, as an association list with unique keys -/
abbrev Rec := List (List Char × List Char)

/-- `group[key] = val` -/
def put (r : Rec) (k v : List Char) : Rec := (r.filter (·.1 ≠ k)) ++ [(k, v)]

/-- `record[k]` (the zero value "" when absent) -/
def get (r : Rec) (k : List Char) : List Char := ((r.find? (·.1 = k)).map (·.2)).getD []

/-- `parseSingleApkRecord`: one record from the remaining lines → (record, remaining lines), or the error.
`tl` = the scanner stopped with ErrTooLong. -/
def parseRecord (tl : Bool) : List Line → Rec → Option (Rec × List Line)
  | [], g => if tl then none else some (g, [])
  | l :: rest, g =>
    if !l.isEmpty then
      match cutAt ':' l with
      | none => none
      | some (k, v) => parseRecord tl rest (put g k v)
    else if !g.isEmpty then some (g, rest)
    else parseRecord tl rest g

/-- the record loop; every iteration consumes at least one line or stops, so `lines + 2` iterations suffice -/
def extract (tl : Bool) : Nat → List Line → List (List Char × List Char) → Option (List (List Char × List Char))
  | 0, _, acc => some acc
  | fuel+1, ls, acc =>
    match parseRecord tl ls [] with
    | none => none
    | some (r, rest) =>
      if r.isEmpty then some acc else
      let n := get r ['P']
      let v := get r ['V']
      extract tl fuel rest (if n.isEmpty || v.isEmpty then acc else acc ++ [(n, v)])

/-- `Extract` on the file's bytes: the (name, version) pairs in file order -/
def parse (bytes : List Char) : Outcome (List (List Char × List Char)) :=
  let (ls, tl) := scan bytes
  match extract tl (ls.length + 2) ls [] with
  | none => .err
  | some ps => .ok ps

end Scalibr.Parsers.Apk
