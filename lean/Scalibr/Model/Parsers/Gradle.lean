/-
Model of `extractor/filesystem/language/java/gradlelockfile`: `Extract`, `isGradleLockFileDepLine`,
`parseToGradlePackageDetail`, on raw bytes.
  * every scanner line is `strings.TrimSpace`d;
  * lines starting with `#` or `empty=` are skipped;
  * `strings.SplitN(line, ":", 3)` must give three parts, the first two non-empty (fix 58056712), and the third must contain `=`, otherwise the line is
    skipped (the error of `parseToGradlePackageDetail` is swallowed by `continue`);
  * name = group ":" artifact, version = the third part up to its first `=`;
  * `scanner.Err()` after the loop fails the file.
-/
import Scalibr.Model.Parsers.Common
namespace Scalibr.Parsers.Gradle
open Scalibr.Parsers

/-- `isGradleLockFileDepLine` + `parseToGradlePackageDetail` as written: `strings.SplitN(line, ":", 3)`, the
`len(parts) < 3` guard, `parts[0], parts[1], parts[2]`, `strings.Contains(version, "=")`,
`strings.SplitN(version, "=", 2)[0]`. Outer `none` = Go would panic with an index out of range. -/
def gradleLineGo (raw : Line) : Option (Option (List Char × List Char)) :=
  let l := trimSpace raw
  if hasPrefix ['#'] l || hasPrefix "empty=".toList l then some none else
  let parts := splitN ':' 3 l
  if parts.length < 3 then some none else
  match goIndex parts 0, goIndex parts 1, goIndex parts 2 with
  | some g, some a, some v =>
    if g.isEmpty || a.isEmpty then some none else      -- not a Maven coordinate (fix 58056712)
    if !v.contains '=' then some none else
    match goIndex (splitN '=' 2 v) 0 with
    | some ver => some (some (g ++ ':' :: a, ver))
    | none => none
  | _, _, _ => none

/-- the same function written with `strings.Cut` (no indexing); `gradleLineGo_eq` (Proofs) shows
`gradleLineGo raw = some (gradleLine raw)` for every line — that IS the no-panic statement for this parser -/
def gradleLine (raw : Line) : Option (List Char × List Char) :=
  let l := trimSpace raw
  if hasPrefix ['#'] l || hasPrefix "empty=".toList l then none else
  match cutAt ':' l with
  | none => none
  | some (g, r1) =>
    match cutAt ':' r1 with
    | none => none
    | some (a, v) =>
      if g.isEmpty || a.isEmpty then none else
      match cutAt '=' v with
      | none => none
      | some (ver, _) => some (g ++ ':' :: a, ver)

def parse (bytes : List Char) : Outcome (List (List Char × List Char)) :=
  let (ls, tl) := scan bytes
  match ls.mapM gradleLineGo with
  | none => .panic
  | some xs => if tl then .err else .ok (xs.filterMap id)

end Scalibr.Parsers.Gradle
