/-
Model of `extractor/filesystem/language/java/gradlelockfile`: `Extract`, `isGradleLockFileDepLine`,
`parseToGradlePackageDetail`, on raw bytes.
  * every scanner line is `strings.TrimSpace`d;
  * lines starting with `#` or `empty=` are skipped;
  * `strings.SplitN(line, ":", 3)` must give three parts and the third must contain `=`, otherwise the line is
    skipped (the error of `parseToGradlePackageDetail` is swallowed by `continue`);
  * name = group ":" artifact, version = the third part up to its first `=`;
  * `scanner.Err()` after the loop fails the file.
-/
import Scalibr.Model.Parsers.Common
namespace Scalibr.Parsers.Gradle
open Scalibr.Parsers

def gradleLine (raw : Line) : Option (List Char × List Char) :=
  let l := trimSpace raw
  if hasPrefix ['#'] l || hasPrefix "empty=".toList l then none else
  match cutAt ':' l with
  | none => none
  | some (g, r1) =>
    match cutAt ':' r1 with
    | none => none
    | some (a, v) =>
      match cutAt '=' v with
      | none => none
      | some (ver, _) => some (g ++ ':' :: a, ver)

def parse (bytes : List Char) : Outcome (List (List Char × List Char)) :=
  let (ls, tl) := scan bytes
  let pkgs := ls.filterMap gradleLine
  if tl then .err else .ok pkgs

end Scalibr.Parsers.Gradle
