/-
Model of `extractor/filesystem/os/dpkg` for `var/lib/dpkg/status` (default config: not-installed packages are
left out), on raw bytes, including the part of `net/textproto.Reader.ReadMIMEHeader` the extractor relies on:
  * `bufio.Reader.ReadLine`: lines end at '\n', "\r\n" is dropped from terminated lines, a final unterminated
    chunk is returned as is (its '\r' is kept); no length limit (`readLineSlice` joins the pieces);
  * a stanza must not begin with a space or tab ("malformed MIME header initial line");
  * a logical line = first physical line (must contain ':') + following lines that start with space/tab, each
    trimmed of spaces/tabs and joined with one ' ';
  * key = text before the first ':', must be non-empty and made of header-field bytes (or spaces, which switch
    canonicalisation off); canonical form = upper case at the start and after '-', lower case elsewhere;
  * value bytes must be printable, space, tab or ≥ 0x80; the value loses leading spaces/tabs;
    `MIMEHeader.Get` returns the FIRST value stored under a key;
  * an empty physical line ends the stanza; end of input ends it with `io.EOF`.
Record loop (`extractFromInput`): an empty header is skipped; no `Status` → skipped; `Status` must split on
" " into exactly three parts (else the whole file fails) and the third must be `installed`; empty name or
version → skipped; a `Source` value with " (" but not ending in ")" fails the file.
-/
import Scalibr.Model.Parsers.Common
namespace Scalibr.Parsers.Dpkg
open Scalibr.Parsers

/-- raw chunks with "was terminated by '\n'" -/
def rchunks : List Char → List Char → List (List Char × Bool)
  | [], cur => if cur.isEmpty then [] else [(cur.reverse, false)]
  | c :: s, cur => if c = '\n' then (cur.reverse, true) :: rchunks s [] else rchunks s (c :: cur)

/-- the lines `bufio.Reader.ReadLine` returns -/
def rlines (s : List Char) : List Line := (rchunks s []).map fun ct => if ct.2 then dropCR ct.1 else ct.1

def isSpTab (c : Char) : Bool := c = ' ' || c = '\t'
def startsSpTab (l : Line) : Bool := match l with | c :: _ => isSpTab c | [] => false
/-- textproto `trim` -/
def trimST (l : Line) : Line := ((l.dropWhile isSpTab).reverse.dropWhile isSpTab).reverse

def isLower (c : Char) : Bool := 'a'.toNat ≤ c.toNat && c.toNat ≤ 'z'.toNat
def isUpper (c : Char) : Bool := 'A'.toNat ≤ c.toNat && c.toNat ≤ 'Z'.toNat
def isDigit (c : Char) : Bool := '0'.toNat ≤ c.toNat && c.toNat ≤ '9'.toNat

/-- `validHeaderFieldByte` -/
def fieldByte (c : Char) : Bool :=
  isLower c || isUpper c || isDigit c || "!#$%&'*+-.^_`|~".toList.contains c

/-- `validHeaderValueByte`: VCHAR, SP, HTAB, and every byte ≥ 0x80 -/
def valueByte (c : Char) : Bool := (0x21 ≤ c.toNat && c.toNat ≤ 0x7E) || c = ' ' || c = '\t' || 0x80 ≤ c.toNat

/-- canonical capitalisation: `up` = the next letter is upper-cased -/
def canonAux : Bool → List Char → List Char
  | _, [] => []
  | up, c :: t =>
    let c' := if up && isLower c then Char.ofNat (c.toNat - 32)
              else if !up && isUpper c then Char.ofNat (c.toNat + 32) else c
    c' :: canonAux (c' = '-') t

/-- `canonicalMIMEHeaderKey` -/
def canonKey (k : List Char) : Option (List Char) :=
  if k.isEmpty then none
  else if k.all (fun c => fieldByte c || c = ' ') then
    (if k.contains ' ' then some k else some (canonAux true k))
  else none

/-- header as an association list; only the first value of a key is ever read -/
abbrev Hdr := List (List Char × List Char)

def get (h : Hdr) (k : List Char) : List Char := ((h.find? (·.1 = k)).map (·.2)).getD []

/-- store one logical line in the header (`none`: "malformed MIME header line") -/
def commit (h : Hdr) : Option (List Char) → Option Hdr
  | none => some h
  | some kv =>
    match cutAt ':' kv with
    | none => none
    | some (k, v) =>
      match canonKey k with
      | none => none
      | some key =>
        if v.all valueByte then
          (if h.any (·.1 = key) then some h else some (h ++ [(key, v.dropWhile isSpTab)]))
        else none

/-- one `ReadMIMEHeader` call after its initial-line check: (header, hit EOF, remaining lines), `none` = error.
`pend` is the logical line being assembled. -/
def stanza : List Line → Hdr → Option (List Char) → Option (Hdr × Bool × List Line)
  | [], h, pend => match commit h pend with
    | none => none
    | some h' => some (h', true, [])
  | l :: rest, h, pend =>
    if startsSpTab l && pend.isSome then stanza rest h (pend.map (· ++ ' ' :: trimST l))
    else match commit h pend with
      | none => none
      | some h' =>
        if l.isEmpty then some (h', false, rest)
        else if !l.contains ':' then none
        else stanza rest h' (some (trimST l))

/-- `strings.Split(s, " ")` -/
def splitSp : List Char → List Char → List (List Char)
  | [], cur => [cur.reverse]
  | c :: s, cur => if c = ' ' then cur.reverse :: splitSp s [] else splitSp s (c :: cur)

/-- `strings.Contains(s, " (")` -/
def containsSpParen : List Char → Bool
  | ' ' :: '(' :: _ => true
  | _ :: t => containsSpParen t
  | [] => false

inductive Verdict where
  | skip
  | pkg (name ver : List Char)
  | fail

/-- the body of the record loop for one non-empty header -/
def process (h : Hdr) : Verdict :=
  let status := get h "Status".toList
  if status.isEmpty then .skip else
  let parts := splitSp status []
  if parts.length ≠ 3 then .fail else
  if parts[2]? ≠ some "installed".toList then .skip else
  let name := get h "Package".toList
  let ver := get h "Version".toList
  if name.isEmpty || ver.isEmpty then .skip else
  let src := get h "Source".toList
  if !src.isEmpty && containsSpParen src && src.getLast? ≠ some ')' then .fail else
  .pkg name ver

/-- `strings.Index(s, " (")` (-1 when absent) -/
def indexSpParen : List Char → Int
  | [] => -1
  | c :: t =>
    if c = ' ' && t.head? = some '(' then 0
    else let i := indexSpParen t; if i < 0 then -1 else i + 1

/-- `parseSourceNameVersion` as written: `source[:idx]` and `source[idx+2 : len(source)-1]`.
Outer `none` = slice bounds out of range (panic); inner `none` = the function's error return. -/
def sourceNVGo (src : List Char) : Option (Option (List Char × List Char)) :=
  if src.isEmpty then some (some ([], [])) else
  let idx := indexSpParen src
  if idx ≠ -1 then
    (if src.getLast? ≠ some ')' then some none
     else match goSliceI src 0 idx, goSliceI src (idx + 2) ((src.length : Int) - 1) with
       | some n, some v => some (some (n, v))
       | _, _ => none)
  else some (some (src, []))

/-- the body of the record loop as written, with `parts[2]` as a Go index and the `Source` slices;
`none` = run-time panic -/
def processGo (h : Hdr) : Option Verdict :=
  let status := get h "Status".toList
  if status.isEmpty then some .skip else
  let parts := splitSp status []
  if parts.length ≠ 3 then some .fail else
  match goIndex parts 2 with
  | none => none
  | some st =>
    if st ≠ "installed".toList then some .skip else
    let name := get h "Package".toList
    let ver := get h "Version".toList
    if name.isEmpty || ver.isEmpty then some .skip else
    match sourceNVGo (get h "Source".toList) with
    | none => none
    | some none => some .fail
    | some (some _) => some (.pkg name ver)

/-- `Peek(1)` at the start of `ReadMIMEHeader`: does the next line start with a space or tab -/
def headSpTab : List Line → Bool
  | l :: _ => startsSpTab l
  | [] => false

/-- the record loop; every iteration consumes a line or stops -/
def loop : Nat → List Line → List (List Char × List Char) → Option (List (List Char × List Char))
  | 0, _, acc => some acc
  | fuel + 1, ls, acc =>
    if headSpTab ls then none else
    match stanza ls [] none with
    | none => none
    | some (h, eof, rest) =>
      if h.isEmpty then (if eof then some acc else loop fuel rest acc) else
      match process h with
      | .fail => none
      | .skip => if eof then some acc else loop fuel rest acc
      | .pkg n v => if eof then some (acc ++ [(n, v)]) else loop fuel rest (acc ++ [(n, v)])

/-- the record loop with the Go-shaped body (`loop` below is its index-free reformulation, `loopGo_eq`) -/
def loopGo : Nat → List Line → List (List Char × List Char) → Outcome (List (List Char × List Char))
  | 0, _, acc => .ok acc
  | fuel + 1, ls, acc =>
    if headSpTab ls then .err else
    match stanza ls [] none with
    | none => .err
    | some (h, eof, rest) =>
      if h.isEmpty then (if eof then .ok acc else loopGo fuel rest acc) else
      match processGo h with
      | none => .panic
      | some .fail => .err
      | some .skip => if eof then .ok acc else loopGo fuel rest acc
      | some (.pkg n v) => if eof then .ok (acc ++ [(n, v)]) else loopGo fuel rest (acc ++ [(n, v)])

def parse (bytes : List Char) : Outcome (List (List Char × List Char)) :=
  let ls := rlines bytes
  loopGo (ls.length + 2) ls []

/-! ### `var/lib/dpkg/status.d/<name>` (distroless images)

Same reader, two differences (`strings.Contains(input.Path, "status.d")`): a stanza WITHOUT a `Status` field is reported (the files of a
distroless image carry none); and when `ReadMIMEHeader` fails, the file yields no packages and no error (`return []*extractor.Package{}, nil`).
`usr/lib/opkg/status` is read exactly like `var/lib/dpkg/status` (`parse`). Tied to the Go code by the stream (format `dpkgd`); no round-trip
theorem is stated for this variant. -/

def processDGo (h : Hdr) : Option Verdict :=
  if (get h "Status".toList).isEmpty then
    let name := get h "Package".toList
    let ver := get h "Version".toList
    if name.isEmpty || ver.isEmpty then some .skip else
    match sourceNVGo (get h "Source".toList) with
    | none => none
    | some none => some .fail
    | some (some _) => some (.pkg name ver)
  else processGo h

def loopGoD : Nat → List Line → List (List Char × List Char) → Outcome (List (List Char × List Char))
  | 0, _, acc => .ok acc
  | fuel + 1, ls, acc =>
    if headSpTab ls then .ok [] else
    match stanza ls [] none with
    | none => .ok []
    | some (h, eof, rest) =>
      if h.isEmpty then (if eof then .ok acc else loopGoD fuel rest acc) else
      match processDGo h with
      | none => .panic
      | some .fail => .err
      | some .skip => if eof then .ok acc else loopGoD fuel rest acc
      | some (.pkg n v) => if eof then .ok (acc ++ [(n, v)]) else loopGoD fuel rest (acc ++ [(n, v)])

def parseD (bytes : List Char) : Outcome (List (List Char × List Char)) :=
  let ls := rlines bytes
  loopGoD (ls.length + 2) ls []

end Scalibr.Parsers.Dpkg
