/-
Which file sizes the layer trace hands to an extractor (C10, clause "never hands a file larger than
the size limit to any extractor", on the path scalibr.ScanContainer → trace.PopulateLayerDetails →
filesystem.Run → handleFile). One package-list file whose every version lists the same single package,
so the trace walks down the views until the file is missing or skipped.

  scalibr.go            ScanContainer copies MaxFileSize (and MaxInodes) of the scan config into the
                        filesystem.Config of the trace
  filesystem.go         handleFile: `if wc.maxFileSize > 0 && fSize > maxFileSize { skip }`
  trace.go              the backwards loop: Stat not-exist → not found; file not in the layer's diff → skip
                        the layer; otherwise re-extract that view
-/
namespace Scalibr.TraceSize

/-- per chain layer: the file is untouched, (re)written with this many bytes, or deleted -/
inductive SOp | keep | write (size : Nat) | delete
deriving DecidableEq, Repr

abbrev SHistory := List SOp

def applyS (cur : Option Nat) : SOp → Option Nat
  | .keep => cur
  | .write s => some s
  | .delete => none

/-- size of the file in the image-up-to-layer-`i` view; `none` = absent -/
def viewSize (h : SHistory) (i : Nat) : Option Nat := (h.take (i+1)).foldl applyS none

def inDiffS (h : SHistory) (i : Nat) : Bool :=
  match h[i]? with
  | some (.write _) => true
  | _ => false

/-- `handleFile`: with `MaxFileSize > 0` a file ABOVE the limit is skipped (a file of exactly the limit is read) -/
def skipped (limit size : Nat) : Bool := decide (limit > 0) && decide (size > limit)

/-- the sizes the trace hands to Extract for the file's package, layers `cnt-1 … 0`: a missing file or a
skipped (oversize) one yields no packages, so the package is "not found" there and the loop ends -/
def traceSizes (limit : Nat) (h : SHistory) : Nat → List Nat
  | 0 => []
  | i+1 =>
    match viewSize h i with
    | none => []
    | some s =>
      if inDiffS h i then (if skipped limit s then [] else s :: traceSizes limit h i)
      else traceSizes limit h i

/-- every size handed to Extract by `ScanContainer`: the main scan of the final view, then the trace -/
def handed (limit : Nat) (h : SHistory) : List Nat :=
  match viewSize h (h.length - 1) with
  | none => []
  | some s => if skipped limit s then [] else s :: traceSizes limit h (h.length - 1)

/-- how many `filesystem.Run` calls the trace makes for the file's package (each with a FRESH walk context, hence a
fresh inode counter, and each visiting exactly one inode: the file itself — also when the file is then skipped as
oversize) -/
def traceRuns (limit : Nat) (h : SHistory) : Nat → Nat
  | 0 => 0
  | i+1 =>
    match viewSize h i with
    | none => 0
    | some s =>
      if inDiffS h i then (if skipped limit s then 1 else 1 + traceRuns limit h i)
      else traceRuns limit h i

/-- inodes visited by the trace's re-runs during one `ScanContainer` (on top of the walk of the final view) -/
def traceInodes (limit : Nat) (h : SHistory) : Nat :=
  match viewSize h (h.length - 1) with
  | none => 0
  | some s => if skipped limit s then 0 else traceRuns limit h (h.length - 1)

end Scalibr.TraceSize
