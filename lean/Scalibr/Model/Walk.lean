/-
Model A — the filesystem walk engine (DESIGN.md §5.0), shared by C01, C02, C08, C09, C10.

Mirrors, statement by statement, `extractor/filesystem/filesystem.go` (`Run`, `runOnScanRoot`,
`UpdateScanRoot`, `RunFS` minus the status ticker, `walkIndividualPaths`, `handleFile`,
`postHandleFile`, `shouldSkipDir`, `runExtractor`, the lazy size `Stat`),
`internal/walkdir_iterate.go` (`WalkDirUnsorted`, `walkDirUnsorted` with its "second call reports the
ReadDir error" protocol and the deferred `postFN`) and `internal/gitignore.go`
(`ParseDirForGitignore`'s domain rule, `ParseParentGitignores`, `GitignoreMatch`).

External behaviour is data: `FileRequired`/`Extract` are tables in `Cfg`, the regexp / glob engines
are predicates on directory paths, the go-git matcher is the parameter `giMatch` (domain-aware),
faults are predicates on operation sites, cancellation is "the context is cancelled from inside the
k-th Extract call" (or before the scan). Paths are segment lists relative to the scan root; `[]` is ".".
-/
namespace Scalibr.Walk

abbrev Path := List String

inductive Kind | reg | symlink | special
deriving DecidableEq, Repr

/-- one .gitignore pattern of the modelled sub-language: a literal name, optionally `name/`, optionally `!name` -/
structure Pat where
  name : String
  dirOnly : Bool
  neg : Bool
deriving DecidableEq, Repr

abbrev PatSet := List Pat

inductive Node
  | file (k : Kind) (size : Nat)
  /-- `gi` = parsed content of `<dir>/.gitignore` when that file exists; `entries` in ReadDir order -/
  | dir (gi : Option PatSet) (entries : List (String × Node))
deriving Repr

/-- what a (fake or real) extractor's `Extract` does on a file -/
structure ExtractOut where
  pkgs : List Nat := []     -- ids of the packages it returns
  err : Bool := false       -- returns a non-nil error
  other : Bool := false     -- returns inventory that is neither a package nor a finding: counts as "produced results"
  panics : Bool := false    -- panics (the engine does not recover)
  finds : List Nat := []    -- ids of the findings it returns (inventory that is not a package; counts as "produced results")
deriving Repr

/-- `inventory.Inventory.IsEmpty` of the result -/
def ExtractOut.isEmpty (o : ExtractOut) : Bool := o.pkgs.isEmpty && !o.other && o.finds.isEmpty

structure Cfg where
  nExt : Nat                                   -- extractors 0 … nExt-1 in configuration order
  required : Nat → Path → Bool                 -- Extractor.FileRequired
  extract : Nat → Path → ExtractOut            -- Extractor.Extract
  paths : List Path := []                      -- PathsToExtract (relative to the root)
  ignoreSubDirs : Bool := false
  dirsToSkip : Path → Bool := fun _ => false   -- membership in DirsToSkip
  regex : Option (Path → Bool) := none         -- SkipDirRegex.MatchString on directory paths
  glob : Option (Path → Bool) := none          -- SkipDirGlob.Match on directory paths
  useGitignore : Bool := false
  readSymlinks : Bool := false
  maxInodes : Nat := 0
  maxFileSize : Nat := 0
  errorOnFSErrors : Bool := false
  cancelBefore : Bool := false                 -- ctx already cancelled when Scan is called
  cancelAt : Option Nat := none                -- ctx cancelled from inside the k-th Extract call (1-based, over the whole scan)
  /-- go-git: does pattern set `ps`, parsed with domain `dom`, exclude the path with tokens `toks`? -/
  giMatch : PatSet → List String → List String → Bool → Bool

/-- fault plan of one scan root: which operation sites fail (with a non-NotExist, non-permission error) -/
structure Faults where
  openFail : Path → Bool := fun _ => false          -- fs.Open(p) (directories, files, `.gitignore`)
  statFail : Path → Bool := fun _ => false          -- fs.Stat(p) (root of a walk, requested path, lazy size check)
  fileStatFail : Path → Bool := fun _ => false      -- Stat() on the opened file
  readEntryFail : Path → Nat → Bool := fun _ _ => false   -- the k-th ReadDir(1) of directory p (0-based; k = #entries is the EOF call)

inductive Err | none | maxInodes | ctx | fs | panic
deriving DecidableEq, Repr

/-- a reported package: id, producing extractor, file it came from -/
structure Pkg where
  id : Nat
  ext : Nat
  loc : Path
deriving DecidableEq, Repr

/-- a reported finding: id, producing extractor, file it came from -/
structure Fnd where
  id : Nat
  ext : Nat
  loc : Path
deriving DecidableEq, Repr

/-- one `runExtractor` invocation: extractor, path, size of the file, and whether the file could be
opened and stat'ed — only then is `Extract` really called -/
structure Call where
  ext : Nat
  path : Path
  size : Nat
  opened : Bool
deriving DecidableEq, Repr

/-- an entry of `wc.gitignores`: `none` = nil / empty matcher -/
abbrev GiEntry := Option (List String × PatSet)

structure St where
  inodes : Nat := 0              -- wc.inodesVisited
  visited : Nat := 0             -- stats.AfterInodeVisited calls
  calls : List Call := []        -- runExtractor invocations, in order (whole scan); `Extract` ran for the opened ones
  extracts : Nat := 0            -- wc.extractCalls: number of `Extract` invocations so far
  gis : List GiEntry := []       -- wc.gitignores
  giDirs : List Path := []       -- wc.gitignoreDirs
  errs : List Nat := []          -- wc.errors: one entry per addErrToMap call (reset per root)
  found : List Nat := []         -- wc.foundInv (reset per root)
  pkgs : List Pkg := []          -- wc.inventory.Packages (reset per root)
  cancelled : Bool := false      -- ctx.Err() != nil
  finds : List Fnd := []         -- findings of the roots completed so far followed by wc.inventory.Findings of the current root
                                 -- (a scan-wide log like `calls`: `Run` appends each root's inventory to the overall one)
deriving Repr

/-- `strings.Split(path, "/")` of a walked path: the root is "." -/
def tokens (p : Path) : List String := if p = [] then ["."] else p

/-- the pattern domain `ParseDirForGitignore` uses: empty for the scan root -/
def domainOf (p : Path) : List String := p

/-- `internal.GitignoreMatch` -/
def stackMatch (c : Cfg) (gis : List GiEntry) (toks : List String) (isDir : Bool) : Bool :=
  gis.any fun o => match o with
    | some (dom, ps) => c.giMatch ps dom toks isDir
    | none => false

def shouldSkipDir (c : Cfg) (gis : List GiEntry) (p : Path) : Bool :=
  if c.dirsToSkip p then true
  else if c.ignoreSubDirs && !c.paths.contains p then true
  else if c.useGitignore && p != [] && stackMatch c gis (tokens p) true then true   -- the scan root is never ignored
  else if (match c.regex with | some r => r p | none => false) then true
  else if (match c.glob with | some g => g p | none => false) then true
  else false

/-- the common prologue of `handleFile`: inode limit, `AfterInodeVisited`, context check -/
def prologue (c : Cfg) (s : St) : St × Option Err :=
  let s := { s with inodes := s.inodes + 1 }
  if c.maxInodes > 0 && s.inodes > c.maxInodes then (s, some .maxInodes) else
  let s := { s with visited := s.visited + 1 }
  if s.cancelled then (s, some .ctx) else (s, none)

/-- `handleFile(path, _, fserr)` with a non-nil `fserr` -/
def fserrCall (c : Cfg) (s : St) : St × Err :=
  let (s, e) := prologue c s
  match e with
  | some e => (s, e)
  | none => if c.errorOnFSErrors then (s, .fs) else (s, .none)

/-- `runExtractor`; the Bool says "Extract panicked" -/
def runExtractor (c : Cfg) (f : Faults) (s : St) (e : Nat) (p : Path) (size : Nat) : St × Bool :=
  if f.openFail p then ({ s with errs := s.errs ++ [e], calls := s.calls ++ [⟨e, p, size, false⟩] }, false) else
  if f.fileStatFail p then ({ s with errs := s.errs ++ [e], calls := s.calls ++ [⟨e, p, size, false⟩] }, false) else
  let s := { s with calls := s.calls ++ [⟨e, p, size, true⟩], extracts := s.extracts + 1 }
  let s := if c.cancelAt = some s.extracts then { s with cancelled := true } else s
  let out := c.extract e p
  if out.panics then (s, true) else
  let s := if out.err then { s with errs := s.errs ++ [e] } else s
  if out.isEmpty then (s, false)
  else ({ s with found := s.found ++ [e], pkgs := s.pkgs ++ out.pkgs.map fun i => ⟨i, e, p⟩,
                 finds := s.finds ++ out.finds.map fun i => ⟨i, e, p⟩ }, false)

/-- the loop over extractors with the lazy size check (`fSize == -1` ⇔ `checked = false`) -/
def extractLoop (c : Cfg) (f : Faults) (p : Path) (size : Nat) : St → List Nat → Bool → St × Option Err
  | s, [], _ => (s, none)
  | s, e :: rest, checked =>
    if c.required e p then
      if c.maxFileSize > 0 && !checked then
        if f.statFail p then (if c.errorOnFSErrors then (s, some .fs) else (s, none))
        else if size > c.maxFileSize then (s, none)
        else
          let (s', pan) := runExtractor c f s e p size
          if pan then (s', some .panic) else extractLoop c f p size s' rest true
      else
        let (s', pan) := runExtractor c f s e p size
        if pan then (s', some .panic) else extractLoop c f p size s' rest checked
    else extractLoop c f p size s rest checked

/-- `handleFile` for a non-directory, after the prologue -/
def handleLeaf (c : Cfg) (f : Faults) (s : St) (p : Path) (k : Kind) (size : Nat) : St × Option Err :=
  if (k = .special) || (k = .symlink && !c.readSymlinks) then (s, none) else
  if c.useGitignore && stackMatch c s.gis (tokens p) false then (s, none) else
  extractLoop c f p size s (List.range c.nExt) false

/-- the gitignore part of `handleFile` for a directory -/
def pushGi (c : Cfg) (f : Faults) (s : St) (p : Path) (gi : Option PatSet) : St × Option Err :=
  if c.useGitignore then
    if shouldSkipDir c s.gis p then
      ({ s with gis := s.gis ++ [none], giDirs := s.giDirs ++ [p] }, none)
    else if f.openFail (p ++ [".gitignore"]) then
      if c.errorOnFSErrors then (s, some .fs)
      else ({ s with gis := s.gis ++ [none], giDirs := s.giDirs ++ [p] }, none)
    else ({ s with gis := s.gis ++ [gi.map fun ps => (domainOf p, ps)], giDirs := s.giDirs ++ [p] }, none)
  else (s, none)

/-- the deferred `postHandleFile(path, d)` for a directory: pop only what this directory pushed.
Slicing an empty `wc.gitignores` would be a Go run-time panic. -/
def popOnExit (c : Cfg) (s : St) (p : Path) (e : Err) : St × Err :=
  if c.useGitignore && s.giDirs.getLast? = some p then
    if s.gis.isEmpty then ({ s with giDirs := s.giDirs.dropLast }, .panic)
    else ({ s with giDirs := s.giDirs.dropLast, gis := s.gis.dropLast }, e)
  else (s, e)

mutual
/-- `walkDirUnsorted(name, d, …)` -/
def walkNode (c : Cfg) (f : Faults) (s : St) (p : Path) : Node → St × Err
  | .file k size =>
    let (s, e) := prologue c s
    match e with
    | some e => (s, e)
    | none => let (s, e) := handleLeaf c f s p k size; (s, e.getD .none)
  | .dir gi es =>
    let (s, e) := prologue c s
    match e with
    | some e => popOnExit c s p e
    | none =>
      let (s, e) := pushGi c f s p gi
      match e with
      | some e => popOnExit c s p e
      | none =>
        if shouldSkipDir c s.gis p then popOnExit c s p .none        -- fs.SkipDir, converted to nil
        else if f.openFail p then                                      -- readDir: Open(name) fails → second call
          let (s, e) := fserrCall c s
          popOnExit c s p e
        else
          let (s, e) := walkEntries c f s p es 0
          popOnExit c s p e
/-- the `for { dirs.next() … }` loop; `k` = index of the `ReadDir(1)` call.
When the directory handle does not implement `fs.ReadDirFile`, `readDir` preloads the whole listing with ONE `fsys.ReadDir`
call and `next` serves it from memory: that is this same loop under a fault plan in which only read 0 of a directory can fail
(a failing `fsys.ReadDir` is reported by the second call before any entry is visited, exactly like a failing read 0); the
harness exercises that fallback (`nrd=`) with such plans. -/
def walkEntries (c : Cfg) (f : Faults) (s : St) (p : Path) : List (String × Node) → Nat → St × Err
  | [], k =>
    if f.readEntryFail p k then fserrCall c s      -- the call that would have returned io.EOF fails instead
    else (s, .none)
  | (name, n) :: rest, k =>
    if f.readEntryFail p k then fserrCall c s      -- "End iteration after an error"
    else
      let (s, e) := walkNode c f s (p ++ [name]) n
      if e ≠ .none then (s, e) else walkEntries c f s p rest (k+1)
end

def lookup : Node → Path → Option Node
  | n, [] => some n
  | .dir _ es, s :: rest =>
    match es.find? (·.1 = s) with
    | some (_, ch) => lookup ch rest
    | none => none
  | .file .., _ :: _ => none

/-- `WalkDirUnsorted(fsys, root, …)` -/
def walkFrom (c : Cfg) (f : Faults) (s : St) (root : Node) (p : Path) : St × Err :=
  if f.statFail p then fserrCall c s else
  match lookup root p with
  | none => fserrCall c s
  | some n => walkNode c f s p n

/-- content of `<d>/.gitignore` as `ParseDirForGitignore` sees it: `none` for "no such file" and for an
unreadable one (whose error is reported separately) -/
def giOfDir (f : Faults) (root : Node) (d : Path) : GiEntry :=
  if f.openFail (d ++ [".gitignore"]) then none else
  match lookup root d with
  | some (.dir (some ps) _) => some (domainOf d, ps)
  | _ => none

/-- proper prefixes of `p`, the scan root first: the directories `ParseParentGitignores` visits -/
def properPrefixes (p : Path) : List Path := (List.range p.length).map fun k => p.take k

/-- `ParseParentGitignores`: patterns of the files that could be read, and whether some could not -/
def parentGis (f : Faults) (root : Node) (p : Path) : List GiEntry × Bool :=
  let ds := properPrefixes p
  (ds.map (giOfDir f root), ds.any fun d => f.openFail (d ++ [".gitignore"]))

/-- the kind `fs.Stat` reports: links are followed -/
def statKind : Kind → Kind
  | .symlink => .reg
  | k => k

/-- one iteration of `walkIndividualPaths` -/
def walkRequested (c : Cfg) (f : Faults) (s : St) (root : Node) (p : Path) : St × Err :=
  if f.statFail p then fserrCall c s else
  match lookup root p with
  | none => fserrCall c s
  | some (.dir _ _) =>
    if c.useGitignore then
      let (gs, failed) := parentGis f root p
      if failed && c.errorOnFSErrors then (s, .fs) else
      let (s, e) := walkFrom c f { s with gis := gs } root p
      ({ s with gis := [] }, e)
    else
      let (s, e) := walkFrom c f s root p
      ({ s with gis := [] }, e)
  | some (.file k sz) =>
    -- `fs.Stat` follows links: a requested symlink is handled as the (regular) file it points to
    let (s, e) := prologue c s
    match e with
    | some e => (s, e)
    | none => let (s, e) := handleLeaf c f s p (statKind k) sz; (s, e.getD .none)

def walkPaths (c : Cfg) (f : Faults) (root : Node) : St → List Path → St × Err
  | s, [] => (s, .none)
  | s, p :: rest =>
    let (s, e) := walkRequested c f s root p
    if e ≠ .none then (s, e) else walkPaths c f root s rest

/-- `UpdateScanRoot` + `RunFS` for one root -/
def runRoot (c : Cfg) (f : Faults) (s : St) (root : Node) : St × Err :=
  let s := { s with pkgs := [], errs := [], found := [] }
  if c.paths.isEmpty then walkFrom c f s root [] else walkPaths c f root s c.paths

inductive Status | ok | failed | part
deriving DecidableEq, Repr

/-- `plugin.StatusFromErr` over `wc.errors` / `wc.foundInv` -/
def statusOf (s : St) (e : Nat) : Status :=
  if s.errs.contains e then (if s.found.contains e then .part else .failed) else .ok

/-- result of `filesystem.Run` -/
structure RunResult where
  err : Err
  pkgs : List Pkg                 -- inventory, in emission order
  statuses : List (Nat × Status)  -- one entry per extractor per root, in emission order
  calls : List Call
  visited : Nat
  finds : List Fnd := []          -- findings of the filesystem extractors, in collection order (empty when the scan fails)
deriving Repr

/-- `filesystem.Run`: all roots share one walk context; a failing root discards everything -/
def runRoots (c : Cfg) : St → List Pkg → List (Nat × Status) → List (Node × Faults) → RunResult
  | s, acc, sts, [] => ⟨.none, acc, sts, s.calls, s.visited, s.finds⟩
  | s, acc, sts, (r, f) :: rest =>
    let (s, e) := runRoot c f s r
    if e ≠ .none then ⟨e, [], [], s.calls, s.visited, []⟩
    else runRoots c s (acc ++ s.pkgs) (sts ++ (List.range c.nExt).map fun x => (x, statusOf s x)) rest

def run (c : Cfg) (roots : List (Node × Faults)) : RunResult :=
  runRoots c { cancelled := c.cancelBefore } [] [] roots

end Scalibr.Walk
