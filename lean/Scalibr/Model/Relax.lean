/-
Model of `relaxer/npm.go` `NpmRelaxer.Relax` (C11), table-driven: deps.dev's semver is a parameter.
For the package's concrete versions sorted by `semver.NPM.Compare` (indices 0..n-1) the harness hands
over `mat i` (the constraint matches version i), `isPre i`, and `diff i j` (`semver.NPM.Difference`,
`none` = error).  The model is the control flow of `Relax` after the constraint has been parsed.
-/
import Scalibr.Model.Upgrade
namespace Scalibr.Relax
open Scalibr.Upgrade

structure T where
  n : Nat
  mat : Nat → Bool
  isPre : Nat → Bool
  diff : Nat → Nat → Option Nat

/-- the downward loop `for lastIdx = len(vers)-1; lastIdx >= 0; lastIdx--`: returns (lastIdx or none
for -1, nextIdx or none for -1, nextIsPre) -/
def scanTop (t : T) : Nat → Option Nat → Bool → Option Nat × Option Nat × Bool
  | 0, next, pre => (none, next, pre)
  | i + 1, next, pre =>
    if t.mat i then (some i, next, pre)
    else if !t.isPre i || pre then scanTop t i (some i) (t.isPre i)
    else scanTop t i next pre

/-- the upward loop `for i := nextIdx + 1; i < len(vers); i++` -/
def best (t : T) (level cmp diff : Nat) (nextIsPre : Bool) : Nat → Nat → Nat → Nat
  | 0, _, cur => cur
  | fuel + 1, i, cur =>
    if i ≥ t.n then cur else
    match t.diff cmp i with
    | none => best t level cmp diff nextIsPre fuel (i + 1) cur
    | some d =>
      if !allows level d then cur else
      if d < diff then cur else
      best t level cmp diff nextIsPre fuel (i + 1) (if !t.isPre i || nextIsPre then i else cur)

structure Out where
  tilde : Bool      -- "~" (true) or "^"
  idx : Nat         -- index of the version the new requirement is built from
  last : Nat        -- index of the highest version matching the old requirement
deriving Repr, DecidableEq

def relax (t : T) (level : Nat) : Option Out :=
  if level = lNone then none else
  match scanTop t t.n none true with
  | (_, none, _) => none
  | (none, _, _) => none
  | (some last, some next, nextIsPre) =>
    let d0 := (t.diff last next).getD dOther
    if !allows level d0 then none else
    let cd : Nat × Nat := if d0 = dMajor then (next, dMinor) else (last, d0)
    let b := best t level cd.1 cd.2 nextIsPre (t.n + 1) (next + 1) next
    -- "~" for a patch-level step and, since fix 26b0cdcf, whenever the level is patch (a step out of a prerelease is allowed there,
    -- but "^" would admit later minor versions)
    some ⟨cd.2 = dPatch || level = lPatch, b, last⟩

end Scalibr.Relax
