/-
The rest of the image loader around `Model/Overlay.lean` (C04, C10 layer byte limit):

* name cleaning of tar entries (`path.Clean`, leading "/" trimmed — fix 28159aa2 —, the `../` filter,
  basename `.`/`..` skip, whiteout detection with `whiteout.ToPath`, virtual path construction);
* `handleDir` / `handleFile` / `handleSymlink` as acceptance tests (size limit, `TargetOutsideRoot`,
  empty link target) and their effect on the layer's extraction directory (`os.MkdirAll`,
  `os.OpenFile(O_CREATE|O_RDWR)` without truncation, `io.LimitReader`);
* `initializeChainLayers`' alignment of history entries and layers;
* `removeUnnecessaryFileNodes` on the final chain layer (whiteout nodes are kept — fix 4d55a770; directories emptied by
  `pathtree.Remove` are put back);
* what `fs.WalkDir` and direct lookups observe.
-/
import Scalibr.Model.GoPath
import Scalibr.Model.Overlay
namespace Scalibr.Overlay
open Scalibr.GoPath

/-- a tar header as the generator writes it: typ d(ir) f(ile) s(ymlink) h(ard link) o(ther) -/
structure RawEntry where
  typ : Char
  name : String
  mode : Nat
  size : Nat
  cid : Nat
  link : String
deriving Repr

/-- what the loop body does with an entry that passed the "already exists" test -/
inductive Act
  | accept      -- node created, parents populated, chains filled
  | big         -- regular file with size ≥ MaxFileBytes: written (truncated) to disk, then skipped
  | badlink     -- symlink pointing outside the root: skipped
  | fatal       -- symlink without a target: the whole load fails
  | other       -- unsupported type flag: skipped
deriving DecidableEq, Repr

structure PEntry where
  e : Entry
  real : Path       -- cleanedFilePath: where the entry lands below the layer directory
  act : Act
deriving Repr

/-- `"/" + path.Join(dirname, whiteout.ToPath(basename))` for a non-directory whiteout entry -/
def whVirtual (dir : Path) (stripped : String) : Path :=
  if stripped = "" || stripped = "." then (if dir = [] then ["."] else dir)
  else if stripped = ".." then
    match dir with
    | [] => [".."]
    | [_] => ["."]
    | _ => dir.dropLast
  else dir ++ [stripped]

/-- `symlink.TargetOutsideRoot(virtualPath, target)`: lexical, marker directory popped by a ".." -/
def targetOutsideRoot (vp : Path) (target : String) : Bool :=
  if isAbs target then (cleanComps false (comps target)).1 > 0
  else (cleanComps false (vp.dropLast ++ comps target)).1 > 0

/-- `fileNode.targetPath` as trie segments: `path.Clean` of the absolute target, or of the relative one joined to
the link's directory (fix a23f8926 cleans absolute targets too) -/
def targetSegs (vp : Path) (target : String) : List String :=
  if isAbs target then (cleanComps true (comps target)).2
  else (cleanComps true (vp.dropLast ++ comps target)).2

/-- `handleSymlink` -/
def linkEntry (vp segs : Path) (isWh : Bool) (mode : Nat) (link : String) : PEntry :=
  if link = "" then ⟨⟨vp, .link, isWh, mode, 0, 0, []⟩, segs, .fatal⟩
  else if targetOutsideRoot vp link then ⟨⟨vp, .link, isWh, mode, 0, 0, []⟩, segs, .badlink⟩
  else ⟨⟨vp, .link, isWh, mode, 0, 0, targetSegs vp link⟩, segs, .accept⟩

/-- the type switch of the loop body: `handleDir` / `handleFile` / `handleSymlink` as acceptance tests -/
def classify (limit : Nat) (r : RawEntry) (vp segs : Path) (isWh : Bool) : PEntry :=
  match r.typ with
  | 'd' => ⟨⟨vp, .dir, isWh, r.mode, 0, 0, []⟩, segs, .accept⟩
  | 'f' => ⟨⟨vp, .file, isWh, r.mode, r.size, r.cid, []⟩, segs, if r.size ≥ limit then .big else .accept⟩
  | 's' => linkEntry vp segs isWh r.mode r.link
  | 'h' =>
    -- fix 810cd19c: a hard link names another entry of the archive: "/" + TrimPrefix(Linkname, "/")
    linkEntry vp segs isWh r.mode ("/" ++ (if isAbs r.link then (r.link.drop 1).toString else r.link))
  | _ => ⟨⟨vp, .link, isWh, r.mode, 0, 0, []⟩, segs, .other⟩

def normEntry (limit : Nat) (r : RawEntry) : Option PEntry :=
  let c := clean r.name
  -- cleanedFilePath = TrimPrefix(Clean(name), "/"); "" / "." / ".." / "../x" are skipped
  if c.ups > 0 || c.segs = [] then none else
  let segs := c.segs
  let base := segs.getLast?.getD ""
  let dir := segs.dropLast
  let isWh := base.startsWith ".wh."
  let vp : Path := if r.typ = 'd' || !isWh then segs else whVirtual dir (base.drop 4).toString
  some (classify limit r vp segs isWh)

def normLayer (limit : Nat) (l : List RawEntry) : List PEntry := l.filterMap (normEntry limit)

/-- the node an entry leaves in the path tree: its own when it is accepted; a WHITEOUT of its path when it is rejected for its
size or as a link out of the root (fix <P3>: the entry cannot be exposed, but it still replaces what older layers have there;
the kind of a whiteout node is immaterial — `.link` keeps "no file node of the limit's size or more" literal); none otherwise -/
def PEntry.node? (pe : PEntry) : Option Entry :=
  match pe.act with
  | .accept => some pe.e
  | .big => some ⟨pe.e.p, .link, true, pe.e.mode, 0, 0, []⟩
  | .badlink => some ⟨pe.e.p, .link, true, pe.e.mode, 0, 0, []⟩
  | _ => none

/-- the entries that create nodes -/
def effective (l : List PEntry) : Layer := l.filterMap PEntry.node?

/-! ### the layer's extraction directory -/

inductive DObj
  | dir
  | file (bytes : List Nat)
deriving DecidableEq, Repr

abbrev Disk := List (Path × DObj)      -- newest first

def Disk.get (d : Disk) (p : Path) : Option DObj :=
  if p = [] then some .dir else (d.find? (·.1 = p)).map (·.2)

/-- `os.MkdirAll`: `none` when a component exists as a regular file -/
def mkdirAllAux (d : Disk) (pre : Path) : List String → Option Disk
  | [] => some d
  | s :: rest =>
    match d.get (pre ++ [s]) with
    | some .dir => mkdirAllAux d (pre ++ [s]) rest
    | some (.file _) => none
    | none => mkdirAllAux ((pre ++ [s], .dir) :: d) (pre ++ [s]) rest

def mkdirAll (d : Disk) (p : Path) : Option Disk := mkdirAllAux d [] p

/-- the on-disk part of `handleDir` / `handleFile` / `handleSymlink`; `none` = the load fails -/
def diskStep (limit : Nat) (d : Disk) (pe : PEntry) : Option Disk :=
  match pe.e.kind with
  | .dir =>
    match d.get pe.real with
    | some _ => some d                        -- os.Stat succeeded: nothing to do (even if it is a file)
    | none => mkdirAll d pe.real
  | .file =>
    match mkdirAll d pe.real.dropLast with
    | none => none
    | some d =>
      match d.get pe.real with
      | some .dir => none                     -- OpenFile on a directory
      | some (.file old) =>
        let new := List.replicate (min pe.e.size limit) pe.e.cid
        some ((pe.real, .file (new ++ old.drop new.length)) :: d)       -- no O_TRUNC
      | none => some ((pe.real, .file (List.replicate (min pe.e.size limit) pe.e.cid)) :: d)
  | .link => some d

structure LoadSt where
  chains : List Tree
  disk : Disk

/-- loop body of `fillChainLayersWithFilesFromTar` for chain layer `i` -/
def processEntry (limit i : Nat) (st : LoadSt) (pe : PEntry) : Option LoadSt :=
  if ((st.chains.getD i emptyTree) pe.e.p).isSome then
    -- already in this chain layer; a directory's own entry still replaces the node made up for it (handleDir runs)
    (if pe.act = .accept && upgrades (st.chains.getD i emptyTree) pe.e
     then (diskStep limit st.disk pe).map fun d => { chains := upgradeAll st.chains i pe.e, disk := d }
     else some st)
  else
  match pe.act with
  | .fatal => none
  | .badlink => some { st with chains := fillEntry st.chains i ⟨pe.e.p, .link, true, pe.e.mode, 0, 0, []⟩ }
  | .other => some st
  | .big => (diskStep limit st.disk pe).map fun d => { chains := fillEntry st.chains i ⟨pe.e.p, .link, true, pe.e.mode, 0, 0, []⟩, disk := d }
  | .accept => (diskStep limit st.disk pe).map fun d => { chains := fillEntry st.chains i pe.e, disk := d }

def processLayer (limit i : Nat) (chains : List Tree) (l : List PEntry) : Option (List Tree × Disk) :=
  (l.foldlM (processEntry limit i) ⟨chains, []⟩).map fun st => (st.chains, st.disk)

/-- reverse loop; returns the chains and every layer's extraction directory (index = layer) -/
def loadLoop (limit : Nat) (layers : List (List PEntry)) : Nat → List Tree → List (Nat × Disk) → Option (List Tree × List (Nat × Disk))
  | 0, chains, disks => some (chains, disks)
  | i+1, chains, disks =>
    match processLayer limit i chains (layers.getD i []) with
    | none => none
    | some (chains, disk) => loadLoop limit layers i chains ((i, disk) :: disks)

def loadImage (limit : Nat) (layers : List (List PEntry)) : Option (List Tree × List (Nat × Disk)) :=
  loadLoop limit layers layers.length (initChains layers.length) []

/-- `initializeChainLayers`: L = layer + ordinary history entry, E = empty-layer history entry,
X = layer whose history entry claims EmptyLayer (history then fails `validateHistory`) -/
def chainOf (hist : List Char) (layers : List (List PEntry)) : List (List PEntry) :=
  if hist.any (· = 'X') then layers else
  let rec go : List Char → List (List PEntry) → List (List PEntry)
    | [], rest => rest                                  -- remaining v1 layers (never reached when valid)
    | 'E' :: hs, rest => [] :: go hs rest
    | _ :: hs, l :: rest => l :: go hs rest
    | _ :: hs, [] => go hs []
  go hist layers

/-! ### `removeUnnecessaryFileNodes` on the final chain layer -/

/-- the paths marked required by following a required symlink for at most `depth` hops -/
def chase (t : Tree) : Nat → Node → List Path
  | 0, _ => []
  | d+1, n =>
    match t n.target with
    | none => []
    | some m => n.target :: (if m.kind = .link then chase t d m else [])

def neededSet (U : List Path) (t : Tree) (req : Path → Bool) (depth : Nat) : List Path :=
  U.flatMap fun s =>
    match t s with
    | some n => if n.kind = .link && !n.wh && req s then chase t depth n else []
    | none => []

/-- `removeUnnecessaryFileNodes` on the final chain layer: an unneeded file or symlink is `Remove`d from the path tree;
the directories `pathtree.Remove` drops with it (ancestors left without children) are inserted again, so nothing
else changes.  Directories and whiteout nodes are never unnecessary. -/
def pruneFinal (U : List Path) (req : Path → Bool) (depth : Nat) (t : Tree) : Tree :=
  let marked := neededSet U t req depth
  ⟨fun q => match t.get q with
    | some n => if n.kind = .dir || n.wh || req q || marked.contains q then some n else none
    | none => none⟩

/-- real files deleted by the pruning: (layer, path) of every node removed from the final view that no earlier chain
layer (`earlier`) still lists — a node an earlier view lists keeps its backing file -/
def deletedFiles (U : List Path) (req : Path → Bool) (depth : Nat) (earlier : List Tree) (t : Tree) : List (Nat × Path) :=
  let marked := neededSet U t req depth
  let needed : Path → Bool := fun q => req q || marked.contains q
  U.filterMap fun q =>
    match t q with
    | some n =>
      if n.kind != .dir && !n.wh && !needed q && !(earlier.any fun v => v.get q == some n) then some (n.layer, q) else none
    | none => none

/-! ### observation -/

/-- `c` is a direct child of `d` -/
def isChild (d c : Path) : Bool := c.length = d.length + 1 && c.take d.length == d

/-- `FS.ReadDir(d)`: the valued children of `d` in the trie (`GetChildren`), whiteout nodes left out -/
def shown : Option Node → Bool
  | some n => !n.wh
  | none => false

def readDir (U : List Path) (t : Tree) (d : Path) : List Path :=
  (U.filter fun c => isChild d c).filter fun c => shown (t.get c)

/-- what `fs.WalkDir` does with one child: report it if `ReadDir` lists it, enter it if it is a directory -/
def walkStep (W : Path → List Path) (o : Option Node) (c : Path) : List Path :=
  match o with
  | some n => if n.wh then [] else c :: (if n.kind = .dir then W c else [])
  | none => []

/-- paths reached by `fs.WalkDir(".")` -/
def walk (U : List Path) (t : Tree) : Nat → Path → List Path
  | 0, _ => []
  | f+1, d => (U.filter fun c => isChild d c).flatMap fun c => walkStep (walk U t f) (t.get c) c

def walkAll (U : List Path) (t : Tree) : List Path :=
  match t.get [] with
  | some n => if n.kind = .dir && !n.wh then walk U t (U.foldl (fun m q => max m q.length) 0 + 2) [] else []
  | none => []

/-- no file node of any view reaches the limit (the C10 clause, executable form) -/
def sizesBelow (limit : Nat) (U : List Path) (t : Tree) : Bool :=
  U.all fun q => match t q with
    | some n => n.kind != .file || decide (n.size < limit)
    | none => true

end Scalibr.Overlay
