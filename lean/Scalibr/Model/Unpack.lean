/-
Model of the squashed unpacker (C06): `unpack.go` — `unpack` after fix 590c924e (entries whose joined, cleaned
path is not inside the target directory are skipped before anything is created), `pathOutsideBaseDirectory`,
`UnpackSquashedFromTarball`'s three passes, directory entries created (fix 810097ff) — and `symlink.go` — `TargetOutsideRoot` (lexical), `RemoveObsoleteSymlinks` —
over a POSIX-like file system state.

The world is a sandbox directory `R` (the root `[]` of every path here); the unpack target is the directory `D`
inside it.  The operating system is modelled by: physical path resolution (`resolve`: symbolic links followed in every
component, `..` applied to the physical directory), `os.Lstat`, `os.Stat`, `os.Mkdir`, `os.WriteFile`, `os.Symlink`, `os.Remove`, `filepath.EvalSymlinks`,
`filepath.WalkDir` (lexical order, links not followed).  An absolute link target is stored relative to `D`
(`filepath.Join(dir, target)` always lies below `dir`; the directories above `D` are plain directories).
-/
import Scalibr.Model.GoPath
namespace Scalibr.Unpack
open Scalibr.GoPath

abbrev Path := List String

/-- text of a symbolic link as handed to `os.Symlink` -/
structure Target where
  abs : Bool              -- absolute: `comps` are the cleaned segments below the unpack directory
  comps : List String     -- relative: the raw '/'-separated components
  raw : String            -- relative: the text itself (absolute targets are printed from `comps`)
deriving DecidableEq, Repr

inductive Obj
  | dir
  | file (cid : Nat)
  | link (t : Target)
deriving DecidableEq, Repr

/-- file system state: the object at each path, and the paths ever created (for snapshots) -/
structure FS where
  get : Path → Option Obj
  keys : List Path

def FS.put (s : FS) (p : Path) (o : Obj) : FS := ⟨fun q => if q = p then some o else s.get q, p :: s.keys⟩
def FS.del (s : FS) (p : Path) : FS := ⟨fun q => if q = p then none else s.get q, s.keys⟩

/-- NAME_MAX -/
def tooLong (c : String) : Bool := c.utf8ByteSize > 255

inductive RErr | noent | notdir | loop | toolong
deriving DecidableEq, Repr

/-- Kernel path resolution from the physical directory `cur`: every component must exist, links are followed
everywhere (also at the end), `..` is the physical parent.  `D` is where absolute link targets start. -/
def resolve (D : Path) (s : FS) : Nat → Path → List String → Except RErr Path
  | 0, _, _ => .error .loop
  | _+1, cur, [] => .ok cur
  | fuel+1, cur, c :: rest =>
    if c = "" || c = "." then resolve D s fuel cur rest
    else if c = ".." then resolve D s fuel cur.dropLast rest
    else if tooLong c then .error .toolong
    else
      match s.get (cur ++ [c]) with
      | none => .error .noent
      | some .dir => resolve D s fuel (cur ++ [c]) rest
      | some (.file _) => if rest = [] then .ok (cur ++ [c]) else .error .notdir
      | some (.link t) => resolve D s fuel (if t.abs then D else cur) (t.comps ++ rest)

/-- longest link text (in components) in the state -/
def maxLinkLen (s : FS) : Nat :=
  s.keys.foldl (fun m p => match s.get p with | some (.link t) => max m t.comps.length | _ => m) 0

/-- Fuel that suffices for every resolution the kernel itself would finish: one step per component of the path, and
for each of the at most 40 links the kernel follows (MAXSYMLINKS) one step per component of its text.  `resolve`'s
answer does not depend on the fuel once it is not `.loop` (`resolve_fuel_mono`), a path that meets no link never gets
`.loop` from this much fuel (`resolve_nolink_adequate`), and a path of any length is handled (no fixed bound). -/
def fuelFor (s : FS) (cs : List String) : Nat := cs.length + 40 * (maxLinkLen s + 1) + 1

/-- resolution with adequate fuel -/
def resolveA (D : Path) (s : FS) (cur : Path) (cs : List String) : Except RErr Path := resolve D s (fuelFor s cs) cur cs

/-- `os.Stat(D/rel)`: the object the path finally denotes.  Paths the unpacker touches are `D` joined with a cleaned
relative path; the directories above `D` are plain directories, so resolution starts at `D`. -/
def statRel (D : Path) (s : FS) (rel : List String) : Option Obj :=
  match resolveA D s D rel with
  | .ok q => s.get q
  | .error _ => none

/-- `os.Stat` of an arbitrary path of the sandbox (used by the clean-up for lexically joined link targets) -/
def statAbs (D : Path) (s : FS) (p : Path) : Option Obj :=
  match resolveA D s [] p with
  | .ok q => s.get q
  | .error _ => none

/-- `os.Lstat(D/rel)` succeeds: the parent resolves to a directory and the last component exists (not followed) -/
def lstatOk (D : Path) (s : FS) (rel : List String) : Bool :=
  match rel.getLast? with
  | none => true
  | some name =>
    match resolveA D s D rel.dropLast with
    | .error _ => false
    | .ok pp => s.get pp == some .dir && !tooLong name && (s.get (pp ++ [name])).isSome

def isPrefix (a b : Path) : Bool := a.length ≤ b.length && b.take a.length == a

inductive MkRes
  | ok (s : FS)          -- the directory exists now
  | outside (s : FS)     -- errOutsideBaseDirectory: a directory would have been created outside `D`
  | fail (s : FS)        -- any other error

def MkRes.state : MkRes → FS
  | .ok s => s
  | .outside s => s
  | .fail s => s

/-- `mkdirAllInside(dir, D/rel)` (fix dccd4936): like `os.MkdirAll`, one level at a time from `D`; a level that exists
(`os.Stat`, links followed) must be a directory; a missing level is created with `os.Mkdir` only if its parent, with
symlinks evaluated (`pathOutsideBaseDirectory`), lies inside `D`.  `done` = the levels below `D` already passed. -/
def mkdirAllIn (D : Path) (s : FS) : List String → List String → MkRes
  | _, [] => .ok s
  | done, c :: rest =>
    match statRel D s (done ++ [c]) with
    | some .dir => mkdirAllIn D s (done ++ [c]) rest
    | some _ => .fail s
    | none =>
      match resolveA D s D done with                       -- EvalSymlinks(parent of the level)
      | .error _ => .outside s
      | .ok pp =>
        if !isPrefix D pp then .outside s
        else if s.get pp != some .dir || tooLong c || (s.get (pp ++ [c])).isSome then .fail s      -- os.Mkdir fails
        else mkdirAllIn D (s.put (pp ++ [c]) .dir) (done ++ [c]) rest

/-- a tar header: typ r(egular) l(ink: symbolic or hard) d(irectory) o(ther) -/
structure TarEntry where
  typ : Char
  nameAbs : Bool                -- header.Name starts with "/"
  nameComps : List String       -- header.Name split on "/"
  cid : Nat
  linkAbs : Bool                -- header.Linkname starts with "/"
  linkComps : List String       -- header.Linkname split on "/"
  linkRaw : String              -- header.Linkname
deriving Repr

/-- `symlink.TargetOutsideRoot(cleanPath, target)`: purely lexical -/
def targetOutsideRoot (cleanDir : List String) (targetAbs : Bool) (targetComps : List String) : Bool :=
  if targetAbs then (cleanComps false targetComps).1 > 0
  else (cleanComps false (cleanDir ++ targetComps)).1 > 0

/-- the text `os.Symlink` gets: `filepath.Join(dir, target)` (cleaned, below `D`) for an absolute target, the raw text otherwise -/
def entryTarget (e : TarEntry) : Target :=
  if e.linkAbs then ⟨true, (cleanComps true e.linkComps).2, ""⟩ else ⟨false, e.linkComps, e.linkRaw⟩

inductive Step
  | ok (s : FS)
  | fatal (s : FS)        -- `unpack` returns an error: no further entry, no further pass, no clean-up

/-- one iteration of the loop of `unpack()` -/
def unpackStep (D : Path) (s : FS) (e : TarEntry) : Step :=
  let c := cleanComps e.nameAbs e.nameComps                          -- cleanPath = path.Clean(header.Name)
  let cleanSegs := List.replicate c.1 ".." ++ c.2
  let full := (cleanComps true (D ++ cleanSegs)).2                   -- path.Join(dir, cleanPath)
  if !isPrefix D full then .ok s else                                -- isWithinDirectory(dir, fullPath)
  let rel := full.drop D.length
  if lstatOk D s rel then .ok s else                                 -- already unpacked
  match e.typ with
  | 'r' =>
    match mkdirAllIn D s [] rel.dropLast with
    | .fail s1 => .fatal s1
    | .outside s1 => .ok s1                                          -- logged, entry skipped
    | .ok s1 =>
      match resolveA D s1 D rel.dropLast with                        -- pathOutsideBaseDirectory: EvalSymlinks(parent)
      | .error _ => .ok s1
      | .ok pp =>
        if !isPrefix D pp then .ok s1 else
        let name := rel.getLast?.getD ""
        if tooLong name then .fatal s1
        else
          match s1.get (pp ++ [name]) with
          | none => .ok (s1.put (pp ++ [name]) (.file e.cid))        -- os.WriteFile
          | some _ => .fatal s1
  | 'l' =>
    let s1 := (mkdirAllIn D s [] rel.dropLast).state                 -- failure is logged only (SymlinkErrLog)
    match resolveA D s1 D rel.dropLast with                          -- pathOutsideBaseDirectory(dir, fullPath) (fix dccd4936)
    | .error _ => .ok s1
    | .ok pp =>
      if !isPrefix D pp then .ok s1 else
      if targetOutsideRoot cleanSegs.dropLast e.linkAbs e.linkComps then .ok s1 else
      if e.linkRaw = "" then .ok s1 else
      let name := rel.getLast?.getD ""                               -- os.Symlink(targetPath, fullPath)
      if s1.get pp != some .dir || tooLong name || (s1.get (pp ++ [name])).isSome then .ok s1
      else .ok (s1.put (pp ++ [name]) (.link (entryTarget e)))
  | 'd' =>
    -- a directory entry makes its path a directory (fix 810097ff); every failure is logged and the entry skipped
    match mkdirAllIn D s [] rel.dropLast with
    | .fail s1 => .ok s1
    | .outside s1 => .ok s1
    | .ok s1 =>
      match resolveA D s1 D rel.dropLast with                        -- pathOutsideBaseDirectory: EvalSymlinks(parent)
      | .error _ => .ok s1
      | .ok pp =>
        if !isPrefix D pp then .ok s1 else
        let name := rel.getLast?.getD ""
        if s1.get pp != some .dir || tooLong name || (s1.get (pp ++ [name])).isSome then .ok s1
        else .ok (s1.put (pp ++ [name]) .dir)                        -- os.Mkdir
  | _ => .ok s                                                       -- other types: no case

def unpackPass (D : Path) (s : FS) (es : List TarEntry) : Step :=
  es.foldl (fun st e => match st with | .fatal f => .fatal f | .ok f => unpackStep D f e) (.ok s)

def insertName (a : String) : List String → List String
  | [] => [a]
  | b :: bs => if a < b then a :: b :: bs else b :: insertName a bs

/-- names in the order `ReadDir` returns them (byte order) -/
def sortNames (l : List String) : List String := l.foldr insertName []

/-- the names `ReadDir(d)` returns -/
def childNames (s : FS) (d : Path) : List String :=
  sortNames ((s.keys.filter fun q => q.length = d.length + 1 && q.take d.length == d && (s.get q).isSome).map
    (fun q => q.getLast?.getD "")).eraseDups

/-- `symlink.RemoveObsoleteSymlinks`: lexical walk, links not followed; a link whose (lexically joined) target does
not `Stat` is removed -/
def removeObsolete (D : Path) : Nat → FS → Path → FS
  | 0, s, _ => s
  | fuel+1, s, d =>
    (childNames s d).foldl (fun s name =>
      let p := d ++ [name]
      match s.get p with
      | some (.link t) =>
        let ok := if t.abs then (statRel D s t.comps).isSome
                  else (statAbs D s (cleanComps true (d ++ t.comps)).2).isSome     -- filepath.Join(filepath.Dir(path), target)
        if ok then s else s.del p
      | some .dir => removeObsolete D fuel s p
      | _ => s) s

/-- `UnpackSquashedFromTarball`: three passes, then the clean-up; `false` = an error was returned -/
def unpackAll (D : Path) (s : FS) (es : List TarEntry) : FS × Bool :=
  match unpackPass D s es with
  | .fatal f => (f, false)
  | .ok s1 =>
    match unpackPass D s1 es with
    | .fatal f => (f, false)
    | .ok s2 =>
      match unpackPass D s2 es with
      | .fatal f => (f, false)
      | .ok s3 => (removeObsolete D 64 s3 D, true)

end Scalibr.Unpack
