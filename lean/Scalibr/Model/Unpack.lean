/-
Model of the squashed unpacker (C06): `unpack.go` — every configuration of `Unpacker` (symlink resolution retain /
non-retain, symlink error strategy, MaxPass, MaxSizeBytes, requirer with the required-link-target bookkeeping) —
`unpack` after fix 590c924e (entries whose joined, cleaned
path is not inside the target directory are skipped before anything is created), `pathOutsideBaseDirectory`,
`UnpackSquashedFromTarball`'s three passes, directory entries created (fix 810097ff) — and `symlink.go` — `TargetOutsideRoot` (lexical), `RemoveObsoleteSymlinks` —
over a POSIX-like file system state.

The world is a sandbox directory `R` (the root `[]` of every path here); the unpack target is the directory `D`
inside it.  The operating system is modelled by: physical path resolution (`resolve`: symbolic links followed in every
component, `..` applied to the physical directory), `os.Lstat`, `os.Stat`, `os.Mkdir`, `os.WriteFile`, `os.Symlink`, `os.Remove`, `filepath.EvalSymlinks`,
`filepath.WalkDir` (lexical order, links not followed).  An absolute link target is stored relative to `D`
(`filepath.Join(dir, target)` always lies below `dir`; the directories above `D` are plain directories).
-/
import Scalibr.Model.GoPath
namespace Scalibr.Unpack
open Scalibr.GoPath

abbrev Path := List String

/-- text of a symbolic link as handed to `os.Symlink` -/
structure Target where
  abs : Bool              -- absolute: `comps` are the cleaned segments below the unpack directory
  comps : List String     -- relative: the raw '/'-separated components
  raw : String            -- relative: the text itself (absolute targets are printed from `comps`)
deriving DecidableEq, Repr

inductive Obj
  | dir
  | file (cid : Nat)
  | link (t : Target)
deriving DecidableEq, Repr

/-- file system state: the object at each path, and the paths ever created (for snapshots) -/
structure FS where
  get : Path → Option Obj
  keys : List Path

def FS.put (s : FS) (p : Path) (o : Obj) : FS := ⟨fun q => if q = p then some o else s.get q, p :: s.keys⟩
def FS.del (s : FS) (p : Path) : FS := ⟨fun q => if q = p then none else s.get q, s.keys⟩

/-- NAME_MAX -/
def tooLong (c : String) : Bool := c.utf8ByteSize > 255

inductive RErr | noent | notdir | loop | toolong
deriving DecidableEq, Repr

/-- Kernel path resolution from the physical directory `cur`: every component must exist, links are followed
everywhere (also at the end), `..` is the physical parent.  `D` is where absolute link targets start. -/
def resolve (D : Path) (s : FS) : Nat → Path → List String → Except RErr Path
  | 0, _, _ => .error .loop
  | _+1, cur, [] => .ok cur
  | fuel+1, cur, c :: rest =>
    if c = "" || c = "." then resolve D s fuel cur rest
    else if c = ".." then resolve D s fuel cur.dropLast rest
    else if tooLong c then .error .toolong
    else
      match s.get (cur ++ [c]) with
      | none => .error .noent
      | some .dir => resolve D s fuel (cur ++ [c]) rest
      | some (.file _) => if rest = [] then .ok (cur ++ [c]) else .error .notdir
      | some (.link t) => resolve D s fuel (if t.abs then D else cur) (t.comps ++ rest)

/-- longest link text (in components) in the state -/
def maxLinkLen (s : FS) : Nat :=
  s.keys.foldl (fun m p => match s.get p with | some (.link t) => max m t.comps.length | _ => m) 0

/-- Fuel that suffices for every resolution the kernel itself would finish: one step per component of the path, and
for each of the at most 40 links the kernel follows (MAXSYMLINKS) one step per component of its text.  `resolve`'s
answer does not depend on the fuel once it is not `.loop` (`resolve_fuel_mono`), a path that meets no link never gets
`.loop` from this much fuel (`resolve_nolink_adequate`), and a path of any length is handled (no fixed bound). -/
def fuelFor (s : FS) (cs : List String) : Nat := cs.length + 40 * (maxLinkLen s + 1) + 1

/-- resolution with adequate fuel -/
def resolveA (D : Path) (s : FS) (cur : Path) (cs : List String) : Except RErr Path := resolve D s (fuelFor s cs) cur cs

/-- `os.Stat(D/rel)`: the object the path finally denotes.  Paths the unpacker touches are `D` joined with a cleaned
relative path; the directories above `D` are plain directories, so resolution starts at `D`. -/
def statRel (D : Path) (s : FS) (rel : List String) : Option Obj :=
  match resolveA D s D rel with
  | .ok q => s.get q
  | .error _ => none

/-- `os.Stat` of an arbitrary path of the sandbox (used by the clean-up for lexically joined link targets) -/
def statAbs (D : Path) (s : FS) (p : Path) : Option Obj :=
  match resolveA D s [] p with
  | .ok q => s.get q
  | .error _ => none

/-- `os.Lstat(D/rel)` succeeds: the parent resolves to a directory and the last component exists (not followed) -/
def lstatOk (D : Path) (s : FS) (rel : List String) : Bool :=
  match rel.getLast? with
  | none => true
  | some name =>
    match resolveA D s D rel.dropLast with
    | .error _ => false
    | .ok pp => s.get pp == some .dir && !tooLong name && (s.get (pp ++ [name])).isSome

def isPrefix (a b : Path) : Bool := a.length ≤ b.length && b.take a.length == a

inductive MkRes
  | ok (s : FS)          -- the directory exists now
  | outside (s : FS)     -- errOutsideBaseDirectory: a directory would have been created outside `D`
  | fail (s : FS)        -- any other error

def MkRes.state : MkRes → FS
  | .ok s => s
  | .outside s => s
  | .fail s => s

/-- `mkdirAllInside(dir, D/rel)` (fix dccd4936): like `os.MkdirAll`, one level at a time from `D`; a level that exists
(`os.Stat`, links followed) must be a directory; a missing level is created with `os.Mkdir` only if its parent, with
symlinks evaluated (`pathOutsideBaseDirectory`), lies inside `D`.  `done` = the levels below `D` already passed. -/
def mkdirAllIn (D : Path) (s : FS) : List String → List String → MkRes
  | _, [] => .ok s
  | done, c :: rest =>
    match statRel D s (done ++ [c]) with
    | some .dir => mkdirAllIn D s (done ++ [c]) rest
    | some _ => .fail s
    | none =>
      match resolveA D s D done with                       -- EvalSymlinks(parent of the level)
      | .error _ => .outside s
      | .ok pp =>
        if !isPrefix D pp then .outside s
        else if s.get pp != some .dir || tooLong c || (s.get (pp ++ [c])).isSome then .fail s      -- os.Mkdir fails
        else mkdirAllIn D (s.put (pp ++ [c]) .dir) (done ++ [c]) rest

/-- a tar header: typ r(egular) l(ink: symbolic or hard) d(irectory) o(ther) -/
structure TarEntry where
  typ : Char
  nameAbs : Bool                -- header.Name starts with "/"
  nameComps : List String       -- header.Name split on "/"
  cid : Nat
  linkAbs : Bool                -- header.Linkname starts with "/"
  linkComps : List String       -- header.Linkname split on "/"
  linkRaw : String              -- header.Linkname
  size : Nat                    -- header.Size
deriving Repr

/-- `symlink.TargetOutsideRoot(cleanPath, target)`: purely lexical -/
def targetOutsideRoot (cleanDir : List String) (targetAbs : Bool) (targetComps : List String) : Bool :=
  if targetAbs then (cleanComps false targetComps).1 > 0
  else (cleanComps false (cleanDir ++ targetComps)).1 > 0

/-- the text `os.Symlink` gets: `filepath.Join(dir, target)` (cleaned, below `D`) for an absolute target, the raw text otherwise -/
def entryTarget (e : TarEntry) : Target :=
  if e.linkAbs then ⟨true, (cleanComps true e.linkComps).2, ""⟩ else ⟨false, e.linkComps, e.linkRaw⟩

/-- `require.FileRequirer`: all, none, or a set of path strings -/
inductive Req
  | all
  | none
  | paths (ps : List String)

/-- the unpacker's configuration (`Unpacker` after `NewUnpacker`) and the two facts about the process it depends on -/
structure Cfg where
  retain : Bool            -- SymlinkResolution = SymlinkRetain; false: links are written as copies of what they point to
  errReturn : Bool         -- SymlinkErrStrategy = SymlinkErrReturn (false: SymlinkErrLog)
  maxPass : Nat            -- MaxPass
  maxSize : Nat            -- MaxSizeBytes
  req : Req                -- Requirer
  dirStr : String          -- the text of `dir` handed to the unpacker (fullPath = dirStr/cleanPath as a string)
  cwd : Path               -- the working directory of the process: where the kernel starts a RELATIVE path

/-- `DefaultUnpackerConfig()` -/
def Cfg.dflt : Cfg := ⟨true, false, 3, 1024 * 1024 * 1024, .all, "", []⟩

/-- `path.Clean(header.Name)` as a string -/
def cleanStr (e : TarEntry) : String :=
  let c := cleanComps e.nameAbs e.nameComps
  (Clean.mk e.nameAbs c.1 c.2).render

/-- the three spellings under which an entry is looked up (requirer, required link targets): fullPath, cleanPath,
`filepath.Join("/", cleanPath)` -/
def lookupKeys (cfg : Cfg) (e : TarEntry) : List String :=
  let c := cleanStr e
  let full := (clean (cfg.dirStr ++ "/" ++ c)).render
  [full, c, (clean ("/" ++ c)).render]

/-- `filepath.Dir` of a cleaned path -/
def dirStrOf (c : String) : String :=
  let cs := c.splitOn "/"
  if cs.length ≤ 1 then "." else
  let d := "/".intercalate cs.dropLast
  if d = "" then "/" else d

/-- the key a link entry adds to the required targets: the raw text of an absolute target, `Join(Dir(cleanPath), target)` otherwise -/
def targetKey (e : TarEntry) : String :=
  if e.linkAbs then e.linkRaw else (clean (dirStrOf (cleanStr e) ++ "/" ++ e.linkRaw)).render

def Req.wants (r : Req) (keys : List String) : Bool :=
  match r with
  | .all => true
  | .none => false
  | .paths ps => keys.any ps.contains

/-- state of a pass: the file system and `currRequiredTargets` -/
abbrev PSt := FS × List String

inductive Step
  | ok (s : PSt)
  | fatal (s : FS)        -- `unpack` returns an error: no further entry, no further pass, no clean-up

def MkRes.failed : MkRes → Bool
  | .fail _ => true
  | _ => false

/-- a symbolic or hard link entry, once the directories above it have been tried: `s1` the state, `tg0` the required
targets so far -/
def linkAt (cfg : Cfg) (D : Path) (fin : Bool) (s1 : FS) (tg0 : List String) (e : TarEntry) (cleanSegs rel : List String) : Step :=
  match resolveA D s1 D rel.dropLast with                          -- pathOutsideBaseDirectory(dir, fullPath) (fix <P6>)
  | .error _ => .ok (s1, tg0)
  | .ok pp =>
    if !isPrefix D pp then .ok (s1, tg0) else
    if targetOutsideRoot cleanSegs.dropLast e.linkAbs e.linkComps then .ok (s1, tg0) else
    let tg := targetKey e :: tg0                                   -- currRequiredTargets[...] = true
    let name := rel.getLast?.getD ""
    let cannotCreate := s1.get pp != some .dir || tooLong name || (s1.get (pp ++ [name])).isSome
    if cfg.retain then
      -- os.Symlink(targetPath, fullPath)
      if e.linkRaw = "" || cannotCreate then (if cfg.errReturn then .fatal s1 else .ok (s1, tg))
      else .ok (s1.put (pp ++ [name]) (.link (entryTarget e)), tg)
    else
      -- os.ReadFile: an absolute target is joined to dir, a relative one to the directory of the link (filepath.Join: cleaned lexically)
      let content : Option Nat :=
        if e.linkRaw = "" then none else
        match (if e.linkAbs then resolveA D s1 D (cleanComps true e.linkComps).2
               else resolveA D s1 [] (cleanComps true (D ++ rel.dropLast ++ e.linkComps)).2) with
        | .ok q => (match s1.get q with | some (.file c) => some c | _ => none)
        | .error _ => none
      match content with
      | none => if !fin then .ok (s1, tg) else if cfg.errReturn then .fatal s1 else .ok (s1, tg)
      | some c =>
        -- os.WriteFile(fullPath, content, 0644)
        if cannotCreate then (if cfg.errReturn then .fatal s1 else .ok (s1, tg))
        else .ok (s1.put (pp ++ [name]) (.file c), tg)

/-- what `unpack()` does with an entry that passed the size, containment, "already unpacked" and requirer tests;
`cleanSegs` = the cleaned name, `rel` = where it lies below `D` -/
def stepAt (cfg : Cfg) (D : Path) (fin : Bool) (st : PSt) (e : TarEntry) (cleanSegs rel : List String) : Step :=
  let s := st.1
  match e.typ with
  | 'r' =>
    match mkdirAllIn D s [] rel.dropLast with
    | .fail s1 => .fatal s1
    | .outside s1 => .ok (s1, st.2)                                  -- logged, entry skipped
    | .ok s1 =>
      match resolveA D s1 D rel.dropLast with                        -- pathOutsideBaseDirectory: EvalSymlinks(parent)
      | .error _ => .ok (s1, st.2)
      | .ok pp =>
        if !isPrefix D pp then .ok (s1, st.2) else
        let name := rel.getLast?.getD ""
        if tooLong name then .fatal s1
        else
          match s1.get (pp ++ [name]) with
          | none => .ok (s1.put (pp ++ [name]) (.file e.cid), st.2)  -- os.WriteFile
          | some _ => .fatal s1
  | 'l' =>
    let mk := mkdirAllIn D s [] rel.dropLast
    -- a failure is logged; with SymlinkErrReturn every failure but "outside the base directory" ends the unpacking
    if cfg.errReturn && mk.failed then .fatal mk.state else linkAt cfg D fin mk.state st.2 e cleanSegs rel
  | 'd' =>
    -- a directory entry makes its path a directory (fix <P7>); every failure is logged and the entry skipped
    match mkdirAllIn D s [] rel.dropLast with
    | .fail s1 => .ok (s1, st.2)
    | .outside s1 => .ok (s1, st.2)
    | .ok s1 =>
      match resolveA D s1 D rel.dropLast with                        -- pathOutsideBaseDirectory: EvalSymlinks(parent)
      | .error _ => .ok (s1, st.2)
      | .ok pp =>
        if !isPrefix D pp then .ok (s1, st.2) else
        let name := rel.getLast?.getD ""
        if s1.get pp != some .dir || tooLong name || (s1.get (pp ++ [name])).isSome then .ok (s1, st.2)
        else .ok (s1.put (pp ++ [name]) .dir, st.2)                  -- os.Mkdir
  | _ => .ok st                                                      -- other types: no case


/-- one iteration of the loop of `unpack()`; `fin` = this is the final pass -/
def unpackStep (cfg : Cfg) (D : Path) (fin : Bool) (st : PSt) (e : TarEntry) : Step :=
  let s := st.1
  if e.size > cfg.maxSize then .ok st else                           -- header.Size > maxSizeBytes
  let c := cleanComps e.nameAbs e.nameComps                          -- cleanPath = path.Clean(header.Name)
  let cleanSegs := List.replicate c.1 ".." ++ c.2
  let full := (cleanComps true (D ++ cleanSegs)).2                   -- path.Join(dir, cleanPath)
  if !isPrefix D full then .ok st else                               -- isWithinDirectory(dir, fullPath)
  let rel := full.drop D.length
  if lstatOk D s rel then .ok st else                                -- already unpacked
  let keys := lookupKeys cfg e
  if !(cfg.req.wants keys || keys.any st.2.contains) then .ok st else   -- not required, not the target of a required link
  stepAt cfg D fin st e cleanSegs rel

/-- what a step leaves behind, fatal or not -/
def Step.state : Step → FS
  | .ok s => s.1
  | .fatal s => s

def unpackPass (cfg : Cfg) (D : Path) (fin : Bool) (st : PSt) (es : List TarEntry) : Step :=
  es.foldl (fun r e => match r with | .fatal f => .fatal f | .ok x => unpackStep cfg D fin x e) (.ok st)

def insertName (a : String) : List String → List String
  | [] => [a]
  | b :: bs => if a < b then a :: b :: bs else b :: insertName a bs

/-- names in the order `ReadDir` returns them (byte order) -/
def sortNames (l : List String) : List String := l.foldr insertName []

/-- the names `ReadDir(d)` returns -/
def childNames (s : FS) (d : Path) : List String :=
  sortNames ((s.keys.filter fun q => q.length = d.length + 1 && q.take d.length == d && (s.get q).isSome).map
    (fun q => q.getLast?.getD "")).eraseDups

/-- `symlink.RemoveObsoleteSymlinks`: lexical walk, links not followed; a link whose (lexically joined) target does
not `Stat` is removed -/
def removeObsolete (D : Path) : Nat → FS → Path → FS
  | 0, s, _ => s
  | fuel+1, s, d =>
    (childNames s d).foldl (fun s name =>
      let p := d ++ [name]
      match s.get p with
      | some (.link t) =>
        let ok := if t.abs then (statRel D s t.comps).isSome
                  else (statAbs D s (cleanComps true (d ++ t.comps)).2).isSome     -- filepath.Join(filepath.Dir(path), target)
        if ok then s else s.del p
      | some .dir => removeObsolete D fuel s p
      | _ => s) s

/-- the passes `k … maxPass-1` of `UnpackSquashedFromTarball`; the required targets are handed from pass to pass -/
def passes (cfg : Cfg) (D : Path) (es : List TarEntry) : Nat → Nat → PSt → Step
  | 0, _, st => .ok st
  | n+1, k, st =>
    match unpackPass cfg D (k + 1 == cfg.maxPass) st es with
    | .fatal f => .fatal f
    | .ok st1 => passes cfg D es n (k+1) st1

/-- `UnpackSquashedFromTarball`: `MaxPass` passes, then the clean-up; `false` = an error was returned -/
def unpackAllC (cfg : Cfg) (D : Path) (s : FS) (es : List TarEntry) : FS × Bool :=
  match passes cfg D es cfg.maxPass 0 (s, []) with
  | .fatal f => (f, false)
  | .ok st => (removeObsolete D 64 st.1 D, true)

/-- the tarball is cut inside its `k`-th entry (header or body): the first pass handles the `k` entries before it, then
`tarReader.Next()` / `io.Copy` fails and `unpack` returns the error — no further pass, no clean-up -/
def unpackAllCut (cfg : Cfg) (D : Path) (s : FS) (es : List TarEntry) (k : Nat) : FS × Bool :=
  if cfg.maxPass = 0 then (removeObsolete D 64 s D, true) else
  ((unpackPass cfg D (1 == cfg.maxPass) (s, []) (es.take k)).state, false)

/-- … with the default configuration -/
def unpackAll (D : Path) (s : FS) (es : List TarEntry) : FS × Bool := unpackAllC Cfg.dflt D s es

end Scalibr.Unpack
