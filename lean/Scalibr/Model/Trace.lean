/-
Model of layer attribution (C05):
  artifact/image/layerscanning/trace/trace.go   PopulateLayerDetails (backwards loop, `(location, index)`
                                                cache, Stat-not-exist branch, filesExistInLayer skip, break
                                                on an extraction error), areLocationsEqual
  artifact/image/layerscanning/image/image.go   initializeChainLayers / validateHistory (history ↔ layers)
  scalibr.go                                    ScanContainer (final view scanned, then the trace)

Per file, every chain layer does one of `keep | write pkgs | delete`; an empty layer (history entry
with EmptyLayer) is `keep` for every file. A package is identified by (purl, Locations[0]); with one
extractor per file and one location per package that is (file, package id).
-/
namespace Scalibr.Trace

abbrev Pkg := Nat

inductive Op | keep | write (pkgs : List Pkg) | delete
deriving DecidableEq, Repr

/-- one file's life over the chain layers, layer 0 first -/
abbrev History := List Op

/-- content of the file after applying a layer: `none` = absent (never written, or whiteout) -/
def applyOp (cur : Option (List Pkg)) : Op → Option (List Pkg)
  | .keep => cur
  | .write ps => some ps
  | .delete => none

/-- the file in the image-up-to-layer-`i` view (`chainLayers[i].FS()`) -/
def viewAt (h : History) (i : Nat) : Option (List Pkg) := (h.take (i+1)).foldl applyOp none

/-- `filesExistInLayer`: layer `i`'s OWN diff has the file (`Layer.FS().Stat` succeeds; a whiteout
node answers not-exist) -/
def inDiff (h : History) (i : Nat) : Bool :=
  match h[i]? with
  | some (.write _) => true
  | _ => false

/-- the extraction cache `locationIndexToPackages`, keyed by (location, layer index) only -/
abbrev Cache := Nat × Nat → Option (List Pkg)

def Cache.empty : Cache := fun _ => none
def Cache.insert (c : Cache) (k : Nat × Nat) (v : List Pkg) : Cache := fun k' => if k' = k then some v else c k'

inductive Fetch
  | pkgs (ps : List Pkg) (c : Cache)   -- oldPackages determined (and cached)
  | skip                               -- `continue`: file exists in the view but not in this layer's diff
  | err                                -- filesystem.Run returned an error: `break`
deriving Inhabited

/-- one iteration's "what were the packages of this file in view `i`" -/
def fetch (h : History) (runErr : Nat → Bool) (f i : Nat) (c : Cache) : Fetch :=
  match c (f, i) with
  | some ps => .pkgs ps c
  | none =>
    match viewAt h i with
    | none => .pkgs [] (c.insert (f, i) [])                -- Stat: fs.ErrNotExist → no packages
    | some ps =>
      if inDiff h i then
        (if runErr i then .err else .pkgs ps (c.insert (f, i) ps))   -- re-extract view i
      else .skip

/-- `for i := len-2; i >= 0; i--` for one package: `cnt = i + 1`, `last = lastScannedLayerIndex`.
Returns the index into `chainLayerDetailsList` and the cache. -/
def loop (h : History) (runErr : Nat → Bool) (f : Nat) (p : Pkg) : (cnt : Nat) → (last : Nat) → Cache → Nat × Cache
  | 0, _, c => (0, c)                                      -- !foundOrigin → chainLayerDetailsList[0]
  | i+1, last, c =>
    match fetch h runErr f i c with
    | .err => (0, c)                                       -- break → !foundOrigin → layer 0
    | .skip => loop h runErr f p i last c
    | .pkgs ps c' =>
      if ps.contains p then loop h runErr f p i i c'       -- lastScannedLayerIndex = i
      else (last, c')                                      -- origin = lastScannedLayerIndex; break

/-- the trace of one package of file `f` -/
def traceC (h : History) (runErr : Nat → Bool) (f : Nat) (p : Pkg) (c : Cache) : Nat × Cache :=
  loop h runErr f p (h.length - 1) (h.length - 1) c

/-- without a cache (each package starts from an empty one) -/
def trace (h : History) (p : Pkg) : Nat := (traceC h (fun _ => false) 0 p Cache.empty).1

/-- `for _, pkg := range inventory.Packages`: the cache is shared by all packages of all files -/
def populate (img : Nat → History) (runErr : Nat → Bool) : List (Nat × Pkg) → Cache → List Nat
  | [], _ => []
  | (f, p) :: rest, c =>
    let r := traceC (img f) runErr f p c
    r.1 :: populate img runErr rest r.2

/-! ### history entries ↔ layers ↔ chain-layer indices (`initializeChainLayers`) -/

structure HEntry where
  empty : Bool
  cmd : String
deriving DecidableEq, Repr

/-- what a chain layer knows about itself: its index, the ordinal of its v1 layer (`none`: an empty
layer, DiffID ""), its build command -/
structure ChainMeta where
  index : Nat
  layer : Option Nat
  cmd : String
deriving DecidableEq, Repr

def validHistory (nLayers : Nat) (hist : List HEntry) : Bool :=
  (hist.filter (fun e => !e.empty)).length = nLayers

/-- the loop over the history entries; `v` = v1LayerIndex, `hi` = historyIndex -/
def alignLoop (nLayers : Nat) : List HEntry → (v hi : Nat) → List ChainMeta → Option (List ChainMeta × Nat × Nat)
  | [], v, hi, acc => some (acc, v, hi)
  | e :: rest, v, hi, acc =>
    if e.empty then alignLoop nLayers rest v (hi+1) (acc ++ [⟨hi, none, e.cmd⟩])
    else if v ≥ nLayers then none                          -- "config history contains more non-empty layers than expected"
    else alignLoop nLayers rest (v+1) (hi+1) (acc ++ [⟨hi, some v, e.cmd⟩])

/-- remaining v1 layers without history -/
def alignRest (nLayers : Nat) : (fuel v hi : Nat) → List ChainMeta → List ChainMeta
  | 0, _, _, acc => acc
  | fuel+1, v, hi, acc => if v < nLayers then alignRest nLayers fuel (v+1) (hi+1) (acc ++ [⟨hi, some v, ""⟩]) else acc

def initChain (nLayers : Nat) (hist : List HEntry) : Option (List ChainMeta) :=
  if !validHistory nLayers hist then
    some ((List.range nLayers).map fun i => ⟨i, some i, ""⟩)          -- history ignored
  else
    match alignLoop nLayers hist 0 0 [] with
    | none => none
    | some (acc, v, hi) => some (alignRest nLayers nLayers v hi acc)

/-- the per-file history over CHAIN layers, from the ops of the v1 layers -/
def chainHistory (cms : List ChainMeta) (layerOps : List Op) : History :=
  cms.map fun cm => match cm.layer with
    | none => .keep
    | some k => layerOps.getD k .keep

/-- `LayerDetails{Index, DiffID (by layer ordinal), Command}` reported for origin index `o` -/
def details (cms : List ChainMeta) (o : Nat) : Option (Nat × Option Nat × String) :=
  (cms[o]?).map fun cm => (o, cm.layer, cm.cmd)

end Scalibr.Trace
