/-
Model of layer attribution (C05):
  artifact/image/layerscanning/trace/trace.go   PopulateLayerDetails (backwards loop, `(location, index)`
                                                cache, Stat-not-exist branch, filesExistInLayer skip, a failed
                                                re-extraction leaves the package without layer details),
                                                areLocationsEqual
  artifact/image/layerscanning/image/image.go   initializeChainLayers / validateHistory (history ↔ layers)
  scalibr.go                                    ScanContainer (final view scanned, then the trace)

Per file, every chain layer does one of `keep | write pkgs | delete`; an empty layer (history entry
with EmptyLayer) is `keep` for every file. A package is identified by (purl, Locations[0]); with one
extractor per file and one location per package that is (file, package id).
-/
namespace Scalibr.Trace

/-- a package of one file = its purl (name AND version). Equality of ids is equality of purls: the
same name at two versions is two ids (the driver and the generator map id d and d+4 to one name at
versions 1 and 2), and a version bump removes one id and introduces another. `trace.go` compares
`ToPURL(pkg).String()` and `Locations[0]`, never the name alone. -/
abbrev Pkg := Nat

/-- what a chain layer does to one package-list location: nothing, (re)write it as a regular file,
replace it by a symlink to a list with these packages (the target lives elsewhere and is not touched
again), delete it (whiteout) -/
inductive Op | keep | write (pkgs : List Pkg) | link (pkgs : List Pkg) | delete
deriving DecidableEq, Repr

/-- one file's life over the chain layers, layer 0 first -/
abbrev History := List Op

/-- content of the file after applying a layer: `none` = absent (never written, or whiteout). A symlink
is read through (`chainLayer.FS()` resolves it), so the location holds the target's packages. -/
def applyOp (cur : Option (List Pkg)) : Op → Option (List Pkg)
  | .keep => cur
  | .write ps => some ps
  | .link ps => some ps
  | .delete => none

/-- the file in the image-up-to-layer-`i` view (`chainLayers[i].FS()`) -/
def viewAt (h : History) (i : Nat) : Option (List Pkg) := (h.take (i+1)).foldl applyOp none

/-- `filesExistInLayer`: layer `i`'s OWN diff has an entry at the location (`Layer.FS().Stat` succeeds;
the layer's file system does not follow symlinks, so a symlink entry counts; a whiteout node answers
not-exist) -/
def inDiff (h : History) (i : Nat) : Bool :=
  match h[i]? with
  | some (.write _) => true
  | some (.link _) => true
  | _ => false

/-- the extraction cache `locationIndexToPackages`, keyed by (location, layer index) only -/
abbrev Cache := Nat × Nat → Option (List Pkg)

def Cache.empty : Cache := fun _ => none
def Cache.insert (c : Cache) (k : Nat × Nat) (v : List Pkg) : Cache := fun k' => if k' = k then some v else c k'

/-- state shared by all packages: the cache, and how many `filesystem.Run` calls the trace has made -/
structure St where
  cache : Cache
  runs : Nat

def St.empty : St := ⟨Cache.empty, 0⟩

/-- `filesystem.Run` inside the trace can only fail through the context (ErrorOnFSErrors and MaxInodes
do not reach it): `cancelAt = some k` means the context is cancelled once `k` runs have been made, so
run number `k` (0-based) and all later ones fail; `none` = never cancelled. -/
def cancelled (cancelAt : Option Nat) (runs : Nat) : Bool :=
  match cancelAt with
  | some k => decide (k ≤ runs)
  | none => false

inductive Fetch
  | pkgs (ps : List Pkg) (s : St)      -- oldPackages determined (and cached)
  | skip                               -- `continue`: file exists in the view but not in this layer's diff
  | err                                -- filesystem.Run returned an error
deriving Inhabited

/-- one iteration's "what were the packages of this file in view `i`". `diff i` is the answer of
`filesExistInLayer` for layer `i` (does the layer's OWN diff have an entry at the location?) — an observation of its
own: the loop trusts it to say whether the layer changed what the extractor sees there. For a location that every
layer touches only by writing / linking / deleting that very path it is `inDiff h i`. -/
def fetch (h : History) (diff : Nat → Bool) (cancelAt : Option Nat) (f i : Nat) (s : St) : Fetch :=
  match s.cache (f, i) with
  | some ps => .pkgs ps s
  | none =>
    match viewAt h i with
    | none => .pkgs [] ⟨s.cache.insert (f, i) [], s.runs⟩             -- Stat: fs.ErrNotExist → no packages
    | some ps =>
      if diff i then
        (if cancelled cancelAt s.runs then .err
         else .pkgs ps ⟨s.cache.insert (f, i) ps, s.runs + 1⟩)        -- re-extract view i
      else .skip

/-- `for i := len-2; i >= 0; i--` for one package: `cnt = i + 1`, `last = lastScannedLayerIndex`.
Returns the index into `chainLayerDetailsList` (`none`: LayerDetails stays unset) and the state. -/
def loop (h : History) (diff : Nat → Bool) (cancelAt : Option Nat) (f : Nat) (p : Pkg) : (cnt : Nat) → (last : Nat) → St → Option Nat × St
  | 0, _, s => (some 0, s)                                 -- !foundOrigin → chainLayerDetailsList[0]
  | i+1, last, s =>
    match fetch h diff cancelAt f i s with
    | .err => (none, s)                                    -- traceFailed: the package gets no layer details
    | .skip => loop h diff cancelAt f p i last s
    | .pkgs ps s' =>
      if ps.contains p then loop h diff cancelAt f p i i s'     -- lastScannedLayerIndex = i
      else (some last, s')                                 -- origin = lastScannedLayerIndex; break

/-- the trace of one package of file `f` -/
def traceC (h : History) (diff : Nat → Bool) (cancelAt : Option Nat) (f : Nat) (p : Pkg) (s : St) : Option Nat × St :=
  loop h diff cancelAt f p (h.length - 1) (h.length - 1) s

/-- without a cache and without cancellation -/
def trace (h : History) (p : Pkg) : Option Nat := (traceC h (inDiff h) none 0 p St.empty).1

/-- `isPackageTraceable`: only packages of filesystem extractors with at least one location are traced; the
others are skipped (`continue`) and keep no layer details -/
def traceable (fromFilesystemExtractor : Bool) (nLocations : Nat) : Bool :=
  fromFilesystemExtractor && decide (nLocations > 0)

/-- `for _, pkg := range inventory.Packages`: cache and context are shared by all packages of all files -/
def populate (img : Nat → History) (diff : Nat → Nat → Bool) (cancelAt : Option Nat) : List (Nat × Pkg) → St → List (Option Nat)
  | [], _ => []
  | (f, p) :: rest, s =>
    let r := traceC (img f) (diff f) cancelAt f p s
    r.1 :: populate img diff cancelAt rest r.2

/-! ### history entries ↔ layers ↔ chain-layer indices (`initializeChainLayers`) -/

structure HEntry where
  empty : Bool
  cmd : String
deriving DecidableEq, Repr

/-- what a chain layer knows about itself: its index, the ordinal of its v1 layer (`none`: an empty
layer, DiffID ""), its build command -/
structure ChainMeta where
  index : Nat
  layer : Option Nat
  cmd : String
deriving DecidableEq, Repr

def validHistory (nLayers : Nat) (hist : List HEntry) : Bool :=
  (hist.filter (fun e => !e.empty)).length = nLayers

/-- the loop over the history entries; `v` = v1LayerIndex, `hi` = historyIndex -/
def alignLoop (nLayers : Nat) : List HEntry → (v hi : Nat) → List ChainMeta → Option (List ChainMeta × Nat × Nat)
  | [], v, hi, acc => some (acc, v, hi)
  | e :: rest, v, hi, acc =>
    if e.empty then alignLoop nLayers rest v (hi+1) (acc ++ [⟨hi, none, e.cmd⟩])
    else if v ≥ nLayers then none                          -- "config history contains more non-empty layers than expected"
    else alignLoop nLayers rest (v+1) (hi+1) (acc ++ [⟨hi, some v, e.cmd⟩])

/-- remaining v1 layers without history -/
def alignRest (nLayers : Nat) : (fuel v hi : Nat) → List ChainMeta → List ChainMeta
  | 0, _, _, acc => acc
  | fuel+1, v, hi, acc => if v < nLayers then alignRest nLayers fuel (v+1) (hi+1) (acc ++ [⟨hi, some v, ""⟩]) else acc

def initChain (nLayers : Nat) (hist : List HEntry) : Option (List ChainMeta) :=
  if !validHistory nLayers hist then
    some ((List.range nLayers).map fun i => ⟨i, some i, ""⟩)          -- history ignored
  else
    match alignLoop nLayers hist 0 0 [] with
    | none => none
    | some (acc, v, hi) => some (alignRest nLayers nLayers v hi acc)

/-- the per-file history over CHAIN layers, from the ops of the v1 layers -/
def chainHistory (cms : List ChainMeta) (layerOps : List Op) : History :=
  cms.map fun cm => match cm.layer with
    | none => .keep
    | some k => layerOps.getD k .keep

/-- `LayerDetails{Index, DiffID (by layer ordinal), Command}` reported for origin index `o` -/
def details (cms : List ChainMeta) (o : Nat) : Option (Nat × Option Nat × String) :=
  (cms[o]?).map fun cm => (o, cm.layer, cm.cmd)

/-- `Package.LayerDetails` after the trace: `none` = left unset -/
def detailsOpt (cms : List ChainMeta) (o : Option Nat) : Option (Nat × Option Nat × String) :=
  o.bind (details cms)

end Scalibr.Trace
