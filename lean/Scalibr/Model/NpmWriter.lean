/-
Model of `guidedremediation/internal/manifest/npm/packagejson.go` (C13), as of fix 36cc05c9.

A package.json is abstracted to its three dependency sections, each an association list
`key ↦ raw value` in file order (`Doc`).  Everything else in the file (name, version, peer/bundled
sections, whitespace) is not touched by the code and is checked byte-for-byte by the harness.

* `escape`            = `escapeJSONPathComponent`
* `plainMode/escMode` = the first-component parser of gjson (`parseObjectPath`): an unescaped `.` or
                        `|` ends the component, an unescaped `*`/`?` makes it a wildcard, `\` starts
                        escape mode.  `gjsonGet` is `gjson.GetBytes(manif, section + "." + path)`
                        restricted to what the writer uses; key lookup = first entry with that key
                        (trusted contract of gjson / sjson, DESIGN.md §3).
* `apply1`            = the body of `Write`'s inner loop for one `PackageUpdate`
* `makeReq`, `requirements` = `makeNPMReqVer`, `SplitNPMAlias`, and the prod → optional → dev
                        cascade of `parse` (workspaces are outside the model).
-/
namespace Scalibr.Npm

abbrev Str := List Char
abbrev Sec := List (Str × Str)

structure Doc where
  dev : Sec
  opt : Sec
  prod : Sec
deriving Repr, DecidableEq

/-- `result.PackageUpdate` as the writer reads it: `knownAs` is the `dep.KnownAs` attribute -/
structure Up where
  name : Str
  knownAs : Option Str
  frm : Str
  to : Str
deriving Repr, DecidableEq

/-! ### escapeJSONPathComponent and gjson's path-component parser -/

def special (c : Char) : Bool :=
  c = '.' || c = '*' || c = '?' || c = '|' || c = '#' || c = '@' || c = '\\' || c = '!' || c = '<' ||
  c = '>' || c = '=' || c = '%' || c = '{' || c = '}' || c = '[' || c = ']' || c = ':'

def escape : Str → Str
  | [] => []
  | c :: cs => if special c then '\\' :: c :: escape cs else c :: escape cs

/-- result of parsing one path component: the literal key, whether it is a wildcard pattern, and the
rest of the path when a `.` / `|` ended the component -/
structure Part where
  part : Str
  wild : Bool
  rest : Option Str
deriving Repr, DecidableEq

def escMode : Str → Str → Bool → Part
  | [], acc, w => ⟨acc.reverse, w, none⟩
  | [c], acc, w =>
    if c = '\\' then ⟨acc.reverse, w, none⟩
    else if c = '.' || c = '|' then ⟨acc.reverse, w, some []⟩
    else ⟨(c :: acc).reverse, w || c = '*' || c = '?', none⟩
  | c :: d :: cs, acc, w =>
    if c = '\\' then escMode cs (d :: acc) w
    else if c = '.' || c = '|' then ⟨acc.reverse, w, some (d :: cs)⟩
    else escMode (d :: cs) (c :: acc) (w || c = '*' || c = '?')

def plainMode : Str → Str → Bool → Part
  | [], acc, w => ⟨acc.reverse, w, none⟩
  | [c], acc, w =>
    if c = '|' || c = '.' then ⟨acc.reverse, w, some []⟩
    else if c = '\\' then ⟨acc.reverse, w, none⟩
    else ⟨(c :: acc).reverse, w || c = '*' || c = '?', none⟩
  | c :: d :: cs, acc, w =>
    if c = '|' || c = '.' then ⟨acc.reverse, w, some (d :: cs)⟩
    else if c = '\\' then escMode cs (d :: acc) w
    else plainMode (d :: cs) (c :: acc) (w || c = '*' || c = '?')

def parsePart (path : Str) : Part := plainMode path [] false

def lookup (s : Sec) (key : Str) : Option Str := (s.find? (·.1 = key)).map (·.2)

/-- `gjson.GetBytes(manif, "<section>." + path)`: exact key lookup when the component is a literal;
wildcard / deeper paths are outside what the writer means to use and yield "does not exist" here -/
def gjsonGet (s : Sec) (path : Str) : Option Str :=
  let p := parsePart path
  if p.wild || p.rest.isSome then none else lookup s p.part

/-- `sjson.SetBytes` on an existing literal key: replace the value of the first entry with that key -/
def setKey : Sec → Str → Str → Sec
  | [], _, _ => []
  | (k, x) :: es, key, v => if k = key then (k, v) :: es else (k, x) :: setKey es key v

def sjsonSet (s : Sec) (path : Str) (v : Str) : Sec :=
  let p := parsePart path
  if p.wild || p.rest.isSome then s else setKey s p.part v

/-! ### Write -/

def npmPrefix : Str := ['n', 'p', 'm', ':']

/-- `fmt.Sprintf("npm:%s@%s", name, ver)` -/
def aliasStr (name ver : Str) : Str := npmPrefix ++ name ++ '@' :: ver

def wkey (u : Up) : Str := match u.knownAs with | some k => k | none => u.name
def origVer (u : Up) : Str := match u.knownAs with | some _ => aliasStr u.name u.frm | none => u.frm
def newVer (u : Up) : Str := match u.knownAs with | some _ => aliasStr u.name u.to | none => u.to

inductive R
  | ok (d : Doc)
  | err
deriving Repr, DecidableEq

/-- one of the three blocks of the inner loop (`depStr := "<section>." + name` …): `matched` is
`alreadyMatched` on entry; `none` is the "original dependency version does not match patch" error.
(The first block runs with `alreadyMatched = false`, so its mismatch is always an error; the last
block's assignment to `alreadyMatched` is dead.) -/
def secStep (s : Sec) (path ov nv : Str) (matched : Bool) : Option (Sec × Bool) :=
  match gjsonGet s path with
  | some v =>
    if v ≠ ov then (if matched then some (s, matched) else none)
    else some (sjsonSet s path nv, true)
  | none => some (s, matched)

/-- one iteration of the inner loop of `Write`: dev → optional → prod -/
def apply1 (d : Doc) (u : Up) : R :=
  let path := escape (wkey u)
  match secStep d.dev path (origVer u) (newVer u) false with
  | none => .err
  | some (dev', m1) =>
    match secStep d.opt path (origVer u) (newVer u) m1 with
    | none => .err
    | some (opt', m2) =>
      match secStep d.prod path (origVer u) (newVer u) m2 with
      | none => .err
      -- fix 400b3071: an update no section holds the key of is an error (it was passed over in silence)
      | some (prod', m3) => if m3 then .ok ⟨dev', opt', prod'⟩ else .err

def write (d : Doc) : List Up → R
  | [] => .ok d
  | u :: us => match apply1 d u with
    | .ok d' => write d' us
    | .err => .err

/-! ### Read -/

structure Req where
  name : Str
  knownAs : Option Str
  ver : Str
deriving Repr, DecidableEq

def stripNpm : Str → Option Str
  | 'n' :: 'p' :: 'm' :: ':' :: r => some r
  | _ => none

/-- `strings.LastIndex(s, string(c))` -/
def lastIndexOf (c : Char) : Str → Option Nat
  | [] => none
  | x :: xs =>
    match lastIndexOf c xs with
    | some i => some (i + 1)
    | none => if x = c then some 0 else none

/-- `SplitNPMAlias` -/
def splitAlias (v : Str) : Str × Str :=
  match stripNpm v with
  | some r =>
    match lastIndexOf '@' r with
    | some i => if i > 0 then (r.take i, r.drop (i + 1)) else (r, [])
    | none => (r, [])
  | none => ([], v)

/-- `makeNPMReqVer`: `none` = "Skipping unsupported requirement" -/
def makeReq (e : Str × Str) : Option Req :=
  let (realPkg, realVer) := splitAlias e.2
  let (pkg, ver, ka) : Str × Str × Option Str :=
    if realPkg ≠ [] then (realPkg, realVer, some e.1) else (e.1, e.2, none)
  if ver.any (fun c => c = ':' || c = '/') then none else some ⟨pkg, ka, ver⟩

/-- `slices.IndexFunc(reqs, same MakeRequirementKey)` then replace, else append.  The key is the package together with the
`KnownAs` alias (fix 8304c0d6; it was the package alone, so `"bar": "npm:foo@^2"` in devDependencies replaced the plain
`"foo"` of dependencies) -/
def upsert : List Req → Req → List Req
  | [], r => [r]
  | x :: xs, r => if x.name = r.name ∧ x.knownAs = r.knownAs then r :: xs else x :: upsert xs r

def addSec (rs : List Req) (s : Sec) : List Req :=
  s.foldl (fun rs e => match makeReq e with | some r => upsert rs r | none => rs) rs

/-- the requirements `Read` returns, before `resolve.SortDependencies` (compared as sorted lists) -/
def requirements (d : Doc) : List Req :=
  addSec (addSec (d.prod.filterMap makeReq) d.opt) d.dev

end Scalibr.Npm
