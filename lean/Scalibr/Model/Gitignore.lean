/-
The go-git gitignore matcher restricted to the pattern sub-language the generators emit: literal
names, `name/` (directories only) and `!name` (re-inclusion).  Mirrors
`gitignore.pattern.Match` / `simpleNameMatch` and `gitignore.matcher.Match` (last matching pattern
wins) of github.com/go-git/go-git/v5/plumbing/format/gitignore.  It is validated against go-git by the
correspondence stream (every scan with UseGitignore exercises it); the theorems treat the matcher as
a parameter and use only the domain law `giMatch_domain` below.
-/
import Scalibr.Model.Walk
namespace Scalibr.Walk

inductive MatchResult | noMatch | exclude | include
deriving DecidableEq, Repr

/-- `simpleNameMatch`: the first component equal to the name decides -/
def simpleNameMatch (pt : Pat) (isDir : Bool) : List String → Bool
  | [] => false
  | [last] => if last = pt.name then !(pt.dirOnly && !isDir) else false
  | x :: rest => if x = pt.name then true else simpleNameMatch pt isDir rest

def patMatch (pt : Pat) (dom toks : List String) (isDir : Bool) : MatchResult :=
  if toks.length ≤ dom.length then .noMatch
  else if toks.take dom.length ≠ dom then .noMatch
  else if simpleNameMatch pt isDir (toks.drop dom.length) then (if pt.neg then .include else .exclude)
  else .noMatch

/-- `matcher.Match`: patterns are consulted from the last to the first; the first verdict wins -/
def matcherMatch (ps : PatSet) (dom toks : List String) (isDir : Bool) : Bool :=
  let rec go : List Pat → Bool
    | [] => false
    | pt :: rest =>
      match patMatch pt dom toks isDir with
      | .exclude => true
      | .include => false
      | .noMatch => go rest
  go ps.reverse

/-- the only fact about the matcher the walk theorems rely on -/
def DomainLaw (gm : PatSet → List String → List String → Bool → Bool) : Prop :=
  ∀ ps dom toks isDir, toks.length ≤ dom.length → gm ps dom toks isDir = false

theorem matcherMatch_domain : DomainLaw matcherMatch := by
  intro ps dom toks isDir h
  unfold matcherMatch
  generalize ps.reverse = l
  induction l with
  | nil => rfl
  | cons pt rest ih => simp [matcherMatch.go, patMatch, h, ih]

end Scalibr.Walk
