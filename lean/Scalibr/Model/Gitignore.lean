/-
The go-git gitignore matcher restricted to the pattern sub-language the generators emit: literal
names, `name/` (directories only) and `!name` (re-inclusion).  Mirrors
`gitignore.pattern.Match` / `simpleNameMatch` and `gitignore.matcher.Match` (last matching pattern
wins) of github.com/go-git/go-git/v5/plumbing/format/gitignore.  It is validated against go-git by the
correspondence stream (every scan with UseGitignore exercises it); the theorems treat the matcher as
a parameter and use only the domain law `giMatch_domain` below.
-/
import Scalibr.Model.Walk
namespace Scalibr.Walk

inductive MatchResult | noMatch | exclude | include
deriving DecidableEq, Repr

/-- `simpleNameMatch`: the first component equal to the name decides -/
def simpleNameMatch (pt : Pat) (isDir : Bool) : List String → Bool
  | [] => false
  | [last] => if last = pt.name then !(pt.dirOnly && !isDir) else false
  | x :: rest => if x = pt.name then true else simpleNameMatch pt isDir rest

def patMatch (pt : Pat) (dom toks : List String) (isDir : Bool) : MatchResult :=
  if toks.length ≤ dom.length then .noMatch
  else if toks.take dom.length ≠ dom then .noMatch
  else if simpleNameMatch pt isDir (toks.drop dom.length) then (if pt.neg then .include else .exclude)
  else .noMatch

/-- `matcher.Match`: patterns are consulted from the last to the first; the first verdict wins -/
def matcherMatch (ps : PatSet) (dom toks : List String) (isDir : Bool) : Bool :=
  let rec go : List Pat → Bool
    | [] => false
    | pt :: rest =>
      match patMatch pt dom toks isDir with
      | .exclude => true
      | .include => false
      | .noMatch => go rest
  go ps.reverse

/-- the only fact about the matcher the walk theorems rely on -/
def DomainLaw (gm : PatSet → List String → List String → Bool → Bool) : Prop :=
  ∀ ps dom toks isDir, toks.length ≤ dom.length → gm ps dom toks isDir = false

theorem matcherMatch_domain : DomainLaw matcherMatch := by
  intro ps dom toks isDir h
  unfold matcherMatch
  generalize ps.reverse = l
  induction l with
  | nil => rfl
  | cons pt rest ih => simp [matcherMatch.go, patMatch, h, ih]

/-- A matcher given by a TABLE of the real go-git matcher's verdicts, for pattern sets the model does not interpret
(`key ps = some k`: a `.gitignore` in full gitignore syntax, identified by directory and content); interpreted pattern
sets keep `matcherMatch`. As in go-git's `pattern.Match`, a path not longer than the domain never matches. -/
def tableMatch (key : PatSet → Option String) (tbl : List (String × List String × Bool)) :
    PatSet → List String → List String → Bool → Bool :=
  fun ps dom toks isDir =>
    match key ps with
    | some k => decide (toks.length > dom.length) && tbl.contains (k, toks, isDir)
    | none => matcherMatch ps dom toks isDir

/-- whatever the table says, the table matcher obeys the domain law — so every walk theorem applies to scans whose
`.gitignore` files use the full gitignore syntax, with go-git's verdicts as data -/
theorem tableMatch_domain (key : PatSet → Option String) (tbl : List (String × List String × Bool)) :
    DomainLaw (tableMatch key tbl) := by
  intro ps dom toks isDir h
  unfold tableMatch
  cases key ps with
  | none => exact matcherMatch_domain ps dom toks isDir h
  | some k =>
    have : ¬ toks.length > dom.length := by omega
    simp [this]

end Scalibr.Walk
