/-
Model of `detector/detector.go` (`Run`, `validateAdvisories`) and of the tail of `scalibr.go: Scan`
(index built from the merged inventory, detectors run, findings appended, `sro.Err`, `newScanResult`,
`sortResults` for findings and plugin statuses) — C20.

* A detector returns `[]*Finding`: an entry may be nil (`none`). `Run` (since fix e8c67092) appends a tagged
  COPY of every non-nil entry (`tagged := *f; tagged.Detectors = []string{d.Name()}`) and appends a nil
  entry as nil, which `validateAdvisories` then reports as an error. The object the detector returned is
  never written to; `ptr` only records which object a reported finding is a copy of.
* `reflect.DeepEqual(adv, *f.Adv)` on two advisories with equal IDs is structural equality of the
  remaining fields, modelled as equality of the opaque `body` (assumption: no NaN CVSS scores, for
  which DeepEqual is irreflexive).
* A detector is an arbitrary function of the index it is handed (plus "returned an error" and "cancelled
  the scan's context while running").
* `slices.SortFunc` is modelled by the stable insertion sort `Scalibr.isort` (contract: a sorted
  permutation); the correspondence compares sorted multisets and checks sortedness separately.
-/
import Scalibr.Base.Sort
import Scalibr.Base.Lex
import Scalibr.Model.Index
namespace Scalibr.Detector
open Scalibr.Index

/-- `detector.AdvisoryID`: `Publisher` (opaque) and `Reference` as the byte string it is (`sortResults`
orders findings by it, bytewise) -/
abbrev AdvID := Nat × List Nat

/-- `detector.Advisory`: the ID pointer (`none` = nil) and everything else -/
structure Adv where
  id : Option AdvID
  body : Nat
deriving DecidableEq, Repr

/-- `*detector.Finding` -/
structure Finding where
  ptr : Nat                    -- which object the detector returned (the reported finding is a copy of it)
  adv : Option Adv             -- `none` = nil Adv
  target : Nat                 -- Target (opaque payload)
  extra : List Nat             -- Extra, as a byte string (second sort key)
  detectors : List String      -- Detectors
deriving DecidableEq, Repr

inductive StatusEnum | succeeded | partially | failed
deriving DecidableEq, Repr

/-- `plugin.Status` (name and status enum) -/
structure Status where
  name : String
  st : StatusEnum
deriving DecidableEq, Repr

structure Detector where
  name : String
  scan : PkgMap → List (Option Finding) × Bool   -- (results with possibly-nil entries, err ≠ nil)
  cancels : Bool                           -- cancels the context during its Scan

inductive RunErr
  | ctx                                    -- ctx.Err()
  | nilFinding                             -- detector returned a nil finding
  | noAdvisory | noID
  | mismatch (id : AdvID)                  -- multiple non-identical advisories with ID …
deriving DecidableEq, Repr

/-- state of the loop in `Run` -/
structure St where
  findings : List (Option Finding) := []
  status : List Status := []
  calls : List (String × PkgMap) := []     -- observation: which detector's Scan was called with which index
  cancelled : Bool := false
  ctxReturn : Bool := false                -- the loop returned `nil, nil, ctx.Err()`

/-- `plugin.StatusFromErr(d, false, err)` -/
def statusFromErr (name : String) (err : Bool) : Status := ⟨name, if err then .failed else .succeeded⟩

/-- `tagged := *f; tagged.Detectors = []string{d.Name()}` -/
def tagCopy (name : String) (f : Finding) : Finding := { f with detectors := [name] }

/-- the inner loop over one detector's results: nil stays nil, everything else is copied and tagged -/
def tagResults (name : String) (results : List (Option Finding)) : List (Option Finding) :=
  results.map fun r => match r with
    | none => none
    | some f => some (tagCopy name f)

def runLoop (px : PkgMap) : List Detector → St → St
  | [], s => s
  | d :: ds, s =>
    if s.cancelled then { s with ctxReturn := true }           -- if ctx.Err() != nil { return nil, nil, ctx.Err() }
    else
      let r := d.scan px                                        -- results, err := d.Scan(ctx, scanRoot, index)
      runLoop px ds
        { findings := s.findings ++ tagResults d.name r.1      -- findings = append(findings, &tagged / nil)
          status := s.status ++ [statusFromErr d.name r.2]     -- status = append(status, StatusFromErr(d, false, err))
          calls := s.calls ++ [(d.name, px)]
          cancelled := s.cancelled || d.cancels
          ctxReturn := false }

def lookAdv : List (AdvID × Adv) → AdvID → Option Adv
  | [], _ => none
  | (k, v) :: rest, i => if k = i then some v else lookAdv rest i

/-- `validateAdvisories`, with the map `ids` as an association list (newest first) -/
def validate : List (Option Finding) → List (AdvID × Adv) → Option RunErr
  | [], _ => none
  | none :: _, _ => some .nilFinding
  | some f :: fs, ids =>
    match f.adv with
    | none => some .noAdvisory
    | some a =>
      match a.id with
      | none => some .noID
      | some i =>
        match lookAdv ids i with
        | some a' => if a' ≠ a then some (.mismatch i) else validate fs ((i, a) :: ids)
        | none => validate fs ((i, a) :: ids)

structure RunOut where
  findings : List Finding
  status : List Status
  err : Option RunErr
  calls : List (String × PkgMap)

/-- `detector.Run`. On success the returned slice is the validated one, which holds no nil entry
(`C20_run_no_nil`), so it is given as a list of findings. -/
def run (ds : List Detector) (px : PkgMap) : RunOut :=
  let s := runLoop px ds {}
  if s.ctxReturn then ⟨[], [], some .ctx, s.calls⟩
  else
    match validate s.findings [] with
    | some e => ⟨[], s.status, some e, s.calls⟩
    | none => ⟨s.findings.filterMap id, s.status, none, s.calls⟩

/-- `detector.Run` entered with the context possibly cancelled already (`cancelledAtEntry`): what `Scan` does
when an earlier phase's last plugin cancelled the context without that phase noticing. `run = runFrom false`. -/
def runFrom (cancelledAtEntry : Bool) (ds : List Detector) (px : PkgMap) : RunOut :=
  let s := runLoop px ds { cancelled := cancelledAtEntry }
  if s.ctxReturn then ⟨[], [], some .ctx, s.calls⟩
  else
    match validate s.findings [] with
    | some e => ⟨[], s.status, some e, s.calls⟩
    | none => ⟨s.findings.filterMap id, s.status, none, s.calls⟩

/-! ### tail of `Scan` -/

/-- what `filesystem.Run` and `standalone.Run` delivered -/
structure ScanIn where
  fsPkgs : List Pkg
  fsFindings : List Finding          -- an extractor's inventory may carry findings (no built-in one does); validated with the detectors'
  fsStatus : List Status
  stPkgs : List Pkg
  stFindings : List Finding
  stStatus : List Status
  dets : List Detector

/-- `cmpFindings` keys: `(Adv.ID.Reference, Extra)`, both byte strings; `none` where the Go code would
dereference nil -/
def sortKey (f : Finding) : Option (List Nat × List Nat) :=
  match f.adv with
  | some a => match a.id with
    | some i => some (i.2, f.extra)
    | none => none
  | none => none

/-- `cmpFindings`, field by field: `if a.Reference != b.Reference { return cmpString(references) };
return cmpString(extras)` with `cmpString` = Go's bytewise `<` -/
def keyLt : (List Nat × List Nat) → (List Nat × List Nat) → Bool := prodLt ltBytes ltBytes

/-- keyless findings (where `cmpFindings` panics, see `ScanOut.panics`) are put first so that the
comparator is a strict weak order on all findings -/
def optKeyLt : Option (List Nat × List Nat) → Option (List Nat × List Nat) → Bool
  | some x, some y => keyLt x y
  | none, some _ => true
  | _, _ => false

def findingLt (a b : Finding) : Bool := optKeyLt (sortKey a) (sortKey b)

/-- bytes of a plugin name (`cmpStatus` = `cmpString(a.Name, b.Name)`, bytewise) -/
def nameBytes (s : String) : List Nat := s.toUTF8.toList.map (·.toNat)

def statusLt (a b : Status) : Bool := ltBytes (nameBytes a.name) (nameBytes b.name)

structure ScanOut where
  failed : Bool                      -- Status.Status == ScanStatusFailed
  err : Option RunErr
  pluginStatus : List Status         -- sorted by name
  packages : List Pkg                -- Inventory.Packages, before `sortResults` (their order is C08's subject)
  findings : List Finding            -- sorted by (reference, extra)
  panics : Bool                      -- `sortResults` dereferences a nil Adv / nil ID
  calls : List (String × PkgMap)

/-- what `Scan` holds in `sro.Inventory.Findings` / `sro.Err` when it reaches `newScanResult` (since fix 89f87523):
the extractors' findings and what `detector.Run` returned are validated TOGETHER
(`detector.ValidateAdvisories(sro.Inventory.Findings)`); on an inconsistency the findings are cleared and, unless
`detector.Run` already failed, the validation error becomes the scan's error -/
def scanFindings (i : ScanIn) : List Finding × Option RunErr :=
  let r := run i.dets (Index.new (i.fsPkgs ++ i.stPkgs))
  let findings := i.fsFindings ++ i.stFindings ++ r.findings     -- append(sro.Inventory.Findings, findings...)
  match validate (findings.map some) [] with
  | some verr => ([], match r.err with | some e => some e | none => some verr)   -- Findings = nil; if sro.Err == nil { sro.Err = verr }
  | none => (findings, r.err)

def scanTail (i : ScanIn) : ScanOut :=
  let pkgs := i.fsPkgs ++ i.stPkgs                              -- sro.Inventory.Append(standaloneInv)
  let exStatus := i.fsStatus ++ i.stStatus
  let px := Index.new pkgs                                      -- packageindex.New(sro.Inventory.Packages)
  let r := run i.dets px
  let fe := scanFindings i
  let status := exStatus ++ r.status                            -- append(o.ExtractorStatus, o.DetectorStatus...)
  { failed := fe.2.isSome
    err := fe.2
    pluginStatus := isort statusLt status
    packages := pkgs
    findings := isort findingLt fe.1
    panics := decide (fe.1.length ≥ 2) && fe.1.any fun f => (sortKey f).isNone   -- unreachable: `C20_no_sort_panic`
    calls := r.calls }

/-! ### head of `Scan`: the precondition chain -/

/-- why `Scan` stops before running anything -/
inductive PreErr
  | enable          -- EnableRequiredExtractors: a required extractor is in neither list.go
  | invalid         -- ValidatePluginRequirements: some plugin's requirements are not met by the capabilities
  | noRoot          -- errNoScanRoot
  | severalRoots    -- errFilesWithSeveralRoots
deriving DecidableEq, Repr

/-- `if err := config.EnableRequiredExtractors(); err != nil {…} else if err := config.ValidatePluginRequirements(); err != nil {…}
else if len(config.ScanRoots) == 0 {…} else if len(config.PathsToExtract) > 0 && len(config.ScanRoots) > 1 {…}`; the outcomes of
the two calls (C19's subject) are inputs here -/
def preCheck (enableOK validOK : Bool) (nroots : Nat) (paths : Bool) : Option PreErr :=
  if !enableOK then some .enable
  else if !validOK then some .invalid
  else if nroots = 0 then some .noRoot
  else if paths && decide (nroots > 1) then some .severalRoots
  else none

/-- `Scan`: `if sro.Err != nil { sro.EndTime = time.Now(); return newScanResult(sro) }` — with a failed precondition the result is
built at once from an `sro` that holds nothing but the error: no extractor and no detector has run; otherwise the three phases run -/
def scanHead (pre : Option PreErr) (i : ScanIn) : Except PreErr ScanOut :=
  match pre with
  | some e => .error e
  | none => .ok (scanTail i)

end Scalibr.Detector
