/-
What the layer-scanning image loader writes to disk (C06, load path): `image.go` — the name handling at the top of the
loop of `fillChainLayersWithFilesFromTar` (path.Clean, TrimPrefix "/", the "Zip Slip" test, the "."/".." base-name
test), `os.Mkdir` of each layer directory in `FromV1Image`, `handleDir` (`os.Stat`, `os.MkdirAll`), `handleFile`
(`os.MkdirAll` of the parent, `os.OpenFile(O_CREATE|O_RDWR)`), `handleSymlink` (nothing on disk), `handleImageError`
/ `Image.CleanUp` (`os.RemoveAll(ExtractDir)`).

The operating system is the one of Model/Unpack.lean: a state `FS` over the paths of a sandbox, PHYSICAL path resolution
(`resolve`: every component must exist, symbolic links are followed wherever they are met, also at the end).  Unlike
the unpacker (`mkdirAllIn`, `pathOutsideBaseDirectory`) the loader tests nothing before it writes: `mkdirAllOS` and
`openCreate` below go wherever the kernel takes them — through a symbolic link, if one is on the way.  That none ever
is, is the content of the theorems (Properties/C06Load.lean), not of these definitions.

`D` is the image's extraction directory (what `os.MkdirTemp` returned), paths are relative to the sandbox root, names
relative to `D` begin with the layer directory.  Whether the loader touches the disk for an entry at all is decided by
its path tree ("already in this chain layer": C04's business): here every entry comes with a flag `go`, and the
theorems hold for every choice of the flags.
-/
import Scalibr.Model.Unpack
namespace Scalibr.LoadDisk
open Scalibr.GoPath Scalibr.Unpack

/-- the cleaned entry name the loader goes on with (`cleanedFilePath`, as segments), `none` when it skips the entry:
a cleaned name that is "..", begins with "../", or is "", "." or "/" -/
def relOf (e : TarEntry) : Option (List String) :=
  let c := cleanComps e.nameAbs e.nameComps
  if c.1 > 0 then none else if c.2 = [] then none else some c.2

/-- `os.MkdirAll(D/rel)`: level by level; a level that exists (`os.Stat`: links followed) must be a directory, a
missing one is made by `os.Mkdir` in whatever directory its parent physically is.  No test of where that is. -/
def mkdirAllOS (D : Path) (s : FS) : List String → List String → MkRes
  | _, [] => .ok s
  | done, c :: rest =>
    match statRel D s (done ++ [c]) with
    | some .dir => mkdirAllOS D s (done ++ [c]) rest
    | some _ => .fail s
    | none =>
      match resolveA D s D done with
      | .error _ => .fail s
      | .ok pp =>
        if s.get pp != some .dir || tooLong c || (s.get (pp ++ [c])).isSome then .fail s       -- os.Mkdir fails
        else mkdirAllOS D (s.put (pp ++ [c]) .dir) (done ++ [c]) rest

/-- `os.OpenFile(D/rel, O_CREATE|O_RDWR)` and the copy: the parent is resolved physically; a missing name is created,
a regular file is written over, a symbolic link at the name is FOLLOWED to the file it leads to (a dangling one: error
here, the kernel would create its target), a directory is an error -/
def openCreate (D : Path) (s : FS) (rel : List String) (cid : Nat) : MkRes :=
  match rel.getLast? with
  | none => .fail s
  | some name =>
    match resolveA D s D rel.dropLast with
    | .error _ => .fail s
    | .ok pp =>
      if s.get pp != some .dir || tooLong name then .fail s else
      match s.get (pp ++ [name]) with
      | none => .ok (s.put (pp ++ [name]) (.file cid))
      | some (.file _) => .ok (s.put (pp ++ [name]) (.file cid))
      | some .dir => .fail s
      | some (.link _) =>
        match resolveA D s D rel with
        | .ok q =>
          match s.get q with
          | some (.file _) => .ok (s.put q (.file cid))
          | _ => .fail s
        | .error _ => .fail s

/-- one tar entry of the layer whose directory is `D/layer`; `go = false`: the path tree already has the name (or the
entry is of a type the loader skips), nothing touches the disk -/
def entryStep (D : Path) (layer : String) (s : FS) (e : TarEntry) (go : Bool) : MkRes :=
  if !go then .ok s else
  match relOf e with
  | none => .ok s
  | some segs =>
    let rel := layer :: segs
    match e.typ with
    | 'd' =>
      match statRel D s rel with                        -- handleDir: os.Stat succeeded: nothing to do
      | some _ => .ok s
      | none => mkdirAllOS D s [] rel
    | 'r' =>
      match mkdirAllOS D s [] rel.dropLast with         -- handleFile
      | .ok s1 => openCreate D s1 rel e.cid
      | r => .fail r.state
    | _ => .ok s                                        -- symbolic and hard links are nodes of the path tree only

/-- the entries of one archive in order; the first error ends the load -/
def entries (D : Path) (layer : String) : FS → List (TarEntry × Bool) → MkRes
  | s, [] => .ok s
  | s, (e, go) :: rest =>
    match entryStep D layer s e go with
    | .ok s1 => entries D layer s1 rest
    | r => .fail r.state

structure LayerIn where
  name : String                          -- layer-<i>
  ents : List (TarEntry × Bool)

/-- one chain layer: `os.Mkdir(D/layer-i)` (an existing name is tolerated, whatever it is), then its archive -/
def layerRun (D : Path) (s : FS) (l : LayerIn) : MkRes :=
  if s.get D != some .dir || tooLong l.name then .fail s else
  let s1 := if (s.get (D ++ [l.name])).isSome then s else s.put (D ++ [l.name]) .dir
  entries D l.name s1 l.ents

def layers (D : Path) : FS → List LayerIn → MkRes
  | s, [] => .ok s
  | s, l :: rest =>
    match layerRun D s l with
    | .ok s1 => layers D s1 rest
    | r => .fail r.state

/-- `os.RemoveAll(D)` -/
def removeTree (D : Path) (s : FS) : FS := ⟨fun q => if isPrefix D q then none else s.get q, s.keys⟩

/-- the load from the moment `os.MkdirTemp` has returned `D`: `(true, state)` after a successful load, `(false, state
after handleImageError)` otherwise -/
def load (D : Path) (s : FS) (ls : List LayerIn) : Bool × FS :=
  match layers D s ls with
  | .ok s1 => (true, s1)
  | r => (false, removeTree D r.state)

end Scalibr.LoadDisk
