/-
Model of the decision logic of `guidedremediation.go` (`choosePatches`, `computeVulnsResult`) and of
`remediation.ConstructPatches` (C12).  Vulnerability ids, package names and versions are opaque
naturals.  Go maps used as sets are lists; `slices.SortFunc` + `CompactFunc` at the end of
`ConstructPatches` only orders and de-duplicates, so results are compared as sets (sorted by the driver).
-/
namespace Scalibr.Pipeline

/-- `result.PackageUpdate` (name, VersionFrom, VersionTo) -/
structure Update where
  name : Nat
  frm : Nat
  to : Nat
deriving Repr, DecidableEq

/-- `result.Patch` -/
structure Patch where
  updates : List Update
  fixed : List Nat
  introduced : List Nat
deriving Repr, DecidableEq

/-- the loop of `choosePatches`: `pc` = pkgChanges, `fv` = fixedVulns, `k` = maxUpgrades -/
def chooseAux : List Patch → List (Nat × Nat) → List Nat → Int → Bool → List Patch
  | [], _, _, _, _ => []
  | p :: ps, pc, fv, k, ni =>
    if p.updates.any (fun u => pc.contains (u.name, u.frm)) then chooseAux ps pc fv k ni
    else if p.fixed.any (fun v => fv.contains v) then chooseAux ps pc fv k ni
    else if ni && !p.introduced.isEmpty then chooseAux ps pc fv k ni
    else
      p :: (if k - 1 = 0 then []        -- maxUpgrades--; if maxUpgrades == 0 { break }
            else chooseAux ps (pc ++ p.updates.map fun u => (u.name, u.frm)) (fv ++ p.fixed) (k - 1) ni)

def choosePatches (all : List Patch) (maxUpgrades : Int) (noIntroduce : Bool) : List Patch :=
  chooseAux all [] [] maxUpgrades noIntroduce

/-- `computeVulnsResult`: (id, Unactionable) for every vulnerability of the resolved manifest -/
def computeVulnsResult (vulns : List Nat) (all : List Patch) : List (Nat × Bool) :=
  let fixable := all.flatMap (·.fixed)
  vulns.map fun v => (v, !fixable.contains v)

/-- the first two loops of `ConstructPatches`: `fixedVulns` starts as all old ids; a new id that is
(still) in it is deleted from it, any other new id is introduced -/
def vulnDiffAux : List Nat → List Nat → List Nat → List Nat × List Nat
  | [], fixed, intro => (fixed, intro)
  | v :: vs, fixed, intro =>
    if fixed.contains v then vulnDiffAux vs (fixed.filter (· ≠ v)) intro
    else vulnDiffAux vs fixed (if intro.contains v then intro else intro ++ [v])

def vulnDiff (old new : List Nat) : List Nat × List Nat := vulnDiffAux new old.eraseDups []

/-- `resolution.MakeRequirementKey`: the package name together with what else identifies a manifest
ENTRY — for npm the `KnownAs` alias (0 = none), for Maven the origin / type / classifier code.  Two
entries for one package (`"lib": "^1"` and `"lib-legacy": "npm:lib@^1"`) have different keys. -/
abbrev Key := Nat × Nat

/-- the requirement loop: a requirement of the new manifest whose key is unknown is an addition
(VersionFrom ""), one whose version changed is an update; `none` stands for "".  The resulting
`PackageUpdate` carries Name = key.1 and the old requirement's Type, i.e. the whole key: the final
`SortFunc` + `CompactFunc` compare (Name, VersionFrom, VersionTo, Type), so updates of different
entries are never merged. -/
structure ReqUpdate where
  key : Key
  frm : Option Nat
  to : Nat
deriving Repr, DecidableEq

def lookupReq (reqs : List (Key × Nat)) (k : Key) : Option Nat :=
  (reqs.reverse.find? (·.1 = k)).map (·.2)       -- `oldReqs[key] = req` in a loop: the last one stays

def reqDiff (old new : List (Key × Nat)) : List ReqUpdate :=
  new.filterMap fun (k, v) =>
    match lookupReq old k with
    | none => some ⟨k, none, v⟩
    | some ov => if v = ov then none else some ⟨k, some ov, v⟩

end Scalibr.Pipeline
