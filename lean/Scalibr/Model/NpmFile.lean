/-
package.json as a sequence of spans (C13, "byte for byte").  A file is a list of segments: `raw` bytes the
writer never addresses (punctuation, white space, keys, every other member of the document) and `val` spans —
the value string of one entry of one of the three dependency sections, in file order.  `Write` reads the
sections out of the spans, runs the model of `packagejson.Write` on them, and puts each resulting value
back into ITS span: that is the contract of `sjson.SetBytes` on a literal key (it rewrites the value span of
the addressed member and nothing else), which stays trusted and is compared byte-wise by the harness on
every case.
-/
import Scalibr.Model.NpmWriter
namespace Scalibr.Npm

inductive Section | dev | opt | prod
deriving Repr, DecidableEq

inductive Seg
  | raw (bytes : Str)
  | val (sec : Section) (key : Str) (v : Str)
deriving Repr, DecidableEq

abbrev File := List Seg

def secOf (s : Section) : File → Sec
  | [] => []
  | .raw _ :: f => secOf s f
  | .val s' k v :: f => if s' = s then (k, v) :: secOf s f else secOf s f

def docOf (f : File) : Doc := ⟨secOf .dev f, secOf .opt f, secOf .prod f⟩

/-- write the values of the three sections back into their spans, in order -/
def putBack : File → Sec → Sec → Sec → File
  | [], _, _, _ => []
  | .raw b :: f, d, o, p => .raw b :: putBack f d o p
  | .val .dev k v :: f, d, o, p =>
    (match d with | e :: d' => .val .dev k e.2 :: putBack f d' o p | [] => .val .dev k v :: putBack f [] o p)
  | .val .opt k v :: f, d, o, p =>
    (match o with | e :: o' => .val .opt k e.2 :: putBack f d o' p | [] => .val .opt k v :: putBack f d [] p)
  | .val .prod k v :: f, d, o, p =>
    (match p with | e :: p' => .val .prod k e.2 :: putBack f d o p' | [] => .val .prod k v :: putBack f d o [])

/-- `readWriter.Write` on the file: `none` = an error is returned, nothing is written -/
def writeFile (f : File) (us : List Up) : Option File :=
  match write (docOf f) us with
  | .ok d' => some (putBack f d'.dev d'.opt d'.prod)
  | .err => none

/-- the bytes of a file; `quote` renders a value as a JSON string -/
def bytes (quote : Str → Str) : File → Str
  | [] => []
  | .raw b :: f => b ++ bytes quote f
  | .val _ _ v :: f => quote v ++ bytes quote f

end Scalibr.Npm
