/-
package.json as a sequence of spans (C13, "byte for byte").  A file is a list of segments: `raw` bytes the
writer never addresses (punctuation, white space, keys, every other member of the document) and `val` spans —
the value string of one entry of one of the three dependency sections, in file order, together with the BYTES
it is written with in the file (quotes and escapes as found: `"^1.0.0"`, `"^1.0.0"`, …).  `Write` reads
the sections out of the spans, runs the model of `packagejson.Write` on them, and puts each resulting value
back into ITS span: a span whose value changed gets the writer's rendering `quote v'`, every other span keeps its
bytes.  That is the contract of `sjson.SetBytes` on a literal key (it rewrites the value span of the addressed
member and nothing else); locating the spans in the byte string is gjson/sjson's scanner, which stays trusted
and is compared byte-wise by the harness on every case.  (One divergence is possible and not generated: an
update whose new value EQUALS the old one makes sjson re-render that span, the model keeps its bytes.)
-/
import Scalibr.Model.NpmWriter
namespace Scalibr.Npm

inductive Section | dev | opt | prod
deriving Repr, DecidableEq

inductive Seg
  | raw (bytes : Str)
  | val (sec : Section) (key : Str) (v : Str) (bytes : Str)
deriving Repr, DecidableEq

abbrev File := List Seg

def secOf (s : Section) : File → Sec
  | [] => []
  | .raw _ :: f => secOf s f
  | .val s' k v _ :: f => if s' = s then (k, v) :: secOf s f else secOf s f

def docOf (f : File) : Doc := ⟨secOf .dev f, secOf .opt f, secOf .prod f⟩

/-- one span after the write: new bytes only when the value changed -/
def setSpan (quote : Str → Str) (s : Section) (k v b v' : Str) : Seg :=
  if v' = v then .val s k v b else .val s k v' (quote v')

/-- write the values of the three sections back into their spans, in order -/
def putBack (quote : Str → Str) : File → Sec → Sec → Sec → File
  | [], _, _, _ => []
  | .raw b :: f, d, o, p => .raw b :: putBack quote f d o p
  | .val .dev k v b :: f, d, o, p =>
    (match d with | e :: d' => setSpan quote .dev k v b e.2 :: putBack quote f d' o p | [] => .val .dev k v b :: putBack quote f [] o p)
  | .val .opt k v b :: f, d, o, p =>
    (match o with | e :: o' => setSpan quote .opt k v b e.2 :: putBack quote f d o' p | [] => .val .opt k v b :: putBack quote f d [] p)
  | .val .prod k v b :: f, d, o, p =>
    (match p with | e :: p' => setSpan quote .prod k v b e.2 :: putBack quote f d o p' | [] => .val .prod k v b :: putBack quote f d o [])

/-- `readWriter.Write` on the file: `none` = an error is returned, nothing is written -/
def writeFile (quote : Str → Str) (f : File) (us : List Up) : Option File :=
  match write (docOf f) us with
  | .ok d' => some (putBack quote f d'.dev d'.opt d'.prod)
  | .err => none

/-- the bytes of a file -/
def bytes : File → Str
  | [] => []
  | .raw b :: f => b ++ bytes f
  | .val _ _ _ b :: f => b ++ bytes f

end Scalibr.Npm
