/-
The tail of `scalibr.Scan` that C08 is about: `newScanResult` + `sortResults` over what
`filesystem.Run` returned (standalone extractors and detectors are modelled in Model/Detector.lean).
Sort keys are strings (`CmpPackages`: name, version, extractor name, `fmt.Sprintf("%v", Locations)`;
`cmpStatus`: plugin name); `slices.SortFunc` is the stable insertion sort of Base/Sort.lean.
-/
import Scalibr.Base.Sort
import Scalibr.Model.Walk
namespace Scalibr.Walk

/-- how ids are rendered: package name / version, extractor name, location string -/
structure Naming where
  pkgName : Nat → String
  pkgVersion : Nat → String
  extName : Nat → String
  locStr : Path → String

abbrev Key := String × String × String × String

def Naming.key (nm : Naming) (p : Pkg) : Key :=
  (nm.pkgName p.id, nm.pkgVersion p.id, nm.extName p.ext, nm.locStr p.loc)

/-- `cmp.Or(cmp.Compare …)` over the four keys, as a strict order -/
def keyLt (a b : Key) : Bool :=
  if a.1 < b.1 then true else if b.1 < a.1 then false
  else if a.2.1 < b.2.1 then true else if b.2.1 < a.2.1 then false
  else if a.2.2.1 < b.2.2.1 then true else if b.2.2.1 < a.2.2.1 then false
  else decide (a.2.2.2 < b.2.2.2)

def pkgLt (nm : Naming) (a b : Pkg) : Bool := keyLt (nm.key a) (nm.key b)
def statusLt (nm : Naming) (a b : Nat × Status) : Bool := decide (nm.extName a.1 < nm.extName b.1)

structure ScanOut where
  err : Err
  pkgs : List Pkg
  statuses : List (Nat × Status)
deriving Repr

/-- `Scan` for filesystem extractors only: a failing `filesystem.Run` yields a failed, empty result -/
def scan (nm : Naming) (c : Cfg) (roots : List (Node × Faults)) : ScanOut :=
  let r := run c roots
  if r.err ≠ .none then ⟨r.err, [], []⟩
  else ⟨.none, isort (pkgLt nm) r.pkgs, isort (statusLt nm) r.statuses⟩

end Scalibr.Walk
