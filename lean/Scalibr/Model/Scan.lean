/-
The tail of `scalibr.Scan` that C08 is about: `newScanResult` + `sortResults` over what
`filesystem.Run` returned (standalone extractors and detectors are modelled in Model/Detector.lean).
Sort keys are strings (`CmpPackages`: name, version, extractor name, `fmt.Sprintf("%v", Locations)`;
`cmpStatus`: plugin name); `slices.SortFunc` is the stable insertion sort of Base/Sort.lean.
-/
import Scalibr.Base.Sort
import Scalibr.Base.Lex
import Scalibr.Model.Walk
namespace Scalibr.Walk

/-- how ids are rendered: package name / version, extractor name, location string — as byte lists,
because Go compares strings bytewise -/
structure Naming where
  pkgName : Nat → List Nat
  pkgVersion : Nat → List Nat
  extName : Nat → List Nat
  locStr : Nat → Path → List Nat   -- fmt.Sprintf("%v", Locations) AFTER sort.Strings(Locations); may depend on the package

abbrev Key := List Nat × List Nat × List Nat × List Nat

def Naming.key (nm : Naming) (p : Pkg) : Key :=
  (nm.pkgName p.id, nm.pkgVersion p.id, nm.extName p.ext, nm.locStr p.id p.loc)

/-- `cmp.Or(cmp.Compare(name), cmp.Compare(version), cmp.Compare(extractor))`, then the location strings -/
def keyLt : Key → Key → Bool := prodLt ltBytes (prodLt ltBytes (prodLt ltBytes ltBytes))

def pkgLt (nm : Naming) (a b : Pkg) : Bool := keyLt (nm.key a) (nm.key b)
def statusLt (nm : Naming) (a b : Nat × Status) : Bool := ltBytes (nm.extName a.1) (nm.extName b.1)

structure ScanOut where
  err : Err
  pkgs : List Pkg
  statuses : List (Nat × Status)
deriving Repr

/-- `Scan` for filesystem extractors only: a failing `filesystem.Run` yields a failed, empty result -/
def scan (nm : Naming) (c : Cfg) (roots : List (Node × Faults)) : ScanOut :=
  let r := run c roots
  if r.err ≠ .none then ⟨r.err, [], []⟩
  else ⟨.none, isort (pkgLt nm) r.pkgs, isort (statusLt nm) r.statuses⟩

/-! ### the glue around the walk: when `Scan` / `filesystem.Run` do not walk at all

`scalibr.Scan` refuses a configuration without scan roots (`errNoScanRoot`) and one that requests specific paths together with
several roots (`errFilesWithSeveralRoots`); `filesystem.Run` returns an empty, successful result at once when no filesystem
extractor is enabled (nothing is walked: no inode is counted, limits, faults and a cancelled context never come into play), and
otherwise refuses — `InitWalkContext` / `stripAllPathPrefixes`, `ErrNotRelativeToScanRoots` — when, with absolute scan roots, a
requested path or skipped directory lies under none of them.  In this order. -/

inductive Glue | refused | empty | walks
deriving DecidableEq, Repr

/-- `outside` = (absolute scan roots only) some PathsToExtract / DirsToSkip entry lies under no scan root -/
def glue (c : Cfg) (nRoots : Nat) (outside : Bool) : Glue :=
  if nRoots = 0 then .refused
  else if !c.paths.isEmpty && nRoots > 1 then .refused
  else if c.nExt = 0 then .empty
  else if outside then .refused
  else .walks

end Scalibr.Walk
