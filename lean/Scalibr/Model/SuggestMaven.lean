/-
Model of `suggest/maven.go` `suggestMavenVersion` (after fixes 3e9bb9ee and 63128997) and the filter
`Suggest` applies to its answer (C11).  Table-driven: for the package's versions in the order
`cl.Versions` returns them the harness gives the rank under
`mavenutil.CompareVersions(req.VersionKey, ·, ·)` (equal ranks = compare equal), the `Difference` to
`current` and whether the constraint matches.  `current` is the parsed requirement (simple constraint)
or the greatest matching version (range), or `none` (a range no known version satisfies).

Every value that can be nil in the Go code is an `Option` here and is matched before use: after the
early return `if current == nil`, `current` is a plain value in the loop (`v.Difference(current)`,
`CompareVersions(…, v, current)`), `CompareVersions` itself accepts a nil `newReq`, and
`newReq.String()` comes after the nil check.  The model therefore has no panic outcome.
-/
import Scalibr.Model.Upgrade
namespace Scalibr.Suggest
open Scalibr.Upgrade

structure V where
  id : Nat        -- identity of the version string
  rank : Nat
  diff : Nat      -- v.Difference(current)
  mat : Bool      -- constraint.MatchVersion(v)
deriving Repr, DecidableEq

/-- `mavenutil.CompareVersions(vk, v, b) < 0` with a possibly nil `b` (nil `b` compares below) -/
def ltOpt (v : V) : Option V → Bool
  | none => false
  | some b => v.rank < b.rank

/-- body of `for _, v := range semvers`; `cur` is the non-nil `current` -/
def step (level : Nat) (cur : V) (newReq : Option V) (v : V) : Option V :=
  if ltOpt v newReq then newReq
  else if !allows level v.diff then newReq
  else if v.rank ≤ cur.rank then newReq                 -- `CompareVersions(v, current) <= 0`
  else some v

inductive Res
  | keep                 -- the requirement is returned unchanged
  | update (v : V)
deriving Repr, DecidableEq

def suggest (level : Nat) (simple : Bool) (cur : Option V) (vs : List V) : Res :=
  match cur with
  | none => .keep                                        -- `if current == nil { return req, nil }`
  | some c =>
    match vs.foldl (step level c) none with
    | none => .keep
    | some v => if simple || !v.mat then .update v else .keep

/-- the answer as its callers see it: a returned requirement spelled like the old one is no change
(`curId` = identity of the requirement string when it is a plain version) -/
def suggestFn (level : Nat) (simple : Bool) (cur : Option V) (curId : Option Nat) (vs : List V) : Res :=
  match suggest level simple cur vs with
  | .update v => if some v.id = curId then .keep else .update v
  | r => r

/-- `Suggest`: packages at level None are skipped before `suggestMavenVersion` is called -/
def suggestUpdate (level : Nat) (simple : Bool) (cur : Option V) (curId : Option Nat) (vs : List V) : Res :=
  if level = lNone then .keep else suggestFn level simple cur curId vs

/-- what `MavenSuggester.Suggest` needs to know about ONE requirement of the manifest (`Requirements()`
followed by `RequirementsForUpdates`): the level configured for its package, whether the loop skips it
(development dependency with `IgnoreDev`, or an unresolved `${…}`), and the tables of
`suggestMavenVersion` computed for THIS requirement — `cur` and every `diff` are relative to the
requirement's own version, also when another requirement names the same package. -/
structure RB where
  level : Nat
  skip : Bool
  simple : Bool
  cur : Option V
  curId : Option Nat
  vs : List V

/-- the loop of `Suggest`: one answer per requirement, each computed from that requirement alone -/
def suggestPatch (rbs : List RB) : List Res :=
  rbs.map fun rb => if rb.skip then .keep else suggestUpdate rb.level rb.simple rb.cur rb.curId rb.vs

end Scalibr.Suggest
