/-
C16(b') — the lazy initialisation of `resolution.CombinedNativeClient.clientForSystem` (clients/resolution/combined_native_client.go):

    c.mu.Lock(); defer c.mu.Unlock()
    switch sys { case X: if c.xClient == nil { c.xClient = NewX(...) }; return c.xClient }

The whole body is ONE critical section, so a call is one atomic step of the model: a once-cell per ecosystem.  `built e` counts the
constructions (`NewMavenRegistryClient`, … — each creates the ecosystem's request caches), `got t` is the client handed to caller t.
What the model cannot exhibit: an implementation that reads the cell outside the lock is, at this granularity, the SAME transition
system — its defect is a data race, not a wrong value; race freedom of this code is established by the Go race detector on the
generated schedules (checks/c16.py, stream `cnc`), not by a theorem.
-/
namespace Scalibr.OnceCell

abbrev Eco := Nat
abbrev Cl := Nat

structure St where
  cell : Eco → Option Cl
  next : Cl
  built : Eco → Nat
  got : Nat → Option (Eco × Cl)

def upd {α} (f : Nat → α) (i : Nat) (x : α) : Nat → α := fun j => if j = i then x else f j

/-- caller `t` asks for the client of ecosystem `e`.  `fails e`: the construction of that ecosystem's client returns an error (an
unsupported system, an unparsable Maven registry URL, an unreadable .npmrc): `return nil, err` leaves the cell empty, the caller gets
no client, and the next caller tries (and fails) again. -/
def step (fails : Eco → Bool) (s : St) (t : Nat) (e : Eco) : St :=
  match s.cell e with
  | some c => { s with got := upd s.got t (some (e, c)) }
  | none =>
    if fails e then { s with got := upd s.got t none }
    else { s with cell := upd s.cell e (some s.next), next := s.next + 1, built := upd s.built e (s.built e + 1),
                  got := upd s.got t (some (e, s.next)) }

def init : St := ⟨fun _ => none, 0, fun _ => 0, fun _ => none⟩

def run (fails : Eco → Bool) (calls : List (Nat × Eco)) : St := calls.foldl (fun s c => step fails s c.1 c.2) init

end Scalibr.OnceCell
