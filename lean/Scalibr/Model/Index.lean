/-
Model of `packageindex/package_index.go` (C14, C20): `New`, `GetAll`, `GetAllOfType`, `GetSpecific`.

A package is what the index can see of an `*extractor.Package`: its identity and the `(Type, Name)` of
`p.Extractor.ToPURL(p)` (`none` = nil purl). The two-level Go map `type ↦ name ↦ []*Package` is an
association list of association lists; a Go map's iteration order is unspecified, so statements about
`GetAll` / `GetAllOfType` are up to permutation, `GetSpecific` (one slice, appended to) is exact.
-/
namespace Scalibr.Index

structure Pkg where
  id : Nat
  purl : Option (String × String)
deriving DecidableEq, Repr

abbrev Inner := List (String × List Pkg)
abbrev PkgMap := List (String × Inner)

def look {β : Type} : List (String × β) → String → Option β
  | [], _ => none
  | (k, v) :: rest, key => if k = key then some v else look rest key

/-- `pkgMap[t][n] = append(pkgMap[t][n], p)` on the inner map -/
def innerAdd : Inner → String → Pkg → Inner
  | [], n, p => [(n, [p])]
  | (k, v) :: rest, n, p => if k = n then (k, v ++ [p]) :: rest else (k, v) :: innerAdd rest n p

/-- `if _, ok := pkgMap[t]; !ok { pkgMap[t] = make(...) }; pkgMap[t][n] = append(pkgMap[t][n], p)` -/
def outerAdd : PkgMap → String → String → Pkg → PkgMap
  | [], t, n, p => [(t, innerAdd [] n p)]
  | (k, v) :: rest, t, n, p => if k = t then (k, innerAdd v n p) :: rest else (k, v) :: outerAdd rest t n p

/-- one iteration of the loop in `New` -/
def addPkg (m : PkgMap) (p : Pkg) : PkgMap :=
  match p.purl with
  | none => m                       -- `if p == nil { continue }`
  | some (t, n) => outerAdd m t n p

/-- `packageindex.New` -/
def new (pkgs : List Pkg) : PkgMap := pkgs.foldl addPkg []

def innerAll (inner : Inner) : List Pkg := inner.flatMap (·.2)

/-- `GetAll` -/
def getAll (m : PkgMap) : List Pkg := m.flatMap fun e => innerAll e.2

/-- `GetAllOfType` -/
def getAllOfType (m : PkgMap) (t : String) : List Pkg :=
  match look m t with
  | none => []
  | some inner => innerAll inner

/-- `GetSpecific(name, pkgType)` -/
def getSpecific (m : PkgMap) (n t : String) : List Pkg :=
  match look m t with
  | none => []
  | some inner =>
    match look inner n with
    | none => []
    | some ps => ps

end Scalibr.Index
