/-
The temporary-directory life cycle of the layer-scanning image loader (C06, load path): `image.FromV1Image`,
`handleImageError`, `Image.CleanUp` of image.go.

TMPDIR is modelled by the list of directories in it, each with what it contains (abstracted to the layer directories
the loader has created in it so far).  Everything that can go wrong is an outcome supplied from outside (`Run`): the
steps before the directory exists (validateConfig, Layers, initializeChainLayers), `os.MkdirTemp`, and then, in the
order the code performs them, `addRootDirectoryToChainLayers` and per chain layer (newest first) "create the layer
directory", "open the layer" and "fill from the tar".
-/
namespace Scalibr.ImageLife

/-- one directory below TMPDIR: its name and the layer directories in it -/
structure TDir where
  name : Nat
  layers : List Nat
deriving DecidableEq, Repr

abbrev Tmp := List TDir

/-- outcome of the steps of one chain layer -/
structure LayerRun where
  empty : Bool          -- an empty layer (history only): skipped
  mkdir : Bool          -- os.Mkdir of the layer directory succeeded (or it existed)
  haveLayer : Bool      -- v1LayerIndex >= 0
  opened : Bool         -- v1Layer.Uncompressed() succeeded
  filled : Bool         -- fillChainLayersWithFilesFromTar returned no error
deriving Repr

structure Run where
  pre : Bool            -- validateConfig, Layers(), initializeChainLayers succeeded
  mktemp : Bool         -- os.MkdirTemp succeeded
  root : Bool           -- addRootDirectoryToChainLayers succeeded
  layers : List LayerRun   -- newest chain layer first, as the loop visits them
deriving Repr

/-- `os.RemoveAll(img.ExtractDir)` -/
def removeAll (tmp : Tmp) (d : Nat) : Tmp := tmp.filter fun x => x.name != d

def addLayerDir (tmp : Tmp) (d i : Nat) : Tmp :=
  tmp.map fun x => if x.name == d then { x with layers := i :: x.layers } else x

/-- `handleImageError`: clean up, return the error -/
def handleImageError (tmp : Tmp) (d : Nat) : Option Nat × Tmp := (none, removeAll tmp d)

/-- the reverse loop over the chain layers; `i` counts down with the list -/
def loop (d : Nat) : Tmp → List LayerRun → Option Nat × Tmp
  | tmp, [] => (some d, tmp)
  | tmp, r :: rest =>
    if r.empty then loop d tmp rest else
    if !r.mkdir then handleImageError tmp d else
    let tmp := addLayerDir tmp d rest.length
    if !r.haveLayer then handleImageError tmp d else
    if !r.opened then handleImageError tmp d else
    if !r.filled then handleImageError tmp d else
    loop d tmp rest

/-- `FromV1Image`; `fresh` is the name `os.MkdirTemp` picks -/
def fromV1Image (tmp : Tmp) (fresh : Nat) (r : Run) : Option Nat × Tmp :=
  if !r.pre then (none, tmp) else
  if !r.mktemp then (none, tmp) else
  let tmp := ⟨fresh, []⟩ :: tmp
  if !r.root then handleImageError tmp fresh else
  loop fresh tmp r.layers

/-- `Image.CleanUp` -/
def cleanUp (tmp : Tmp) (d : Nat) : Tmp := removeAll tmp d

end Scalibr.ImageLife
