/-
Model of the NON-PACKAGE part of `binary/proto/proto.go` (C14): `ScanResultToProto` (plugin-status loop, package loop,
findings loop with its early error return, the two deprecated copies), `scanStatusToProto`, `pluginStatusToProto`,
`findingToProto`, `typeEnumToProto`, `severityToProto`, `cvssToProto`, and `typeForPath` / `ValidExtension` (which file
names `Write` accepts and in which format it writes).

Parameters: `S` = a CVSS score (Go float32, copied bit for bit), `P`/`PP` = a package and its record with
`pkgToProto` (= `ProtoPkg.packageToProto`, modelled and tied separately by the `proto` op), `T` = a timestamp.
Go enum fields are `int`s: every value outside the declared constants falls into the switch's default.
A nil dereference of the Go code would be the outcome `panic`; the code has none (`C14_result_never_panics`).
-/
import Scalibr.Model.ProtoPkg

namespace Scalibr.ProtoResult
open Scalibr.ProtoPkg (toInt32)

/-- `plugin.ScanStatus` -/
structure ScanStatus where
  status : Int
  reason : String
deriving DecidableEq, Repr

inductive PStatusEnum | unspecified | succeeded | partiallySucceeded | failed
deriving DecidableEq, Repr

/-- `spb.ScanStatus` -/
structure PScanStatus where
  status : PStatusEnum
  reason : String
deriving DecidableEq, Repr

/-- `scanStatusToProto`: Succeeded = 1, PartiallySucceeded = 2, Failed = 3, default UNSPECIFIED; the reason is copied -/
def scanStatusToProto (s : ScanStatus) : PScanStatus :=
  ⟨if s.status = 1 then .succeeded else if s.status = 2 then .partiallySucceeded else if s.status = 3 then .failed else .unspecified,
   s.reason⟩

/-- `plugin.Status` -/
structure PluginStatus where
  name : String
  version : Int
  status : ScanStatus
deriving DecidableEq, Repr

/-- `spb.PluginStatus` (`version` is an int32) -/
structure PPluginStatus where
  name : String
  version : Int
  status : PScanStatus
deriving DecidableEq, Repr

def pluginStatusToProto (s : PluginStatus) : PPluginStatus := ⟨s.name, toInt32 s.version, scanStatusToProto s.status⟩

/-- `detector.CVSS` = `spb.CVSS` -/
structure CVSS (S : Type) where
  base : S
  temporal : S
  environmental : S
deriving DecidableEq, Repr

/-- `detector.Severity` -/
structure Severity (S : Type) where
  sev : Int
  v2 : Option (CVSS S)
  v3 : Option (CVSS S)
deriving DecidableEq, Repr

inductive PSeverityEnum | unspecified | minimal | low | medium | high | critical
deriving DecidableEq, Repr

structure PSeverity (S : Type) where
  sev : PSeverityEnum
  v2 : Option (CVSS S)
  v3 : Option (CVSS S)
deriving DecidableEq, Repr

/-- `detector.Advisory`; `id` = (publisher, reference), `none` = nil pointer -/
structure Advisory (S : Type) where
  id : Option (String × String)
  typ : Int
  title : String
  description : String
  recommendation : String
  sev : Option (Severity S)
deriving DecidableEq, Repr

/-- `detector.TargetDetails` -/
structure Target (P : Type) where
  pkg : Option P
  location : List String
deriving DecidableEq, Repr

/-- `detector.Finding` -/
structure Finding (S P : Type) where
  adv : Option (Advisory S)
  target : Option (Target P)
  extra : String
  detectors : List String
deriving DecidableEq, Repr

inductive PType | unknown | vulnerability | cisFinding
deriving DecidableEq, Repr

structure PAdvisory (S : Type) where
  id : String × String
  typ : PType
  title : String
  description : String
  recommendation : String
  sev : Option (PSeverity S)
deriving DecidableEq, Repr

/-- `spb.Finding` -/
structure PFinding (S PP : Type) where
  adv : PAdvisory S
  target : Option (Target PP)
  extra : String
  detectors : List String
deriving DecidableEq, Repr

/-- outcome of a conversion: a record, one of the two declared errors, or a nil dereference -/
inductive Res (α : Type) | ok (a : α) | advisoryMissing | advisoryIDMissing | panic
deriving DecidableEq, Repr

/-- `typeEnumToProto`: Vulnerability = 1, CISFinding = 2, default UNKNOWN -/
def typeEnumToProto (e : Int) : PType := if e = 1 then .vulnerability else if e = 2 then .cisFinding else .unknown

/-- the switch of `severityToProto` -/
def severityEnumToProto (e : Int) : PSeverityEnum :=
  if e = 1 then .minimal else if e = 2 then .low else if e = 3 then .medium else if e = 4 then .high else if e = 5 then .critical
  else .unspecified

/-- `cvssToProto` -/
def cvssToProto {S : Type} (c : CVSS S) : CVSS S := ⟨c.base, c.temporal, c.environmental⟩

/-- `severityToProto` on a non-nil `*Severity` (nil gives nil: `Option.map` below) -/
def severityToProto {S : Type} (s : Severity S) : PSeverity S :=
  ⟨severityEnumToProto s.sev, s.v2.map cvssToProto, s.v3.map cvssToProto⟩

/-- `findingToProto`: nil advisory → ErrAdvisoryMissing; the target is built; nil ID → ErrAdvisoryIDMissing; then the record.
An advisory without severity gives a record without severity (since the fix of C14/finding-nil-severity-panics).
The detector names the core library recorded in `Finding.Detectors` are copied (since the fix of C14/finding-detectors-dropped). -/
def findingToProto {S P PP : Type} (pkgToProto : P → PP) (f : Finding S P) : Res (PFinding S PP) :=
  match f.adv with
  | none => .advisoryMissing
  | some adv =>
    let target := f.target.map fun t => (⟨t.pkg.map pkgToProto, t.location⟩ : Target PP)
    match adv.id with
    | none => .advisoryIDMissing
    | some id =>
      .ok { adv := ⟨(id.1, id.2), typeEnumToProto adv.typ, adv.title, adv.description, adv.recommendation, adv.sev.map severityToProto⟩
            target := target
            extra := f.extra
            detectors := f.detectors }

/-- the findings loop of `ScanResultToProto`: the first finding that does not convert decides -/
def findingsLoop {S P PP : Type} (pkgToProto : P → PP) : List (Finding S P) → List (PFinding S PP) → Res (List (PFinding S PP))
  | [], acc => .ok acc
  | f :: rest, acc =>
    match findingToProto pkgToProto f with
    | .ok p => findingsLoop pkgToProto rest (acc ++ [p])
    | .advisoryMissing => .advisoryMissing
    | .advisoryIDMissing => .advisoryIDMissing
    | .panic => .panic

/-- `scalibr.ScanResult` -/
structure ScanResult (S P T : Type) where
  version : String
  startTime : T
  endTime : T
  status : ScanStatus
  pluginStatus : List PluginStatus
  packages : List P
  findings : List (Finding S P)

/-- `spb.ScanResult`; `inventoriesDeprecated` / `findingsDeprecated` are the deprecated top-level copies -/
structure PScanResult (S PP T : Type) where
  version : String
  startTime : T
  endTime : T
  status : PScanStatus
  pluginStatus : List PPluginStatus
  inventoriesDeprecated : List PP
  findingsDeprecated : List (PFinding S PP)
  packages : List PP
  findings : List (PFinding S PP)

/-- `ScanResultToProto` -/
def scanResultToProto {S P PP T : Type} (pkgToProto : P → PP) (r : ScanResult S P T) : Res (PScanResult S PP T) :=
  let pluginStatus := r.pluginStatus.map pluginStatusToProto
  let packages := r.packages.map pkgToProto
  match findingsLoop pkgToProto r.findings [] with
  | .ok findings =>
    .ok { version := r.version, startTime := r.startTime, endTime := r.endTime, status := scanStatusToProto r.status
          pluginStatus := pluginStatus, inventoriesDeprecated := packages, findingsDeprecated := findings
          packages := packages, findings := findings }
  | .advisoryMissing => .advisoryMissing
  | .advisoryIDMissing => .advisoryIDMissing
  | .panic => .panic

/-! ### which file names `Write` accepts -/

/-- `filepath.Ext` on a slash-separated path: the suffix from the last dot of the last element; empty if it has no dot.
`go` scans from the end: `rev` = the reversed path, `acc` = the characters already passed (in path order). -/
def extGo : List Char → List Char → List Char
  | [], _ => []
  | c :: rev, acc => if c = '/' then [] else if c = '.' then c :: acc else extGo rev (c :: acc)

def ext (p : List Char) : List Char := extGo p.reverse []

/-- `strings.TrimSuffix(p, e)` for a suffix `e` of `p` -/
def trimSuffix (p e : List Char) : List Char := if e.isSuffixOf p then p.take (p.length - e.length) else p

structure FileType where
  gzipped : Bool
  binary : Bool
deriving DecidableEq, Repr

inductive PathErr | noExtension | gzNoExtension | notProto
deriving DecidableEq, Repr

def dotGz : List Char := ['.', 'g', 'z']
def dotBinproto : List Char := ['.', 'b', 'i', 'n', 'p', 'r', 'o', 't', 'o']
def dotTextproto : List Char := ['.', 't', 'e', 'x', 't', 'p', 'r', 'o', 't', 'o']

/-- `typeForPath` -/
def typeForPath (p : List Char) : Except PathErr FileType :=
  let e := ext p
  if e = [] then .error .noExtension else
  let gz := decide (e = dotGz)
  let e2 := if gz then ext (trimSuffix p e) else e
  if gz ∧ e2 = [] then .error .gzNoExtension else
  if e2 = dotBinproto then .ok ⟨gz, true⟩
  else if e2 = dotTextproto then .ok ⟨gz, false⟩
  else .error .notProto

/-- `WriteWithFormat`'s file type: never gzipped, binary iff the format is exactly "binproto" -/
def formatType (format : String) : FileType := ⟨false, format = "binproto"⟩

end Scalibr.ProtoResult
