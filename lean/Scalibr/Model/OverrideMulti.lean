/-
Model of `override.go` `patchVulns` for several packages (C11): in every round each vulnerable resolved
version gets its OWN candidate list (`getVersionsGreater` of the version resolved in THIS round), the
scan of `Scalibr.Override.pick`, and at most one `PatchRequirement`; then the manifest is re-resolved.
Re-resolution is the parameter `resolve` (deps.dev Maven resolver + override client): from the
requirement written per package (`none` = no entry) to the version resolved per package (`none` = not
in the graph).  A vulnerability record may affect several packages (`aff v p x`).  Versions are
identifiers with a per-package `rank` (see `Model/Override.lean`).
-/
import Scalibr.Model.Override
namespace Scalibr.OverrideMulti
open Scalibr.Upgrade Scalibr.Override

structure MU where
  np : Nat
  vs : Nat → List Nat                 -- version identifiers of package p, sorted
  rank : Nat → Nat → Nat              -- rank p x
  diff : Nat → Nat → Nat → Nat        -- diff p a b
  nv : Nat
  aff : Nat → Nat → Nat → Bool        -- record v affects package p at version x
  level : Nat → Nat                   -- UpgradeConfig.Get(p)

abbrev Pins := List (Option Nat)
abbrev Res := List (Option Nat)

/-- `vkVulns[vk]`: the records (of the vulnerability set) whose subgraphs end in this node -/
def vulnsAt (u : MU) (p x : Nat) : List Nat := (List.range u.nv).filter (u.aff · p x)

def cands (u : MU) (p vk : Nat) : List Cand :=
  (versionsGreater (u.rank p) (u.vs p) vk).map fun x => ⟨x, u.diff p vk x, ((vulnsAt u p vk).filter (u.aff · p x)).length⟩

/-- the body of `for vk, vulnerabilities := range vkVulns` for the node of package `p` resolved at `vk` -/
def pickP (u : MU) (p vk : Nat) : Option Nat :=
  if (vulnsAt u p vk).isEmpty then none else
  (pick (u.level p) (cands u p vk) (vulnsAt u p vk).length).map (·.ver)

/-- the requirement of package `p` after the round -/
def stepP (u : MU) (res : Res) (pins : Pins) (p : Nat) : Option Nat :=
  match res.getD p none with
  | some r => (match pickP u p r with | some b => some b | none => pins.getD p none)
  | none => pins.getD p none

def patchedP (u : MU) (res : Res) (p : Nat) : Bool :=
  match res.getD p none with
  | some r => (pickP u p r).isSome
  | none => false

def didPatch (u : MU) (res : Res) : Bool := (List.range u.np).any (patchedP u res)

def round (u : MU) (res : Res) (pins : Pins) : Pins := (List.range u.np).map (stepP u res pins)

structure Out where
  pins : Pins
  rounds : Nat
  done : Bool          -- false = the fuel ran out before a round without a patch (never, see C11_terminates_multi_partial)
deriving Repr, DecidableEq

/-- the outer `for { … }` -/
def loop (u : MU) (resolve : Pins → Res) : Nat → Pins → Nat → Out
  | 0, pins, k => ⟨pins, k, false⟩
  | fuel + 1, pins, k =>
    let res := resolve pins
    if didPatch u res then loop u resolve fuel (round u res pins) (k + 1) else ⟨pins, k, true⟩

end Scalibr.OverrideMulti
