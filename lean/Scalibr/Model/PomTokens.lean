/-
Model of `writeString` (`pomxml.go`, C13): the token-level rewrite the pom.xml writer applies to one
`<dependency>`, `<parent>` or `<properties>` element.  The XML tokenizer / encoder pair (forkedxml) is
trusted to round-trip a token (DESIGN.md §3); a document is its token sequence, CDATA counted as the
text it contains and adjacent text merged.

  for each token:  StartElement whose local name is a key of `values`
                      → DecodeElement(&str) consumes the whole element, EncodeElement(value, start)
                        writes start, the value as text (nothing for ""), end
                   anything else → copied
-/
namespace Scalibr.PomTok

abbrev Str := List Char

inductive Tok
  | start (name attrs : Str)
  | stop (name : Str)
  | text (s : Str)
  | comment (s : Str)
  | other (s : Str)          -- processing instruction / directive
deriving Repr, DecidableEq

/-- what `DecodeElement` consumes after the start tag: everything up to and including the matching end -/
def skipElem : Nat → List Tok → List Tok
  | _, [] => []
  | d, .start _ _ :: ts => skipElem (d + 1) ts
  | 0, .stop _ :: ts => ts
  | d + 1, .stop _ :: ts => skipElem d ts
  | d, _ :: ts => skipElem d ts

theorem skipElem_length (d : Nat) (ts : List Tok) : (skipElem d ts).length ≤ ts.length := by
  induction ts generalizing d with
  | nil => simp [skipElem]
  | cons t ts ih =>
    cases t with
    | start n a => simp only [skipElem, List.length_cons]; have := ih (d + 1); omega
    | stop n =>
      cases d with
      | zero => simp [skipElem]
      | succ d => simp only [skipElem, List.length_cons]; have := ih d; omega
    | text s => simp only [skipElem, List.length_cons]; have := ih d; omega
    | comment s => simp only [skipElem, List.length_cons]; have := ih d; omega
    | other s => simp only [skipElem, List.length_cons]; have := ih d; omega

/-- `writeString`; `fuel` bounds the loop (each iteration consumes at least one token) -/
def writeString (values : Str → Option Str) : Nat → List Tok → List Tok
  | 0, _ => []
  | _ + 1, [] => []
  | f + 1, .start n a :: ts =>
    match values n with
    | some v => .start n a :: ((if v = [] then [] else [.text v]) ++ .stop n :: writeString values f (skipElem 0 ts))
    | none => .start n a :: writeString values f ts
  | f + 1, t :: ts => t :: writeString values f ts

def write (values : Str → Option Str) (ts : List Tok) : List Tok := writeString values (ts.length + 1) ts

/-- every element that `values` addresses already holds exactly its value: `<n>v</n>`, or an empty element for "" -/
def simple (values : Str → Option Str) : List Tok → Bool
  | [] => true
  | .start n _ :: ts =>
    match values n with
    | some v =>
      if v = [] then (match ts with | .stop m :: r => m = n && simple values r | _ => false)
      else (match ts with | .text s :: .stop m :: r => s = v && m = n && simple values r | _ => false)
    | none => simple values ts
  | _ :: ts => simple values ts

end Scalibr.PomTok
