/-
Model of `guidedremediation/internal/remediation/match.go` (`MatchVuln`, `matchID`, `matchSeverity`, `matchDepth`) — the
second entry point to the affected-version decision of C18: when a record has no top-level severity, `matchSeverity` takes,
for the vulnerable package of each dependency subgraph, the severities of the FIRST `affected[]` entry that `vulns.IsAffected`
accepts as a one-entry record of its own — and of `vulns.VKToPackage` with its mock extractor.

Identifiers (vulnerability id, aliases) are opaque numbers. A severity is an index into the harness's severity table;
`score i` is what `severity.CalculateScore` yields for entry `i`, in tenths: `some t` (a CVSS base score `t/10`; the empty
severity struct yields `-1.0`, i.e. `some (-10)`), `none` for an error (the entry is skipped). Trusted: the table (asserted
at generator start-up against `CalculateScore`) and that `math.Round(10 * (h / 100))` is `(h + 5) / 10` for the thresholds
`h` (hundredths) the harness uses (asserted at start-up for every `h ≤ 1100`).
-/
import Scalibr.Model.Vulns
namespace Scalibr.Vulns

/-- the part of a `resolution.DependencySubgraph` that `MatchVuln` reads -/
structure SubG where
  pkg : Pkg          -- `sg.Nodes[sg.Dependency].Version`, through `VKToPackage`
  dist : Nat         -- `sg.Nodes[0].Distance`
deriving Repr

/-- an `affected[]` entry with its own `severity` list -/
structure AffS where
  a : Affected
  sev : List Nat
deriving Repr

structure VulnM where
  id : Nat
  aliases : List Nat
  topSev : List Nat
  devOnly : Bool
  subs : List SubG
  affected : List AffS
deriving Repr

structure MOpts where
  ignore : List Nat
  devDeps : Bool
  minH : Nat         -- `MinSeverity`, in hundredths
  maxDepth : Int
deriving Repr

def matchID (v : VulnM) (ids : List Nat) : Bool :=
  ids.contains v.id || v.aliases.any fun id => ids.contains id

/-- the inner loop over `v.OSV.Affected` with its `break`: the first entry that `IsAffected` accepts as a record of its own -/
def selectedFor (known : Nat → Bool) (affected : List AffS) (p : Pkg) : List Nat :=
  match affected.find? (fun x => isAffected known [x.a] p) with
  | some x => x.sev
  | none => []

/-- `severities` after the first block of `matchSeverity` -/
def severities (known : Nat → Bool) (v : VulnM) : List Nat :=
  if v.topSev.isEmpty then v.subs.flatMap fun sg => selectedFor known v.affected sg.pkg
  else v.topSev

/-- `maxScore` after the second loop, in tenths (starts at `-1.0`) -/
def maxScore (score : Nat → Option Int) (ss : List Nat) : Int :=
  ss.foldl (fun m s => match score s with | some x => max m x | none => m) (-10)

/-- `math.Round(10 * minSeverity)` for `minSeverity = h / 100` -/
def roundH (h : Nat) : Int := ((h + 5) / 10 : Nat)

def matchSeverity (score : Nat → Option Int) (known : Nat → Bool) (v : VulnM) (minH : Nat) : Bool :=
  let m := maxScore score (severities known v)
  decide (m ≥ roundH minH) || decide (m < 0)

def matchDepth (v : VulnM) (maxDepth : Int) : Bool :=
  decide (maxDepth ≤ 0) || v.subs.any fun sg => decide ((sg.dist : Int) ≤ maxDepth)

/-- `remediation.MatchVuln` -/
def matchVuln (score : Nat → Option Int) (known : Nat → Bool) (o : MOpts) (v : VulnM) : Bool :=
  if matchID v o.ignore then false
  else if !o.devDeps && v.devOnly then false
  else matchSeverity score known v o.minH && matchDepth v o.maxDepth

/-! ### `vulns.VKToPackage` and the mock extractor (systems: 0 npm, 1 Maven, 2 PyPI, anything else unknown) -/

/-- `mockExtractor.Ecosystem` = `util.DepsDevToOSVEcosystem` -/
def vkEcosystem (sys : Nat) : String :=
  match sys with
  | 0 => "npm"
  | 1 => "Maven"
  | 2 => "PyPI"
  | _ => ""

/-- `strings.Cut(name, ":")` -/
def cutColon (s : String) : String × String :=
  match s.splitOn ":" with
  | [] => (s, "")
  | [a] => (a, "")
  | a :: rest => (a, ":".intercalate rest)

/-- `mockExtractor.ToPURL`: (type, namespace, name, version), `none` = nil -/
def vkPurl (sys : Nat) (name version : String) : Option (String × String × String × String) :=
  match sys with
  | 0 => some ("npm", "", name, version)
  | 1 => let (g, a) := cutColon name; some ("maven", g, a, version)
  | 2 => some ("pypi", "", name, version)
  | _ => none

end Scalibr.Vulns
