/-
Go's lexical path functions on '/'-separated strings, as used by the image loader (C04) and the
unpacker (C06): `path.Clean`, `path.Join`, `path.Dir`, `path.Base`.  A cleaned path is represented
by (rooted?, number of leading "..", remaining ordinary segments).
-/
namespace Scalibr.GoPath

/-- one component of `path.Clean`'s scan; `acc.2` is the stack of kept segments, newest first -/
def cleanStep (rooted : Bool) (acc : Nat × List String) (s : String) : Nat × List String :=
  if s = "" || s = "." then acc
  else if s = ".." then
    match acc.2 with
    | [] => if rooted then acc else (acc.1 + 1, [])       -- "/.." is "/", "../.." stays
    | _ :: st => (acc.1, st)
  else (acc.1, s :: acc.2)

/-- `path.Clean` on the components of a path: (leading "..", kept segments in order) -/
def cleanComps (rooted : Bool) (comps : List String) : Nat × List String :=
  let r := comps.foldl (cleanStep rooted) (0, [])
  (r.1, r.2.reverse)

structure Clean where
  rooted : Bool
  ups : Nat
  segs : List String
deriving DecidableEq, Repr

def comps (s : String) : List String := s.splitOn "/"

def isAbs (s : String) : Bool := s.startsWith "/"

/-- `path.Clean s` -/
def clean (s : String) : Clean :=
  let r := cleanComps (isAbs s) (comps s)
  ⟨isAbs s, r.1, r.2⟩

/-- the string `path.Clean` returns -/
def Clean.render (c : Clean) : String :=
  let body := "/".intercalate (List.replicate c.ups ".." ++ c.segs)
  if c.rooted then "/" ++ body else if body = "" then "." else body

/-- `"/" ++ segments` -/
def renderAbs (segs : List String) : String := "/" ++ "/".intercalate segs

end Scalibr.GoPath
