/-
Model for C15 (SBOM export → import round trip), mirroring the CURRENT Go code statement by statement:

  exporter   converter/converter.go            ToSPDX23, ToCDX, extractCPEs, replaceSPDXIDInvalidChars
  importer   extractor/filesystem/sbom/spdx    findExtractor, Extract, convertSpdxDocToPackage   (incl. fix 876ae27f)
             extractor/filesystem/sbom/cdx     findExtractor, Extract, enumerateComponents, convertCdxBomToPackage,
                                               convertComponentToInventory

What is NOT modelled but a PARAMETER:
  * the serialisers/parsers (tools-golang json / yaml / tagvalue, cyclonedx-go JSON / XML): a `Codec Doc Bytes`;
  * the purl library (`PackageURL.String`, `purl.FromString`, the `Name` / `Version` fields): `PurlOps Purl`;
    a failing `FromString` is `parse s = none`;
  * `uuid.New()` and `time.Now()`: `Env` (a stream of identifiers and a timestamp).
Go's `nil` slices and empty slices behave identically in the modelled code (`range`, `len`), both are `[]`.
Strings are Lean `String`s (the correspondence generator emits valid UTF-8 only, DESIGN.md §4).
-/
namespace Scalibr.Sbom

/-! ## Parameters -/

/-- A serialiser / parser pair for documents of type `Doc`. -/
structure Codec (Doc Bytes : Type) where
  encode : Doc → Bytes
  decode : Bytes → Option Doc

/-- "What is written can be read back unchanged" — an ASSUMPTION about tools-golang / cyclonedx-go,
validated differentially by `harness/cmd/c15gen`, never proved. -/
def Codec.roundtrips {Doc Bytes : Type} (c : Codec Doc Bytes) : Prop :=
  ∀ d, c.decode (c.encode d) = some d

/-- The purl library as seen by the modelled code. -/
structure PurlOps (Purl : Type) where
  /-- `PackageURL.String()` -/
  str : Purl → String
  /-- `purl.FromString`; `none` = it returned an error -/
  parse : String → Option Purl
  /-- field `Name` -/
  name : Purl → String
  /-- field `Version` -/
  version : Purl → String

/-- `uuid.New().String()` (k-th call) and `time.Now().UTC().Format(...)`. -/
structure Env where
  uuid : Nat → String
  now : String

/-- A SCALIBR package, reduced to what the converters read. -/
structure Pkg (Purl : Type) where
  name : String
  version : String
  locations : List String
  /-- `pkg.Extractor.Name()` -/
  extractor : String
  /-- `pkg.Extractor.ToPURL(pkg)`; `none` = nil -/
  purl : Option Purl
  /-- `extractCPEs(pkg)`: the `CPEs` of an `*spdx.Metadata` / `*cdx.Metadata`, else nil -/
  cpes : List String

/-- A package returned by one of the SBOM extractors. -/
structure ImpPkg (Purl : Type) where
  name : String
  version : String
  locations : List String
  cpes : List String
  /-- `Metadata.PURL` = what the extractor's `ToPURL` returns -/
  purl : Option Purl

/-- the observable of the property: the purls of the returned packages -/
def purlsOf {Purl : Type} (ps : List (ImpPkg Purl)) : List Purl := ps.filterMap (·.purl)

/-- `Extract`'s outcomes -/
inductive Err where
  | unsupported   -- findExtractor found no handler for the file name
  | parse         -- the parser returned an error
  deriving DecidableEq, Repr

/-! ## SPDX 2.3 document (the fields ToSPDX23 sets) -/

structure ExtRef where
  category : String
  refType : String
  locator : String
  deriving DecidableEq, Repr

structure Supplier where
  supplier : String
  supplierType : String
  deriving DecidableEq, Repr

structure SpdxPackage where
  name : String
  id : String
  version : String
  supplier : Option Supplier
  downloadLocation : String
  sourceInfo : String
  extRefs : List ExtRef
  deriving DecidableEq, Repr

/-- `common.DocElementID`: an element id or the special id NOASSERTION -/
inductive DocElem where
  | elem (id : String)
  | special (id : String)
  deriving DecidableEq, Repr

structure Relationship where
  refA : DocElem
  refB : DocElem
  kind : String
  deriving DecidableEq, Repr

structure SpdxDoc where
  spdxVersion : String
  dataLicense : String
  spdxId : String
  name : String
  docNamespace : String
  creators : List (String × String)
  created : String
  packages : List SpdxPackage
  relationships : List Relationship
  deriving DecidableEq, Repr

structure SPDXConfig where
  documentName : String := ""
  documentNamespace : String := ""
  creators : List (String × String) := []

def noAssertion : String := "NOASSERTION"
def spdxRefPrefix : String := "SPDXRef-"
def spdxDocumentID : String := "SPDXRef-Document"

/-- `spdxIDInvalidCharRe = [^a-zA-Z0-9.-]`, `ReplaceAllString(id, "-")` (one `-` per rune) -/
def replaceSPDXIDInvalidChars (id : String) : String :=
  id.map fun c => if c.isAlphanum || c == '.' || c == '-' then c else '-'

def toDocElementID (id : String) : DocElem :=
  if id = noAssertion then .special noAssertion else .elem id

def noAssertionSupplier : Supplier := { supplier := noAssertion, supplierType := noAssertion }

/-- `pSourceInfo` -/
def sourceInfo (extractor : String) (locs : List String) : String :=
  let s := "Identified by the " ++ extractor ++ " extractor"
  match locs with
  | [] => s
  | [l] => s ++ " from " ++ l
  | l0 :: l1 :: _ => s ++ " from " ++ toString locs.length ++ " locations, including " ++ l0 ++ " and " ++ l1

/-- The `for _, pkg := range r.Inventory.Packages` loop of ToSPDX23; `k` counts the `uuid.New()` calls
made so far. Returns the appended packages and relationships. -/
def spdxLoop {Purl : Type} (ops : PurlOps Purl) (env : Env) (mainId : String) :
    Nat → List (Pkg Purl) → List SpdxPackage × List Relationship
  | _, [] => ([], [])
  | k, pkg :: rest =>
    match pkg.purl with
    | none => spdxLoop ops env mainId k rest                      -- "has no PURL, skipping"
    | some p =>
      let pName := ops.name p
      let pVersion := ops.version p
      if pName = "" ∨ pVersion = "" then spdxLoop ops env mainId k rest   -- "PURL name or version empty, skipping"
      else
        let pID := spdxRefPrefix ++ "Package-" ++ replaceSPDXIDInvalidChars pName ++ "-" ++ env.uuid k
        let entry : SpdxPackage :=
          { name := pName, id := pID, version := pVersion, supplier := some noAssertionSupplier,
            downloadLocation := noAssertion, sourceInfo := sourceInfo pkg.extractor pkg.locations,
            extRefs := [{ category := "PACKAGE-MANAGER", refType := "purl", locator := ops.str p }] }
        let r := spdxLoop ops env mainId (k + 1) rest
        (entry :: r.1,
         { refA := toDocElementID mainId, refB := toDocElementID pID, kind := "CONTAINS" } ::
         { refA := toDocElementID pID, refB := toDocElementID noAssertion, kind := "CONTAINS" } :: r.2)

/-- `converter.ToSPDX23` -/
def toSpdx {Purl : Type} (ops : PurlOps Purl) (env : Env) (cfg : SPDXConfig) (inv : List (Pkg Purl)) : SpdxDoc :=
  let mainId := spdxRefPrefix ++ "Package-main-" ++ env.uuid 0
  let main : SpdxPackage :=
    { name := "main", id := mainId, version := "0", supplier := some noAssertionSupplier,
      downloadLocation := noAssertion, sourceInfo := "", extRefs := [] }
  let r := spdxLoop ops env mainId 1 inv
  let name := if cfg.documentName = "" then "SCALIBR-generated SPDX" else cfg.documentName
  let ns := if cfg.documentNamespace = "" then "https://spdx.google/" ++ env.uuid (1 + r.1.length) else cfg.documentNamespace
  { spdxVersion := "SPDX-2.3", dataLicense := "CC0-1.0", spdxId := "DOCUMENT", name := name, docNamespace := ns,
    creators := ("Tool", "SCALIBR") :: cfg.creators, created := env.now,
    packages := main :: r.1,
    relationships := { refA := toDocElementID spdxDocumentID, refB := toDocElementID mainId, kind := "DESCRIBES" } :: r.2 }

/-! ## SPDX importer -/

/-- the importer's per-package state while it walks the external references -/
structure RefState (Purl : Type) where
  name : String
  cpes : List String
  purl : Option Purl

/-- body of `for _, extRef := range spdxPkg.PackageExternalReferences` (after fix 876ae27f the name is
assigned only when the purl parsed) -/
def refStep {Purl : Type} (ops : PurlOps Purl) (st : RefState Purl) (r : ExtRef) : RefState Purl :=
  if r.refType = "cpe23Type" ∨ r.refType = "http://spdx.org/rdf/references/cpe23Type" then
    { st with cpes := st.cpes ++ [r.locator], name := if st.name = "" then r.locator else st.name }
  else if r.refType = "purl" ∨ r.refType = "http://spdx.org/rdf/references/purl" then
    match ops.parse r.locator with
    | none => st                                                   -- "Invalid PURL", nothing assigned
    | some u => { st with name := ops.name u, purl := some u }
  else st

/-- one iteration of `for _, spdxPkg := range spdxDoc.Packages`: `none` = `continue` -/
def convertSpdxPackage {Purl : Type} (ops : PurlOps Purl) (path : String) (p : SpdxPackage) : Option (ImpPkg Purl) :=
  let st := p.extRefs.foldl (refStep ops) { name := "", cpes := [], purl := none }
  if st.purl.isNone ∧ st.cpes.isEmpty then none                    -- "Neither CPE nor PURL found"
  else some { name := st.name, version := "", locations := [path], cpes := st.cpes, purl := st.purl }

/-- `convertSpdxDocToPackage` -/
def convertSpdxDocToPackage {Purl : Type} (ops : PurlOps Purl) (d : SpdxDoc) (path : String) : List (ImpPkg Purl) :=
  d.packages.filterMap (convertSpdxPackage ops path)

/-! ## File-name dispatch (`findExtractor`, `hasFileExtension`) -/

/-- `strings.HasSuffix(strings.ToLower(path), extension)` (ASCII lower-casing; the writers' file names are ASCII) -/
def hasFileExtension (path ext : String) : Bool := ext.toList.isSuffixOf (path.toList.map Char.toLower)

inductive SpdxFormat where
  | json | tagValue | yaml | rdf
  deriving DecidableEq, Repr

/-- `extensionHandlers` (a Go map: iteration order unspecified; `spdx_dispatch_unambiguous` in the
property file shows no key is a suffix of another, so at most one key matches any path) -/
def spdxExtensionHandlers : List (String × SpdxFormat) :=
  [(".spdx.json", .json), (".spdx", .tagValue), (".spdx.yml", .yaml), (".spdx.rdf", .rdf), (".spdx.rdf.xml", .rdf)]

def findSpdxExtractor (path : String) : Option SpdxFormat :=
  (spdxExtensionHandlers.find? fun kv => hasFileExtension path kv.1).map (·.2)

inductive CdxFormat where
  | json | xml
  deriving DecidableEq, Repr

def cdxExtensions : List (String × CdxFormat) := [(".cdx.json", .json), (".cdx.xml", .xml)]
def cdxNames : List (String × CdxFormat) := [("bom.json", .json), ("bom.xml", .xml)]

/-- `filepath.Base` for slash-separated relative paths without a trailing slash -/
def baseName (path : String) : List Char := (path.toList.reverse.takeWhile (· ≠ '/')).reverse

def findCdxExtractor (path : String) : Option CdxFormat :=
  match cdxExtensions.find? fun kv => hasFileExtension path kv.1 with
  | some kv => some kv.2
  | none => (cdxNames.find? fun kv => (baseName path).map Char.toLower = kv.1.toList).map (·.2)

/-- `spdx.Extractor.Extract`: `codecOf` maps the format chosen by the file name to its parser. -/
def extractSpdx {Purl Bytes : Type} (ops : PurlOps Purl) (codecOf : SpdxFormat → Codec SpdxDoc Bytes)
    (path : String) (b : Bytes) : Except Err (List (ImpPkg Purl)) :=
  match findSpdxExtractor path with
  | none => .error .unsupported
  | some f =>
    match (codecOf f).decode b with
    | none => .error .parse
    | some d => .ok (convertSpdxDocToPackage ops d path)

/-! ## CycloneDX BOM (the fields ToCDX sets) and importer -/

/-- `cyclonedx.Component`; `sub` = `*Components` (nil ≙ `[]`), `purl`/`cpe` = "" when unset -/
inductive Component where
  | mk (bomRef typ name version purl cpe : String) (occurrences : List String) (sub : List Component)

namespace Component
def bomRef : Component → String | mk r _ _ _ _ _ _ _ => r
def name : Component → String | mk _ _ n _ _ _ _ _ => n
def version : Component → String | mk _ _ _ v _ _ _ _ => v
def purl : Component → String | mk _ _ _ _ p _ _ _ => p
def cpe : Component → String | mk _ _ _ _ _ c _ _ => c
def sub : Component → List Component | mk _ _ _ _ _ _ _ s => s
end Component

structure Bom where
  timestamp : String
  metaName : String
  metaVersion : String
  metaBomRef : String
  authors : List String
  /-- `bom.Components`; `none` = nil pointer -/
  components : Option (List Component)

structure CDXConfig where
  componentName : String := ""
  componentVersion : String := ""
  authors : List String := []

/-- body of ToCDX's `for _, pkg := range r.Inventory.Packages`; `k` = index of the `uuid.New()` call -/
def cdxComponent {Purl : Type} (ops : PurlOps Purl) (env : Env) (k : Nat) (pkg : Pkg Purl) : Component :=
  .mk (env.uuid k) "library" pkg.name pkg.version
    (match pkg.purl with | some p => ops.str p | none => "")        -- `if p := ToPURL(pkg); p != nil`
    (match pkg.cpes with | c :: _ => c | [] => "")                  -- `if len(cpes) > 0 { comp.CPE = cpes[0] }`
    pkg.locations []

def cdxLoop {Purl : Type} (ops : PurlOps Purl) (env : Env) : Nat → List (Pkg Purl) → List Component
  | _, [] => []
  | k, pkg :: rest => cdxComponent ops env k pkg :: cdxLoop ops env (k + 1) rest

/-- `converter.ToCDX` -/
def toCdx {Purl : Type} (ops : PurlOps Purl) (env : Env) (cfg : CDXConfig) (inv : List (Pkg Purl)) : Bom :=
  { timestamp := env.now, metaName := cfg.componentName, metaVersion := cfg.componentVersion,
    metaBomRef := env.uuid 0, authors := cfg.authors, components := some (cdxLoop ops env 1 inv) }

/-- `convertComponentToInventory`; `none` = nil -/
def convertComponentToInventory {Purl : Type} (ops : PurlOps Purl) (c : Component) : Option (ImpPkg Purl) :=
  let cpes := if c.cpe ≠ "" then [c.cpe] else []
  let parsed : Option Purl := if c.purl ≠ "" then ops.parse c.purl else none   -- error ⇒ warning only
  let name := match parsed with | some u => if c.name = "" then ops.name u else c.name | none => c.name
  let version := match parsed with | some u => if c.version = "" then ops.version u else c.version | none => c.version
  if parsed.isNone ∧ cpes.isEmpty then none
  else some { name := name, version := version, locations := [], cpes := cpes, purl := parsed }

mutual
/-- one iteration of `enumerateComponents`'s loop: the component itself, then its nested components -/
def enumerateComponent {Purl : Type} (ops : PurlOps Purl) : Component → List (ImpPkg Purl)
  | .mk r t n v p c o sub =>
    (convertComponentToInventory ops (.mk r t n v p c o sub)).toList ++ enumerateComponents ops sub
/-- `enumerateComponents` (pre-order) -/
def enumerateComponents {Purl : Type} (ops : PurlOps Purl) : List Component → List (ImpPkg Purl)
  | [] => []
  | c :: cs => enumerateComponent ops c ++ enumerateComponents ops cs
end

/-- `convertCdxBomToPackage` (`cdxBom == nil` cannot happen: Extract passes `&cdxBOM`) -/
def convertCdxBomToPackage {Purl : Type} (ops : PurlOps Purl) (b : Bom) (path : String) : List (ImpPkg Purl) :=
  match b.components with
  | none => []
  | some cs => (enumerateComponents ops cs).map fun p => { p with locations := [path] }

/-- `cdx.Extractor.Extract` -/
def extractCdx {Purl Bytes : Type} (ops : PurlOps Purl) (codecOf : CdxFormat → Codec Bom Bytes)
    (path : String) (b : Bytes) : Except Err (List (ImpPkg Purl)) :=
  match findCdxExtractor path with
  | none => .error .unsupported
  | some f =>
    match (codecOf f).decode b with
    | none => .error .parse
    | some d => .ok (convertCdxBomToPackage ops d path)

/-! ## The composition the property is about: write with the format's writer, scan the written file -/

/-- the file the CLI writes for an output format, and the reader-side format it must dispatch to -/
def spdxFileName : SpdxFormat → String
  | .json => "o.spdx.json" | .yaml => "o.spdx.yml" | .tagValue => "o.spdx" | .rdf => "o.spdx.rdf"

def cdxFileName : CdxFormat → String
  | .json => "o.cdx.json" | .xml => "o.cdx.xml"

def roundTripSpdx {Purl Bytes : Type} (ops : PurlOps Purl) (env : Env) (cfg : SPDXConfig)
    (codecOf : SpdxFormat → Codec SpdxDoc Bytes) (f : SpdxFormat) (inv : List (Pkg Purl)) : Except Err (List (ImpPkg Purl)) :=
  extractSpdx ops codecOf (spdxFileName f) ((codecOf f).encode (toSpdx ops env cfg inv))

def roundTripCdx {Purl Bytes : Type} (ops : PurlOps Purl) (env : Env) (cfg : CDXConfig)
    (codecOf : CdxFormat → Codec Bom Bytes) (f : CdxFormat) (inv : List (Pkg Purl)) : Except Err (List (ImpPkg Purl)) :=
  extractCdx ops codecOf (cdxFileName f) ((codecOf f).encode (toCdx ops env cfg inv))

/-! ## tools-golang's tag-value treatment of `PackageSupplier` (v0.5.3), the reason `Codec.roundtrips`
is FALSE for the tag-value format on every document ToSPDX23 produces (known finding
C15/spdx-tag-value-supplier). Characters are `List Char` so that the witness is decidable. -/

/-- writer/save_package.go: `PackageSupplier: %s: %s` when SupplierType ≠ "", the bare Supplier otherwise -/
def tvWriteSupplier (supplier supplierType : List Char) : List Char :=
  if supplierType = [] then supplier else supplierType ++ ": ".toList ++ supplier

/-- reader `extractSubs`: split at the first ':' (none = "invalid … no colon"); blanks trimmed -/
def tvExtractSubs (v : List Char) : Option (List Char × List Char) :=
  let key := v.takeWhile (· ≠ ':')
  let rest := v.dropWhile (· ≠ ':')
  match rest with
  | [] => none
  | _ :: sub =>
    let trim := fun (l : List Char) => ((l.dropWhile (· = ' ')).reverse.dropWhile (· = ' ')).reverse
    some (trim key, trim sub)

/-- reader/parse_package.go case "PackageSupplier": `none` = the parse error that fails the whole file -/
def tvReadSupplier (value : List Char) : Option (List Char × List Char) :=
  if value = "NOASSERTION".toList then some (value, [])
  else match tvExtractSubs value with
    | none => none
    | some (k, v) => if k = "Person".toList ∨ k = "Organization".toList then some (v, k) else none   -- "unrecognized PackageSupplier type"

end Scalibr.Sbom
