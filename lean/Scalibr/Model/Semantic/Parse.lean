/-
C07 — `semantic.Parse`: the ecosystem switch, and `Parse` + `CompareStr` as one function.
-/
import Scalibr.Model.Semantic.Semver
import Scalibr.Model.Semantic.Debian
import Scalibr.Model.Semantic.RubyGems
import Scalibr.Model.Semantic.RedHat
import Scalibr.Model.Semantic.Packagist
import Scalibr.Model.Semantic.PyPI
import Scalibr.Model.Semantic.Alpine
import Scalibr.Model.Semantic.Maven
namespace Scalibr.Semantic

/-- the ten comparator families behind the seventeen ecosystem names -/
inductive Fam | semver | nuget | cran | debian | rubygems | redhat | packagist | pypi | alpine | maven
deriving DecidableEq, Repr

def Fam.family : Fam → Family
  | .semver => semverFam
  | .nuget => nugetFam
  | .cran => cranFam
  | .debian => debianFam
  | .rubygems => rubygemsFam
  | .redhat => redhatFam
  | .packagist => packagistFam
  | .pypi => pypiFam
  | .alpine => alpineFam
  | .maven => mavenFam

/-- the `switch ecosystem` of `Parse`; `none` = `ErrUnsupportedEcosystem` -/
def dispatch (eco : String) : Option Fam :=
  if eco = "Alpine" then some .alpine
  else if eco = "ConanCenter" then some .semver
  else if eco = "CRAN" then some .cran
  else if eco = "crates.io" then some .semver
  else if eco = "Debian" then some .debian
  else if eco = "Go" then some .semver
  else if eco = "Hex" then some .semver
  else if eco = "Maven" then some .maven
  else if eco = "npm" then some .semver
  else if eco = "NuGet" then some .nuget
  else if eco = "Packagist" then some .packagist
  else if eco = "Pub" then some .semver
  else if eco = "PyPI" then some .pypi
  else if eco = "Red Hat" then some .redhat
  else if eco = "RubyGems" then some .rubygems
  else if eco = "Ubuntu" then some .debian
  else none

/-- `Parse(a, eco)` then `CompareStr(b)` for one family -/
def compareStr (f : Fam) (a b : List Char) : Outcome := f.family.compareStr a b

def accepted (f : Fam) (a : List Char) : Bool := f.family.accepted a

/-- the same through the ecosystem name; an unsupported ecosystem is an error -/
def compareEco (eco : String) (a b : List Char) : Outcome :=
  match dispatch eco with
  | none => .err
  | some f => compareStr f a b

end Scalibr.Semantic
