/-
C07 — Packagist (`version-packagist.go`, after the repair 8171abe1: the "next component is a number"
test uses `convertToBigInt`, not `strconv.Atoi`).
-/
import Scalibr.Model.Semantic.Basic
namespace Scalibr.Semantic

def isSepPk (c : Char) : Bool := c = '-' || c = '_' || c = '+'

/-- `ReplaceAllString(([^\d.])(\d), "$1.$2")`: non-overlapping matches, left to right; a match
consumes both characters -/
def insNonDigitDigit : List Char → List Char
  | a :: b :: rest =>
    if (!isDigit a && a ≠ '.') && isDigit b then a :: '.' :: b :: insNonDigitDigit rest
    else a :: insNonDigitDigit (b :: rest)
  | l => l

/-- `ReplaceAllString((\d)([^\d.]), "$1.$2")` -/
def insDigitNonDigit : List Char → List Char
  | a :: b :: rest =>
    if isDigit a && (!isDigit b && b ≠ '.') then a :: '.' :: b :: insDigitNonDigit rest
    else a :: insDigitNonDigit (b :: rest)
  | l => l

/-- `canonicalizePackagistVersion` -/
def canonPk (v : List Char) : List Char :=
  let v := match v with
    | 'v' :: r => r
    | r => r
  let v := match v with
    | 'V' :: r => r
    | r => r
  let v := v.map fun c => if isSepPk c then '.' else c
  insDigitNonDigit (insNonDigitDigit v)

/-- `weighPackagistBuildCharacter` -/
def weighPk (s : List Char) : Nat :=
  if hasPrefix ['R', 'C'] s then 3
  else if hasPrefix ['d', 'e', 'v'] s then 0
  else if hasPrefix ['a'] s then 1
  else if hasPrefix ['b'] s then 2
  else if hasPrefix ['r', 'c'] s then 3
  else if hasPrefix ['#'] s then 4
  else if hasPrefix ['p'] s then 5
  else 0

/-- `comparePackagistSpecialVersions` -/
def cmpSpecial (a b : List Char) : Ordering := ncmp (weighPk a) (weighPk b)

/-- one position of the common part in `comparePackagistComponents` -/
def pkElem (x y : List Char) : Ordering :=
  match toBig x, toBig y with
  | some p, some q => icmp p q
  | none, none => cmpSpecial x y
  | some _, none => cmpSpecial ['#'] y
  | none, some _ => cmpSpecial x ['#']

/-- `comparePackagistComponents`, one unit of fuel per call / loop iteration -/
def cmpPkF : Nat → List (List Char) → List (List Char) → Ordering
  | 0, _, _ => .eq
  | fuel + 1, a, b =>
    match a, b with
    | x :: as, y :: bs => (pkElem x y).then (cmpPkF fuel as bs)
    | [], [] => .eq
    | x :: as, [] => if (toBig x).isSome then .gt else cmpPkF fuel (x :: as) [['#']]
    | [], y :: bs => if (toBig y).isSome then .lt else cmpPkF fuel [['#']] (y :: bs)

/-- two units per component are enough: a tail call against `["#"]` is followed by one loop step -/
def pkFuel (a b : List (List Char)) : Nat := 2 * (a.length + b.length) + 4

def cmpPk (a b : List (List Char)) : Ordering := cmpPkF (pkFuel a b) a b

def parsePk (s : List Char) : List (List Char) := splitOn '.' (canonPk s)

/-! ### as the Go code writes it, with failing index / slice sites (`none` = run-time panic) -/

/-- `comparePackagistComponents` as written (version-packagist.go:79-113): `a[i]`, `b[i]` for
`i < min(len(a), len(b))`; then `a[len(b)]` and `a[len(b):]` behind `len(a) > len(b)` (resp. the
mirror image), and the recursive call against `["#"]`. One unit of fuel per CALL. -/
def cmpPkGo : Nat → List (List Char) → List (List Char) → Option Ordering
  | 0, _, _ => some .eq
  | fuel + 1, a, b =>
    (lexLoop pkElem a b (min a.length b.length) 0).bind fun c =>
      if c ≠ .eq then some c
      else if b.length < a.length then
        (goIndex a b.length).bind fun next =>
          if (toBig next).isSome then some .gt
          else (goSlice a b.length a.length).bind fun rest => cmpPkGo fuel rest [['#']]
      else if a.length < b.length then
        (goIndex b a.length).bind fun next =>
          if (toBig next).isSome then some .lt
          else (goSlice b a.length b.length).bind fun rest => cmpPkGo fuel [['#']] rest
      else some .eq

/-- every recursive call is on a strictly shorter tail against `["#"]` (proved adequate: `cmpPkGo_eq`) -/
def cmpPkGoTop (a b : List (List Char)) : Option Ordering := cmpPkGo (a.length + b.length + 2) a b

def packagistFam : Family := ⟨List (List Char), fun s => .ok (parsePk s), fun v w => .ofGo (cmpPkGoTop v w)⟩

end Scalibr.Semantic
