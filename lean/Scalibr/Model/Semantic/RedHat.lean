/-
C07 — Red Hat (`version-redhat.go`): the rpmvercmp-like loop. The Go loop indexes BYTES; every
byte ≥ 0x80 satisfies `shouldBeTrimmed`, runs consist of ASCII only, and the final length
comparison only distinguishes "nothing left" from "something left", so on valid UTF-8 the same
function is obtained on code points.
-/
import Scalibr.Model.Semantic.Basic
namespace Scalibr.Semantic

structure RHV where
  epoch : List Char
  version : List Char
  release : List Char
deriving Repr

/-- `shouldBeTrimmed` -/
def rhTrimmed (c : Char) : Bool := !isLetter c && !isDigit c && c ≠ '~' && c ≠ '^'

def startsWith (c : Char) (s : List Char) : Bool :=
  match s with
  | x :: _ => x = c
  | [] => false

/-- the `for { … }` loop of `compareRedHatComponents` followed by the length comparison;
`a`, `b` are `a[ai:]`, `b[bi:]` -/
def cmpRHLoop : Nat → List Char → List Char → Ordering
  | 0, _, _ => .eq
  | fuel + 1, a, b =>
    let a := a.dropWhile rhTrimmed
    let b := b.dropWhile rhTrimmed
    let aT := startsWith '~' a
    let bT := startsWith '~' b
    if aT && bT then cmpRHLoop fuel a.tail b.tail
    else if aT then .lt
    else if bT then .gt
    else
      let aC := startsWith '^' a
      let bC := startsWith '^' b
      if aC && bC then cmpRHLoop fuel a.tail b.tail
      else if aC then (if b.isEmpty then .gt else .lt)
      else if bC then (if a.isEmpty then .lt else .gt)
      else if a.isEmpty || b.isEmpty then ncmp a.length b.length
      else
        let isD := isDigit (a.headD ' ')
        let run : Char → Bool := if isD then isDigit else isLetter
        let as := a.takeWhile run
        let a' := a.dropWhile run
        let bs := b.takeWhile run
        let b' := b.dropWhile run
        if bs.isEmpty then (if isD then .gt else .lt)
        else if isD then
          let as := as.dropWhile (· = '0')
          let bs := bs.dropWhile (· = '0')
          if as.length > bs.length then .gt
          else if as.length < bs.length then .lt
          else (strCmp as bs).then (cmpRHLoop fuel a' b')
        else (strCmp as bs).then (cmpRHLoop fuel a' b')

/-! ### as the Go code writes it, with the failing index sites (`none` = run-time panic)

The positions `ai`, `bi` are represented by the rests `a[ai:]`, `b[bi:]` (so `ai < len(a)` is "the
rest is not empty" and `a[ai]` is index 0 of the rest, which FAILS on an empty rest). -/

/-- `for ai < len(a) && shouldBeTrimmed(rune(a[ai])) { ai++ }`; one unit of fuel per iteration -/
def rhTrimGo : Nat → List Char → Option (List Char)
  | 0, a => some a
  | fuel + 1, a =>
    if 0 < a.length then (goIndex a 0).bind fun c => if rhTrimmed c then rhTrimGo fuel a.tail else some a
    else some a

/-- `ai < len(a) && a[ai] == c` -/
def startsWithGo (c : Char) (a : List Char) : Option Bool :=
  if 0 < a.length then (goIndex a 0).bind fun x => some (decide (x = c)) else some false

/-- the loop of `compareRedHatComponents` as written; `a[ai]` of step 7 (version-redhat.go:120) is
reached only after `if ai == len(a) || bi == len(b) { break }` -/
def cmpRHLoopGo : Nat → List Char → List Char → Option Ordering
  | 0, _, _ => some .eq
  | fuel + 1, a, b =>
    (rhTrimGo (a.length + 1) a).bind fun a =>
    (rhTrimGo (b.length + 1) b).bind fun b =>
    (startsWithGo '~' a).bind fun aT =>
    (startsWithGo '~' b).bind fun bT =>
    if aT && bT then cmpRHLoopGo fuel a.tail b.tail
    else if aT then some .lt
    else if bT then some .gt
    else
      (startsWithGo '^' a).bind fun aC =>
      (startsWithGo '^' b).bind fun bC =>
      if aC && bC then cmpRHLoopGo fuel a.tail b.tail
      else if aC then some (if b.isEmpty then .gt else .lt)
      else if bC then some (if a.isEmpty then .lt else .gt)
      else if a.isEmpty || b.isEmpty then some (ncmp a.length b.length)
      else
        (goIndex a 0).bind fun c0 =>
        let isD := isDigit c0
        let run : Char → Bool := if isD then isDigit else isLetter
        let as := a.takeWhile run
        let a' := a.dropWhile run
        let bs := b.takeWhile run
        let b' := b.dropWhile run
        if bs.isEmpty then some (if isD then .gt else .lt)
        else if isD then
          let as := as.dropWhile (· = '0')
          let bs := bs.dropWhile (· = '0')
          if as.length > bs.length then some .gt
          else if as.length < bs.length then some .lt
          else thenGo (strCmp as bs) (cmpRHLoopGo fuel a' b')
        else thenGo (strCmp as bs) (cmpRHLoopGo fuel a' b')

def cmpRHCompGo (a b : List Char) : Option Ordering :=
  if a.isEmpty && !b.isEmpty then some .lt
  else if !a.isEmpty && b.isEmpty then some .gt
  else cmpRHLoopGo (a.length + b.length + 2) a b

/-- `redHatVersion.compare`: a later component is looked at only when the earlier ones are equal -/
def cmpRHGo (v w : RHV) : Option Ordering :=
  (cmpRHCompGo v.epoch w.epoch).bind fun d => thenGo d
    ((cmpRHCompGo v.version w.version).bind fun d => thenGo d (cmpRHCompGo v.release w.release))

/-- `compareRedHatComponents` -/
def cmpRHComp (a b : List Char) : Ordering :=
  if a.isEmpty && !b.isEmpty then .lt
  else if !a.isEmpty && b.isEmpty then .gt
  else cmpRHLoop (a.length + b.length + 2) a b

/-- `redHatVersion.compare` -/
def cmpRH (v w : RHV) : Ordering :=
  (cmpRHComp v.epoch w.epoch).then ((cmpRHComp v.version w.version).then (cmpRHComp v.release w.release))

/-- `parseRedHatVersion` (`n-e:v-r.a`) -/
def parseRH (s : List Char) : RHV :=
  let (bf, af) : List Char × List Char :=
    match cutAt ':' s with
    | some (x, y) => (x, y)
    | none => ([], s)
  let epoch :=
    match cutAt '-' bf with
    | some (_, e) => e
    | none => bf
  let (version, release) : List Char × List Char :=
    match cutAt '-' af with
    | some (v, r) => (v, '-' :: r)
    | none => (af, [])
  let epoch := if epoch.isEmpty then ['0'] else epoch
  ⟨epoch, version, release⟩

def redhatFam : Family := ⟨RHV, fun s => .ok (parseRH s), fun v w => .ofGo (cmpRHGo v w)⟩

end Scalibr.Semantic
