/-
C07 — Red Hat (`version-redhat.go`): the rpmvercmp-like loop. The Go loop indexes BYTES; every
byte ≥ 0x80 satisfies `shouldBeTrimmed`, runs consist of ASCII only, and the final length
comparison only distinguishes "nothing left" from "something left", so on valid UTF-8 the same
function is obtained on code points.
-/
import Scalibr.Model.Semantic.Basic
namespace Scalibr.Semantic

structure RHV where
  epoch : List Char
  version : List Char
  release : List Char
deriving Repr

/-- `shouldBeTrimmed` -/
def rhTrimmed (c : Char) : Bool := !isLetter c && !isDigit c && c ≠ '~' && c ≠ '^'

def startsWith (c : Char) (s : List Char) : Bool :=
  match s with
  | x :: _ => x = c
  | [] => false

/-- the `for { … }` loop of `compareRedHatComponents` followed by the length comparison;
`a`, `b` are `a[ai:]`, `b[bi:]` -/
def cmpRHLoop : Nat → List Char → List Char → Ordering
  | 0, _, _ => .eq
  | fuel + 1, a, b =>
    let a := a.dropWhile rhTrimmed
    let b := b.dropWhile rhTrimmed
    let aT := startsWith '~' a
    let bT := startsWith '~' b
    if aT && bT then cmpRHLoop fuel a.tail b.tail
    else if aT then .lt
    else if bT then .gt
    else
      let aC := startsWith '^' a
      let bC := startsWith '^' b
      if aC && bC then cmpRHLoop fuel a.tail b.tail
      else if aC then (if b.isEmpty then .gt else .lt)
      else if bC then (if a.isEmpty then .lt else .gt)
      else if a.isEmpty || b.isEmpty then ncmp a.length b.length
      else
        let isD := isDigit (a.headD ' ')
        let run : Char → Bool := if isD then isDigit else isLetter
        let as := a.takeWhile run
        let a' := a.dropWhile run
        let bs := b.takeWhile run
        let b' := b.dropWhile run
        if bs.isEmpty then (if isD then .gt else .lt)
        else if isD then
          let as := as.dropWhile (· = '0')
          let bs := bs.dropWhile (· = '0')
          if as.length > bs.length then .gt
          else if as.length < bs.length then .lt
          else (strCmp as bs).then (cmpRHLoop fuel a' b')
        else (strCmp as bs).then (cmpRHLoop fuel a' b')

/-- `compareRedHatComponents` -/
def cmpRHComp (a b : List Char) : Ordering :=
  if a.isEmpty && !b.isEmpty then .lt
  else if !a.isEmpty && b.isEmpty then .gt
  else cmpRHLoop (a.length + b.length + 2) a b

/-- `redHatVersion.compare` -/
def cmpRH (v w : RHV) : Ordering :=
  (cmpRHComp v.epoch w.epoch).then ((cmpRHComp v.version w.version).then (cmpRHComp v.release w.release))

/-- `parseRedHatVersion` (`n-e:v-r.a`) -/
def parseRH (s : List Char) : RHV :=
  let (bf, af) : List Char × List Char :=
    match cutAt ':' s with
    | some (x, y) => (x, y)
    | none => ([], s)
  let epoch :=
    match cutAt '-' bf with
    | some (_, e) => e
    | none => bf
  let (version, release) : List Char × List Char :=
    match cutAt '-' af with
    | some (v, r) => (v, '-' :: r)
    | none => (af, [])
  let epoch := if epoch.isEmpty then ['0'] else epoch
  ⟨epoch, version, release⟩

def redhatFam : Family := ⟨RHV, fun s => .ok (parseRH s), fun v w => .ord (cmpRH v w)⟩

end Scalibr.Semantic
