/-
C07 — shared vocabulary of the version-comparator models (`/repo/semantic`).

Strings are `List Char` (Go strings that are valid UTF-8; the correspondence generator emits valid
UTF-8 only). `strings.Compare` on bytes equals code-point-wise lexicographic comparison for valid
UTF-8, which is `strCmp`. `*big.Int` is `Int`; `big.Int.SetString(s, 10)` is `toBig`.
Comparators return `Ordering` (Go's -1/0/+1), `CRes` where the Go function can also return an error
or would crash (`panic` marks an unchecked index / nil dereference), parsers return `PRes`.
-/
namespace Scalibr.Semantic

/-- what `Parse(a, eco)` followed by `CompareStr(b)` can do -/
inductive Outcome | lt | eq | gt | err | panic
deriving DecidableEq, Repr

def Outcome.ofOrd : Ordering → Outcome
  | .lt => .lt | .eq => .eq | .gt => .gt

def Outcome.str : Outcome → String
  | .lt => "lt" | .eq => "eq" | .gt => "gt" | .err => "err" | .panic => "panic"

/-- result of a parser: value, `ErrInvalidVersion`, or a crash -/
inductive PRes (α : Type) | ok (v : α) | err | panic

/-- result of a `compare` method: -1/0/+1, an error, or a crash -/
inductive CRes | ord (o : Ordering) | err | panic
deriving DecidableEq, Repr

def CRes.toOutcome : CRes → Outcome
  | .ord o => .ofOrd o | .err => .err | .panic => .panic

/-- `if diff != 0 || err != nil { return … }` chains -/
def CRes.andThen (r : CRes) (k : Unit → CRes) : CRes :=
  match r with
  | .ord .eq => k ()
  | r => r

/-- `if diff := …; diff != 0 { return diff, nil }` followed by a step that may fail -/
def ordThen (o : Ordering) (k : Unit → CRes) : CRes :=
  match o with
  | .eq => k ()
  | o => .ord o

/-- One comparator family of `semantic.Parse`: parsed form, parser, comparison. -/
structure Family where
  V : Type
  parse : List Char → PRes V
  cmp : V → V → CRes

/-- the comparison once both strings went through the parser: the receiver's parse result is
looked at first; an error (or crash) there means the argument is never looked at -/
def Family.cmpParsed (F : Family) (pa pb : PRes F.V) : Outcome :=
  match pa with
  | .panic => .panic
  | .err => .err
  | .ok v =>
    match pb with
    | .panic => .panic
    | .err => .err
    | .ok w => (F.cmp v w).toOutcome

/-- `v, err := Parse(a, eco); if err … ; v.CompareStr(b)` -/
def Family.compareStr (F : Family) (a b : List Char) : Outcome := F.cmpParsed (F.parse a) (F.parse b)

/-- `Parse(a, eco)` returns no error (and does not crash) -/
def Family.accepted (F : Family) (a : List Char) : Bool :=
  match F.parse a with
  | .ok _ => true
  | _ => false

/-! ## characters -/

def isDigit (c : Char) : Bool := 48 ≤ c.toNat && c.toNat ≤ 57
def isLower (c : Char) : Bool := 97 ≤ c.toNat && c.toNat ≤ 122
def isUpper (c : Char) : Bool := 65 ≤ c.toNat && c.toNat ≤ 90
def isLetter (c : Char) : Bool := isLower c || isUpper c
def digitVal (c : Char) : Nat := c.toNat - 48

/-- number of bytes of the UTF-8 encoding -/
def utf8Len (c : Char) : Nat :=
  let n := c.toNat
  if n < 0x80 then 1 else if n < 0x800 then 2 else if n < 0x10000 then 3 else 4

/-- first byte of the UTF-8 encoding -/
def firstByte (c : Char) : Nat :=
  let n := c.toNat
  if n < 0x80 then n else if n < 0x800 then 0xC0 + n / 64
  else if n < 0x10000 then 0xE0 + n / 4096 else 0xF0 + n / 262144

def lowerAscii (c : Char) : Char := if isUpper c then Char.ofNat (c.toNat + 32) else c

/-- `unicode.ToLower` on the alphabet the generator uses: ASCII, Latin-1, Greek and Cyrillic
capitals, full-width Latin capitals, U+0130 (→ `i`) and U+212A KELVIN SIGN (→ `k`). Other cased
letters are outside the correspondence alphabet (recorded as an assumption of the check). -/
def goToLower (c : Char) : Char :=
  let n := c.toNat
  if isUpper c then Char.ofNat (n + 32)
  else if n < 0x80 then c
  else if (0xC0 ≤ n && n ≤ 0xDE && n ≠ 0xD7) then Char.ofNat (n + 32)
  else if n = 0x130 then 'i'
  else if n = 0x212A then 'k'
  else if (0x391 ≤ n && n ≤ 0x3A9 && n ≠ 0x3A2) then Char.ofNat (n + 32)
  else if (0x410 ≤ n && n ≤ 0x42F) then Char.ofNat (n + 32)
  else if (0xFF21 ≤ n && n ≤ 0xFF3A) then Char.ofNat (n + 32)
  else c

def lowerStr (s : List Char) : List Char := s.map goToLower

/-- `unicode.IsSpace` -/
def isSpace (c : Char) : Bool :=
  let n := c.toNat
  n = 32 || (9 ≤ n && n ≤ 13) || n = 0x85 || n = 0xA0 || n = 0x1680 || (0x2000 ≤ n && n ≤ 0x200A) ||
    n = 0x2028 || n = 0x2029 || n = 0x202F || n = 0x205F || n = 0x3000

def trimSpace (s : List Char) : List Char :=
  ((s.dropWhile isSpace).reverse.dropWhile isSpace).reverse

/-! ## numbers -/

def digitsToNat (s : List Char) : Nat := s.foldl (fun n c => n * 10 + digitVal c) 0

/-- `new(big.Int).SetString(s, 10)`: optional sign, at least one ASCII digit, nothing else;
`none` is the failure that `convertToBigInt` turns into an error. -/
def toBig (s : List Char) : Option Int :=
  match s with
  | '-' :: ds => if ds.isEmpty || !ds.all isDigit then none else some (-(digitsToNat ds : Int))
  | '+' :: ds => if ds.isEmpty || !ds.all isDigit then none else some (digitsToNat ds : Int)
  | ds => if ds.isEmpty || !ds.all isDigit then none else some (digitsToNat ds : Int)

/-- `big.Int.String()` / `fmt.Sprintf("%d", x)` -/
def intToChars (n : Int) : List Char :=
  if n < 0 then '-' :: Nat.toDigits 10 n.natAbs else Nat.toDigits 10 n.natAbs

/-- `big.Int.Cmp` -/
def icmp (a b : Int) : Ordering := if a < b then .lt else if a = b then .eq else .gt
def ncmp (a b : Nat) : Ordering := if a < b then .lt else if a = b then .eq else .gt
/-- false < true -/
def bcmp (a b : Bool) : Ordering :=
  match a, b with
  | false, true => .lt
  | true, false => .gt
  | _, _ => .eq

/-! ## comparison combinators (the shapes the Go loops have) -/

/-- lexicographic; a proper prefix is smaller ("compare the common part, then the lengths") -/
def cmpLex {α : Type} (cmp : α → α → Ordering) : List α → List α → Ordering
  | [], [] => .eq
  | [], _ :: _ => .lt
  | _ :: _, [] => .gt
  | a :: as, b :: bs => (cmp a b).then (cmpLex cmp as bs)

/-- `strings.Compare` (valid UTF-8: byte order = code point order) -/
def strCmp (a b : List Char) : Ordering := cmpLex (fun x y => ncmp x.toNat y.toNat) a b

def cmpPadL {α : Type} (cmp : α → α → Ordering) (d : α) : List α → Ordering
  | [] => .eq
  | b :: bs => (cmp d b).then (cmpPadL cmp d bs)

def cmpPadR {α : Type} (cmp : α → α → Ordering) (d : α) : List α → Ordering
  | [] => .eq
  | a :: as => (cmp a d).then (cmpPadR cmp d as)

/-- `for i := range max(len(a), len(b)) { diff := cmp(fetch(a,i,d), fetch(b,i,d)); if diff != 0 { return diff } }` -/
def cmpPad {α : Type} (cmp : α → α → Ordering) (d : α) : List α → List α → Ordering
  | [], bs => cmpPadL cmp d bs
  | as, [] => cmpPadR cmp d as
  | a :: as, b :: bs => (cmp a b).then (cmpPad cmp d as bs)

/-- `components.Cmp` -/
def compsCmp (a b : List Int) : Ordering := cmpPad icmp 0 a b

/-! ## Go run-time failures: indexing and slicing

The Go code indexes and slices behind guards (`if len(slice) <= i`, `for i := range min(len(a), len(b))`,
`ai < len(a) && …`). The models of the comparators are written with the FAILING primitives below at
exactly those sites — `none` is Go's "index out of range" / "slice bounds out of range" run-time
panic and becomes `.panic` in the family — so the no-crash theorems have something to prove: the
guards make every failing branch unreachable (`Proofs/Semantic/GoShape.lean`: each Go-shaped
function equals `some` of its index-free reformulation, which the order proofs are about). -/

/-- `l[i]` -/
def goIndex {α : Type} (l : List α) (i : Nat) : Option α := l[i]?

/-- `l[lo:hi]` with `int` bounds (expressions such as `max(i, 0)` or `i+1`) -/
def goSlice {α : Type} (l : List α) (lo hi : Int) : Option (List α) :=
  if 0 ≤ lo ∧ lo ≤ hi ∧ hi ≤ (l.length : Int) then some ((l.take hi.toNat).drop lo.toNat) else none

/-- `fetch(slice, i, def)` (utilities.go) / `components.Fetch(i)` (version.go): the guard, then the index -/
def goFetch {α : Type} (l : List α) (i : Nat) (d : α) : Option α :=
  if l.length ≤ i then some d else goIndex l i

/-- `if diff != 0 { return diff }` followed by the rest of the loop -/
def thenGo (o : Ordering) (k : Option Ordering) : Option Ordering := if o = .eq then k else some o

/-- `for i := range n { x := fetch(a, i, d); y := fetch(b, i, d); if diff := cmp(x, y); diff != 0 { return diff } }`
with `k` iterations left at index `i`; `cmp` itself may index (Debian's `char[0]`) -/
def padLoop {α : Type} (cmp : α → α → Option Ordering) (d : α) (a b : List α) : Nat → Nat → Option Ordering
  | 0, _ => some .eq
  | k + 1, i =>
    (goFetch a i d).bind fun x => (goFetch b i d).bind fun y => (cmp x y).bind fun o =>
      thenGo o (padLoop cmp d a b k (i + 1))

/-- the loop over `max(len(a), len(b))` positions -/
def cmpPadGo {α : Type} (cmp : α → α → Option Ordering) (d : α) (a b : List α) : Option Ordering :=
  padLoop cmp d a b (max a.length b.length) 0

/-- `for i := range n { if c := cmp(a[i], b[i]); c != 0 { return c } }` with UNGUARDED indices; `k`
iterations left at index `i`; `.eq` = the loop ran to its end -/
def lexLoop {α : Type} (cmp : α → α → Ordering) (a b : List α) : Nat → Nat → Option Ordering
  | 0, _ => some .eq
  | k + 1, i =>
    (goIndex a i).bind fun x => (goIndex b i).bind fun y => thenGo (cmp x y) (lexLoop cmp a b k (i + 1))

/-- the loop over `min(len(a), len(b))` positions, then "the longer list wins" -/
def cmpLexGo {α : Type} (cmp : α → α → Ordering) (a b : List α) : Option Ordering :=
  (lexLoop cmp a b (min a.length b.length) 0).bind fun o => some (o.then (ncmp a.length b.length))

/-- a crash of the Go-shaped function is a crash of the comparison / of the parser -/
def CRes.ofGo : Option Ordering → CRes
  | some o => .ord o
  | none => .panic

def PRes.isPanic {α : Type} : PRes α → Bool
  | .panic => true
  | _ => false

def PRes.ofGo {α : Type} : Option α → PRes α
  | some v => .ok v
  | none => .panic

/-! ## strings -/

/-- `strings.Split(s, string(sep))` -/
def splitOn (sep : Char) : List Char → List (List Char)
  | [] => [[]]
  | c :: cs =>
    if c = sep then [] :: splitOn sep cs
    else
      match splitOn sep cs with
      | [] => [[c]]
      | h :: t => (c :: h) :: t

/-- split at every character satisfying `p` (`regexp.Split(s, -1)` for a one-character class) -/
def splitOnP (p : Char → Bool) : List Char → List (List Char)
  | [] => [[]]
  | c :: cs =>
    if p c then [] :: splitOnP p cs
    else
      match splitOnP p cs with
      | [] => [[c]]
      | h :: t => (c :: h) :: t

def hasPrefix (p s : List Char) : Bool := p.isPrefixOf s

/-- `strings.TrimPrefix` -/
def stripPrefix (p s : List Char) : List Char := if hasPrefix p s then s.drop p.length else s

/-- `strings.Cut(s, string(c))` / first half of `splitAround` : `none` when `c` does not occur -/
def cutAt (c : Char) : List Char → Option (List Char × List Char)
  | [] => none
  | x :: xs =>
    if x = c then some ([], xs)
    else
      match cutAt c xs with
      | some (a, b) => some (x :: a, b)
      | none => none

/-- split around the LAST occurrence -/
def cutLast (c : Char) (s : List Char) : Option (List Char × List Char) :=
  match cutAt c s.reverse with
  | some (a, b) => some (b.reverse, a.reverse)
  | none => none

end Scalibr.Semantic
