/-
C07 — Maven (`version-maven.go`): tokenisation (`splitCharsInclusive`, the two transition
expressions, normalisation, the trailing-trim loop) and `lessThan` with its padded "null" tokens.

`mavenFindTransitions` returns `span[0]+1`, a BYTE offset: when a non-ASCII (multi-byte) non-digit
is directly followed by a digit the cut falls after the first byte of that character, and
`strings.ToLower` then turns each stray byte into U+FFFD. `fixQuirk` reproduces this on code points.
-/
import Scalibr.Model.Semantic.Basic
namespace Scalibr.Semantic

/-- `mavenVersionToken` -/
structure MTok where
  pre : List Char
  val : List Char
  isNull : Bool
deriving Repr, DecidableEq

/-- `splitCharsInclusive(str, "-.")` as (preceding separator, raw token) pairs; the first pair has
no separator -/
def mvnSplit : List Char → List Char → List Char → List (List Char × List Char)
  | cur, pre, [] => [(pre, cur.reverse)]
  | cur, pre, c :: cs =>
    if c = '-' || c = '.' then (pre, cur.reverse) :: mvnSplit [] [c] cs
    else mvnSplit (c :: cur) pre cs

/-- cut a raw token at every digit / non-digit boundary -/
def cutTransitions : List Char → List (List Char)
  | [] => [[]]
  | c :: rest =>
    match cutTransitions rest with
    | [] => [[c]]
    | g :: gs =>
      match g with
      | [] => [c] :: gs
      | d :: _ => if isDigit c = isDigit d then (c :: g) :: gs else [c] :: g :: gs

def replChar : Char := Char.ofNat 0xFFFD

/-- the byte-offset effect described in the header; `carry` is prepended to the next piece -/
def fixQuirk : List Char → List (List Char) → List (List Char)
  | _, [] => []
  | carry, [p] => [carry ++ p]
  | carry, p :: q :: rest =>
    match p.getLast?, q.head? with
    | some c, some d =>
      if !isDigit c && isDigit d && utf8Len c > 1 then
        ((carry ++ p).dropLast ++ [replChar]) :: fixQuirk (List.replicate (utf8Len c - 1) replChar) (q :: rest)
      else (carry ++ p) :: fixQuirk [] (q :: rest)
    | _, _ => (carry ++ p) :: fixQuirk [] (q :: rest)

def kAlpha : List Char := ['a','l','p','h','a']
def kBeta : List Char := ['b','e','t','a']
def kMilestone : List Char := ['m','i','l','e','s','t','o','n','e']
def kRc : List Char := ['r','c']
def kSnapshot : List Char := ['s','n','a','p','s','h','o','t']
def kSp : List Char := ['s','p']
def kFinal : List Char := ['f','i','n','a','l']
def kGa : List Char := ['g','a']
def kRelease : List Char := ['r','e','l','e','a','s','e']

/-- normalisation of one piece; `isLast` ⇔ `transition == len(rawTokens[i])` -/
def normTok (piece : List Char) (isLast : Bool) : List Char :=
  let cur := lowerStr piece
  let cur := if cur.isEmpty then ['0'] else cur
  let cur := if cur = ['c','r'] then kRc else cur
  let cur := if cur = kGa || cur = kFinal || cur = kRelease then [] else cur
  let cur :=
    if !isLast then
      (if cur = ['a'] then kAlpha else if cur = ['b'] then kBeta else if cur = ['m'] then kMilestone else cur)
    else cur
  match toBig cur with
  | some n => intToChars n
  | none => cur

/-- tokens of one raw token: the first keeps the separator as prefix, later ones get "-" -/
def piecesToToks : Bool → List Char → List (List Char) → List MTok
  | _, _, [] => []
  | first, pre, [p] => [⟨if first then pre else ['-'], normTok p true, false⟩]
  | first, pre, p :: q :: rest =>
    ⟨if first then pre else ['-'], normTok p false, false⟩ :: piecesToToks false pre (q :: rest)

def rawToks (s : List Char) : List MTok :=
  (mvnSplit [] [] s).flatMap fun pr => piecesToToks true pr.1 (fixQuirk [] (cutTransitions pr.2))

/-- `shouldTrim` -/
def shouldTrim (t : MTok) : Bool := t.val = ['0'] || t.val.isEmpty || t.val = kFinal || t.val = kGa

/-- `for i >= 0 && tokens[i].prefix != "-" { i-- }` ; `none` = index out of range, or the fuel (one
unit per iteration) ran out -/
def walkDown (ts : List MTok) : Nat → Int → Option Int
  | 0, _ => none
  | f + 1, j =>
    if j ≥ 0 then
      match ts[j.toNat]? with
      | none => none
      | some t => if t.pre ≠ ['-'] then walkDown ts f (j - 1) else some j
    else some j

/-- the trailing-trim loop `for i > 0 { … }`; `none` = an index went out of range or the fuel
(one unit per iteration) ran out -/
def trimLoop : Nat → List MTok → Int → Option (List MTok)
  | 0, _, _ => none
  | fuel + 1, ts, i =>
    if i ≤ 0 then some ts
    else
      match ts[i.toNat]? with
      | none => none
      | some t =>
        if shouldTrim t then trimLoop fuel (ts.eraseIdx i.toNat) (i - 1)
        else
          match walkDown ts (ts.length + 2) i with
          | none => none
          | some j => trimLoop fuel ts (j - 1)

/-- `newMavenVersion` -/
def parseMvn (s : List Char) : PRes (List MTok) :=
  let ts := rawToks s
  match trimLoop (ts.length + 2) ts ((ts.length : Int) - 1) with
  | some ts => .ok ts
  | none => .panic

def keywordIdx (v : List Char) : Nat :=
  if v = kAlpha then 0 else if v = kBeta then 1 else if v = kMilestone then 2 else if v = kRc then 3
  else if v = kSnapshot then 4 else if v = [] then 5 else if v = kSp then 6 else 7

/-- `qualifierOrder`; `none` = error (unknown prefix) -/
def qualOrder (t : MTok) : Option Nat :=
  if (toBig t.val).isSome && t.pre = ['-'] then some 2
  else if (toBig t.val).isSome && t.pre = ['.'] then some 3
  else if t.pre = ['-'] then some 1
  else if t.pre = ['.'] then some 0
  else none

/-- `mavenVersionToken.lessThan`; `none` = error -/
def tokLess (v w : MTok) : Option Bool :=
  if v.pre = w.pre then
    match toBig v.val, toBig w.val with
    | some a, some b => some (decide (a < b))
    | va, wb =>
      if va.isSome && !v.isNull then some false
      else if wb.isSome && !w.isNull then some true
      else
        let l := keywordIdx v.val
        let r := keywordIdx w.val
        if l = 7 && r = 7 then some (strCmp v.val w.val = .lt) else some (decide (l < r))
  else
    match qualOrder v with
    | none => none
    | some vo =>
      match qualOrder w with
      | none => none
      | some wo => some (decide (vo < wo))

/-- `newMavenNullVersionToken`; `none` = error (unknown prefix) -/
def nullTok (t : MTok) : Option MTok :=
  if t.pre = ['.'] then some ⟨['.'], if t.val = kSp then [] else ['0'], true⟩
  else if t.pre = ['-'] then some ⟨['-'], [], true⟩
  else none

/-- `mavenVersionToken.equal` -/
def MTok.equal (a b : MTok) : Bool := a.pre = b.pre && a.val = b.val

/-- `lessThan` once the left version is exhausted -/
def mvnLessL : List MTok → Option Bool
  | [] => some false
  | y :: bs =>
    match nullTok y with
    | none => none
    | some l => if l.equal y then mvnLessL bs else tokLess l y

/-- `mavenVersion.lessThan` -/
def mvnLess : List MTok → List MTok → Option Bool
  | [], bs => mvnLessL bs
  | x :: as, [] =>
    match nullTok x with
    | none => none
    | some r => if x.equal r then mvnLess as [] else tokLess x r
  | x :: as, y :: bs => if x.equal y then mvnLess as bs else tokLess x y

/-- `mavenVersion.equal` -/
def mvnEqual : List MTok → List MTok → Bool
  | [], [] => true
  | x :: as, y :: bs => x.equal y && mvnEqual as bs
  | _, _ => false

/-- `mavenVersion.compare` -/
def cmpMvn (v w : List MTok) : CRes :=
  if mvnEqual v w then .ord .eq
  else
    match mvnLess v w with
    | none => .err
    | some true => .ord .lt
    | some false => .ord .gt

def mavenFam : Family := ⟨List MTok, parseMvn, cmpMvn⟩

end Scalibr.Semantic
