/-
C07 — Alpine (`version-alpine.go`). The five regular expressions are written out as recognisers:
`^((\d+)\.?)*` = `alpNumPrefix`, `^[a-z]`, all non-overlapping matches of
`_(alpha|beta|pre|rc|cvs|svn|git|hg|p)(\d*)` = `findSufs`, `^~([0-9a-f]+)`, `^-r(\d*)`.
-/
import Scalibr.Model.Semantic.Basic
namespace Scalibr.Semantic

/-- `alpineNumberComponent` -/
structure ANum where
  orig : List Char
  val : Int
  idx : Nat
deriving Repr

/-- `alpineSuffix` -/
structure ASuf where
  w : Nat
  n : Int
deriving Repr

structure AlpV where
  original : List Char
  invalid : Bool
  remainder : List Char
  comps : List ANum
  letter : List Char
  sufs : List ASuf
  build : Int
deriving Repr

/-- longest prefix made of digit runs, each optionally followed by one '.' -/
def alpNumPrefix : Nat → List Char → List Char
  | 0, _ => []
  | fuel + 1, s =>
    let ds := s.takeWhile isDigit
    if ds.isEmpty then []
    else
      match s.dropWhile isDigit with
      | '.' :: r => ds ++ ['.'] ++ alpNumPrefix fuel r
      | _ => ds

/-- `for i, d := range strings.Split(sub, ".")`: `none` = `convertToBigInt` failed (empty part) -/
def alpComps : Nat → List (List Char) → Option (List ANum)
  | _, [] => some []
  | i, d :: ds =>
    match toBig d with
    | none => none
    | some v =>
      match alpComps (i + 1) ds with
      | none => none
      | some cs => some (⟨d, v, i⟩ :: cs)

def sufNames : List (List Char) :=
  [['a','l','p','h','a'], ['b','e','t','a'], ['p','r','e'], ['r','c'], ['c','v','s'], ['s','v','n'],
   ['g','i','t'], ['h','g'], ['p']]

/-- `weightAlpineSuffixString` -/
def sufWeight (s : List Char) : Nat :=
  if s = ['a','l','p','h','a'] then 0
  else if s = ['b','e','t','a'] then 1
  else if s = ['p','r','e'] then 2
  else if s = ['r','c'] then 3
  else if s = [] then 4
  else if s = ['c','v','s'] then 5
  else if s = ['s','v','n'] then 6
  else if s = ['g','i','t'] then 7
  else if s = ['h','g'] then 8
  else 9

/-- all non-overlapping matches of the suffix expression, left to right: (whole match, name, digits) -/
def findSufs : Nat → List Char → List (List Char × List Char × List Char)
  | 0, _ => []
  | fuel + 1, s =>
    match s with
    | [] => []
    | '_' :: r =>
      match sufNames.find? (fun n => hasPrefix n r) with
      | some n =>
        let after := r.drop n.length
        let ds := after.takeWhile isDigit
        ('_' :: n ++ ds, n, ds) :: findSufs fuel (after.drop ds.length)
      | none => findSufs fuel r
    | _ :: r => findSufs fuel r

def isHexLower (c : Char) : Bool := isDigit c || (97 ≤ c.toNat && c.toNat ≤ 102)

/-- one match of `parseAlpineSuffixes`: it adds a suffix and is trimmed only while it is a prefix;
`none` = `convertToBigInt` failed -/
def alpSufStep (st : Option (List Char × List ASuf)) (m : List Char × List Char × List Char) :
    Option (List Char × List ASuf) :=
  match st with
  | none => none
  | some (str, sufs) =>
    match toBig (if m.2.2.isEmpty then ['0'] else m.2.2) with
    | none => none
    | some num => some (stripPrefix m.1 str, sufs ++ [⟨sufWeight m.2.1, num⟩])

/-- `parseAlpineSuffixes` -/
def alpSufFold (ms : List (List Char × List Char × List Char)) (str : List Char) : Option (List Char × List ASuf) :=
  ms.foldl alpSufStep (some (str, []))

/-- `parseAlpineLetter`: `^[a-z]` -/
def alpLetterOf : List Char → List Char
  | c :: _ => if isLower c then [c] else []
  | [] => []

/-- `parseAlpineHash`: `^~([0-9a-f]+)` -/
def alpHashOf : List Char → List Char
  | '~' :: r =>
    let h := r.takeWhile isHexLower
    if h.isEmpty then [] else '~' :: h
  | _ => []

/-- `parseAlpineLetter` … `parseAlpineBuildComponent`: everything after the number components -/
def parseAlpRest (s : List Char) (comps : List ANum) (str : List Char) : PRes AlpV :=
  let letter := alpLetterOf str
  let str := stripPrefix letter str
  match alpSufFold (findSufs (str.length + 1) str) str with
  | none => .err
  | some (str, sufs) =>
    let hash := alpHashOf str
    let str := stripPrefix hash str
    if str.isEmpty then .ok ⟨s, false, [], comps, letter, sufs, 0⟩
    else
      match str with
      | '-' :: 'r' :: r =>
        let ds := r.takeWhile isDigit
        match toBig (if ds.isEmpty then ['0'] else ds) with
        | none => .err
        | some b => .ok ⟨s, false, r.drop ds.length, comps, letter, sufs, b⟩
      | _ => .ok ⟨s, true, str, comps, letter, sufs, 0⟩

/-- `parseAlpineVersion` -/
def parseAlp (s : List Char) : PRes AlpV :=
  let sub := alpNumPrefix (s.length + 1) s
  if sub.isEmpty then parseAlpRest s [] s
  else
    match alpComps 0 (splitOn '.' sub) with
    | none => .err
    | some comps => parseAlpRest s comps (stripPrefix sub s)

/-- `alpineNumberComponent.Cmp`; `original[0]` on an empty original would crash -/
def cmpANum (a b : ANum) : CRes :=
  if a.idx ≠ 0 && b.idx ≠ 0 then
    match a.orig with
    | [] => .panic
    | x :: _ =>
      if x = '0' then .ord (strCmp a.orig b.orig)
      else
        match b.orig with
        | [] => .panic
        | y :: _ => if y = '0' then .ord (strCmp a.orig b.orig) else .ord (icmp a.val b.val)
  else .ord (icmp a.val b.val)

/-- what `Fetch` returns beyond the end: `{original: "0", value: 0}` — and `index` 0 -/
def padANum : ANum := ⟨['0'], 0, 0⟩

def cmpACompsL : List ANum → CRes
  | [] => .ord .eq
  | b :: bs => (cmpANum padANum b).andThen fun _ => cmpACompsL bs

def cmpACompsR : List ANum → CRes
  | [] => .ord .eq
  | a :: as => (cmpANum a padANum).andThen fun _ => cmpACompsR as

/-- `compareComponents` -/
def cmpAComps : List ANum → List ANum → CRes
  | [], bs => cmpACompsL bs
  | as, [] => cmpACompsR as
  | a :: as, b :: bs => (cmpANum a b).andThen fun _ => cmpAComps as bs

/-- `compareLetters` -/
def cmpALetters (a b : List Char) : Ordering :=
  if a.isEmpty && !b.isEmpty then .lt
  else if !a.isEmpty && b.isEmpty then .gt
  else strCmp a b

/-- `alpineSuffix.Cmp` -/
def cmpASuf (a b : ASuf) : Ordering :=
  if a.w > b.w then .gt else if a.w < b.w then .lt else icmp a.n b.n

/-- what `fetchSuffix` returns beyond the end: weight 4 = "no suffix" (after the repair of the padding weight, which was 5 = `cvs`) -/
def padASuf : ASuf := ⟨4, 0⟩

/-- `compareSuffixes` -/
def cmpASufs (a b : List ASuf) : Ordering := cmpPad cmpASuf padASuf a b

/-- `compareRemainder` -/
def cmpARemainder (a b : List Char) : Ordering :=
  if a.isEmpty && !b.isEmpty then .gt
  else if !a.isEmpty && b.isEmpty then .lt
  else .eq

/-- `alpineVersion.compare` (`buildComponent` is never nil: it starts as `new(big.Int)`) -/
def cmpAlp (v w : AlpV) : CRes :=
  if v.invalid && w.invalid then .ord (strCmp v.original w.original)
  else
    (cmpAComps v.comps w.comps).andThen fun _ =>
      .ord ((cmpALetters v.letter w.letter).then ((cmpASufs v.sufs w.sufs).then
        ((icmp v.build w.build).then (cmpARemainder v.remainder w.remainder))))

def alpineFam : Family := ⟨AlpV, parseAlp, cmpAlp⟩

end Scalibr.Semantic
