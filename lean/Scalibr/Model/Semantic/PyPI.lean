/-
C07 — PyPI (`version-pypi.go`). The PEP 440 regular expression is a small backtracking recogniser
whose alternatives are tried in the expression's own priority order (leftmost-first semantics of
Go's `regexp`): `pOpt` = "try the group, then skip it", `pRun` = greedy with shorter fall-backs.
Legacy (non PEP 440) versions follow `parsePyPIVersionParts`.
-/
import Scalibr.Model.Semantic.Basic
namespace Scalibr.Semantic

inductive Cap | epoch | release | preL | preN | postN1 | postL | postN2 | devL | devN | localV
deriving DecidableEq, Repr

abbrev Caps := List (Cap × List Char)
/-- all ways to match a prefix of the input, best first: (rest, captures) -/
abbrev PP := List Char → Caps → List (List Char × Caps)

def pSeq (a b : PP) : PP := fun s c => (a s c).flatMap fun r => b r.1 r.2
def pAlt (a b : PP) : PP := fun s c => a s c ++ b s c
def pEps : PP := fun s c => [(s, c)]
def pOpt (a : PP) : PP := pAlt a pEps
def pChar (f : Char → Bool) : PP := fun s c =>
  match s with
  | x :: r => if f x then [(r, c)] else []
  | [] => []
def pLit (l : List Char) : PP := fun s c => if hasPrefix l s then [(s.drop l.length, c)] else []

def lengthsDown : Nat → Nat → List Nat
  | 0, min => if min = 0 then [0] else []
  | k + 1, min => if k + 1 < min then [] else (k + 1) :: lengthsDown k min

/-- record a captured text, if the group is a capturing one -/
def capAdd (cap : Option Cap) (t : List Char) (c : Caps) : Caps :=
  match cap with
  | some n => (n, t) :: c
  | none => c

/-- greedy run of at least `min` characters satisfying `f`, longest first; optional capture -/
def pRun (f : Char → Bool) (min : Nat) (cap : Option Cap) : PP := fun s c =>
  let run := s.takeWhile f
  (lengthsDown run.length min).map fun k => (s.drop k, capAdd cap (s.take k) c)

/-- one of several literals, first match in list order wins first; captured -/
def pCapLit (name : Cap) (alts : List (List Char)) : PP := fun s c =>
  alts.filterMap fun a => if hasPrefix a s then some (s.drop a.length, (name, a) :: c) else none

/-- `(?: a )*`, greedy; an iteration must consume input -/
def pStar (a : PP) : Nat → PP
  | 0 => pEps
  | fuel + 1 => fun s c =>
    ((a s c).flatMap fun r => if r.1.length < s.length then pStar a fuel r.1 r.2 else []) ++ [(s, c)]

/-- `\s` of Go's regexp: `[\t\n\f\r ]` -/
def isWs (ch : Char) : Bool := ch = ' ' || ch = '\t' || ch = '\n' || ch = '\r' || ch.toNat = 12
def isSepP (ch : Char) : Bool := ch = '-' || ch = '_' || ch = '.'
def isLocalCh (ch : Char) : Bool := isDigit ch || isLower ch

/-- capture the text consumed by `a` -/
def pCapture (name : Cap) (a : PP) : PP := fun s c =>
  (a s c).map fun r => (r.1, (name, s.take (s.length - r.1.length)) :: r.2)

/-- `pypiVersionFinder` -/
def pepP (fuel : Nat) : PP :=
  pSeq (pRun isWs 0 none) <| pSeq (pOpt (pLit ['v'])) <|
  pSeq (pOpt (pSeq (pRun isDigit 1 (some .epoch)) (pLit ['!']))) <|
  pSeq (pCapture .release (pSeq (pRun isDigit 1 none) (pStar (pSeq (pLit ['.']) (pRun isDigit 1 none)) fuel))) <|
  pSeq (pOpt (pSeq (pOpt (pChar isSepP)) <|
        pSeq (pCapLit .preL [['a'], ['b'], ['c'], ['r','c'], ['a','l','p','h','a'], ['b','e','t','a'], ['p','r','e'], ['p','r','e','v','i','e','w']]) <|
        pSeq (pOpt (pChar isSepP)) (pOpt (pRun isDigit 1 (some .preN))))) <|
  pSeq (pOpt (pAlt (pSeq (pLit ['-']) (pRun isDigit 1 (some .postN1)))
                   (pSeq (pOpt (pChar isSepP)) <|
                    pSeq (pCapLit .postL [['p','o','s','t'], ['r','e','v'], ['r']]) <|
                    pSeq (pOpt (pChar isSepP)) (pOpt (pRun isDigit 1 (some .postN2)))))) <|
  pSeq (pOpt (pSeq (pOpt (pChar isSepP)) <|
        pSeq (pCapLit .devL [['d','e','v']]) <|
        pSeq (pOpt (pChar isSepP)) (pOpt (pRun isDigit 1 (some .devN))))) <|
  pSeq (pOpt (pSeq (pLit ['+']) (pCapture .localV
        (pSeq (pRun isLocalCh 1 none) (pStar (pSeq (pChar isSepP) (pRun isLocalCh 1 none)) fuel))))) <|
  (pRun isWs 0 none)

/-- `FindStringSubmatch`: the first (highest-priority) way that consumes the whole input (`$`) -/
def matchPep (s : List Char) : Option Caps :=
  ((pepP (s.length + 1) s []).find? (fun r => r.1.isEmpty)).map (·.2)

def capOf (c : Caps) (n : Cap) : List Char := ((c.find? (·.1 = n)).map (·.2)).getD []

/-- `letterAndNumber`; `num = none` is the nil `*big.Int` -/
structure LN where
  letter : List Char
  num : Option Int
deriving Repr

/-- `parseLetterVersion`; outer `none` = error -/
def letterVer (letter number : List Char) : Option LN :=
  if !letter.isEmpty then
    let number := if number.isEmpty then ['0'] else number
    let l := lowerStr letter
    let l :=
      if l = ['a','l','p','h','a'] then ['a']
      else if l = ['b','e','t','a'] then ['b']
      else if l = ['c'] || l = ['p','r','e'] || l = ['p','r','e','v','i','e','w'] then ['r','c']
      else if l = ['r','e','v'] || l = ['r'] then ['p','o','s','t']
      else l
    match toBig number with
    | none => none
    | some n => some ⟨l, some n⟩
  else if !number.isEmpty then
    match toBig number with
    | none => none
    | some n => some ⟨['p','o','s','t'], some n⟩
  else some ⟨[], none⟩

structure PyV where
  epoch : Int
  release : List Int
  pre : LN
  post : LN
  dev : LN
  loc : List (List Char)
  legacy : List (List Char)
deriving Repr

/-- `FindAllString((\d+|[a-z]+|\.|-))` -/
def legacySplits : Nat → List Char → List (List Char)
  | 0, _ => []
  | fuel + 1, s =>
    match s with
    | [] => []
    | c :: r =>
      if isDigit c then
        let run := s.takeWhile isDigit
        run :: legacySplits fuel (s.drop run.length)
      else if isLower c then
        let run := s.takeWhile isLower
        run :: legacySplits fuel (s.drop run.length)
      else if c = '.' || c = '-' then [c] :: legacySplits fuel r
      else legacySplits fuel r

/-- `fmt.Sprintf("%08s", part)` -/
def pad8 (p : List Char) : List Char := List.replicate (8 - p.length) '0' ++ p

/-- `normalizePyPILegacyPart` (the part is never empty) -/
def normLegacy (part : List Char) : List Char :=
  let part :=
    if part = ['p','r','e'] || part = ['p','r','e','v','i','e','w'] || part = ['r','c'] then ['c']
    else if part = ['-'] then ['f','i','n','a','l','-']
    else if part = ['d','e','v'] then ['@']
    else part
  if isDigit (part.headD ' ') then pad8 part else '*' :: part

def dropTrailing (x : List Char) (parts : List (List Char)) : List (List Char) :=
  (parts.reverse.dropWhile (· = x)).reverse

/-- `parsePyPIVersionParts` -/
def legacyParts (s : List Char) : List (List Char) :=
  let splits := legacySplits (s.length + 1) s ++ [['f','i','n','a','l']]
  splits.foldl (fun (parts : List (List Char)) part =>
    if part.isEmpty || part = ['.'] then parts
    else
      let part := normLegacy part
      let parts :=
        if part.head? = some '*' then
          let parts := if strCmp part (['*','f','i','n','a','l']) = .lt then dropTrailing (['*','f','i','n','a','l','-']) parts else parts
          dropTrailing (['0','0','0','0','0','0','0','0']) parts
        else parts
      parts ++ [part]) []

def pyInts : List (List Char) → Option (List Int)
  | [] => some []
  | r :: rs =>
    match toBig r with
    | none => none
    | some v =>
      match pyInts rs with
      | none => none
      | some vs => some (v :: vs)

/-- `parsePyPIVersion` -/
def parsePy (s : List Char) : PRes PyV :=
  let s := lowerStr s
  match matchPep s with
  | none => .ok ⟨-1, [], ⟨[], none⟩, ⟨[], none⟩, ⟨[], none⟩, [], legacyParts s⟩
  | some c =>
    let ep := capOf c .epoch
    let epoch : Option Int := if ep.isEmpty then some 0 else toBig ep
    match epoch with
    | none => .err
    | some epoch =>
      match pyInts (splitOn '.' (capOf c .release)) with
      | none => .err
      | some release =>
        match letterVer (capOf c .preL) (capOf c .preN) with
        | none => .err
        | some pre =>
          let post := if (capOf c .postN1).isEmpty then capOf c .postN2 else capOf c .postN1
          match letterVer (capOf c .postL) post with
          | none => .err
          | some post =>
            match letterVer (capOf c .devL) (capOf c .devN) with
            | none => .err
            | some dev =>
              .ok ⟨epoch, release, pre, post, dev, (splitOnP isSepP (capOf c .localV)).map lowerStr, []⟩

/-- `compareLegacy` -/
def cmpPyLegacy (v w : PyV) : Ordering :=
  if v.legacy.isEmpty && w.legacy.isEmpty then .eq
  else if v.legacy.isEmpty && !w.legacy.isEmpty then .gt
  else if !v.legacy.isEmpty && w.legacy.isEmpty then .lt
  else strCmp v.legacy.flatten w.legacy.flatten

/-- `shouldApplyPreTrick` -/
def preTrick (v : PyV) : Bool := v.pre.num.isNone && v.post.num.isNone && v.dev.num.isSome

/-- `comparePre`; `pre.letter[0]` on an empty letter would crash -/
def cmpPyPre (v w : PyV) : CRes :=
  if preTrick v && preTrick w then .ord .eq
  else if preTrick v then .ord .lt
  else if preTrick w then .ord .gt
  else
    match v.pre.num, w.pre.num with
    | none, none => .ord .eq
    | none, some _ => .ord .gt
    | some _, none => .ord .lt
    | some x, some y =>
      match v.pre.letter, w.pre.letter with
      | a :: _, b :: _ =>
        if a.toNat > b.toNat then .ord .gt
        else if a.toNat < b.toNat then .ord .lt
        else .ord (icmp x y)
      | _, _ => .panic

/-- `comparePost`: no post segment sorts first -/
def cmpPyPost (v w : PyV) : Ordering :=
  match v.post.num, w.post.num with
  | none, none => .eq
  | none, some _ => .lt
  | some _, none => .gt
  | some x, some y => icmp x y

/-- `compareDev`: no dev segment sorts last -/
def cmpPyDev (v w : PyV) : Ordering :=
  match v.dev.num, w.dev.num with
  | none, none => .eq
  | none, some _ => .gt
  | some _, none => .lt
  | some x, some y => icmp x y

/-- one segment of `compareLocal`: numeric > non-numeric -/
def localElem (a b : List Char) : Ordering :=
  match toBig a, toBig b with
  | some x, some y => icmp x y
  | none, none => strCmp a b
  | some _, none => .gt
  | none, some _ => .lt

def cmpPyLocal (a b : List (List Char)) : Ordering := cmpLex localElem a b

/-- `pypiCompareVersion` -/
def cmpPy (v w : PyV) : CRes :=
  ordThen ((cmpPyLegacy v w).then ((icmp v.epoch w.epoch).then (compsCmp v.release w.release))) fun _ =>
    (cmpPyPre v w).andThen fun _ =>
      .ord ((cmpPyPost v w).then ((cmpPyDev v w).then (cmpPyLocal v.loc w.loc)))

def pypiFam : Family := ⟨PyV, parsePy, cmpPy⟩

end Scalibr.Semantic
