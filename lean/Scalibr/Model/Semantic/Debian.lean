/-
C07 — Debian / Ubuntu (`version-debian.go`).
-/
import Scalibr.Model.Semantic.Basic
namespace Scalibr.Semantic

structure DebV where
  epoch : Int
  upstream : List Char
  revision : List Char
deriving Repr

/-- `weighDebianChar` applied to one element of `strings.Split(prefix, "")`: the weight is taken
from the FIRST BYTE of the UTF-8 sequence (`char[0]`). -/
def debWeigh (c : Char) : Nat :=
  if c = '~' then 1
  else
    let n := firstByte c
    if n < 65 || (n > 90 && n < 97) || n > 122 then n + 122 else n

/-- the non-digit prefixes: `if ap != bp { for i := range max(len) { weigh(fetch(.., i, "")) … } }`;
the weight of the missing element `""` is 2 -/
def cmpDebNonDigit (ap bp : List Char) : Ordering :=
  if ap = bp then .eq else cmpPad ncmp 2 (ap.map debWeigh) (bp.map debWeigh)

/-- `splitDebianDigitPrefix`; `none` is the `convertToBigInt` error path -/
def debDigitPrefix (s : List Char) : Option (Int × List Char) :=
  let ds := s.takeWhile isDigit
  if ds.isEmpty then some (0, s)
  else
    match toBig ds with
    | some n => some (n, s.dropWhile isDigit)
    | none => none

/-- `compareDebianVersions`; one unit of fuel per loop iteration -/
def cmpDebStr : Nat → List Char → List Char → CRes
  | 0, _, _ => .ord .eq
  | fuel + 1, a, b =>
    if a.isEmpty && b.isEmpty then .ord .eq
    else
      let ap := a.takeWhile (fun c => !isDigit c)
      let a := a.dropWhile (fun c => !isDigit c)
      let bp := b.takeWhile (fun c => !isDigit c)
      let b := b.dropWhile (fun c => !isDigit c)
      ordThen (cmpDebNonDigit ap bp) fun _ =>
        match debDigitPrefix a with
        | none => .err
        | some (x, a') =>
          match debDigitPrefix b with
          | none => .err
          | some (y, b') => ordThen (icmp x y) fun _ => cmpDebStr fuel a' b'

/-- enough iterations for two strings: each iteration consumes at least one character of a
non-empty side -/
def debFuel (a b : List Char) : Nat := a.length + b.length + 1

/-- `debianVersion.compare` -/
def cmpDeb (v w : DebV) : CRes :=
  ordThen (icmp v.epoch w.epoch) fun _ =>
    (cmpDebStr (debFuel v.upstream w.upstream) v.upstream w.upstream).andThen fun _ =>
      cmpDebStr (debFuel v.revision w.revision) v.revision w.revision

/-- `parseDebianVersion` -/
def parseDeb (s : List Char) : PRes DebV :=
  let s := trimSpace s
  let ep : Option (Int × List Char) :=
    match cutAt ':' s with
    | some (e, rest) =>
      match toBig e with
      | some n => some (n, rest)
      | none => none
    | none => some (0, s)
  match ep with
  | none => .err
  | some (epoch, rest) =>
    match cutLast '-' rest with
    | some (up, rev) => .ok ⟨epoch, up, rev⟩
    | none => .ok ⟨epoch, rest, ['0']⟩

def debianFam : Family := ⟨DebV, parseDeb, cmpDeb⟩

end Scalibr.Semantic
