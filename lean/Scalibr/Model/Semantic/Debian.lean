/-
C07 — Debian / Ubuntu (`version-debian.go`).
-/
import Scalibr.Model.Semantic.Basic
namespace Scalibr.Semantic

structure DebV where
  epoch : Int
  upstream : List Char
  revision : List Char
deriving Repr

/-- `weighDebianChar` applied to one element of `strings.Split(prefix, "")`: the weight is taken
from the FIRST BYTE of the UTF-8 sequence (`char[0]`). -/
def debWeigh (c : Char) : Nat :=
  if c = '~' then 1
  else
    let n := firstByte c
    if n < 65 || (n > 90 && n < 97) || n > 122 then n + 122 else n

/-- the non-digit prefixes: `if ap != bp { for i := range max(len) { weigh(fetch(.., i, "")) … } }`;
the weight of the missing element `""` is 2 -/
def cmpDebNonDigit (ap bp : List Char) : Ordering :=
  if ap = bp then .eq else cmpPad ncmp 2 (ap.map debWeigh) (bp.map debWeigh)

/-- `splitDebianDigitPrefix`; `none` is the `convertToBigInt` error path -/
def debDigitPrefix (s : List Char) : Option (Int × List Char) :=
  let ds := s.takeWhile isDigit
  if ds.isEmpty then some (0, s)
  else
    match toBig ds with
    | some n => some (n, s.dropWhile isDigit)
    | none => none

/-- `compareDebianVersions`; one unit of fuel per loop iteration -/
def cmpDebStr : Nat → List Char → List Char → CRes
  | 0, _, _ => .ord .eq
  | fuel + 1, a, b =>
    if a.isEmpty && b.isEmpty then .ord .eq
    else
      let ap := a.takeWhile (fun c => !isDigit c)
      let a := a.dropWhile (fun c => !isDigit c)
      let bp := b.takeWhile (fun c => !isDigit c)
      let b := b.dropWhile (fun c => !isDigit c)
      ordThen (cmpDebNonDigit ap bp) fun _ =>
        match debDigitPrefix a with
        | none => .err
        | some (x, a') =>
          match debDigitPrefix b with
          | none => .err
          | some (y, b') => ordThen (icmp x y) fun _ => cmpDebStr fuel a' b'

/-- enough iterations for two strings: each iteration consumes at least one character of a
non-empty side -/
def debFuel (a b : List Char) : Nat := a.length + b.length + 1

/-- `debianVersion.compare` -/
def cmpDeb (v w : DebV) : CRes :=
  ordThen (icmp v.epoch w.epoch) fun _ =>
    (cmpDebStr (debFuel v.upstream w.upstream) v.upstream w.upstream).andThen fun _ =>
      cmpDebStr (debFuel v.revision w.revision) v.revision w.revision

/-- `parseDebianVersion` -/
def parseDeb (s : List Char) : PRes DebV :=
  let s := trimSpace s
  let ep : Option (Int × List Char) :=
    match cutAt ':' s with
    | some (e, rest) =>
      match toBig e with
      | some n => some (n, rest)
      | none => none
    | none => some (0, s)
  match ep with
  | none => .err
  | some (epoch, rest) =>
    match cutLast '-' rest with
    | some (up, rev) => .ok ⟨epoch, up, rev⟩
    | none => .ok ⟨epoch, rest, ['0']⟩

/-! ### as the Go code writes them, with failing index / slice sites (`none` = run-time panic)

Positions are counted in characters (the Go code counts bytes; the separators and the digits are
ASCII, so a byte position found by `strings.Index…` is a character boundary and the slices taken
there are the same strings). -/

/-- `strings.IndexFunc(s, p)` / `strings.IndexAny` / `strings.Index` for one character: position of
the first character satisfying `p`, −1 when there is none -/
def indexFunc (p : Char → Bool) (s : List Char) : Int :=
  let n := (s.takeWhile fun c => !p c).length
  if n < s.length then (n : Int) else -1

/-- `strings.LastIndex(s, string(c))` -/
def lastIndexOf (c : Char) (s : List Char) : Int :=
  let n := (s.reverse.takeWhile fun x => x ≠ c).length
  if n < s.length then (s.length : Int) - 1 - (n : Int) else -1

/-- `splitAround` as written: `s[:i]`, `s[i+1:]` (version-debian.go:35) -/
def splitAroundGo (s : List Char) (c : Char) (reverse : Bool) : Option (List Char × List Char) :=
  let i := if reverse then lastIndexOf c s else indexFunc (fun x => x = c) s
  if i = -1 then some (s, [])
  else (goSlice s 0 i).bind fun a => (goSlice s (i + 1) s.length).bind fun b => some (a, b)

/-- `splitDebianNonDigitPrefix` as written: `str[:i]`, `str[i:]` -/
def debNonDigitPrefixGo (s : List Char) : Option (List Char × List Char) :=
  let i := indexFunc isDigit s
  if i = 0 || s.isEmpty then some ([], s)
  else
    let i := if i = -1 then (s.length : Int) else i
    (goSlice s 0 i).bind fun p => (goSlice s i s.length).bind fun r => some (p, r)

/-- `splitDebianDigitPrefix` as written; the inner `none` is the `convertToBigInt` error -/
def debDigitPrefixGo (s : List Char) : Option (Option (Int × List Char)) :=
  let i := indexFunc (fun c => !isDigit c) s
  if i = 0 || s.isEmpty then some (some (0, s))
  else
    let i := if i = -1 then (s.length : Int) else i
    (goSlice s 0 i).bind fun d =>
      match toBig d with
      | none => some none
      | some n => (goSlice s i s.length).bind fun r => some (some (n, r))

/-- `weighDebianChar` as written, on one element of `strings.Split(prefix, "")` or the default `""`:
`char[0]` (version-debian.go:85) behind the `char == ""` test -/
def debWeighGo (char : List Char) : Option Nat :=
  if char = ['~'] then some 1
  else if char = [] then some 2
  else (goIndex char 0).bind fun c =>
    let n := firstByte c
    some (if n < 65 || (n > 90 && n < 97) || n > 122 then n + 122 else n)

/-- the weights of one position: `fetch(apSplit, i, "")`, `fetch(bpSplit, i, "")` (utilities.go:39) -/
def debWeighCmpGo (x y : List Char) : Option Ordering :=
  (debWeighGo x).bind fun wx => (debWeighGo y).bind fun wy => some (ncmp wx wy)

def cmpDebNonDigitGo (ap bp : List Char) : Option Ordering :=
  if ap = bp then some .eq
  else cmpPadGo debWeighCmpGo [] (ap.map fun c => [c]) (bp.map fun c => [c])

/-- `if diff != 0 || err != nil { return … }` before a step that may crash -/
def CRes.andThenGo (r : CRes) (k : Option CRes) : Option CRes :=
  match r with
  | .ord .eq => k
  | r => some r

def cmpDebStrGo : Nat → List Char → List Char → Option CRes
  | 0, _, _ => some (.ord .eq)
  | fuel + 1, a, b =>
    if a.isEmpty && b.isEmpty then some (.ord .eq)
    else
      (debNonDigitPrefixGo a).bind fun pa => (debNonDigitPrefixGo b).bind fun pb =>
      (cmpDebNonDigitGo pa.1 pb.1).bind fun d =>
        (CRes.ord d).andThenGo
          ((debDigitPrefixGo pa.2).bind fun ra =>
            match ra with
            | none => some .err
            | some xa =>
              (debDigitPrefixGo pb.2).bind fun rb =>
                match rb with
                | none => some .err
                | some yb => (CRes.ord (icmp xa.1 yb.1)).andThenGo (cmpDebStrGo fuel xa.2 yb.2))

def cmpDebGo (v w : DebV) : Option CRes :=
  (CRes.ord (icmp v.epoch w.epoch)).andThenGo
    ((cmpDebStrGo (debFuel v.upstream w.upstream) v.upstream w.upstream).bind fun r =>
      r.andThenGo (cmpDebStrGo (debFuel v.revision w.revision) v.revision w.revision))

/-- `parseDebianVersion` as written: `splitAround` behind `strings.Contains` -/
def parseDebGo (s : List Char) : Option (PRes DebV) :=
  let s := trimSpace s
  (if s.contains ':' then
      (splitAroundGo s ':' false).bind fun p =>
        some (match toBig p.1 with
          | some n => some (n, p.2)
          | none => none)
    else some (some ((0 : Int), s))).bind fun ep =>
  match ep with
  | none => some .err
  | some er =>
    if er.2.contains '-' then (splitAroundGo er.2 '-' true).bind fun q => some (.ok ⟨er.1, q.1, q.2⟩)
    else some (.ok ⟨er.1, er.2, ['0']⟩)

def PRes.joinGo {α : Type} : Option (PRes α) → PRes α
  | some r => r
  | none => .panic

def CRes.joinGo : Option CRes → CRes
  | some r => r
  | none => .panic

def debianFam : Family := ⟨DebV, fun s => .joinGo (parseDebGo s), fun v w => .joinGo (cmpDebGo v w)⟩

end Scalibr.Semantic
