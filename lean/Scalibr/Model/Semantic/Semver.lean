/-
C07 — semver-like versions (`version-semver-like.go`, `version-semver.go`, `version-nuget.go`):
npm, crates.io, Go, Hex, Pub, ConanCenter (3 components) and NuGet (4 components, case-folded build).
-/
import Scalibr.Model.Semantic.Basic
namespace Scalibr.Semantic

/-- `semverLikeVersion` (only the fields the comparison reads) -/
structure SemV where
  comps : List Int
  build : List Char
deriving Repr

/-- loop state of `parseSemverLike`: components so far, `currentCom`, `foundBuild` -/
structure SLState where
  comps : List Int
  cur : List Char
  found : Bool

/-- one iteration of `for _, c := range line`. `currentCom` consists of ASCII digits when it is
converted, so `SetString` succeeds with `digitsToNat` (the discarded `ok` is never false). -/
def semverStep (st : SLState) (c : Char) : SLState :=
  if st.found then { st with cur := st.cur ++ [c] }
  else if isDigit c then { st with cur := st.cur ++ [c] }
  else
    let comps := if st.cur.isEmpty then st.comps else st.comps ++ [(digitsToNat st.cur : Int)]
    if c = '.' then ⟨comps, [], false⟩ else ⟨comps, [c], true⟩

/-- `strings.TrimPrefix(line, "v")` -/
def stripV : List Char → List Char
  | 'v' :: r => r
  | r => r

def parseSemverLike (line : List Char) : SemV :=
  let line := stripV line
  let st := line.foldl semverStep ⟨[], [], false⟩
  if !st.found && !st.cur.isEmpty then ⟨st.comps ++ [(digitsToNat st.cur : Int)], []⟩
  else ⟨st.comps, st.cur⟩

/-- `fetchComponentsAndBuild`: components beyond `maxC` are appended to the build as `.%d` -/
def parseSemver (maxC : Nat) (line : List Char) : SemV :=
  let v := parseSemverLike line
  if v.comps.length ≤ maxC then v
  else ⟨v.comps.take maxC, (v.comps.drop maxC).foldl (fun b c => b ++ ['.'] ++ intToChars c) v.build⟩

/-- `convertToNumericIdentifier` (repair 6209aa57): numeric only when every character is an ASCII
digit (so `-5`, `+5` and the empty identifier are alphanumeric) -/
def toNumId (s : List Char) : Option Int := if s.all isDigit then toBig s else none

/-- one identifier pair in `compareSemverBuildComponents`: numeric < non-numeric -/
def identCmp (a b : List Char) : Ordering :=
  match toNumId a, toNumId b with
  | some x, some y => icmp x y
  | none, none => strCmp a b
  | some _, none => .lt
  | none, some _ => .gt

/-- `compareSemverBuildComponents`: common prefix identifier-wise, then the longer list wins -/
def cmpBuildComps (a b : List (List Char)) : Ordering := cmpLex identCmp a b

/-- `removeBuildMetadata` then `strings.TrimPrefix(_, "-")` -/
def buildCore (s : List Char) : List Char :=
  let s := (splitOn '+' s).headD []
  match s with
  | '-' :: r => r
  | r => r

/-- `compareBuildComponents` -/
def cmpBuild (a b : List Char) : Ordering :=
  let a := buildCore a
  let b := buildCore b
  if a.isEmpty && !b.isEmpty then .gt
  else if !a.isEmpty && b.isEmpty then .lt
  else cmpBuildComps (splitOn '.' a) (splitOn '.' b)

/-- `semverVersion.compare` -/
def cmpSemver (v w : SemV) : Ordering :=
  (compsCmp v.comps w.comps).then (cmpBuild v.build w.build)

/-- `nuGetVersion.compare` -/
def cmpNuGet (v w : SemV) : Ordering :=
  (compsCmp v.comps w.comps).then (cmpBuild (lowerStr v.build) (lowerStr w.build))

/-! ### the same functions as the Go code writes them, with failing index / slice sites

`parseSemver`, `cmpBuild`, `cmpSemver`, `cmpNuGet` above are the index-free reformulations the order
proofs are about; the FAMILIES run the Go-shaped functions below (`none` = run-time panic), and
`Proofs/Semantic/GoShape.lean` proves the two coincide. -/

/-- `fetchComponentsAndBuild` as written: the guard `len(v.Components) <= maxComponents`, then
`v.Components[:maxComponents]` and `v.Components[maxComponents:]` -/
def parseSemverGo (maxC : Nat) (line : List Char) : Option SemV :=
  let v := parseSemverLike line
  if v.comps.length ≤ maxC then some v
  else
    (goSlice v.comps 0 maxC).bind fun comps =>
    (goSlice v.comps maxC v.comps.length).bind fun extra =>
      some ⟨comps, extra.foldl (fun b c => b ++ ['.'] ++ intToChars c) v.build⟩

/-- `strings.TrimPrefix(_, "-")` -/
def stripDash : List Char → List Char
  | '-' :: r => r
  | r => r

/-- `removeBuildMetadata` as written: `strings.Split(str, "+")[0]` (version-semver.go:29) -/
def buildCoreGo (s : List Char) : Option (List Char) := (goIndex (splitOn '+' s) 0).map stripDash

/-- `compareBuildComponents` / `compareSemverBuildComponents` as written: `a[i]`, `b[i]` for
`i < min(len(a), len(b))` (version-semver.go:75) -/
def cmpBuildGo (a b : List Char) : Option Ordering :=
  (buildCoreGo a).bind fun a => (buildCoreGo b).bind fun b =>
    if a.isEmpty && !b.isEmpty then some .gt
    else if !a.isEmpty && b.isEmpty then some .lt
    else cmpLexGo identCmp (splitOn '.' a) (splitOn '.' b)

/-- `components.Cmp` as written: `Fetch(i)` on both sides for `i < max(len, len)` -/
def compsCmpGo (a b : List Int) : Option Ordering := cmpPadGo (fun x y => some (icmp x y)) 0 a b

/-- `semverVersion.compare`: the build strings are looked at only when the components are equal -/
def cmpSemverGo (v w : SemV) : Option Ordering :=
  (compsCmpGo v.comps w.comps).bind fun d => thenGo d (cmpBuildGo v.build w.build)

def cmpNuGetGo (v w : SemV) : Option Ordering :=
  (compsCmpGo v.comps w.comps).bind fun d => thenGo d (cmpBuildGo (lowerStr v.build) (lowerStr w.build))

def semverFam : Family := ⟨SemV, fun s => .ofGo (parseSemverGo 3 s), fun v w => .ofGo (cmpSemverGo v w)⟩
def nugetFam : Family := ⟨SemV, fun s => .ofGo (parseSemverGo 4 s), fun v w => .ofGo (cmpNuGetGo v w)⟩

/-! ## CRAN (`version-cran.go`, after the repair 22de9fca) -/

/-- components; an empty part counts as "0", a non-number is an error -/
def cranParts : List (List Char) → Option (List Int)
  | [] => some []
  | s :: rest =>
    let s := if s.isEmpty then ['0'] else s
    match toBig s with
    | none => none
    | some v =>
      match cranParts rest with
      | none => none
      | some vs => some (v :: vs)

def parseCran (s : List Char) : PRes (List Int) :=
  match cranParts (splitOn '.' (s.map fun c => if c = '-' then '.' else c)) with
  | some cs => .ok cs
  | none => .err

/-- `cranVersion.compare`: padded components, then the longer one is greater -/
def cmpCran (v w : List Int) : Ordering :=
  (compsCmp v w).then (ncmp v.length w.length)

/-- `cranVersion.compare` as written (`components.Cmp` fetches behind its guard) -/
def cmpCranGo (v w : List Int) : Option Ordering :=
  (compsCmpGo v w).bind fun d => some (d.then (ncmp v.length w.length))

def cranFam : Family := ⟨List Int, parseCran, fun v w => .ofGo (cmpCranGo v w)⟩

end Scalibr.Semantic
