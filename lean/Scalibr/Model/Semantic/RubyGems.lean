/-
C07 — RubyGems (`version-rubygems.go`).
-/
import Scalibr.Model.Semantic.Basic
namespace Scalibr.Semantic

structure RubyState where
  res : List Char
  check : Bool
  prevDigit : Bool

/-- one iteration of `canonicalizeRubyGemVersion` -/
def rubyStep (st : RubyState) (c : Char) : RubyState :=
  if c = '.' then { st with res := st.res ++ ['.'], check := false }
  else
    let d := isDigit c
    let res := if st.check && st.prevDigit != d then st.res ++ ['.'] else st.res
    ⟨res ++ [c], true, d⟩

def canonRuby (s : List Char) : List Char := (s.foldl rubyStep ⟨[], false, true⟩).res

/-- `removeZeros`: drop trailing "0" segments -/
def removeZeros (segs : List (List Char)) : List (List Char) :=
  (segs.reverse.dropWhile (· = ['0'])).reverse

/-- `canonicalSegments` (`groupSegments`: the leading numeric segments / everything from the first
non-numeric one) -/
def rubySegs (s : List Char) : List (List Char) :=
  let segs := splitOn '.' (canonRuby s)
  let nums := segs.takeWhile (fun x => (toBig x).isSome)
  let build := segs.dropWhile (fun x => (toBig x).isSome)
  removeZeros nums ++ removeZeros build

/-- one position of `compareRubyGemsComponents`: numeric > non-numeric -/
def rubyElem (x y : List Char) : Ordering :=
  match toBig x, toBig y with
  | some p, some q => icmp p q
  | none, none => strCmp x y
  | some _, none => .gt
  | none, some _ => .lt

/-- `compareRubyGemsComponents`: positions padded with "0" -/
def cmpRuby (a b : List (List Char)) : Ordering := cmpPad rubyElem ['0'] a b

def rubygemsFam : Family := ⟨List (List Char), fun s => .ok (rubySegs s), fun v w => .ord (cmpRuby v w)⟩

end Scalibr.Semantic
