/-
C07 — RubyGems (`version-rubygems.go`).
-/
import Scalibr.Model.Semantic.Basic
namespace Scalibr.Semantic

structure RubyState where
  res : List Char
  check : Bool
  prevDigit : Bool

/-- one iteration of `canonicalizeRubyGemVersion` -/
def rubyStep (st : RubyState) (c : Char) : RubyState :=
  if c = '.' then { st with res := st.res ++ ['.'], check := false }
  else
    let d := isDigit c
    let res := if st.check && st.prevDigit != d then st.res ++ ['.'] else st.res
    ⟨res ++ [c], true, d⟩

def canonRuby (s : List Char) : List Char := (s.foldl rubyStep ⟨[], false, true⟩).res

/-- `removeZeros`: drop trailing "0" segments -/
def removeZeros (segs : List (List Char)) : List (List Char) :=
  (segs.reverse.dropWhile (· = ['0'])).reverse

/-- `canonicalSegments` (`groupSegments`: the leading numeric segments / everything from the first
non-numeric one) -/
def rubySegs (s : List Char) : List (List Char) :=
  let segs := splitOn '.' (canonRuby s)
  let nums := segs.takeWhile (fun x => (toBig x).isSome)
  let build := segs.dropWhile (fun x => (toBig x).isSome)
  removeZeros nums ++ removeZeros build

/-- one position of `compareRubyGemsComponents`: numeric > non-numeric -/
def rubyElem (x y : List Char) : Ordering :=
  match toBig x, toBig y with
  | some p, some q => icmp p q
  | none, none => strCmp x y
  | some _, none => .gt
  | none, some _ => .lt

/-- `compareRubyGemsComponents`: positions padded with "0" -/
def cmpRuby (a b : List (List Char)) : Ordering := cmpPad rubyElem ['0'] a b

/-! ### as the Go code writes them, with failing index / slice sites (`none` = run-time panic) -/

/-- the loop of `removeZeros`: `for i >= 0 { if segs[i] != "0" { i++; break }; i-- }`; the value is the
final `i` (−1 when every segment is "0" or there is none). One unit of fuel per iteration. -/
def rzLoop (segs : List (List Char)) : Nat → Int → Option Int
  | 0, i => some i
  | fuel + 1, i =>
    if 0 ≤ i then
      (goIndex segs i.toNat).bind fun s => if s ≠ ['0'] then some (i + 1) else rzLoop segs fuel (i - 1)
    else some i

/-- `removeZeros` as written: `i := len(segs) - 1`, the loop, `segs[:max(i, 0)]` (version-rubygems.go:70) -/
def removeZerosGo (segs : List (List Char)) : Option (List (List Char)) :=
  (rzLoop segs (segs.length + 1) ((segs.length : Int) - 1)).bind fun i => goSlice segs 0 (max i 0)

def rubySegsGo (s : List Char) : Option (List (List Char)) :=
  let segs := splitOn '.' (canonRuby s)
  let nums := segs.takeWhile (fun x => (toBig x).isSome)
  let build := segs.dropWhile (fun x => (toBig x).isSome)
  (removeZerosGo nums).bind fun n => (removeZerosGo build).bind fun b => some (n ++ b)

/-- `compareRubyGemsComponents` as written: `fetch(a, i, "0")`, `fetch(b, i, "0")` (utilities.go:39) -/
def cmpRubyGo (a b : List (List Char)) : Option Ordering := cmpPadGo (fun x y => some (rubyElem x y)) ['0'] a b

def rubygemsFam : Family := ⟨List (List Char), fun s => .ofGo (rubySegsGo s), fun v w => .ofGo (cmpRubyGo v w)⟩

end Scalibr.Semantic
