/-
Model of `guidedremediation/upgrade/upgrade.go` `Level.Allows`, `Config.Get` and `NewConfigFromStrings` (C11).
Levels and diffs are the Go enum values:
  Level: 0 Major, 1 Minor, 2 Patch, 3 None (anything else: invalid level)
  semver.Diff: 0 Same, 1 DiffOther, 2 DiffMajor, 3 DiffMinor, 4 DiffPatch, 5 DiffPrerelease, 6 DiffBuild
The truth table of the real method is regenerated into `Scalibr/Gen/Allows.lean` on every run and
compared with this function by `C11_allows_table`.
-/
namespace Scalibr.Upgrade

def lMajor : Nat := 0
def lMinor : Nat := 1
def lPatch : Nat := 2
def lNone : Nat := 3

def dSame : Nat := 0
def dOther : Nat := 1
def dMajor : Nat := 2
def dMinor : Nat := 3
def dPatch : Nat := 4
def dPrerelease : Nat := 5
def dBuild : Nat := 6

/-- `Level.Allows` -/
def allows (level diff : Nat) : Bool :=
  if diff = 0 then true else
  match level with
  | 0 => true
  | 1 => diff != 2
  | 2 => diff != 2 && diff != 3
  | 3 => false
  | _ => false

/-- `Config.Get`: the package's own level, else the default (key ""), else Major (zero value) -/
def configGet (cfg : List (List Char × Nat)) (pkg : List Char) : Nat :=
  match cfg.find? (·.1 = pkg) with
  | some e => e.2
  | none => match cfg.find? (·.1 = []) with
    | some e => e.2
    | none => 0

/-! ### `NewConfigFromStrings` (the CLI's `--upgrade-config`) -/

/-- `strings.LastIndex(s, string(c))` -/
def lastIndexOf (c : Char) : List Char → Option Nat
  | [] => none
  | x :: xs =>
    match lastIndexOf c xs with
    | some i => some (i + 1)
    | none => if x = c then some 0 else none

/-- the `switch level` of `NewConfigFromStrings`: the four level words, anything else is ignored -/
def levelOfWord (w : List Char) : Option Nat :=
  if w = "major".toList then some lMajor
  else if w = "minor".toList then some lMinor
  else if w = "patch".toList then some lPatch
  else if w = "none".toList then some lNone
  else none

/-- one string of the list: split at the LAST colon (Maven names are `group:artifact`), no colon = no package
(the default level, key ""); `none` = "Ignore invalid levels" -/
def parseEntry (s : List Char) : Option (List Char × Nat) :=
  let pw : List Char × List Char :=
    match lastIndexOf ':' s with
    | some i => (s.take i, s.drop (i + 1))
    | none => ([], s)
  (levelOfWord pw.2).map fun l => (pw.1, l)

/-- `NewConfigFromStrings`: `cfg.Set` per valid string, in order.  The Go map is modelled as an association list with the
most recent assignment first, which is the one `configGet` finds. -/
def configFromStrings (ss : List (List Char)) : List (List Char × Nat) :=
  ss.foldl (fun cfg s => match parseEntry s with | some e => e :: cfg | none => cfg) []

end Scalibr.Upgrade
