/-
Model of `guidedremediation/upgrade/upgrade.go` `Level.Allows` and `Config.Get` (C11).
Levels and diffs are the Go enum values:
  Level: 0 Major, 1 Minor, 2 Patch, 3 None (anything else: invalid level)
  semver.Diff: 0 Same, 1 DiffOther, 2 DiffMajor, 3 DiffMinor, 4 DiffPatch, 5 DiffPrerelease, 6 DiffBuild
The truth table of the real method is regenerated into `Scalibr/Gen/Allows.lean` on every run and
compared with this function by `C11_allows_table`.
-/
namespace Scalibr.Upgrade

def lMajor : Nat := 0
def lMinor : Nat := 1
def lPatch : Nat := 2
def lNone : Nat := 3

def dSame : Nat := 0
def dOther : Nat := 1
def dMajor : Nat := 2
def dMinor : Nat := 3
def dPatch : Nat := 4
def dPrerelease : Nat := 5
def dBuild : Nat := 6

/-- `Level.Allows` -/
def allows (level diff : Nat) : Bool :=
  if diff = 0 then true else
  match level with
  | 0 => true
  | 1 => diff != 2
  | 2 => diff != 2 && diff != 3
  | 3 => false
  | _ => false

/-- `Config.Get`: the package's own level, else the default (key ""), else Major (zero value) -/
def configGet (cfg : List (List Char × Nat)) (pkg : List Char) : Nat :=
  match cfg.find? (·.1 = pkg) with
  | some e => e.2
  | none => match cfg.find? (·.1 = []) with
    | some e => e.2
    | none => 0

end Scalibr.Upgrade
