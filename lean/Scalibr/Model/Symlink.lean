/-
Model of symlink resolution in an image view (C17):
  artifact/image/layerscanning/image/layer.go   FS.resolveSymlink, Open, Stat, ReadDir, getFileNode
  artifact/image/layerscanning/image/image.go   handleSymlink (target normalisation, outside-root rejection)
  artifact/image/symlink/symlink.go             TargetOutsideRoot
  artifact/image/pathtree/pathtree.go           Get (key = path minus one leading "/", split on "/")

A view is a finite map from tree keys to nodes (`Graph`): `g k = none` means `tree.Get` returns nil
(=> fs.ErrNotExist). Node identity (`node == slowNode` compares *fileNode pointers) is key identity:
within one tree a fileNode is stored under exactly one key.
-/
namespace Scalibr.Symlink

/-- what a non-symlink node is: regular file, directory, or a whiteout node (kept in the tree; its
`Stat`/`Read` answer fs.ErrNotExist) -/
inductive TKind | file | dir | wh
deriving DecidableEq, Repr

/-- a fileNode: a symlink (mode&ModeSymlink ≠ 0) with its stored `targetPath` (as a tree key), or a
non-symlink -/
inductive Node (α : Type) | link (target : α) | term (k : TKind)
deriving DecidableEq, Repr

/-- `chainfs.getFileNode` -/
abbrev Graph (α : Type) := α → Option (Node α)

inductive Res (α : Type) | ok (id : α) | notExist | cycle | depth
deriving DecidableEq, Repr

variable {α : Type} [DecidableEq α]

/-- `slowNode, err = chainfs.getFileNode(slowNode.targetPath)`. The last case (a non-symlink slow
node, whose `targetPath` is "" → the root directory) is unreachable: `slow` always lies on the chain
strictly behind `node` (`Proofs.Symlink.Behind`), so it is modelled as a failed lookup. -/
def slowNext (g : Graph α) (slow : α) : Option α :=
  match g slow with
  | some (.link s) => if (g s).isSome then some s else none
  | _ => none

/-- The `for { … }` of `resolveSymlink`, one iteration per recursion step. `m` is `depth + 1` of the
Go code (`depth < 0` ⇔ `m = 0`; `depth--` ⇔ recursion on the predecessor), so the recursion is
structural: there is no fuel. State: current node, slowNode, advanceSlowNode. -/
def loop (g : Graph α) : (m : Nat) → (node slow : α) → (adv : Bool) → Res α
  | 0, _, _, _ => .depth                           -- if depth < 0 { return ErrSymlinkDepthExceeded }
  | m+1, node, slow, adv =>
    match g node with
    | none => .notExist                            -- not reachable: the caller holds the node already
    | some (.term _) => .ok node                   -- if !isSymlink { return node }
    | some (.link t) =>
      match g t with                               -- node, err = getFileNode(node.targetPath)
      | none => if m = 0 then .depth else .notExist   -- if err != nil { if depth == 0 { depth error }; return err }
      | some _ =>
        if t = slow then .cycle else               -- if node == slowNode
        if adv then
          match slowNext g slow with               -- slowNode, err = getFileNode(slowNode.targetPath)
          | none => .notExist
          | some s' => loop g m t s' false
        else loop g m t slow true                  -- advanceSlowNode = !advanceSlowNode; depth--

/-- `resolveSymlink(node, maxSymlinkDepth)` of a chain layer's view (`noFollowSymlinks` is false) -/
def resolve (g : Graph α) (maxDepth : Nat) (start : α) : Res α :=
  loop g (maxDepth + 1) start start false

/-- `resolveSymlink` in general: a `Layer`'s own file system (`Layer.FS()`, used by
`trace.filesExistInLayer`) sets `noFollowSymlinks` and answers for the symlink node itself. -/
def resolveFS (noFollow : Bool) (g : Graph α) (maxDepth : Nat) (start : α) : Res α :=
  if noFollow then .ok start else resolve g maxDepth start

/-- The same loop as Go writes it — an unbounded `for` with an `Int` depth counter — with explicit
fuel; `none` = fuel ran out. `C17_terminates` shows `maxDepth + 2` iterations always suffice. -/
def loopF (g : Graph α) : (fuel : Nat) → (node slow : α) → (adv : Bool) → (depth : Int) → Option (Res α)
  | 0, _, _, _, _ => none
  | fuel+1, node, slow, adv, depth =>
    if depth < 0 then some .depth else
    match g node with
    | none => some .notExist
    | some (.term _) => some (.ok node)
    | some (.link t) =>
      match g t with
      | none => if depth = 0 then some .depth else some .notExist
      | some _ =>
        if t = slow then some .cycle else
        if adv then
          match slowNext g slow with
          | none => some .notExist
          | some s' => loopF g fuel t s' false (depth - 1)
        else loopF g fuel t slow true (depth - 1)

/-- what `Stat` (and `Open` followed by `Stat` on the handle) reports -/
inductive StatRes (α : Type) | file (id : α) | dir (id : α) | notExist | cycle | depth
deriving DecidableEq, Repr

/-- `FS.Stat(name)`: getFileNode, resolveSymlink, then `resolvedNode.Stat()` (whiteout → not-exist) -/
def stat (g : Graph α) (maxDepth : Nat) (p : α) : StatRes α :=
  match g p with
  | none => .notExist
  | some _ =>
    match resolve g maxDepth p with
    | .ok n =>
      match g n with
      | some (.term .file) => .file n
      | some (.term .dir) => .dir n
      | _ => .notExist                             -- whiteout node: Stat says fs.ErrNotExist
    | .notExist => .notExist
    | .cycle => .cycle
    | .depth => .depth

/-- `FS.Open(name)`: the resolved node is the handle — unless it is a whiteout node, which is
reported as fs.ErrNotExist (as `Stat` does) -/
def openNode (g : Graph α) (maxDepth : Nat) (p : α) : Res α :=
  match g p with
  | none => .notExist
  | some _ =>
    match resolve g maxDepth p with
    | .ok n => (match g n with | some (.term .wh) => .notExist | _ => .ok n)
    | r => r

inductive DirRes | ok (names : List String) | notExist | cycle | depth
deriving DecidableEq, Repr

/-- `FS.ReadDir(name)`: resolve (a whiteout node is not-exist), then the children of the RESOLVED
node's path that carry a value and are not whiteouts, sorted by name (`kids`, supplied by the view).
A tree node without children gives an empty, non-nil slice — so a regular file lists as empty without
an error. -/
def readDir (g : Graph α) (kids : α → List String) (maxDepth : Nat) (p : α) : DirRes :=
  match openNode g maxDepth p with
  | .ok n => .ok (kids n)
  | .notExist => .notExist
  | .cycle => .cycle
  | .depth => .depth

/-! ### The final view under a file requirer (`removeUnnecessaryFileNodes`)

Only the LAST chain layer is pruned. Directories and whiteout nodes always stay; any other node stays
when the requirer wants it, or when a required symlink needs it: from a required node the loop follows
the stored targets for up to `maxSymlinkDepth` hops and marks every node it finds. -/

/-- `for range symlinkDepth { linkedNode = tree.Get(linkedNode.targetPath); if nil break; mark; if targetPath == "" break }` -/
def markFrom (g : Graph α) : Nat → α → List α
  | 0, _ => []
  | d+1, p =>
    match g p with
    | some (.link t) => (match g t with | none => [] | some _ => t :: markFrom g d t)
    | _ => []

/-- the pruned final view; `nodes` = every path that has a node, `req` = the requirer -/
def pruned (g : Graph α) (nodes : List α) (req : α → Bool) (maxDepth : Nat) : Graph α := fun k =>
  match g k with
  | none => none
  | some (.term .dir) => some (.term .dir)
  | some (.term .wh) => some (.term .wh)
  | some n =>
    if req k || nodes.any (fun r => req r && (markFrom g maxDepth r).contains k) then some n else none

/-- `validateConfig` (the symlink depth must not be negative, …) -/
def validConfig (maxFileBytes : Int) (hasRequirer : Bool) (maxSymlinkDepth : Int) : Bool :=
  decide (maxFileBytes > 0) && hasRequirer && decide (maxSymlinkDepth ≥ 0)

/-! ### Load time: `handleSymlink` and `TargetOutsideRoot` on path segments

Paths are lists of segments (the pieces between "/"). `none` stands for the marker directory
(`uuid.New().String()`), assumed not to occur inside any segment of the inputs. -/

abbrev Seg := Option String     -- none = the marker directory

def isDot (s : Seg) : Bool := s = some "." || s = some ""
def isDotDot (s : Seg) : Bool := s = some ".."

/-- `path.Clean` of a non-rooted path, on segments; `stack` is the output so far, reversed. A `..`
removes the previous segment unless there is none or it is itself a kept `..`. -/
def cleanRelAux : (stack : List Seg) → List Seg → List Seg
  | st, [] => st
  | st, s :: rest =>
    if isDot s then cleanRelAux st rest
    else if isDotDot s then
      match st with
      | [] => cleanRelAux [s] rest
      | top :: st' => if isDotDot top then cleanRelAux (s :: st) rest else cleanRelAux st' rest
    else cleanRelAux (s :: st) rest

def cleanRel (segs : List Seg) : List Seg := (cleanRelAux [] segs).reverse

/-- `path.Clean` of a rooted path, on segments: a `..` at the root is dropped -/
def cleanAbsAux : (stack : List String) → List String → List String
  | st, [] => st
  | st, s :: rest =>
    if s = "." || s = "" then cleanAbsAux st rest
    else if s = ".." then cleanAbsAux st.tail rest
    else cleanAbsAux (s :: st) rest

def cleanAbs (segs : List String) : List String := (cleanAbsAux [] segs).reverse

/-- `symlink.TargetOutsideRoot(path, target)`: `filepath.Join(marker, [filepath.Dir(path),] target)`
no longer contains the marker. `dir` = segments of `filepath.Dir(virtualPath)`, `tgt` = segments of
the link name (for an absolute target the leading "" segment is part of `tgt` and is skipped by
Clean; `dir` is not used then). -/
def targetOutsideRoot (dir : List String) (isAbs : Bool) (tgt : List String) : Bool :=
  let joined : List Seg := if isAbs then none :: tgt.map some else none :: (dir ++ tgt).map some
  !(cleanRel joined).contains none

/-- `skipped`: ErrSymlinkPointsOutsideRoot — no LINK node is made; since fix b2f92f5d the loader leaves a plain whiteout
node at the entry's path instead (the path is absent from the view and hides what older layers have there) -/
inductive Loaded | skipped | loadError | node (key : List String)
deriving DecidableEq, Repr

/-- `handleSymlink`: the key that the created node's `targetPath` addresses, or why no node is made.
`linkSegs` = the link name split on "/" (an absolute name therefore starts with ""). The stored
`targetPath` is `path.Clean` of the absolute name, or of `path.Join(path.Dir(vp), name)` for a relative
one — a rooted clean path, whose pathtree key is its list of segments ("/" → the root, key []). -/
def handleSymlink (dir : List String) (linkSegs : List String) : Loaded :=
  if linkSegs = [""] then .loadError                      -- "symlink header has no target path"
  else
    let isAbs := linkSegs.head? = some ""
    if targetOutsideRoot dir isAbs linkSegs then .skipped  -- ErrSymlinkPointsOutsideRoot: entry skipped
    else if isAbs then .node (cleanAbs linkSegs)           -- path.Clean(target)
    else .node (cleanAbs (dir ++ linkSegs))                -- path.Clean(path.Join(path.Dir(vp), target))

/-- A tar hard link (`tar.TypeLink`) names another entry of the archive: the loader rewrites its
Linkname to `"/" + strings.TrimPrefix(Linkname, "/")` and hands it to `handleSymlink`, so the node is a
symlink node (mode | ModeSymlink) whose target is relative to the image root. On segments (the link
name split on "/"): an absolute name keeps its segments, anything else — the empty name included — gets
the leading "" of an absolute path. -/
def hardLinkSegs (linkSegs : List String) : List String :=
  if linkSegs.length ≥ 2 && linkSegs.head? = some "" then linkSegs
  else "" :: (if linkSegs = [] then [""] else linkSegs)      -- (a split string is never [])

/-- the `case tar.TypeLink:` arm of the loader -/
def handleHardLink (dir : List String) (linkSegs : List String) : Loaded :=
  handleSymlink dir (hardLinkSegs linkSegs)

end Scalibr.Symlink
