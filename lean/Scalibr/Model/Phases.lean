/-
Model of the PLUGIN LOOPS of a scan under cancellation (C10, clause "once its context is cancelled
starts no extraction on any further file and runs no further plugin, reporting failure whenever work
remained"): the phase sequence of `scalibr.go: Scan`

    filesystem.Run  →  standalone.Run  →  (packageindex.New)  →  detector.Run

(the current code has no further phases), each phase's loop with its `ctx.Err()` check, and the early
returns between the phases.

* filesystem phase: `filesystem.Run` does nothing without extractors; otherwise it walks the roots in
  order; `handleFile` is called for every directory entry (first for the root "." itself), checks
  `ctx.Err()` FIRST and then calls `Extract` of every extractor that requires the entry, in
  configuration order, WITHOUT a check in between. A unit of this phase is therefore one directory
  entry with its (possibly empty) list of `Extract` calls. What happens inside the walk beyond this
  (limits, faults, which files are required) is the walk model of C01/C09/C10.
* standalone phase (`standalone.Run`) and detector phase (`detector.Run`): `for p in plugins { if
  ctx.Err() != nil { return nil, nil, ctx.Err() }; run p; append status }` — a unit is one plugin.
* `Scan` returns a failed result as soon as a phase returns an error.
A plugin is described by what the loops can observe: its name, what it returns (nil, an error, or
`ctx.Err()` — nil unless the context is cancelled by then) and whether it cancels the context while running.
-/
namespace Scalibr.Phases

inductive Ret | ok | err | ctxErr
deriving DecidableEq, Repr

structure Plugin where
  name : String
  ret : Ret
  cancels : Bool
deriving DecidableEq, Repr

/-- does the call return a non-nil error, given whether the context is cancelled when it returns -/
def Plugin.fails (p : Plugin) (cancelledAtReturn : Bool) : Bool :=
  match p.ret with
  | .ok => false
  | .err => true
  | .ctxErr => cancelledAtReturn

/-- one iteration of a phase loop: the plugin calls made between two `ctx.Err()` checks;
`records` = the loop appends a status entry per plugin (standalone / detector phases) -/
structure Iter where
  records : Bool
  plugins : List Plugin
deriving DecidableEq, Repr

def Iter.cancels (u : Iter) : Bool := u.plugins.any (·.cancels)

structure St where
  cancelled : Bool                      -- ctx.Err() != nil
  started : List String                 -- observation: plugin calls started so far, in order
  status : List (String × Bool)         -- (name, failed) entries appended by the standalone / detector loops
deriving Repr

/-- the plugin calls of one loop iteration -/
def runUnit (rec : Bool) : List Plugin → St → St
  | [], s => s
  | p :: ps, s =>
    let c := s.cancelled || p.cancels
    runUnit rec ps
      { cancelled := c
        started := s.started ++ [p.name]
        status := if rec then s.status ++ [(p.name, p.fails c)] else s.status }

/-- a phase loop: `(state, returned ctx.Err())` -/
def loop : List Iter → St → St × Bool
  | [], s => (s, false)
  | u :: us, s =>
    if s.cancelled then (s, true)                 -- if ctx.Err() != nil { return …, ctx.Err() }
    else loop us (runUnit u.records u.plugins s)

/-- the directory entries of the filesystem phase: per root the root itself ("."), then its entries in
listing order, each with the `Extract` calls it triggers; nothing without extractors -/
def fsUnits (nfx : Nat) (roots : List (List (List Plugin))) : List Iter :=
  if nfx = 0 then [] else roots.flatMap fun r => ⟨false, []⟩ :: r.map fun e => ⟨false, e⟩

def plUnits (ps : List Plugin) : List Iter := ps.map fun p => ⟨true, [p]⟩

structure Out where
  started : List String
  failed : Bool                          -- Status.Status == ScanStatusFailed
  status : List (String × Bool)          -- standalone + detector status entries that reach the result
deriving DecidableEq, Repr

/-- the phase sequence of `Scan`; `before` = the context is already cancelled when `Scan` is called -/
def scan (before : Bool) (nfx : Nat) (roots : List (List (List Plugin))) (sts dets : List Plugin) : Out :=
  let r1 := loop (fsUnits nfx roots) ⟨before, [], []⟩          -- filesystem.Run
  if r1.2 then ⟨r1.1.started, true, []⟩ else                   -- sro.Err = err; return
  let r2 := loop (plUnits sts) r1.1                             -- standalone.Run
  if r2.2 then ⟨r2.1.started, true, []⟩ else                   -- (its statuses are dropped: Run returned nil)
  let r3 := loop (plUnits dets) r2.1                            -- detector.Run
  if r3.2 then ⟨r3.1.started, true, r2.1.status⟩ else ⟨r3.1.started, false, r3.1.status⟩

end Scalibr.Phases
