/-
C16(a) — `common.ComputePatches` (guidedremediation/internal/strategy/common/common.go) as a
nondeterministic worklist, and `Patch.Compare` (guidedremediation/result/result.go).

Go, statement by statement:

    ch := make(chan StrategyResult)                      -- unbuffered: one result is *delivered* at a time
    for _, v := range resolved.Vulns { go doPatch([v.ID]); toProcess++ }      -- initial tasks
    for toProcess > 0 {
        r := <-ch; toProcess--                           -- ANY pending task's result (scheduler's choice)
        if r.Err != nil { continue }                     -- outCP = none, no follow-ups
        patch := ConstructPatches(resolved, r.Resolved)
        if len(patch.PackageUpdates) == 0 { continue }   -- outCP = none, no follow-ups
        allResults = append(allResults, patch)
        newlyAdded := [v.ID | v ∈ patch.Introduced, v.ID ∉ r.VulnIDs]
        if len(newlyAdded) > 0 {
            if groupIntroduced { go doPatch(r.VulnIDs ++ newlyAdded) }
            else { for v in newlyAdded { go doPatch(r.VulnIDs ++ [v]) } } } }
    slices.SortFunc(allResults, cmp); allResults = slices.CompactFunc(allResults, cmp == 0)

A *task* is the vuln-id list handed to `patchFunc`; the set of goroutines that have been started and whose
result has not been received is `pending`; a *schedule* is the list of positions (in `pending`) whose
result is received next.  `patchFn` (the strategy: override / relax) is a parameter: a deterministic
function of the id list, `none` = the strategy returned an error.  `r.VulnIDs` is the list that was
handed to `patchFunc` (both strategies copy it into the result; the harness' table function does too).
-/
import Scalibr.Base.Sort
import Scalibr.Base.Lex
namespace Scalibr.Worklist

/-! ## the generic worklist -/

structure St (τ π : Type) where
  pending : List τ
  collected : List π
deriving Repr, DecidableEq

section generic
variable {τ π : Type} (out : τ → Option π) (spawn : τ → List τ)

/-- receive the result of the `i`-th pending task -/
def stepAt (i : Nat) (s : St τ π) : Option (St τ π) :=
  match s.pending[i]? with
  | none => none
  | some t => some ⟨s.pending.eraseIdx i ++ spawn t, s.collected ++ (out t).toList⟩

/-- run a schedule (a list of positions); `none` = the schedule names a position that does not exist -/
def exec : List Nat → St τ π → Option (St τ π)
  | [], s => some s
  | i :: σ, s =>
    match stepAt out spawn i s with
    | none => none
    | some s' => exec σ s'

/-- the schedule that always receives the oldest pending task, with fuel (the executable *specification*:
    a plain breadth-first closure of the initial tasks under `spawn`) -/
def fifo : Nat → St τ π → St τ π
  | 0, s => s
  | n+1, s =>
    match s.pending with
    | [] => s
    | t :: rest => fifo n ⟨rest ++ spawn t, s.collected ++ (out t).toList⟩

/-- deliver by task value instead of position (what the harness can observe): first pending occurrence -/
def deliver [DecidableEq τ] (t : τ) (s : St τ π) : Option (St τ π) :=
  if t ∈ s.pending then stepAt out spawn (s.pending.idxOf t) s else none

def execTasks [DecidableEq τ] : List τ → St τ π → Option (St τ π)
  | [], s => some s
  | t :: ts, s =>
    match deliver out spawn t s with
    | none => none
    | some s' => execTasks ts s'

/-- the positions a task-valued schedule stands for -/
def positions [DecidableEq τ] : List τ → St τ π → List Nat
  | [], _ => []
  | t :: ts, s =>
    match deliver out spawn t s with
    | none => [s.pending.length]            -- an invalid position: `exec` fails as `execTasks` does
    | some s' => s.pending.idxOf t :: positions ts s'
end generic

/-! ## patches and `Patch.Compare` -/

/-- Go strings as byte lists (`cmp.Compare` on strings is bytewise) -/
abbrev Str := List Nat

structure Upd where
  name : Str
  vfrom : Str
  vto : Str
  transitive : Bool
  ty : Str := []       -- `PackageUpdate.Type` as far as the universes vary it: the npm alias (dep.KnownAs) the requirement is known as, [] = none
deriving DecidableEq, Repr

structure Patch where
  updates : List Upd
  fixed : List Str          -- result.Vuln IDs (Packages are not modelled: the harness' vulns have no subgraphs)
  introduced : List Str
deriving DecidableEq, Repr

/-- `cmp.Compare` on ints -/
def cmpInt (a b : Int) : Int := if a < b then -1 else if b < a then 1 else 0
/-- `cmp.Compare` on strings -/
def cmpStr (a b : Str) : Int := if ltBytes a b then -1 else if ltBytes b a then 1 else 0

/-- `for i, aDep := range a.PackageUpdates { bDep := b.PackageUpdates[i]; if c := f(aDep, bDep); c != 0 { return c } }`
    (only reached when both lists have the same length, step 3) -/
def zipCmp {β} (c : β → β → Int) : List β → List β → Int
  | a :: as, b :: bs => if c a b ≠ 0 then c a b else zipCmp c as bs
  | _, _ => 0

/-- step 5 for one position: both parse → semantic comparison, otherwise string comparison -/
def verCmp {ν} (parse : Str → Option ν) (scmp : ν → ν → Int) (a b : Str) : Int :=
  match parse a, parse b with
  | some x, some y => scmp x y
  | _, _ => cmpStr a b

/-- the version grammar of the harness' universes: `<major>.0.0` with a decimal major without leading zero parses
    (to the major); everything else ("^1.0.0", "1x", …) does not.  deps.dev's npm `semver.Parse`/`Compare` agree with
    this on the strings the generator emits (asserted at generator start-up). -/
def parseMajor (s : Str) : Option Nat :=
  let r := s.reverse
  match r with
  | 48 :: 46 :: 48 :: 46 :: ds =>           -- "….0.0" reversed
    let ds := ds.reverse
    if ds.isEmpty || !ds.all (fun d => 48 ≤ d && d ≤ 57) || (ds.length > 1 && ds.head? = some 48) then none
    else some (ds.foldl (fun acc d => acc * 10 + (d - 48)) 0)
  | _ => none

/-- `slices.CompareFunc(a, b, cmp)`: the first differing position decides, otherwise the shorter list comes first -/
def cmpList {β} (c : β → β → Int) : List β → List β → Int
  | [], [] => 0
  | [], _ :: _ => -1
  | _ :: _, [] => 1
  | a :: as, b :: bs => if c a b ≠ 0 then c a b else cmpList c as bs

/-- step 6 for one update: VersionTo, VersionFrom (as strings), Transitive (false first), Type -/
def tieUpd (x y : Upd) : Int :=
  if cmpStr x.vto y.vto ≠ 0 then cmpStr x.vto y.vto else
  if cmpStr x.vfrom y.vfrom ≠ 0 then cmpStr x.vfrom y.vfrom else
  if x.transitive ≠ y.transitive then (if y.transitive then -1 else 1) else
  cmpStr x.ty y.ty        -- dep.Type.Compare: no attribute before any alias, aliases by string

def ratio (a : Patch) : Int := (a.fixed.length : Int) - (a.introduced.length : Int)
def nupd (a : Patch) : Int := (a.updates.length : Int)

/-- `Patch.Compare`; `vc` is the per-position version comparison (`verCmp parse scmp`) -/
def Patch.compare (vc : Str → Str → Int) (a b : Patch) : Int :=
  -- 1. (fixed - introduced) / (changes) [desc], multiplied out
  let c := cmpInt (ratio a * nupd b) (ratio b * nupd a)
  if c ≠ 0 then -c else
  -- 2. number of fixed vulns [desc]
  let c := cmpInt a.fixed.length b.fixed.length
  if c ≠ 0 then -c else
  -- 3. number of changed deps [asc]
  let c := cmpInt (nupd a) (nupd b)
  if c ≠ 0 then c else
  -- 4. changed names [asc]
  let c := zipCmp (fun x y => cmpStr x.name y.name) a.updates b.updates
  if c ≠ 0 then c else
  -- 5. dependency bump amount [asc]
  let c := zipCmp (fun x y => vc x.vto y.vto) a.updates b.updates
  if c ≠ 0 then c else
  -- 6. tie-breakers (fix 09778cd0): only patches that are the same in every field compare equal
  let c := zipCmp tieUpd a.updates b.updates
  if c ≠ 0 then c else
  let c := cmpList cmpStr a.fixed b.fixed
  if c ≠ 0 then c else
  cmpList cmpStr a.introduced b.introduced

/-- the `less` that `slices.SortFunc(allResults, cmpFn)` sorts by -/
def patchLt (vc : Str → Str → Int) (a b : Patch) : Bool := decide (Patch.compare vc a b < 0)
/-- the `eq` of `slices.CompactFunc` -/
def patchEq (vc : Str → Str → Int) (a b : Patch) : Bool := decide (Patch.compare vc a b = 0)

/-- `slices.CompactFunc`: every element is compared with its immediate predecessor `eq(s[k], s[k-1])`;
    of a run of equal elements the first is kept -/
def compactAux {α} (eq : α → α → Bool) (prev : α) : List α → List α
  | [] => []
  | x :: xs => if eq x prev then compactAux eq x xs else x :: compactAux eq x xs
def compactBy {α} (eq : α → α → Bool) : List α → List α
  | [] => []
  | a :: xs => a :: compactAux eq a xs

/-- sort + compact, the tail of `ComputePatches` -/
def sortCompact (vc : Str → Str → Int) (l : List Patch) : List Patch :=
  compactBy (patchEq vc) (isort (patchLt vc) l)

/-! ## the ComputePatches instance -/

abbrev Task := List Str

/-- what the main loop appends for a delivered task: nothing on error, nothing for an empty patch -/
def outCP (patchFn : Task → Option Patch) (t : Task) : Option Patch :=
  match patchFn t with
  | none => none
  | some p => if p.updates.isEmpty then none else some p

def newlyAdded (t : Task) (p : Patch) : List Str := p.introduced.filter (fun v => !t.contains v)

def spawnCP (patchFn : Task → Option Patch) (grouped : Bool) (t : Task) : List Task :=
  match outCP patchFn t with
  | none => []
  | some p =>
    let na := newlyAdded t p
    if na.isEmpty then [] else if grouped then [t ++ na] else na.map (fun v => t ++ [v])

def initCP (vulns : List Str) : St Task Patch := ⟨vulns.map (fun v => [v]), []⟩

/-- the value `ComputePatches` returns under the schedule `σ` (`none`: σ is not a complete schedule) -/
def computePatches (patchFn : Task → Option Patch) (grouped : Bool) (vc : Str → Str → Int) (vulns : List Str)
    (σ : List Nat) : Option (List Patch) :=
  match exec (outCP patchFn) (spawnCP patchFn grouped) σ (initCP vulns) with
  | some ⟨[], c⟩ => some (sortCompact vc c)
  | _ => none

/-! ## `remediation.ConstructPatches`, restricted to what the harness' universes contain: requirement KEYS are distinct
(npm: package name + `KnownAs`; an alias `"y": "npm:x@1"` is a second key for a package named x, so NAMES may repeat), the
patched manifest has the same keys as the original, every requirement is direct, vulnerabilities carry no subgraphs and
ids are distinct within a list; no attempt moves two same-named requirements from the same version to the same version
(`dep.Type` is modelled only as the alias string). -/

structure Req where
  name : Str
  version : Str
  key : Str            -- `resolution.MakeRequirementKey`: the name, or the alias the package is known as
deriving DecidableEq, Repr

def lookupReq (rs : List Req) (k : Str) : Option Str := (rs.find? (fun r => r.key = k)).map (·.version)

/-- `cmpFn` of ConstructPatches on (Name, VersionFrom, VersionTo, Type) -/
def updLt (a b : Upd) : Bool :=
  if ltBytes a.name b.name then true else if ltBytes b.name a.name then false
  else if ltBytes a.vfrom b.vfrom then true else if ltBytes b.vfrom a.vfrom then false
  else if ltBytes a.vto b.vto then true else if ltBytes b.vto a.vto then false
  else ltBytes a.ty b.ty

def constructPatch (oldReqs : List Req) (oldVulns : List Str) (newReqs : List Req) (newVulns : List Str) : Patch :=
  let fixed := isort ltBytes (oldVulns.filter (fun v => !newVulns.contains v))
  let intro := isort ltBytes (newVulns.filter (fun v => !oldVulns.contains v))
  let ups := newReqs.filterMap fun r =>
    match lookupReq oldReqs r.key with
    | none => some ⟨r.name, [], r.version, true, []⟩                   -- new key: management origin, transitive
    | some ov => if r.version = ov then none else some ⟨r.name, ov, r.version, false, if r.key = r.name then [] else r.key⟩
  ⟨isort updLt ups, fixed, intro⟩

end Scalibr.Worklist
