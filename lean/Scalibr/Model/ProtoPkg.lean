/-
Model of the GENERIC part of `binary/proto/proto.go` (C14): `ScanResultToProto`'s package loop,
`packageToProto`, `purlToProto`, `qualifiersToProto`, `annotationsToProto` / `annotationToProto`,
`layerDetailsToProto`, `sourceCodeIdentifierToProto`. (The code only converts in this direction.)

What is extractor specific stays a parameter (`Ops`): `Extractor.ToPURL`, `Extractor.Ecosystem`,
`Extractor.Name`, the third-party `PackageURL.String()`, and the metadata switch `setProtoMetadata`
(`none` = the switch has no case for the metadata's type: the proto `metadata` oneof stays unset).
Go `int` → proto `int32` is the one conversion that is not the identity (`int32(ld.Index)` wraps).
-/
namespace Scalibr.ProtoPkg

/-- `purl.PackageURL` (qualifiers keep their order) -/
structure Purl where
  typ : String
  ns : String
  name : String
  version : String
  qualifiers : List (String × String)
  subpath : String
deriving DecidableEq, Repr

/-- `extractor.LayerDetails` -/
structure LayerDetails where
  index : Int
  diffID : String
  command : String
  inBaseImage : Bool
deriving DecidableEq, Repr

/-- `extractor.SourceCodeIdentifier` -/
structure SourceCode where
  repo : String
  commit : String
deriving DecidableEq, Repr

/-- `*extractor.Package`; `M` = the Go type of `Metadata` with its value; annotations are the raw `int64` enum values -/
structure Package (M : Type) where
  name : String
  version : String
  sourceCode : Option SourceCode
  locations : List String
  annotations : List Int
  layerDetails : Option LayerDetails
  metadata : M

structure Ops (M PM : Type) where
  toPURL : Package M → Option Purl          -- pkg.Extractor.ToPURL(pkg); none = nil
  ecosystem : Package M → String            -- pkg.Extractor.Ecosystem(pkg)
  extractorName : Package M → String        -- pkg.Extractor.Name()
  purlString : Purl → String                -- PackageURL.String() (packageurl-go)
  setMeta : M → Option PM                   -- setProtoMetadata's switch

inductive ProtoAnnotation | unspecified | transitional | insideOSPackage | insideCacheDir
deriving DecidableEq, Repr

/-- `spb.Purl` -/
structure ProtoPurl where
  purl : String
  typ : String
  ns : String
  name : String
  version : String
  qualifiers : List (String × String)
  subpath : String
deriving DecidableEq, Repr

/-- `spb.LayerDetails` (`index` is an int32) -/
structure ProtoLayerDetails where
  index : Int
  diffID : String
  command : String
  inBaseImage : Bool
deriving DecidableEq, Repr

/-- `spb.Package` -/
structure ProtoPackage (PM : Type) where
  name : String
  version : String
  sourceCode : Option SourceCode
  purl : Option ProtoPurl
  ecosystem : String
  locations : List String
  extractor : String
  annotations : List ProtoAnnotation
  layerDetails : Option ProtoLayerDetails
  metadata : Option PM

/-- Go's `int32(x)` on an `int`: wrap into [-2³¹, 2³¹) -/
def toInt32 (x : Int) : Int := (x + 2147483648) % 4294967296 - 2147483648

/-- `annotationToProto`: Transitional = 1, InsideOSPackage = 2, InsideCacheDir = 3; anything else UNSPECIFIED -/
def annotationToProto (a : Int) : ProtoAnnotation :=
  if a = 1 then .transitional else if a = 2 then .insideOSPackage else if a = 3 then .insideCacheDir else .unspecified

/-- `qualifiersToProto`: one entry per qualifier, in order -/
def qualifiersToProto (qs : List (String × String)) : List (String × String) := qs.map fun q => (q.1, q.2)

def purlToProto (str : Purl → String) : Option Purl → Option ProtoPurl
  | none => none
  | some p => some ⟨str p, p.typ, p.ns, p.name, p.version, qualifiersToProto p.qualifiers, p.subpath⟩

def layerDetailsToProto : Option LayerDetails → Option ProtoLayerDetails
  | none => none
  | some ld => some ⟨toInt32 ld.index, ld.diffID, ld.command, ld.inBaseImage⟩

def sourceCodeToProto : Option SourceCode → Option SourceCode
  | none => none
  | some s => some ⟨s.repo, s.commit⟩

/-- `packageToProto` for a non-nil package -/
def packageToProto {M PM : Type} (ops : Ops M PM) (pkg : Package M) : ProtoPackage PM :=
  let p := ops.toPURL pkg
  { name := pkg.name
    version := pkg.version
    sourceCode := sourceCodeToProto pkg.sourceCode
    purl := purlToProto ops.purlString p
    ecosystem := ops.ecosystem pkg
    locations := pkg.locations
    extractor := ops.extractorName pkg
    annotations := pkg.annotations.map annotationToProto
    layerDetails := layerDetailsToProto pkg.layerDetails
    metadata := ops.setMeta pkg.metadata }

/-- the package loop of `ScanResultToProto` -/
def packagesToProto {M PM : Type} (ops : Ops M PM) (pkgs : List (Package M)) : List (ProtoPackage PM) :=
  pkgs.map (packageToProto ops)

end Scalibr.ProtoPkg
