/-
Model of `guidedremediation/internal/vulns.IsAffected` (C18).

Version STRINGS are spelling ids; the ecosystem's order sees only their rank (two spellings of one rank —
Maven `1.0` / `1.0.0`, npm `1.0.0` / `1.0.0+b1` — compare equal). Range events are compared, so they carry ranks;
the explicit `versions` list is matched by string equality (`slices.Contains`), so it carries spelling ids.
Ranks: `0` is the literal string "0" (which the Go comparator
and the binary-search callback both special-case as "below everything"), every real version has a
rank ≥ 1, and `sys.Compare` is modelled as comparison of ranks (trusted: deps.dev `semver.Compare`
is a total order on the version strings the harness uses; see DESIGN.md §3).
`slices.SortFunc` = stable insertion sort (`Scalibr.isort`), `slices.BinarySearchFunc` = least index
whose element is not below the target (`idxOf`), both by contract.
-/
import Scalibr.Base.Sort
namespace Scalibr.Vulns

inductive Kind | intro | fixed | last
deriving DecidableEq, Repr

/-- one range event; `v` is the rank of `eventVersion(e)` -/
structure Ev where
  k : Kind
  v : Nat
deriving DecidableEq, Repr

inductive RType | ecosystem | semver | other
deriving DecidableEq, Repr

structure Range where
  typ : RType
  events : List Ev
deriving Repr

/-- `osvschema.Affected`: ecosystem and name as opaque ids (ecosystem 0 is "npm"). -/
structure Affected where
  eco : Nat
  name : Nat
  versions : List Nat     -- spelling ids of the explicitly listed version strings
  ranges : List Range
deriving Repr

structure Pkg where
  eco : Nat
  name : Nat
  version : Nat           -- rank of the package's version in the ecosystem's order
  vid : Nat := version    -- spelling id of the package's version string
deriving Repr

/-- the comparator handed to `slices.SortFunc`, as a strict "less" on ranks -/
def evLt (a b : Ev) : Bool := a.v < b.v

def sortEvents (es : List Ev) : List Ev := isort evLt es

/-- `slices.BinarySearchFunc` on a sorted list: number of events strictly below the target -/
def idxOf (es : List Ev) (q : Nat) : Nat := (es.takeWhile (fun e => e.v < q)).length

def isIntro : Option Kind → Bool
  | some .intro => true
  | _ => false

/-- the decision taken after the search, on the sorted events -/
def codeDecision (es : List Ev) (q : Nat) : Bool :=
  let idx := idxOf es q
  match es[idx]? with
  | some e =>
    if e.v = q then (e.k = .intro || e.k = .last)              -- exact hit
    else (idx != 0 && isIntro ((es[idx-1]?).map (·.k)))         -- between events
  | none => (idx != 0 && isIntro ((es[idx-1]?).map (·.k)))

def rangeDecision (es : List Ev) (q : Nat) : Bool := codeDecision (sortEvents es) q

/-- the range-type filter: ECOSYSTEM always, SEMVER only for npm records -/
def rangeApplies (a : Affected) (r : Range) : Bool :=
  r.typ = .ecosystem || (r.typ = .semver && a.eco = 0)

/-- `IsAffected`; `known` says whether deps.dev knows the package's ecosystem -/
def isAffected (known : Nat → Bool) (vuln : List Affected) (p : Pkg) : Bool :=
  if !known p.eco then false else
  vuln.any fun a =>
    (a.eco = p.eco && a.name = p.name) &&
      (a.versions.contains p.vid ||
       a.ranges.any fun r => rangeApplies a r && rangeDecision r.events p.version)

end Scalibr.Vulns
