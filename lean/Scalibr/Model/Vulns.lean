/-
Model of `guidedremediation/internal/vulns.IsAffected` (C18) — the code AFTER the repair "fix: IsAffected orders
events on one version fixed, introduced, last_affected and looks at all of them on an exact hit". The decision
procedure of the code before that repair is kept at the end (`evLtOld`, `codeDecisionOld`, `rangeDecisionOld`),
clearly labelled, only so that `Properties/C18.lean` can record by `decide` on which inputs it was wrong.

Version STRINGS are spelling ids; the ecosystem's order sees only their rank (two spellings of one rank —
Maven `1.0` / `1.0.0`, npm `1.0.0` / `1.0.0+b1` — compare equal). Range events are compared, so they carry ranks;
the explicit `versions` list is matched by string equality (`slices.Contains`), so it carries spelling ids.
Ranks: `0` is the literal string "0" (which the Go comparator
and the binary-search callback both special-case as "below everything"), every real version has a
rank ≥ 1, and `sys.Compare` is modelled as comparison of ranks (trusted: deps.dev `semver.Compare`
is a total order on the version strings the harness uses; see DESIGN.md §3).
`slices.SortFunc` = insertion sort (`Scalibr.isort`); since the repaired comparator separates any two different
events (`evLt_sep` in Proofs/Vulns.lean) EVERY correct sort returns the same list (`C18_listing_order`), so the
instability of Go's pdqsort above 12 elements is immaterial. `slices.BinarySearchFunc` = least index whose
element is not below the target (`idxOf`), by contract.
-/
import Scalibr.Base.Sort
namespace Scalibr.Vulns

inductive Kind | intro | fixed | last
deriving DecidableEq, Repr

/-- one range event; `v` is the rank of `eventVersion(e)` -/
structure Ev where
  k : Kind
  v : Nat
deriving DecidableEq, Repr

inductive RType | ecosystem | semver | other
deriving DecidableEq, Repr

structure Range where
  typ : RType
  events : List Ev
deriving Repr

/-- `osvschema.Affected`: ecosystem and name as opaque ids (ecosystem 0 is "npm"). -/
structure Affected where
  eco : Nat
  name : Nat
  versions : List Nat     -- spelling ids of the explicitly listed version strings
  ranges : List Range
deriving Repr

structure Pkg where
  eco : Nat
  name : Nat
  version : Nat           -- rank of the package's version in the ecosystem's order
  vid : Nat := version    -- spelling id of the package's version string
deriving Repr

/-- `eventOrder` of the Go code: on one version `fixed` sorts first, then `introduced`, then `last_affected` -/
def eventOrder : Kind → Nat
  | .fixed => 0
  | .intro => 1
  | .last => 2

/-- the comparator handed to `slices.SortFunc`, as a strict "less": ranks first, `eventOrder` on equal ranks -/
def evLt (a b : Ev) : Bool := a.v < b.v || (a.v == b.v && eventOrder a.k < eventOrder b.k)

def sortEvents (es : List Ev) : List Ev := isort evLt es

/-- `slices.BinarySearchFunc` on a sorted list: number of events strictly below the target (the FIRST event of
the target's version when there is one) -/
def idxOf (es : List Ev) (q : Nat) : Nat := (es.takeWhile (fun e => e.v < q)).length

def isIntro : Option Kind → Bool
  | some .intro => true
  | _ => false

/-- `e.Introduced != "" || e.LastAffected != ""` -/
def inclusive (e : Ev) : Bool := e.k = .intro || e.k = .last

/-- the `for _, e := range events[idx:]` loop of an exact hit: every event on the queried version -/
def exactScan (es : List Ev) (q : Nat) : Bool := (es.takeWhile (fun e => e.v = q)).any inclusive

/-- the decision taken after the search, on the sorted events -/
def codeDecision (es : List Ev) (q : Nat) : Bool :=
  let idx := idxOf es q
  match es[idx]? with
  | some e =>
    if e.v = q then exactScan (es.drop idx) q                   -- exact hit: all events of that version
    else (idx != 0 && isIntro ((es[idx-1]?).map (·.k)))         -- between events
  | none => (idx != 0 && isIntro ((es[idx-1]?).map (·.k)))

def rangeDecision (es : List Ev) (q : Nat) : Bool := codeDecision (sortEvents es) q

/-- the range-type filter: ECOSYSTEM always, SEMVER only for npm records -/
def rangeApplies (a : Affected) (r : Range) : Bool :=
  r.typ = .ecosystem || (r.typ = .semver && a.eco = 0)

/-- `IsAffected`; `known` says whether deps.dev knows the package's ecosystem -/
def isAffected (known : Nat → Bool) (vuln : List Affected) (p : Pkg) : Bool :=
  if !known p.eco then false else
  vuln.any fun a =>
    (a.eco = p.eco && a.name = p.name) &&
      (a.versions.contains p.vid ||
       a.ranges.any fun r => rangeApplies a r && rangeDecision r.events p.version)

/-! ### the decision procedure BEFORE the repair (documentation of the defect only; nothing is proved about it
except the two `decide`d witnesses `C18_old_*` in Properties/C18.lean) -/

/-- old comparator: versions only, so events on one version stayed in listing order (stable sort below 12 events) -/
def evLtOld (a b : Ev) : Bool := a.v < b.v

/-- old decision: on an exact hit only the FIRST event of that version was looked at -/
def codeDecisionOld (es : List Ev) (q : Nat) : Bool :=
  let idx := idxOf es q
  match es[idx]? with
  | some e =>
    if e.v = q then (e.k = .intro || e.k = .last)
    else (idx != 0 && isIntro ((es[idx-1]?).map (·.k)))
  | none => (idx != 0 && isIntro ((es[idx-1]?).map (·.k)))

def rangeDecisionOld (es : List Ev) (q : Nat) : Bool := codeDecisionOld (isort evLtOld es) q

end Scalibr.Vulns
