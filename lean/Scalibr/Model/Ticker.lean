/-
C16(c) — the shape of the table that /verif/translator/cmd/tickerdump regenerates from
extractor/filesystem/*.go (lean/Scalibr/Gen/Ticker.lean), and the lockset condition stated over it.

Two accesses *conflict* when they touch the same field of the shared `walkContext`, one runs on the status
ticker's goroutine and the other on the walking goroutine, at least one of them writes, and neither is an
initialisation of a not-yet-shared object (keys of the `&walkContext{…}` literal: they precede the `go`
statement).  The table is race-free at the translator's granularity when both sides of every conflicting
pair are lexically inside a `statusMu.Lock()` … `Unlock()` region.
-/
namespace Scalibr.Ticker

structure Access where
  field : Nat
  fn : Nat
  write : Bool
  guarded : Bool
  init : Bool
  line : Nat
deriving DecidableEq, Repr

structure Table where
  nfields : Nat
  mutexField : Nat
  tickerFuncs : List Nat
  walkerFuncs : List Nat
  accesses : List Access
  irregular : Nat
deriving Repr

def Table.onTicker (t : Table) (a : Access) : Bool := t.tickerFuncs.contains a.fn
def Table.onWalker (t : Table) (a : Access) : Bool := t.walkerFuncs.contains a.fn

/-- `a` (ticker side) and `b` (walker side) conflict -/
def Table.conflict (t : Table) (a b : Access) : Bool :=
  a.field == b.field && t.onTicker a && t.onWalker b && (a.write || b.write) && !a.init && !b.init

/-- every conflicting pair is guarded on both sides -/
def Table.conflictsGuarded (t : Table) : Bool :=
  t.accesses.all fun a => t.accesses.all fun b => !t.conflict a b || (a.guarded && b.guarded)

/-- fields for which some conflicting pair exists (the fields the mutex is there for) -/
def Table.sharedFields (t : Table) : List Nat :=
  (List.range t.nfields).filter fun f => t.accesses.any fun a => t.accesses.any fun b => a.field == f && t.conflict a b

/-- the mutex itself is only ever used as the receiver of Lock/Unlock, and every lock region has a shape the
    translator understands -/
def Table.wellFormed (t : Table) : Bool :=
  t.irregular == 0 && !t.tickerFuncs.isEmpty && !t.walkerFuncs.isEmpty &&
  t.accesses.all (fun a => a.field != t.mutexField && a.field < t.nfields)

/-- the stronger reading "every site of a shared field is guarded" (also demands the lock for reads by the only
    writing goroutine); reported in the evidence, not required for race freedom -/
def Table.allSitesGuarded (t : Table) : Bool :=
  t.accesses.all fun a => !(t.sharedFields.contains a.field) || a.init || a.guarded

end Scalibr.Ticker
