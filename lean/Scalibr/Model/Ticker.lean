/-
C16(c) — the shape of the table that /verif/translator/cmd/tickerdump regenerates from
extractor/filesystem/*.go (lean/Scalibr/Gen/Ticker.lean), and the lockset condition stated over it.

Two accesses *conflict* when they touch the same field of the shared `walkContext`, one runs on the status
ticker's goroutine and the other on the walking goroutine, at least one of them writes, and neither is an
initialisation of a not-yet-shared object (keys of the `&walkContext{…}` literal: they precede the `go`
statement).  The table is race-free at the translator's granularity when both sides of every conflicting
pair are lexically inside a `statusMu.Lock()` … `Unlock()` region.

TICKER LIFETIME assumed here (extractor/filesystem/filesystem.go, `RunFS`): every `RunFS` call that walks a whole tree starts ONE ticker
goroutine and, when the walk is over, signals it (`close(quit)`) but does NOT wait for it; `filesystem.Run` calls `RunFS` once per scan
root on ONE shared `walkContext`.  So the ticker of root i can still be inside `printStatus` while `RunFS` runs for root i+1, and an
access made by `RunFS` itself — also one that textually precedes its own `go` statement, which the `go` statement orders before THAT
root's ticker only — is concurrent with the previous root's ticker.  Accordingly `conflict` gives no happens-before exemption to
anything in `RunFS` / `runOnScanRoot` / `UpdateScanRoot`: they are ordinary walker-side functions.  The only exempt accesses (`init`)
are the keys of the `&walkContext{…}` literal in `InitWalkContext`, which runs once per `Run`, before the first `RunFS`, when no goroutine
shares the object yet.  (If `RunFS` ever joins its ticker the condition merely becomes stricter than necessary.)
-/
namespace Scalibr.Ticker

structure Access where
  field : Nat
  fn : Nat
  write : Bool
  guarded : Bool
  init : Bool
  line : Nat
deriving DecidableEq, Repr

structure Table where
  nfields : Nat
  mutexField : Nat
  tickerFuncs : List Nat
  walkerFuncs : List Nat
  accesses : List Access
  irregular : Nat
deriving Repr

def Table.onTicker (t : Table) (a : Access) : Bool := t.tickerFuncs.contains a.fn
def Table.onWalker (t : Table) (a : Access) : Bool := t.walkerFuncs.contains a.fn

/-- `a` (ticker side) and `b` (walker side) conflict -/
def Table.conflict (t : Table) (a b : Access) : Bool :=
  a.field == b.field && t.onTicker a && t.onWalker b && (a.write || b.write) && !a.init && !b.init

/-- every conflicting pair is guarded on both sides -/
def Table.conflictsGuarded (t : Table) : Bool :=
  t.accesses.all fun a => t.accesses.all fun b => !t.conflict a b || (a.guarded && b.guarded)

/-- fields for which some conflicting pair exists (the fields the mutex is there for) -/
def Table.sharedFields (t : Table) : List Nat :=
  (List.range t.nfields).filter fun f => t.accesses.any fun a => t.accesses.any fun b => a.field == f && t.conflict a b

/-- the mutex itself is only ever used as the receiver of Lock/Unlock, and every lock region has a shape the
    translator understands -/
def Table.wellFormed (t : Table) : Bool :=
  t.irregular == 0 && !t.tickerFuncs.isEmpty && !t.walkerFuncs.isEmpty &&
  t.accesses.all (fun a => a.field != t.mutexField && a.field < t.nfields)

/-- the stronger reading "every site of a shared field is guarded" (also demands the lock for reads by the only
    writing goroutine); reported in the evidence, not required for race freedom -/
def Table.allSitesGuarded (t : Table) : Bool :=
  t.accesses.all fun a => !(t.sharedFields.contains a.field) || a.init || a.guarded

end Scalibr.Ticker
