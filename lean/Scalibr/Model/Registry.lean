/-
Model of the plugin-requirement and plugin-name machinery (C19):

* `plugin/plugin.go`            : `ValidateRequirements`
* `*/list/list.go`              : `FilterByCapabilities`, `FromCapabilities`, `ExtractorsFromNames` /
                                  `DetectorsFromNames`, `ExtractorFromName`
* `scalibr.go`                  : `ScanConfig.EnableRequiredExtractors`, `ValidatePluginRequirements`

The three list packages contain the same code for filesystem extractors, standalone extractors and
detectors, so one model parameterised by the name table serves all three. The tables themselves
(`Scalibr.Gen.Registry`) are regenerated from `/repo` on every run; nothing in this file depends on them.

`plugin.OS` and `plugin.Network` are Go `int` types; the model has one constructor per declared
constant (requirement values outside the declared constants are rejected by the translator, and the
correspondence enumerates exactly this product).
-/
namespace Scalibr.Registry

deriving instance DecidableEq for Except

inductive OS | any | linux | windows | mac | unix
deriving DecidableEq, Repr

inductive Net | any | offline | online
deriving DecidableEq, Repr

/-- `plugin.Capabilities`, used both for what a plugin requires and for what the environment offers -/
structure Caps where
  os : OS
  net : Net
  directFS : Bool
  runningSystem : Bool
deriving DecidableEq, Repr

/-- what the model keeps of a plugin: `Name()`, `Requirements()`, and for detectors `RequiredExtractors()` -/
structure Plugin where
  name : String
  req : Caps
  required : List String
deriving DecidableEq, Repr

/-- the six messages `ValidateRequirements` can append to `errs` -/
inductive ReqErr
  | nonUnix | otherOS | needsNetwork | onlyOffline | needsDirectFS | notRunningSystem
deriving DecidableEq, Repr

/-- `ValidateRequirements`, statement by statement: the list of complaints (`errs`) -/
def validateErrs (req caps : Caps) : List ReqErr :=
  let errs : List ReqErr := []
  let errs :=
    if req.os = .unix then
      (if caps.os ≠ .linux ∧ caps.os ≠ .mac then errs ++ [.nonUnix] else errs)
    else if req.os ≠ .any ∧ req.os ≠ caps.os then errs ++ [.otherOS]
    else errs
  let errs :=
    if req.net ≠ .any ∧ req.net ≠ caps.net then
      (if caps.net = .offline then errs ++ [.needsNetwork] else errs ++ [.onlyOffline])
    else errs
  let errs := if req.directFS ∧ ¬ caps.directFS then errs ++ [.needsDirectFS] else errs
  let errs := if req.runningSystem ∧ ¬ caps.runningSystem then errs ++ [.notRunningSystem] else errs
  errs

/-- `ValidateRequirements(p, caps) == nil` -/
def validate (req caps : Caps) : Bool := (validateErrs req caps).isEmpty

/-- `FilterByCapabilities`: the loop `for ex in exs { if Validate(ex) == nil { result = append(result, ex) } }` -/
def filterLoop (caps : Caps) : List Plugin → List Plugin → List Plugin
  | [], result => result
  | ex :: exs, result =>
    filterLoop caps exs (if validate ex.req caps then result ++ [ex] else result)

def filterByCapabilities (exs : List Plugin) (caps : Caps) : List Plugin := filterLoop caps exs []

/-- a name table: `extractorNames` / `detectorNames` / `All` — key ↦ the plugins its initialisers yield -/
abbrev Table := List (String × List Plugin)

/-- every initialiser of every entry of `All`, run once (Go iterates the map; the order is unspecified,
results are compared as sets) -/
def allPlugins (all : Table) : List Plugin := all.flatMap (·.2)

/-- `FromCapabilities` -/
def fromCapabilities (all : Table) (caps : Caps) : List Plugin :=
  filterByCapabilities (allPlugins all) caps

/-- inner loop of `…FromNames`: `if _, ok := resultMap[e.Name()]; !ok { resultMap[e.Name()] = e }` -/
def addAll : List Plugin → List Plugin → List Plugin
  | res, [] => res
  | res, e :: es => addAll (if res.any (fun r => r.name == e.name) then res else res ++ [e]) es

/-- `ExtractorsFromNames` / `DetectorsFromNames`: `.error n` is `unknown extractor "n"`; the result is
the content of `resultMap` (insertion order here; Go returns map order, compared as a set) -/
def fromNamesLoop (t : Table) : List String → List Plugin → Except String (List Plugin)
  | [], res => .ok res
  | n :: ns, res =>
    match t.lookup n with
    | some initers => fromNamesLoop t ns (addAll res initers)
    | none => .error n

def fromNames (t : Table) (names : List String) : Except String (List Plugin) := fromNamesLoop t names []

inductive NameErr | unknown | notExact
deriving DecidableEq, Repr

/-- `ExtractorFromName` -/
def fromName (t : Table) (name : String) : Except NameErr Plugin :=
  match t.lookup name with
  | none => .error .unknown
  | some initers =>
    match initers with
    | [e] => if e.name ≠ name then .error .notExact else .ok e
    | _ => .error .notExact

/-- the part of `ScanConfig` that `EnableRequiredExtractors` reads and writes -/
structure Cfg where
  fs : List Plugin
  st : List Plugin
  enabled : List String
deriving Repr

/-- body of the inner loop of `EnableRequiredExtractors` for one required extractor name `e`;
`.error e` is `required extractor "e" not present in list.go` -/
def enableOne (fsT stT : Table) (c : Cfg) (e : String) : Except String Cfg :=
  if c.enabled.contains e then .ok c else
  match fromName fsT e, fromName stT e with
  | .error _, .error _ => .error e
  | .ok x, .error _ => .ok { enabled := e :: c.enabled, fs := c.fs ++ [x], st := c.st }
  | .error _, .ok y => .ok { enabled := e :: c.enabled, fs := c.fs, st := c.st ++ [y] }
  | .ok x, .ok y => .ok { enabled := e :: c.enabled, fs := c.fs ++ [x], st := c.st ++ [y] }

def enableList (fsT stT : Table) : Cfg → List String → Except String Cfg
  | c, [] => .ok c
  | c, e :: es =>
    match enableOne fsT stT c e with
    | .ok c' => enableList fsT stT c' es
    | .error x => .error x

def enableDets (fsT stT : Table) : Cfg → List Plugin → Except String Cfg
  | c, [] => .ok c
  | c, d :: ds =>
    match enableList fsT stT c d.required with
    | .ok c' => enableDets fsT stT c' ds
    | .error x => .error x

/-- `EnableRequiredExtractors` -/
def enableRequired (fsT stT : Table) (fs st dets : List Plugin) : Except String Cfg :=
  enableDets fsT stT ⟨fs, st, (fs.map (·.name)) ++ (st.map (·.name))⟩ dets

/-- `ValidatePluginRequirements`: the plugins whose validation failed, in order (the joined error);
`[]` is `nil` -/
def validateAll (ps : List Plugin) (caps : Caps) : List String :=
  (ps.filter fun p => !validate p.req caps).map (·.name)

inductive Pre
  | ok (fs st : List Plugin)
  | missing (e : String)
  | invalid (names : List String)
deriving Repr

/-- head of `Scan`: `EnableRequiredExtractors`, then `ValidatePluginRequirements` on fs ++ standalone ++ detectors -/
def precheck (fsT stT : Table) (fs st dets : List Plugin) (caps : Caps) : Pre :=
  match enableRequired fsT stT fs st dets with
  | .error e => .missing e
  | .ok c =>
    match validateAll (c.fs ++ c.st ++ dets) caps with
    | [] => .ok c.fs c.st
    | bad => .invalid bad

def Pre.isOk : Pre → Bool
  | .ok _ _ => true
  | _ => false

/-! the finite products the `decide`d theorems and the exhaustive correspondence run over -/
def allOS : List OS := [.any, .linux, .windows, .mac, .unix]
def allNet : List Net := [.any, .offline, .online]
def allCaps : List Caps :=
  allOS.flatMap fun o => allNet.flatMap fun n => [false, true].flatMap fun d => [false, true].map fun r => ⟨o, n, d, r⟩

end Scalibr.Registry
