/-
Model of `override.go` (C11): `getVersionsGreater`, the candidate scan of `patchVulns` with its `break`
on the first disallowed difference, and the outer re-resolution loop for one package.

Versions are ranks in the order `cmpFunc` induces (`mavenutil.CompareVersions` / `semver.Compare`);
`vs` is `cl.Versions` after `slices.SortFunc`.  `diff` is `Semver().Difference` between ranks,
`aff v r` says vulnerability `v` affects rank `r` (`vulns.IsAffected`).  Re-resolution is the parameter
`resolve` (deps.dev resolver + override client): which version the graph holds after the requirement
was patched to a rank.
-/
import Scalibr.Model.Upgrade
namespace Scalibr.Override
open Scalibr.Upgrade

/-- `getVersionsGreater` on the sorted list: binary search for `vk`, skip it when found -/
def versionsGreater (vs : List Nat) (vk : Nat) : List Nat :=
  let off := (vs.takeWhile (· < vk)).length
  if vs[off]? = some vk then vs.drop (off + 1) else vs.drop off

structure Cand where
  rank : Nat
  diff : Nat      -- difference to vk
  count : Nat     -- vulnerabilities (of those affecting vk) that still affect this version
deriving Repr, DecidableEq

/-- `for _, ver := range versions { … }`: `best` = bestVK when it moved, `bestCount` the remaining vulns -/
def scan (level : Nat) : List Cand → Option Cand → Nat → Option Cand × Nat
  | [], best, bc => (best, bc)
  | c :: cs, best, bc =>
    if !allows level c.diff then (best, bc)             -- break
    else if c.count < bc then
      (if c.count = 0 then (some c, 0) else scan level cs (some c) c.count)
    else scan level cs best bc

/-- one package of one round of `patchVulns`: the version to pin, if any -/
def pick (level : Nat) (cands : List Cand) (n0 : Nat) : Option Cand :=
  if level = lNone then none else
  match scan level cands none n0 with
  | (some b, bc) => if bc < n0 then some b else none
  | (none, _) => none

/-- a one-package universe -/
structure U where
  vs : List Nat
  diff : Nat → Nat → Nat
  nv : Nat
  aff : Nat → Nat → Bool

def vulnsAt (u : U) (r : Nat) : List Nat := (List.range u.nv).filter (u.aff · r)

def cands (u : U) (vk : Nat) : List Cand :=
  (versionsGreater u.vs vk).map fun r => ⟨r, u.diff vk r, ((vulnsAt u vk).filter (u.aff · r)).length⟩

/-- one round for the package: `none` = nothing patched (no vulnerability left, level None, or no better version) -/
def round (u : U) (level vk : Nat) : Option Nat :=
  if (vulnsAt u vk).isEmpty then none else
  (pick level (cands u vk) (vulnsAt u vk).length).map (·.rank)

/-- the outer `for { … }` of `patchVulns` -/
def loop (u : U) (level : Nat) (resolve : Nat → Nat) : Nat → Nat → Nat
  | 0, vk => vk
  | fuel + 1, vk =>
    match round u level vk with
    | none => vk
    | some b => loop u level resolve fuel (resolve b)

end Scalibr.Override
