/-
Model of `override.go` (C11): `getVersionsGreater`, the candidate scan of `patchVulns` with its `break`
on the first disallowed difference, and the outer re-resolution loop for one package.

A version is an identifier (the position of its string in `cl.Versions` after `slices.SortFunc`); the
order `cmpFunc` induces (`mavenutil.CompareVersions` / `semver.Compare`) is the function `rank` on
identifiers — two differently spelled versions that compare equal (`1.0`, `1.0.0`) are two identifiers with
one rank.  That a rank function exists at all is an assumption about the comparator (it must be a total
preorder on the versions at hand): see `Scalibr.Upgrade.rank_exists_iff` and the Maven counterexample
cited there.  `diff` is `Semver().Difference` between identifiers, `aff v x` says vulnerability `v`
affects version `x` (`vulns.IsAffected`, which also looks at the record's explicit `versions` STRINGS, so
it may tell two equal-ranked spellings apart).
-/
import Scalibr.Model.Upgrade
namespace Scalibr.Override
open Scalibr.Upgrade

/-- `getVersionsGreater` on the sorted list (after fix e2a59457): `slices.BinarySearchFunc` returns the first index
whose element does not compare below `vk`; then EVERY element comparing equal to `vk` is skipped (`vk` itself and any
other spelling of it), so only versions strictly above `vk` remain. -/
def versionsGreater (rank : Nat → Nat) (vs : List Nat) (vk : Nat) : List Nat :=
  let off := (vs.takeWhile (fun x => rank x < rank vk)).length
  (vs.drop off).dropWhile (fun x => rank x = rank vk)

structure Cand where
  ver : Nat       -- version identifier
  diff : Nat      -- difference to vk
  count : Nat     -- vulnerabilities (of those affecting vk) that still affect this version
deriving Repr, DecidableEq

/-- `for _, ver := range versions { … }`: `best` = bestVK when it moved, `bestCount` the remaining vulns -/
def scan (level : Nat) : List Cand → Option Cand → Nat → Option Cand × Nat
  | [], best, bc => (best, bc)
  | c :: cs, best, bc =>
    if !allows level c.diff then (best, bc)             -- break
    else if c.count < bc then
      (if c.count = 0 then (some c, 0) else scan level cs (some c) c.count)
    else scan level cs best bc

/-- one package of one round of `patchVulns`: the version to pin, if any -/
def pick (level : Nat) (cands : List Cand) (n0 : Nat) : Option Cand :=
  if level = lNone then none else
  match scan level cands none n0 with
  | (some b, bc) => if bc < n0 then some b else none
  | (none, _) => none

/-- a one-package universe -/
structure U where
  vs : List Nat                 -- version identifiers in sorted order
  rank : Nat → Nat              -- the comparator, as a rank
  diff : Nat → Nat → Nat
  nv : Nat
  aff : Nat → Nat → Bool

def vulnsAt (u : U) (x : Nat) : List Nat := (List.range u.nv).filter (u.aff · x)

def cands (u : U) (vk : Nat) : List Cand :=
  (versionsGreater u.rank u.vs vk).map fun x => ⟨x, u.diff vk x, ((vulnsAt u vk).filter (u.aff · x)).length⟩

/-- one round for the package: `none` = nothing patched (no vulnerability left, level None, or no better version) -/
def round (u : U) (level vk : Nat) : Option Nat :=
  if (vulnsAt u vk).isEmpty then none else
  (pick level (cands u vk) (vulnsAt u vk).length).map (·.ver)

/-- the outer `for { … }` of `patchVulns` when only this package moves: after `PatchRequirement` the graph holds
the pinned version (the resolver law `HonoursPinsM` of the several-package model, specialised to one package) -/
def loop (u : U) (level : Nat) : Nat → Nat → Nat
  | 0, vk => vk
  | fuel + 1, vk =>
    match round u level vk with
    | none => vk
    | some b => loop u level fuel b

/-- `patchVulns` on a dependency that carries a classifier or a non-default type: "cannot fix vulns in artifacts with
classifier or type" (ErrPatchImpossible) whenever a listed vulnerability affects it — the manifest keeps the base version -/
def loopTyped (typed : Bool) (u : U) (level fuel vk : Nat) : Nat :=
  if typed && !(vulnsAt u vk).isEmpty then vk else loop u level fuel vk

end Scalibr.Override
