/-
Model of the layer-scanning image loader (C04): `image.go` — `fillChainLayersWithFilesFromTar`'s loop
body, `populateEmptyDirectoryNodes`, `fillChainLayersWithFileNode`, `inWhiteoutDir` (after fix 6c7dd669:
a whiteout OR non-directory ancestor hides, a missing ancestor does not end the upward search) — on
entries whose names are already cleaned to segment lists (`Model/OverlayImage.lean` does the cleaning,
the size / symlink rejections, the on-disk side and the final-view pruning).

`pathtree.Node` is modelled by the map it implements on valued nodes, `Path → Option Node`
(`Insert` = `upd` when absent, `Get` = application); the trie structure only matters for
`Remove`'s pruning, modelled in `OverlayImage`.

Two formulations are given:
* `loadCore` mirrors the Go loops literally (all chain layers `≥ i` are filled in lock step while
  layer `i`'s tar is read, newest layer first);
* `viewOf` computes one view on its own (layers `j, j-1, …, 0`), carrying the current layer's own
  chain (`own`) next to the view being filled. `Proofs/OverlayLoad.lean` proves they agree.
-/
namespace Scalibr.Overlay

abbrev Path := List String          -- [] is "/"

inductive Kind | dir | file | link
deriving DecidableEq, Repr

/-- `fileNode`: kind (from the mode's type bits), isWhiteout, permission bits, size, content id of a
regular file, targetPath of a symlink (segments after the leading "/"), index of the layer directory
that holds the backing file. -/
structure Node where
  kind : Kind
  wh : Bool
  mode : Nat
  size : Nat
  cid : Nat
  target : List String
  layer : Nat
  virt : Bool            -- isImplicitDir: made up for the parent of a tar entry
deriving DecidableEq, Repr

/-- the valued nodes of a `pathtree.Node[fileNode]`.  (A structure rather than a bare function so that
compiled code builds each tree once instead of re-running the fold that produced it on every lookup.) -/
structure Tree where
  get : Path → Option Node

instance : CoeFun Tree (fun _ => Path → Option Node) := ⟨Tree.get⟩

@[ext] theorem Tree.ext' {a b : Tree} (h : ∀ q, a.get q = b.get q) : a = b := by
  cases a; cases b; congr; funext q; exact h q

def emptyTree : Tree := ⟨fun _ => none⟩

def upd (t : Tree) (p : Path) (n : Node) : Tree := ⟨fun q => if q = p then some n else t.get q⟩

/-- what `inWhiteoutDir` tests on an ancestor's node -/
def Node.blocks (n : Node) : Bool := n.wh || n.kind != .dir

/-- `anc` is a proper ancestor of `p` -/
def isUnder (anc p : Path) : Bool := anc.length < p.length && p.take anc.length == anc

/-- `inWhiteoutDir`, walking up from the parent of the path to the root; the argument is the path reversed -/
def inWhDirUp (t : Tree) : List String → Bool
  | [] => false                                           -- filePath == dirname: at "/"
  | _ :: rd =>
    match t rd.reverse with
    | some n => if n.blocks then true else inWhDirUp t rd
    | none => inWhDirUp t rd                               -- missing ancestor: keep walking up

def inWhDir (t : Tree) (p : Path) : Bool := inWhDirUp t p.reverse

/-- one iteration of `fillChainLayersWithFileNode` -/
def fill1 (t : Tree) (p : Path) (n : Node) : Tree :=
  if (t p).isSome then t                  -- a newer version exists in this chain layer
  else if inWhDir t p then t             -- below a deleted / replaced ancestor
  else upd t p n

/-- a tar entry after name cleaning; `p` is the virtual path -/
structure Entry where
  p : Path
  kind : Kind
  wh : Bool
  mode : Nat
  size : Nat
  cid : Nat
  target : List String
deriving DecidableEq, Repr

def Entry.node (e : Entry) (i : Nat) : Node := ⟨e.kind, e.wh, e.mode, e.size, e.cid, e.target, i, false⟩

/-- the node `populateEmptyDirectoryNodes` makes up for a missing parent (mode = fs.ModeDir only) -/
def implDir (i : Nat) : Node := ⟨.dir, false, 0, 0, 0, [], i, true⟩

/-- the root node `addRootDirectoryToChainLayers` inserts -/
def rootNode (i : Nat) : Node := ⟨.dir, false, 0, 0, 0, [], i, false⟩
def rootTree (i : Nat) : Tree := ⟨fun q => if q = [] then some (rootNode i) else none⟩

/-- `*existingNode = *dirNode`: the implicit directory node that layer `i` made up at `p` is shared by every chain
layer it was filled into; the tar's own directory entry overwrites it in place, wherever it sits -/
def upgrade (i : Nat) (t : Tree) (p : Path) (n : Node) : Tree :=
  match t.get p with
  | some y => if y.virt && y.layer == i then upd t p n else t
  | none => t

abbrev Layer := List Entry

/-- proper non-root prefixes of `p`, shortest first (the directories `populateEmptyDirectoryNodes` visits
after "/") -/
def parents (p : Path) : List Path := ((List.range p.length).drop 1).map fun k => p.take k

/-! ### literal formulation: all chain layers in lock step -/

def fillNode (chains : List Tree) (i : Nat) (p : Path) (n : Node) : List Tree :=
  chains.mapIdx fun j t => if j < i then t else fill1 t p n

def populate (chains : List Tree) (i : Nat) (p : Path) : List Tree :=
  (parents p).foldl (fun cs d =>
    if ((cs.getD i emptyTree) d).isSome then cs else fillNode cs i d (implDir i)) chains

/-- what happens to an accepted entry once the "already in this chain layer" test has passed -/
def fillEntry (chains : List Tree) (i : Nat) (e : Entry) : List Tree :=
  fillNode (populate chains i e.p) i e.p (e.node i)

/-- the tar's own entry for a directory that an earlier entry of the same tar created implicitly (fix <P3>) -/
def upgrades (own : Tree) (e : Entry) : Bool :=
  match own.get e.p with
  | some x => x.virt && e.kind == .dir && !e.wh
  | none => false

def upgradeAll (chains : List Tree) (i : Nat) (e : Entry) : List Tree :=
  chains.mapIdx fun j t => if j < i then t else upgrade i t e.p (e.node i)

def processEntryC (i : Nat) (chains : List Tree) (e : Entry) : List Tree :=
  if ((chains.getD i emptyTree) e.p).isSome then
    (if upgrades (chains.getD i emptyTree) e then upgradeAll chains i e else chains)
  else fillEntry chains i e

/-- the reverse loop of `FromV1Image` over chain layers `n-1 … 0` (an empty chain layer has no entries) -/
def loadFrom (layers : List Layer) : Nat → List Tree → List Tree
  | 0, chains => chains
  | i+1, chains => loadFrom layers i ((layers.getD i []).foldl (processEntryC i) chains)

def initChains (n : Nat) : List Tree := (List.range n).map rootTree

def loadCore (layers : List Layer) : List Tree := loadFrom layers layers.length (initChains layers.length)

/-! ### one view on its own -/

/-- `(own, v)`: chain layer `i` (the layer being read) and the later view being filled -/
def parentsFold (i : Nat) (ov : Tree × Tree) (ds : List Path) : Tree × Tree :=
  ds.foldl (fun (ov : Tree × Tree) d =>
    if (ov.1 d).isSome then ov else (fill1 ov.1 d (implDir i), fill1 ov.2 d (implDir i))) ov

def entryStep (i : Nat) (st : Tree × Tree) (e : Entry) : Tree × Tree :=
  if (st.1 e.p).isSome then
    (if upgrades st.1 e then (upgrade i st.1 e.p (e.node i), upgrade i st.2 e.p (e.node i)) else st)
  else
  let ov := parentsFold i st (parents e.p)
  (fill1 ov.1 e.p (e.node i), fill1 ov.2 e.p (e.node i))

/-- effect of reading layer `i` on a later view `v` -/
def revLayer (i : Nat) (v : Tree) (l : Layer) : Tree := (l.foldl (entryStep i) (rootTree i, v)).2

/-- fold over layers `k-1, …, 0` (the first `k` layers, newest first) -/
def revFrom (layers : List Layer) : Nat → Tree → Tree
  | 0, v => v
  | i+1, v => revFrom layers i (revLayer i v (layers.getD i []))

/-- view `j` before the final pruning: layers `j, j-1, …, 0` fill a tree that starts with the root only
(for layer `j` itself the view and the layer's own chain are the same tree) -/
def viewOf (layers : List Layer) (j : Nat) : Tree := revFrom layers (j+1) (rootTree j)

/-! ### what a view shows (`FS.Stat` without symlink resolution, `ReadDir` filter) -/

inductive Obs
  | absent
  | dir (mode : Nat)
  | file (mode size cid : Nat)
  | link (mode : Nat) (target : List String)
deriving DecidableEq, Repr

def Node.obs (n : Node) : Obs :=
  if n.wh then .absent else
  match n.kind with
  | .dir => .dir n.mode
  | .file => .file n.mode n.size n.cid
  | .link => .link n.mode n.target

def obsOf : Option Node → Obs
  | none => .absent
  | some n => n.obs

end Scalibr.Overlay
