/-
Model of `generatePropertyPatches` / `generatePropertyPatchesAux`
(`guidedremediation/internal/manifest/maven/pomxml.go`, C13), as of fixes 3277e05b (bounds checks) and
d4dd80ce (`setPropertyPatch`: a name never gets two different values).

Go strings are byte strings; the model works on `List Char` (the generator stays in ASCII, where
bytes and runes coincide).  Every Go slice expression `s[a:b]` is the checked `slice`, so an
out-of-range slice would surface as the `panic` outcome; `C13_pom_props_total` shows it never does.
The Go `map[string]string` that collects the patches is the association list in assignment order
(`asMap`: the last assignment to a key wins).
-/
namespace Scalibr.Pom

abbrev Str := List Char

/-- `strings.Index(s, sub)`: `none` is `-1` -/
def indexOf (sub : Str) : Str → Option Nat
  | [] => if sub = [] then some 0 else none
  | c :: cs => if sub.isPrefixOf (c :: cs) then some 0 else (indexOf sub cs).map (· + 1)

/-- `s[a:b]` with Go's run-time check `a ≤ b ≤ len(s)` -/
def slice (s : Str) (a b : Nat) : Option Str :=
  if a ≤ b ∧ b ≤ s.length then some ((s.drop a).take (b - a)) else none

def dollarBrace : Str := ['$', '{']
def closeBrace : Str := ['}']

inductive Out
  | ok (patches : List (Str × Str))
  | no
  | panic
  | fuel        -- the recursion bound of the model was hit (never from `gen`: `C13_pom_props_fuel_adequate`)
deriving Repr, DecidableEq

/-- the resulting Go map: last assignment wins -/
def lookupLast (ps : List (Str × Str)) (k : Str) : Option Str :=
  (ps.reverse.find? (·.1 = k)).map (·.2)

/-- `setPropertyPatch`: `none` = false (the name already has another value) -/
def setPatch (acc : List (Str × Str)) (name v : Str) : Option (List (Str × Str)) :=
  match lookupLast acc name with
  | some prev => if prev ≠ v then none else some (acc ++ [(name, v)])
  | none => some (acc ++ [(name, v)])

/-- `generatePropertyPatchesAux`; `fuel` bounds the recursion depth (each call drops at least the first
placeholder of `s1`), `acc` is the `patches` map so far -/
def aux : Nat → Str → Str → List (Str × Str) → Out
  | 0, _, _, _ => .fuel
  | fuel + 1, s1, s2, acc =>
    match indexOf dollarBrace s1 with
    | none => .no                                               -- start < 0
    | some start =>
      if s2.length < start then .no else
      match slice s1 0 start, slice s2 0 start with
      | some p1, some p2 =>
        if p1 ≠ p2 then .no else
        match indexOf closeBrace s1 with
        | none => .no                                           -- end = -1 < start
        | some e =>
          if e < start then .no else
          match slice s1 (e + 1) s1.length with                 -- s1[end+1:]
          | none => .panic
          | some rest =>
            match indexOf dollarBrace rest with
            | none =>
              -- remainder := s1[end+1:]
              if s2.length < rest.length + start then .no else  -- len(s2)-len(remainder) < start
              match slice s2 (s2.length - rest.length) s2.length with
              | none => .panic
              | some tail =>
                if rest = tail then
                  match slice s1 (start + 2) e, slice s2 start (s2.length - rest.length) with
                  | some name, some v =>
                    (match setPatch acc name v with | some acc' => .ok acc' | none => .no)
                  | _, _ => .panic
                else .no
            | some next =>
              match slice s1 (e + 1) (e + 1 + next), slice s2 start s2.length with
              | some mid, some s2tail =>
                match indexOf mid s2tail with
                | some m =>
                  if m > 0 then
                    match slice s1 (start + 2) e, slice s2 start (start + m), slice s2 (start + m) s2.length with
                    | some name, some v, some s2rest =>
                      (match setPatch acc name v with | some acc' => aux fuel rest s2rest acc' | none => .no)
                    | _, _, _ => .panic
                  else .no
                | none => .no
              | _, _ => .panic
      | _, _ => .panic

/-- `generatePropertyPatches(s1, s2)` -/
def gen (s1 s2 : Str) : Out := aux (s1.length + 1) s1 s2 []

def asMap (ps : List (Str × Str)) : List (Str × Str) :=
  ps.foldl (fun acc p => (acc.filter (·.1 ≠ p.1)) ++ [p]) []

/-- `maven.String.ContainsProperty` -/
def containsProperty (s : Str) : Bool :=
  match indexOf dollarBrace s with
  | some i => (indexOf closeBrace (s.drop (i + 2))).isSome
  | none => false

end Scalibr.Pom
