/-
Models of the record loops of the seven library-decoded lockfile formats of C03 (b). Each model starts at the
DECODED document (the Go struct the extractor ranges over, as produced by encoding/json, BurntSushi/toml or
x/mod/modfile — trusted, exercised only differentially) and mirrors the loop: map insertion and overwrite,
flattening, de-duplication keys, alias / file: / git handling, replace directives, sections.
Go maps are association lists with unique keys (`set` overwrites in place, otherwise appends); iteration order
of a decoded map is the list order of the document (the theorems are about sets of results, and the driver
sorts). Dependency groups and locations are not part of the compared output and are not modelled.
Go string slicing is `goSlice`, which yields `none` (= run-time panic) when the bounds are illegal.
-/
import Scalibr.Model.Parsers.Common
namespace Scalibr.Lockfiles
open Scalibr.Parsers

abbrev Str := List Char

/-- `m[k] = v` on an association list with unique keys -/
def set {κ ν} [DecidableEq κ] (m : List (κ × ν)) (k : κ) (v : ν) : List (κ × ν) :=
  if m.any (fun kv => kv.1 = k) then m.map (fun kv => if kv.1 = k then (k, v) else kv) else m ++ [(k, v)]

def lookup {κ ν} [DecidableEq κ] (m : List (κ × ν)) (k : κ) : Option ν := (m.find? (fun kv => kv.1 = k)).map (·.2)

/-- `s[lo:hi]` -/
def goSlice (s : Str) (lo hi : Nat) : Option Str :=
  if lo ≤ hi ∧ hi ≤ s.length then some ((s.take hi).drop lo) else none

/-- `strings.Contains(s, pat)` -/
def hasInfix (pat : Str) : Str → Bool
  | [] => pat.isEmpty
  | c :: t => (c :: t).take pat.length = pat || hasInfix pat t

/-- `strings.LastIndex(s, string(c))` (`none` = -1) -/
def lastIndexOf (c : Char) : Str → Option Nat
  | [] => none
  | x :: t => match lastIndexOf c t with
    | some i => some (i + 1)
    | none => if x = c then some 0 else none

def trimPrefixV (s : Str) : Str := match s with | 'v' :: t => t | _ => s

/-! ### package-lock.json -/
namespace PackageLock

/-- value stored in the `npmPackageDetailsMap` (without DepGroups) -/
structure Details where
  name : Str
  version : Str
  commit : Str
deriving DecidableEq, Repr

/-- one entry of a v1 `dependencies` map: key, `version`, `commitextractor.TryExtractCommit(version)` (an
external function: regexp + net/url; supplied by the harness), nested `dependencies` -/
inductive Dep where
  | mk (name version commit : Str) (deps : List Dep)
deriving Repr

/-- one entry of a v2/v3 `packages` map: key (path), `name`, `version`, `TryExtractCommit(resolved)` -/
structure LPkg where
  path : Str
  name : Str
  version : Str
  commit : Str
deriving Repr

/-- `packages` is `none` when the JSON key is absent or null (`lockfile.Packages != nil`) -/
structure Doc where
  packages : Option (List LPkg)
  dependencies : List Dep
deriving Repr

abbrev PMap := List (Str × Details)

/-- the alias branch: `npm:<name>@<version>` / `npm:<name>` (fix 7578723d) → (name, finalVersion); `none` = panic -/
def aliasSplit (v : Str) : Option (Str × Str) :=
  match lastIndexOf '@' v with
  | some i =>
    if i > 4 then
      (match goSlice v 4 i, goSlice v (i + 1) v.length with
       | some n, some fv => some (n, fv)
       | _, _ => none)
    else (goSlice v 4 v.length).map fun n => (n, [])
  | none => (goSlice v 4 v.length).map fun n => (n, [])

/-- the body of the loop of `parseNpmLockDependencies` after the nested call: (key, details); `none` = panic -/
def depEntry (name version commit : Str) : Option (Str × Details) :=
  let aliased : Option (Str × Str) :=
    if hasPrefix "npm:".toList version then aliasSplit version else some (name, version)
  match aliased with
  | none => none
  | some (name', fv) =>
    if hasPrefix "file:".toList version then
      some (name' ++ '@' :: version, ⟨name', [], []⟩)
    else if !commit.isEmpty then
      some (name' ++ '@' :: commit, ⟨name', [], commit⟩)
    else
      some (name' ++ '@' :: version, ⟨name', fv, []⟩)

mutual
/-- `parseNpmLockDependencies` over the entries of one map, accumulating into `details`; `none` = panic -/
def parseDeps : List Dep → PMap → Option PMap
  | [], m => some m
  | d :: ds, m => match parseDep d m with
    | none => none
    | some m' => parseDeps ds m'
def parseDep : Dep → PMap → Option PMap
  | .mk name version commit deps, m =>
    match parseDeps deps [] with
    | none => none
    | some nested =>
      let m1 := nested.foldl (fun acc kv => set acc kv.1 kv.2) m
      match depEntry name version commit with
      | none => none
      | some (k, d) =>
        -- fix 4dbc0083: an empty key, or an alias without a target ("npm:"), does not name a package
        if d.name.isEmpty then some m1 else some (set m1 k d)
end

/-- `strings.Split(s, "/")` -/
def splitSlash : Str → Str → List Str
  | [], cur => [cur.reverse]
  | c :: s, cur => if c = '/' then cur.reverse :: splitSlash s [] else splitSlash s (c :: cur)

/-- `extractNpmPackageName` for keys made of non-empty segments other than "." and ".." (for those
`path.Base(path.Dir(k))` / `path.Base(k)` are the last two segments) -/
def npmName (path : Str) : Str :=
  let segs := (splitSlash path []).reverse
  match segs with
  | last :: prev :: _ => if prev.head? = some '@' then prev ++ '/' :: last else last
  | [last] => last
  | [] => []

def pkgEntry (p : LPkg) : Str × Details :=
  let finalName := if p.name.isEmpty then npmName p.path else p.name
  let keyVersion := if !p.commit.isEmpty then p.commit else p.version
  (finalName ++ '@' :: keyVersion, ⟨finalName, p.version, p.commit⟩)

/-- `parseNpmLockPackages` -/
def parsePackages (ps : List LPkg) : PMap :=
  ps.foldl (fun m p => if p.path.isEmpty then m else let e := pkgEntry p; set m e.1 e.2) []

/-- `parseNpmLock` + the conversion loop of `extractPkgLock` -/
def extract (d : Doc) : Outcome (List Details) :=
  match d.packages with
  | some ps => .ok ((parsePackages ps).map (·.2))
  | none => match parseDeps d.dependencies [] with
    | none => .panic
    | some m => .ok (m.map (·.2))

end PackageLock

/-- a reported package -/
structure NV where
  name : Str
  version : Str
deriving DecidableEq, Repr

/-! ### composer.lock — `packages` then `packages-dev`, nothing filtered -/
namespace Composer
structure Doc where
  packages : List NV
  packagesDev : List NV
def extract (d : Doc) : List NV := d.packages ++ d.packagesDev
end Composer

/-! ### Cargo.lock / poetry.lock — one `[[package]]` table per package, nothing filtered -/
namespace Cargo
def extract (pkgs : List NV) : List NV := pkgs.map fun p => ⟨p.name, p.version⟩
end Cargo
namespace Poetry
def extract (pkgs : List NV) : List NV := pkgs.map fun p => ⟨p.name, p.version⟩
end Poetry

/-! ### Pipfile.lock — `default` then `develop`; only `==x` versions; first entry of a name@version key stays -/
namespace Pipfile
structure Doc where
  default : List (Str × Str)     -- name ↦ version field
  develop : List (Str × Str)

/-- `addPkgDetails`; `none` = panic (the slice `Version[2:]`) -/
def addPkgs (details : List (Str × NV)) : List (Str × Str) → Option (List (Str × NV))
  | [] => some details
  | (name, v) :: rest =>
    -- fix ed6d851c: an entry under an empty key does not name a package
    if name.isEmpty || v.isEmpty then addPkgs details rest
    else if !hasPrefix "==".toList v || v.length < 3 then addPkgs details rest
    else match goSlice v 2 v.length with
      | none => none
      | some version =>
        let key := name ++ '@' :: version
        if (lookup details key).isSome then addPkgs details rest
        else addPkgs (details ++ [(key, ⟨name, version⟩)]) rest

def extract (d : Doc) : Outcome (List NV) :=
  match addPkgs [] d.default with
  | none => .panic
  | some m => match addPkgs m d.develop with
    | none => .panic
    | some m' => .ok (m'.map (·.2))
end Pipfile

/-! ### packages.lock.json — every entry of every target framework, a (name, resolved) pair once (fix 455d5282) -/
namespace PackagesLock
/-- framework ↦ (package id ↦ (`resolved`, `type`)) -/
abbrev Doc := List (Str × List (Str × Str × Str))
/-- `info.Type == "Project"`: a reference to another project of the solution (skipped since the fix) -/
def isProject (e : Str × Str × Str) : Bool := e.2.2 = "Project".toList
/-- the `seen` map: the first occurrence of a (name, version) pair is kept -/
def addOnce (acc : List NV) (p : NV) : List NV := if acc.contains p then acc else acc ++ [p]
def entries (d : Doc) : List NV :=
  -- fix 94fb6b98: an entry under an empty key does not name a package
  d.flatMap fun fw => (fw.2.filter fun e => !isProject e && !e.1.isEmpty).map fun p => ⟨p.1, p.2.1⟩
def extract (d : Doc) : List NV := (entries d).foldl addOnce []
end PackagesLock

/-! ### go.mod -/
namespace GoMod
structure Replace where
  oldPath : Str
  oldVersion : Str
  newPath : Str
  newVersion : Str
deriving Repr

structure Doc where
  requires : List (Str × Str)
  replaces : List Replace
  goVersion : Str          -- "" when there is no `go` directive
  toolchain : Str          -- "" when there is no `toolchain` directive
deriving Repr

abbrev KMap := List ((Str × Str) × NV)

def addRequire (m : KMap) (r : Str × Str) : KMap :=
  let v := trimPrefixV r.2
  set m (r.1, v) ⟨r.1, v⟩

/-- one `replace` directive applied to the map -/
def applyReplace (m : KMap) (rp : Replace) : KMap :=
  let new : NV := ⟨rp.newPath, trimPrefixV rp.newVersion⟩
  if rp.oldVersion.isEmpty then
    -- all entries REQUIRED under the old path (the key): the result of a replacement is not replaced again
    m.map fun kv => if kv.1.1 = rp.oldPath then (kv.1, new) else kv
  else
    -- only the entry stored under the ORIGINAL key (old path, old version)
    let k := (rp.oldPath, trimPrefixV rp.oldVersion)
    m.map fun kv => if kv.1 = k then (kv.1, new) else kv

/-- `strings.Cut(toolchain, "-")` then `TrimPrefix(_, "go")` -/
def toolchainVersion (t : Str) : Str :=
  let v := match cutAt '-' t with | some (a, _) => a | none => t
  match v with | 'g' :: 'o' :: r => r | _ => v

def stdlibVersion (d : Doc) : Str := if !d.toolchain.isEmpty then toolchainVersion d.toolchain else d.goVersion

/-- the order the directives are applied in: the wildcard ones first, the version-specific ones overwrite them -/
def ordered (d : Doc) : List Replace :=
  d.replaces.filter (fun rp => rp.oldVersion.isEmpty) ++ d.replaces.filter (fun rp => !rp.oldVersion.isEmpty)

/-- `extractGoMod` (the go.sum branch for go < 1.17 needs a sibling file and is outside the model) -/
def extract (d : Doc) : List NV :=
  let m0 := d.requires.foldl addRequire []
  let m1 := (ordered d).foldl applyReplace m0
  let sv := stdlibVersion d
  let m2 := if sv.isEmpty then m1 else set m1 ("stdlib".toList, []) ⟨"stdlib".toList, sv⟩
  -- final de-duplication pass keyed by the CURRENT (name, version)
  (m2.foldl (fun acc kv => set acc (kv.2.name, kv.2.version) kv.2) ([] : KMap)).map (·.2)

/-- what the go.sum branch reads: `none` = go.sum cannot be opened, or one of its lines does not have three fields (the error is logged
and the go.mod result returned as it is); `some es` = the (module, version) fields of its non-empty lines -/
abbrev Sum := Option (List (Str × Str))

/-- one go.sum line: the version loses its leading "v"; `<version>/go.mod` lines (hashes of go.mod files) are skipped -/
def sumEntry (e : Str × Str) : Option NV :=
  let v := trimPrefixV e.2
  if hasInfix "/go.mod".toList v then none else some ⟨e.1, v⟩

/-- the merge loop of `Extract`: a go.sum module that is not yet reported under that (name, version) is added -/
def addSum (acc : List NV) (p : NV) : List NV := if acc.contains p then acc else acc ++ [p]

/-- `Extract` with the go.sum branch: `older` = the go / toolchain version is set and older than go1.17 (`version.Compare`, supplied
by the harness); then every module of go.sum is reported too -/
def extractWithSum (d : Doc) (older : Bool) (sum : Sum) : List NV :=
  match older, sum with
  | true, some es => (es.filterMap sumEntry).foldl addSum (extract d)
  | _, _ => extract d
end GoMod

end Scalibr.Lockfiles
