/-
C16(b) — linearization of the request cache.  `LSt` wraps the transition system of Model/Cache.lean (field `base`,
stepped by the same `step`) with ghosts that never influence `base`:

  now      a clock, +1 per action
  tLook t  the time of caller t's first critical section (the earliest event of its `Get` the model sees)
  tRet t   the time caller t's result became available to it (hit: lookup; fetcher: publish; waiter: wake)
  waiters  the callers blocked on each pending call
  lin      the linearization: a sequential history of operations with the time of their linearization point
             Get, cache hit       at its lookup
             Get, own fetch       at its publish
             Get, joined a call   at that call's publish, right after the fetcher (so a shared error is an error
                                  for every waiter, whatever happens to the key before the waiter wakes up)
             SetMap / GetMap      at their (atomic) step

The sequential specification is a map with fetch-on-miss: `Get(k)` returns the stored value if there is one, otherwise
the outcome `o` of its fetch, which is stored when it is a success.  For a waiter `o` is the outcome of the fetch it
joined (single flight: it did not run the function itself).
-/
import Scalibr.Model.Cache
namespace Scalibr.Cache

inductive LinOp
  | get (t : Nat) (k : K) (ret : R)     -- caller, key, what it returned (on a miss: the outcome of the fetch it used)
  | set (m : K → Option V)
  | snap (m : K → Option V)

def LinOp.caller : LinOp → Option Nat
  | .get t _ _ => some t
  | _ => none

def LinOp.snapOf : LinOp → Option (K → Option V)
  | .snap m => some m
  | _ => none

def LinOp.setOf : LinOp → Option (K → Option V)
  | .set m => some m
  | _ => none

def Act.setOf : Act → Option (K → Option V)
  | .setMap m => some m
  | _ => none

/-- the callers of `Get` that have been linearized, in linearization order -/
def callers (lin : List (Nat × LinOp)) : List Nat := lin.filterMap (fun e => e.2.caller)

structure LSt where
  base : St
  waiters : Cid → List Nat
  lin : List (Nat × LinOp)
  now : Nat
  tLook : Nat → Option Nat
  tRet : Nat → Option Nat

def lstep (l : LSt) (a : Act) : LSt :=
  let s := l.base
  let now' := l.now + 1
  match a with
  | .lookup t =>
    match s.pcs t with
    | .start k =>
      match s.cache k with
      | some v => { l with base := step s a, now := now', lin := l.lin ++ [(now', .get t k (.ok v))],
                           tLook := upd l.tLook t (some now'), tRet := upd l.tRet t (some now') }
      | none =>
        match s.calls k with
        | some c => { l with base := step s a, now := now', waiters := upd l.waiters c (l.waiters c ++ [t]),
                             tLook := upd l.tLook t (some now') }
        | none => { l with base := step s a, now := now', tLook := upd l.tLook t (some now') }
    | _ => { l with base := step s a, now := now' }
  | .publish t r =>
    match s.pcs t with
    | .fetching c k =>
      { l with base := step s a, now := now',
               lin := l.lin ++ (now', .get t k r) :: (l.waiters c).map (fun w => (now', .get w k r)),
               tRet := upd l.tRet t (some now') }
    | _ => { l with base := step s a, now := now' }
  | .wake t =>
    match s.pcs t with
    | .waiting c _ =>
      match s.results c with
      | some _ => { l with base := step s a, now := now', tRet := upd l.tRet t (some now') }
      | none => { l with base := step s a, now := now' }
    | _ => { l with base := step s a, now := now' }
  | .setMap m => { l with base := step s a, now := now', lin := l.lin ++ [(now', .set m)] }
  | .getMap => { l with base := step s a, now := now', lin := l.lin ++ [(now', .snap s.cache)] }

def linit (keyOf : Nat → Option K) : LSt :=
  { base := init keyOf, waiters := fun _ => [], lin := [], now := 0, tLook := fun _ => none, tRet := fun _ => none }

def lrunFrom (l : LSt) (as : List Act) : LSt := as.foldl lstep l
def lrun (keyOf : Nat → Option K) (as : List Act) : LSt := lrunFrom (linit keyOf) as

/-- the sequential specification: a map with fetch-on-miss -/
inductive SpecStep : (K → Option V) → LinOp → (K → Option V) → Prop
  | hit {m t k v} : m k = some v → SpecStep m (.get t k (.ok v)) m
  | missOk {m t k v} : m k = none → SpecStep m (.get t k (.ok v)) (upd m k (some v))     -- fetch succeeded: stored
  | missErr {m t k} : m k = none → SpecStep m (.get t k .err) m                          -- fetch failed: nothing stored
  | set {m m'} : SpecStep m (.set m') m'
  | snap {m} : SpecStep m (.snap m) m

inductive SpecRun : (K → Option V) → List LinOp → (K → Option V) → Prop
  | nil {m} : SpecRun m [] m
  | cons {m m' m'' op ops} : SpecStep m op m' → SpecRun m' ops m'' → SpecRun m (op :: ops) m''

/-- SetMap is only called while no fetch is in flight (loading a saved cache before the client is used) -/
def stepOK (s : St) : Act → Prop
  | .setMap _ => ∀ k, s.calls k = none
  | _ => True

def RunOK : St → List Act → Prop
  | _, [] => True
  | s, a :: as => stepOK s a ∧ RunOK (step s a) as

end Scalibr.Cache
