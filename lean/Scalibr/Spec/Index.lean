/-
Specification of the package index: each query is a filter of the list the index was built from.
-/
import Scalibr.Model.Index
namespace Scalibr.Index

def hasPurl (p : Pkg) : Bool := p.purl.isSome
def purlType (p : Pkg) : Option String := p.purl.map (·.1)
def specAll (pkgs : List Pkg) : List Pkg := pkgs.filter hasPurl
def specOfType (pkgs : List Pkg) (t : String) : List Pkg := pkgs.filter fun p => purlType p = some t
def specSpecific (pkgs : List Pkg) (n t : String) : List Pkg := pkgs.filter fun p => p.purl = some (t, n)

end Scalibr.Index
