/-
Declarative anchor for the two STRUCTURAL walk specifications (`traversalFault…` of `Spec/Walk.lean`,
`visits…` of `Spec/WalkCount.lean`).

Both of those are re-traversals of the tree that repeat the walk's own case split.  Here the same two
notions are written in the style of `allFiles`/`mustOne`: ONE enumeration of every node of the tree
(files AND directories) with the chain of directories above it, and plain non-recursive predicates on
one enumerated record:

* `visitedRec`   — the walk gets to this node (every directory above it lets the walk through);
* `toldFault`    — the filesystem failure `handleFile` is told about AT this node;
* `secondCalls`  — the extra `handleFile` calls this node causes beyond the one for its inode.

`reachableInodes` = number of visited records = INODES the walk processes.  `visits` (handleFile CALLS)
is `reachableInodes` plus the second calls (`Proofs/WalkAnchor.lean`): an entered directory that cannot
be opened costs 2 calls for 1 inode, a failing `ReadDir(1)` costs 1 call for no inode, a start path that
cannot be stat'ed / does not exist costs 1 call for no inode.
-/
import Scalibr.Spec.Walk
import Scalibr.Spec.WalkCount
namespace Scalibr.Walk

/-- what an enumerated node is, without its subtree: a directory keeps only its `.gitignore` content and
the number of its entries (reads `0 … nEntries` of its listing exist; read `nEntries` is the EOF read) -/
inductive NodeShape
  | file (k : Kind) (sz : Nat)
  | dir (gi : Option PatSet) (nEntries : Nat)
deriving Repr

structure NodeRec where
  path : Path
  shape : NodeShape
  dirs : List DirInfo     -- from the start directory (inclusive) to the node's parent, outermost first
deriving Repr

mutual
/-- every node below (or at) `p` — files and directories, `p` itself included — with the directories
above it; same order and same chains as `allFiles` -/
def allNodes (p : Path) (anc : List DirInfo) : Node → List NodeRec
  | .file k sz => [⟨p, .file k sz, anc⟩]
  | .dir gi es => ⟨p, .dir gi es.length, anc⟩ :: allNodesList p gi anc es 0
def allNodesList (p : Path) (gi : Option PatSet) (anc : List DirInfo) : List (String × Node) → Nat → List NodeRec
  | [], _ => []
  | (s, n) :: rest, i => allNodes (p ++ [s]) (anc ++ [⟨p, gi, i⟩]) n ++ allNodesList p gi anc rest (i+1)
end

/-- the walk gets to this node: every directory above it is not excluded, can be opened, and its
listing did not fail at or before the entry leading on (the first conjunct of `reached`) -/
def visitedRec (c : Cfg) (f : Faults) (above : List GiEntry) (r : NodeRec) : Bool :=
  (List.range r.dirs.length).all (dirPasses c f above r.dirs)

/-- some read `0 … n` of the listing of directory `p` fails (`n` = number of entries: the EOF read) -/
def listingFails (f : Faults) (p : Path) (n : Nat) : Bool :=
  (List.range (n + 1)).any fun k => f.readEntryFail p k

/-- the filesystem failure `handleFile` is told about AT this node (given that the walk gets to it):
the failing size stat of an eligible file some extractor requires; for a directory that is entered, its
unreadable `.gitignore`, the failing `Open`, or a failing read of its listing -/
def toldFault (c : Cfg) (f : Faults) (above : List GiEntry) (r : NodeRec) : Bool :=
  match r.shape with
  | .file k _ =>
    !((k = .special) || (k = .symlink && !c.readSymlinks)) &&
    !(c.useGitignore && stackMatch c (above ++ r.dirs.map (giEntryOf f)) (tokens r.path) false) &&
    (List.range c.nExt).any (fun e => c.required e r.path) && decide (c.maxFileSize > 0) && f.statFail r.path
  | .dir _ n =>
    !excludedDir c (above ++ r.dirs.map (giEntryOf f)) r.path &&
    ((c.useGitignore && f.openFail (r.path ++ [".gitignore"])) || f.openFail r.path || listingFails f r.path n)

/-- extra `handleFile` calls a visited node causes: none for a file or an excluded directory; an entered
directory that cannot be opened is reported by a second call; otherwise the first failing read of its
listing is reported by one more call (and ends the listing) -/
def secondCalls (c : Cfg) (f : Faults) (above : List GiEntry) (r : NodeRec) : Nat :=
  match r.shape with
  | .file _ _ => 0
  | .dir _ n =>
    if excludedDir c (above ++ r.dirs.map (giEntryOf f)) r.path then 0
    else if f.openFail r.path then 1
    else if listingFails f r.path n then 1
    else 0

/-! ### inodes a walk processes -/

/-- number of inodes (files and directories) the walk of node `n` at `p` gets to -/
def reachableInodes (c : Cfg) (f : Faults) (above : List GiEntry) (p : Path) (n : Node) : Nat :=
  ((allNodes p [] n).filter (visitedRec c f above)).length

/-- one requested path: a start path that cannot be stat'ed or does not exist is no inode (although it
costs one `handleFile` call); a requested file is one inode -/
def reachableInodesRequested (c : Cfg) (f : Faults) (root : Node) (p : Path) : Nat :=
  if f.statFail p then 0 else
  match lookup root p with
  | none => 0
  | some (.dir gi es) => reachableInodes c f (if c.useGitignore then (parentGis f root p).1 else []) p (.dir gi es)
  | some (.file _ _) => 1

def reachableInodesRoot (c : Cfg) (f : Faults) (root : Node) : Nat :=
  if c.paths.isEmpty then (if f.statFail [] then 0 else reachableInodes c f [] [] root)
  else (c.paths.map (reachableInodesRequested c f root)).sum

/-- inodes processed by a whole scan that runs to the end -/
def reachableInodesScan (c : Cfg) (roots : List (Node × Faults)) : Nat :=
  (roots.map fun (r, f) => reachableInodesRoot c f r).sum

/-! ### `handleFile` calls, declaratively: one per visited node plus its second calls -/

def callsFrom (c : Cfg) (f : Faults) (above : List GiEntry) (p : Path) (n : Node) : Nat :=
  (((allNodes p [] n).filter (visitedRec c f above)).map fun r => 1 + secondCalls c f above r).sum

/-! ### failures a scan is told about, declaratively -/

/-- some node the walk gets to has a failure `handleFile` is told about -/
def toldFaultFrom (c : Cfg) (f : Faults) (above : List GiEntry) (p : Path) (n : Node) : Bool :=
  (allNodes p [] n).any fun r => visitedRec c f above r && toldFault c f above r

/-- one requested path: it cannot be stat'ed or does not exist; or (gitignore on) a `.gitignore` of a
directory above a requested directory is unreadable; or a told fault below it.  A requested *file* is
taken as is (links followed, no gitignore). -/
def toldFaultRequested (c : Cfg) (f : Faults) (root : Node) (p : Path) : Bool :=
  if f.statFail p then true else
  match lookup root p with
  | none => true
  | some (.dir gi es) =>
    (c.useGitignore && (parentGis f root p).2) ||
      toldFaultFrom c f (if c.useGitignore then (parentGis f root p).1 else []) p (.dir gi es)
  | some (.file k sz) => toldFault { c with useGitignore := false } f [] ⟨p, .file (statKind k) sz, []⟩

def toldFaultRoot (c : Cfg) (f : Faults) (root : Node) : Bool :=
  if c.paths.isEmpty then (f.statFail [] || toldFaultFrom c f [] [] root)
  else c.paths.any (toldFaultRequested c f root)

def toldFaultScan (c : Cfg) (roots : List (Node × Faults)) : Bool :=
  roots.any fun (r, f) => toldFaultRoot c f r

/-- hypothesis of "calls = inodes": no operation of this root's filesystem fails -/
def NoFaultsAt (f : Faults) : Prop :=
  (∀ p, f.openFail p = false) ∧ (∀ p, f.statFail p = false) ∧ (∀ p k, f.readEntryFail p k = false)

end Scalibr.Walk
