/-
Specification of the severity selection of `remediation.MatchVuln` (C18's second entry point), stated with the OSV rule
`specAffected` instead of the code's decision procedure: for the vulnerable package of a subgraph the severities that count are
those of the first `affected[]` entry (in record order) that — taken as a record on its own — affects that package version by the
OSV rule; entries for other packages or ecosystems are never selected. The rest of the filter (ignored ids, dev-only, score
threshold, depth) is stated as the code computes it: it is carried along so that a wrong selection is visible in `MatchVuln`'s
answer, and is not a claim of C18.
-/
import Scalibr.Spec.Vulns
import Scalibr.Model.MatchVuln
namespace Scalibr.Vulns

def specSelectedFor (known : Nat → Bool) (affected : List AffS) (p : Pkg) : List Nat :=
  match affected.find? (fun x => specAffectedB known [x.a] p) with
  | some x => x.sev
  | none => []

def specSeverities (known : Nat → Bool) (v : VulnM) : List Nat :=
  if v.topSev.isEmpty then v.subs.flatMap fun sg => specSelectedFor known v.affected sg.pkg
  else v.topSev

def specMatchVuln (score : Nat → Option Int) (known : Nat → Bool) (o : MOpts) (v : VulnM) : Bool :=
  !(matchID v o.ignore) && !(!o.devDeps && v.devOnly) &&
    (let m := maxScore score (specSeverities known v); decide (m ≥ roundH o.minH) || decide (m < 0)) &&
    matchDepth v o.maxDepth

end Scalibr.Vulns
