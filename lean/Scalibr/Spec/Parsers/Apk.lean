/-
Specification side of C03 for apk `installed`: what a well-formed database looks like on disk (all layouts)
and which packages it lists.
-/
import Scalibr.Model.Parsers.Apk
import Scalibr.Spec.Parsers.Layout
namespace Scalibr.Parsers.Apk
open Scalibr.Parsers

/-- one package as the generator knows it, with the layout of its own stanza: unrelated fields before, between
and after the `P:` / `V:` lines, and which of the two comes first -/
structure GRec where
  name : List Char
  ver : List Char
  pre : List (List Char × List Char) := []
  mid : List (List Char × List Char) := []
  post : List (List Char × List Char) := []
  vFirst : Bool := false
deriving Repr

def fields (r : GRec) : List (List Char × List Char) :=
  let p := (['P'], r.name)
  let v := (['V'], r.ver)
  r.pre ++ [if r.vFirst then v else p] ++ r.mid ++ [if r.vFirst then p else v] ++ r.post

def fieldLine (kv : List Char × List Char) : Line := kv.1 ++ ':' :: kv.2

def recLines (r : GRec) : List Line := (fields r).map fieldLine

/-- file-level layout: `lead` blank lines first, `gap i + 1` blank lines after the i-th record (except the last),
`tail` blank lines after the last record, and the line endings -/
structure Layout where
  lead : Nat := 0
  gap : Nat → Nat := fun _ => 0
  tail : Nat := 0
  eols : Eols := ⟨[], true⟩

def bodyLines (gap : Nat → Nat) : Nat → List GRec → List Line
  | _, [] => []
  | _, [r] => recLines r
  | i, r :: r' :: rest => recLines r ++ List.replicate (gap i + 1) [] ++ bodyLines gap (i + 1) (r' :: rest)

def fileLines (ℓ : Layout) (rs : List GRec) : List Line :=
  List.replicate ℓ.lead [] ++ bodyLines ℓ.gap 0 rs ++ List.replicate ℓ.tail []

/-- the bytes of the database -/
def render (ℓ : Layout) (rs : List GRec) : List Char :=
  unlines (fileLines ℓ rs) ℓ.eols.crlf ℓ.eols.final


/-- an unrelated field: any key without ':' other than `P` and `V` -/
def extraOK (kv : List Char × List Char) : Prop :=
  okText kv.1 ∧ okText kv.2 ∧ ':' ∉ kv.1 ∧ kv.1 ≠ ['P'] ∧ kv.1 ≠ ['V']

/-- legal alphabet: non-empty name and version, no CR/LF anywhere, lines below the scanner's token limit -/
def WFrec (r : GRec) : Prop :=
  r.name ≠ [] ∧ r.ver ≠ [] ∧ okText r.name ∧ okText r.ver ∧
  (∀ kv ∈ r.pre ++ r.mid ++ r.post, extraOK kv) ∧
  (∀ kv ∈ fields r, (fieldLine kv).length + 1 < maxTok)

instance (kv : List Char × List Char) : Decidable (extraOK kv) := by unfold extraOK; infer_instance
instance (r : GRec) : Decidable (WFrec r) := by unfold WFrec; infer_instance

def WF (rs : List GRec) : Prop := ∀ r ∈ rs, WFrec r
instance (rs : List GRec) : Decidable (WF rs) := by unfold WF; infer_instance

/-- a file without a final newline ends in the last line of the last record -/
def LayoutOK (ℓ : Layout) (rs : List GRec) : Prop := ℓ.eols.final = false → ℓ.tail = 0 ∧ rs ≠ []

instance (ℓ : Layout) (rs : List GRec) : Decidable (LayoutOK ℓ rs) := by unfold LayoutOK; infer_instance

/-- every record of an apk database is an installed package -/
def installed (rs : List GRec) : List (List Char × List Char) := rs.map fun r => (r.name, r.ver)

end Scalibr.Parsers.Apk
