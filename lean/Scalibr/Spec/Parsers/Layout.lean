/-
Serialisation layouts shared by the line formats of C03 (a): how a list of lines becomes bytes.
Every line gets its own line ending (LF or CRLF — a uniform LF or CRLF file is a special case) and the
last line may or may not be terminated.
-/
import Scalibr.Model.Parsers.Common
namespace Scalibr.Parsers

/-- line endings of a file: per line CRLF (`true`) or LF (`false`; also when the list runs out), and whether
the last line is terminated at all -/
structure Eols where
  crlf : List Bool
  final : Bool
deriving Repr

def eol (b : Bool) : List Char := if b then ['\r', '\n'] else ['\n']

/-- lines → bytes -/
def unlines : List Line → List Bool → Bool → List Char
  | [], _, _ => []
  | [l], cr, fin => l ++ (if fin then eol (cr.headD false) else [])
  | l :: l' :: ls, cr, fin => l ++ eol (cr.headD false) ++ unlines (l' :: ls) cr.tail fin

/-- a line the generator may write: no CR/LF inside and short enough for `bufio.Scanner` even with a CR added -/
def cleanLine (l : Line) : Prop := '\n' ∉ l ∧ '\r' ∉ l ∧ l.length + 1 < maxTok

/-- an unterminated file cannot end in an empty line (those bytes are the same file with one line less) -/
def endsOK (ls : List Line) (fin : Bool) : Prop := fin = false → ls.getLast? ≠ some []

/-- printable ASCII other than white space -/
def graphic (c : Char) : Prop := 33 ≤ c.toNat ∧ c.toNat ≤ 126
instance (c : Char) : Decidable (graphic c) := by unfold graphic; infer_instance

/-- in-line white space: space, tab, VT, FF -/
def inlineWs (s : List Char) : Prop := ∀ c ∈ s, c = ' ' ∨ c = '\t' ∨ c.toNat = 11 ∨ c.toNat = 12
instance (s : List Char) : Decidable (inlineWs s) := by unfold inlineWs; infer_instance

/-- text that can sit on one line -/
def okText (s : List Char) : Prop := '\n' ∉ s ∧ '\r' ∉ s
instance (s : List Char) : Decidable (okText s) := by unfold okText; infer_instance

end Scalibr.Parsers
