/-
Specification side of C03 for requirements files that include each other (`-r <path>`).
A set of files, each with its own records and layout; an include line names a path RELATIVE TO THE DIRECTORY OF THE
FILE IT STANDS IN (pip's rule, and what requirements.go documents: "Path is relative to the current requirement file's
dir"). What a scan of the top-level file must report: the pins of the top-level file with the location list `[top]`
and the pins of every other file reachable through include lines — each file once, whatever the number of paths or
cycles leading to it — with the location list `[top, that file]` (requirements.go: "Note the path through which we
refer to this requirements.txt file"). Include lines whose target does not exist contribute nothing.
Only the `-r` spelling is an include for the extractor (`--requirement`, `-c`, `--constraint` lines are option lines).
-/
import Scalibr.Spec.Parsers.Requirements
namespace Scalibr.Parsers.Requirements
open Scalibr.Parsers

structure FileSpec where
  path : Line
  ℓ : Layout
  rs : List GRec

def incOf : Filler → Option Line
  | .incl _ t => some t
  | _ => none

/-- include operands of a file, in file order (mirrors `bodyLines`) -/
def bodyIncs (before : Nat → List Filler) : Nat → List GRec → List Line
  | _, [] => []
  | i, _ :: rest => (before i).filterMap incOf ++ bodyIncs before (i + 1) rest

def targets (f : FileSpec) : List Line := bodyIncs f.ℓ.before 0 f.rs ++ f.ℓ.after.filterMap incOf

/-- an option line that is not an include: the character after the '-' is a name character other than 'r'
(`--index-url`, `-i`, `-c`, `-e`, `-f`, `--requirement`, …) -/
def plainOpt : List Char → Bool
  | [] => true
  | c :: _ => (isW c || c = '-' || c = '.') && c != 'r'

def WFfillerT (f : Filler) : Prop :=
  WFfiller f ∧ (match f with | .option t => plainOpt t = true | _ => True)
instance (f : Filler) : Decidable (WFfillerT f) := by
  unfold WFfillerT; cases f <;> infer_instance

def LayoutWFT (ℓ : Layout) (n : Nat) : Prop :=
  (∀ i < n, ∀ f ∈ ℓ.before i, WFfillerT f) ∧ (∀ f ∈ ℓ.after, WFfillerT f)
instance (ℓ : Layout) (n : Nat) : Decidable (LayoutWFT ℓ n) := by unfold LayoutWFT; infer_instance

def WFfile (f : FileSpec) : Prop := WF f.rs ∧ LayoutWFT f.ℓ f.rs.length ∧ LayoutOK f.ℓ f.rs
instance (f : FileSpec) : Decidable (WFfile f) := by unfold WFfile; infer_instance

def content (f : FileSpec) : List Char := render f.ℓ f.rs

/-- the file system the scan sees -/
def filesOf (files : List FileSpec) : Files := files.map fun f => (f.path, content f)

def fileAt (files : List FileSpec) (p : Line) : Option FileSpec := files.find? (fun f => f.path = p)

/-- the file a path denotes during a scan of `top` (the top-level file is read through the scan input) -/
def holder (files : List FileSpec) (top : FileSpec) (p : Line) : Option FileSpec :=
  if p = top.path then some top else fileAt files p

/-- `p` is the top-level file or an existing file that a reachable file includes; the operand is resolved against the
directory of the INCLUDING file (`resolve` = `filepath.Join(filepath.Dir(including), operand)`) -/
inductive Reach (files : List FileSpec) (top : FileSpec) : Line → Prop
  | top : Reach files top top.path
  | step {p q : Line} {f : FileSpec} : Reach files top p → holder files top p = some f →
      q ∈ (targets f).map (resolve p) → (holder files top q).isSome → Reach files top q

/-- the records an included file contributes: its pins with the locations `[top, own path]` -/
def pinsAt (files : List FileSpec) (top p : Line) : List (List Char × List Char × List Line) :=
  match fileAt files p with
  | some f => (installed f.rs).map fun x => (x.1, x.2, [top, p])
  | none => []

/-! ### a checkable certificate for the reachable set

The generator states which files its tree reaches (in the order it discovered them); the claim is CHECKED, not trusted:
`isReachCert` holds exactly for duplicate-free lists of the reachable paths other than the top-level one
(`reachCert_iff` in Proofs/Parsers/RequirementsTree.lean), so `expectedTree` is the multiset the theorem
`C03_requirements_tree_partial` prescribes. -/

/-- resolved include targets of the file at `p` -/
def edges (files : List FileSpec) (top : FileSpec) (p : Line) : List Line :=
  match holder files top p with
  | some f => (targets f).map (resolve p)
  | none => []

/-- every listed path exists and is included by the top-level file or by a path listed before it -/
def chainOK (files : List FileSpec) (top : FileSpec) : List Line → List Line → Bool
  | _, [] => true
  | seen, p :: ps =>
    (seen.any fun s => decide (p ∈ edges files top s)) && (holder files top p).isSome && chainOK files top (p :: seen) ps

/-- every existing include target of a listed file is listed -/
def closedOK (files : List FileSpec) (top : FileSpec) (all : List Line) : Bool :=
  all.all fun s => (edges files top s).all fun y => !(holder files top y).isSome || decide (y ∈ all)

def isReachCert (files : List FileSpec) (top : FileSpec) (ps : List Line) : Bool :=
  decide ps.Nodup && decide (top.path ∉ ps) && chainOK files top [top.path] ps && closedOK files top (top.path :: ps)

/-- what a scan of `top` must report, given the reachable paths -/
def expectedTree (files : List FileSpec) (top : FileSpec) (ps : List Line) : List (List Char × List Char × List Line) :=
  (installed top.rs).map (fun x => (x.1, x.2, [top.path])) ++ ps.flatMap (pinsAt files top.path)

end Scalibr.Parsers.Requirements
