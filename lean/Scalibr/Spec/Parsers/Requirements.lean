/-
Specification side of C03 for `requirements.txt` (core: one requirement per physical line, optional extras,
white space around the operator, trailing comments; comment / blank / option lines in between).
Environment markers, per-requirement options and backslash continuations are exercised by the differential
stream only.
-/
import Scalibr.Model.Parsers.Requirements
import Scalibr.Spec.Parsers.Layout
namespace Scalibr.Parsers.Requirements
open Scalibr.Parsers

/-- the version operators the extractor reports a version for, and the bare name -/
inductive Op where
  | eq3 | eq2 | ge | le | compat | bare
deriving Repr, DecidableEq

def opText : Op → List Char
  | .eq3 => ['=', '=', '=']
  | .eq2 => ['=', '=']
  | .ge => ['>', '=']
  | .le => ['<', '=']
  | .compat => ['~', '=']
  | .bare => []

/-- one requirement with the layout of its line -/
structure GRec where
  name : List Char
  op : Op := .eq2
  ver : List Char
  /-- text between the brackets of an extras list, `none` = no extras -/
  extras : Option (List Char) := none
  lead : List Char := []
  sp1 : List Char := []
  sp2 : List Char := []
  /-- trailing comment: white space before the '#', text after it -/
  comment : Option (List Char × List Char) := none
deriving Repr

def extrasText : Option (List Char) → List Char
  | none => []
  | some inner => '[' :: (inner ++ [']'])

def commentText : Option (List Char × List Char) → List Char
  | none => []
  | some (ws, t) => ws ++ '#' :: t

/-- the requirement itself, as written -/
def core (r : GRec) : List Char :=
  r.name ++ (extrasText r.extras ++ (r.sp1 ++ (opText r.op ++ (r.sp2 ++ r.ver))))

def recLine (r : GRec) : Line := r.lead ++ (core r ++ commentText r.comment)

/-- lines that are not requirements -/
inductive Filler where
  | blank (ws : List Char)
  | comment (ws text : List Char)
  /-- a global option line (`--index-url …`, `-e .`, `-c constraints.txt`, also free-form `-r …` text): starts with '-' -/
  | option (text : List Char)
  /-- `-r<white space><path>`: the packages of that file belong to this one (Spec/Parsers/RequirementsTree.lean); for the
  single-file theorem it is just another option line -/
  | incl (sp target : List Char)
deriving Repr

def fillerLine : Filler → Line
  | .blank ws => ws
  | .comment ws t => ws ++ '#' :: t
  | .option t => '-' :: t
  | .incl sp t => '-' :: 'r' :: (sp ++ t)

structure Layout where
  before : Nat → List Filler := fun _ => []
  after : List Filler := []
  eols : Eols := ⟨[], true⟩

def bodyLines (before : Nat → List Filler) : Nat → List GRec → List Line
  | _, [] => []
  | i, r :: rest => (before i).map fillerLine ++ recLine r :: bodyLines before (i + 1) rest

def fileLines (ℓ : Layout) (rs : List GRec) : List Line := bodyLines ℓ.before 0 rs ++ ℓ.after.map fillerLine

def render (ℓ : Layout) (rs : List GRec) : List Char := unlines (fileLines ℓ rs) ℓ.eols.crlf ℓ.eols.final

/-- spaces and tabs -/
def spTab (s : List Char) : Prop := ∀ c ∈ s, c = ' ' ∨ c = '\t'
instance (s : List Char) : Decidable (spTab s) := by unfold spTab; infer_instance

/-- no white space directly in front of a '-' (a per-requirement option would start there) -/
def optSafe : List Char → Bool
  | c :: d :: t => !(isS c && d = '-') && optSafe (d :: t)
  | _ => true

/-- PEP 440 version characters -/
def verChar (c : Char) : Bool := isW c || c = '.' || c = '+' || c = '!' || c = '-'

/-- legal alphabet of a requirement line: a PEP 508 name (`validPkg` is the extractor's own, repaired,
pattern: letters, digits, `_`, `.`, `-`, first and last alphanumeric or `_`), a PEP 440 version (empty exactly for a
bare name), extras without brackets / ';' / '#' / '$' / line breaks, in-line white space, no white space right
before a '-', a comment introduced by at least one blank, the line below the scanner's limit -/
def WFrec (r : GRec) : Prop :=
  validPkg r.name = true ∧ r.ver.all verChar = true ∧ (r.op = .bare ↔ r.ver = []) ∧
  (∀ e, r.extras = some e → ∀ c ∈ e, c ≠ '[' ∧ c ≠ ']' ∧ c ≠ ';' ∧ c ≠ '#' ∧ c ≠ '$' ∧ c ≠ '\\' ∧ c ≠ '\n' ∧ c ≠ '\r') ∧
  spTab r.lead ∧ spTab r.sp1 ∧ spTab r.sp2 ∧ (r.op = .bare → r.sp2 = [] ∧ r.sp1 = []) ∧
  optSafe (r.lead ++ core r) = true ∧
  (∀ w t, r.comment = some (w, t) → w ≠ [] ∧ spTab w ∧ okText t) ∧
  (recLine r).length + 1 < maxTok

instance (r : GRec) : Decidable (WFrec r) := by
  unfold WFrec
  have d1 : Decidable (∀ e, r.extras = some e → ∀ c ∈ e, c ≠ '[' ∧ c ≠ ']' ∧ c ≠ ';' ∧ c ≠ '#' ∧ c ≠ '$' ∧ c ≠ '\\' ∧ c ≠ '\n' ∧ c ≠ '\r') :=
    match r.extras with
    | none => isTrue (by simp)
    | some e => if h : ∀ c ∈ e, c ≠ '[' ∧ c ≠ ']' ∧ c ≠ ';' ∧ c ≠ '#' ∧ c ≠ '$' ∧ c ≠ '\\' ∧ c ≠ '\n' ∧ c ≠ '\r'
        then isTrue (by intro e' he; cases he; exact h) else isFalse (fun hh => h (hh e rfl))
  have d2 : Decidable (∀ w t, r.comment = some (w, t) → w ≠ [] ∧ spTab w ∧ okText t) :=
    match r.comment with
    | none => isTrue (by simp)
    | some (w, t) => if h : w ≠ [] ∧ spTab w ∧ okText t then isTrue (by intro w' t' he; cases he; exact h)
        else isFalse (fun hh => h (hh w t rfl))
  infer_instance

/-- characters of an include path -/
def pathChar (c : Char) : Bool := isW c || c = '.' || c = '/' || c = '-'

def WFfiller : Filler → Prop
  | .blank ws => spTab ws ∧ ws.length + 1 < maxTok
  | .comment ws t => spTab ws ∧ okText t ∧ (ws ++ '#' :: t).length + 1 < maxTok
  | .option t => okText t ∧ '#' ∉ t ∧ '$' ∉ t ∧ '\\' ∉ t ∧ t.length + 2 < maxTok
  | .incl sp t => spTab sp ∧ t ≠ [] ∧ t.all pathChar = true ∧ t.head? ≠ some '-' ∧ sp.length + t.length + 3 < maxTok
instance (f : Filler) : Decidable (WFfiller f) := by cases f <;> (unfold WFfiller; infer_instance)

def WF (rs : List GRec) : Prop := ∀ r ∈ rs, WFrec r
instance (rs : List GRec) : Decidable (WF rs) := by unfold WF; infer_instance

def LayoutWF (ℓ : Layout) (n : Nat) : Prop :=
  (∀ i < n, ∀ f ∈ ℓ.before i, WFfiller f) ∧ (∀ f ∈ ℓ.after, WFfiller f)
instance (ℓ : Layout) (n : Nat) : Decidable (LayoutWF ℓ n) := by unfold LayoutWF; infer_instance

def LayoutOK (ℓ : Layout) (rs : List GRec) : Prop := endsOK (fileLines ℓ rs) ℓ.eols.final
instance (ℓ : Layout) (rs : List GRec) : Decidable (LayoutOK ℓ rs) := by unfold LayoutOK endsOK; infer_instance

/-- every requirement is reported with the version its operator names (none for a bare name) -/
def installed (rs : List GRec) : List (List Char × List Char) := rs.map fun r => (r.name, r.ver)

end Scalibr.Parsers.Requirements
