/-
Specification side of C03 for `gradle.lockfile`.
-/
import Scalibr.Model.Parsers.Gradle
import Scalibr.Spec.Parsers.Layout
namespace Scalibr.Parsers.Gradle
open Scalibr.Parsers

/-- one locked dependency `group:artifact:version=configurations`, with the white space around its line -/
structure GRec where
  group : List Char
  artifact : List Char
  ver : List Char
  confs : List Char := "compileClasspath".toList
  lead : List Char := []
  trail : List Char := []
deriving Repr

/-- lines that are not dependencies: comments, the `empty=` line, blank lines (possibly white space only) -/
inductive Filler where
  | comment (lead text : List Char)
  | emptyConf (lead text : List Char)
  | blank (ws : List Char)
deriving Repr

def fillerLine : Filler → Line
  | .comment lead t => lead ++ '#' :: t
  | .emptyConf lead t => lead ++ ("empty=".toList ++ t)
  | .blank ws => ws

def recLine (r : GRec) : Line :=
  r.lead ++ (r.group ++ ':' :: (r.artifact ++ ':' :: (r.ver ++ '=' :: (r.confs ++ r.trail))))

/-- file layout: filler lines before the i-th record and after the last one, line endings -/
structure Layout where
  before : Nat → List Filler := fun _ => []
  after : List Filler := []
  eols : Eols := ⟨[], true⟩

def bodyLines (before : Nat → List Filler) : Nat → List GRec → List Line
  | _, [] => []
  | i, r :: rest => (before i).map fillerLine ++ recLine r :: bodyLines before (i + 1) rest

def fileLines (ℓ : Layout) (rs : List GRec) : List Line :=
  bodyLines ℓ.before 0 rs ++ ℓ.after.map fillerLine

def render (ℓ : Layout) (rs : List GRec) : List Char :=
  unlines (fileLines ℓ rs) ℓ.eols.crlf ℓ.eols.final

/-- legal alphabet of a dependency line: group and artifact without ':' and '=', version without '=', the group
starts with a printable character other than '#', no CR/LF, the whole line below the scanner's limit -/
def WFrec (r : GRec) : Prop :=
  (∃ c t, r.group = c :: t ∧ graphic c ∧ c ≠ '#') ∧
  ':' ∉ r.group ∧ '=' ∉ r.group ∧ ':' ∉ r.artifact ∧ '=' ∉ r.artifact ∧ '=' ∉ r.ver ∧
  okText r.group ∧ okText r.artifact ∧ okText r.ver ∧ okText r.confs ∧
  inlineWs r.lead ∧ inlineWs r.trail ∧ (recLine r).length + 1 < maxTok ∧ r.artifact ≠ []   -- a Maven coordinate has a group AND an artifact

instance (r : GRec) : Decidable (WFrec r) := by
  unfold WFrec
  have : Decidable (∃ c t, r.group = c :: t ∧ graphic c ∧ c ≠ '#') :=
    match h : r.group with
    | [] => isFalse (by simp)
    | c :: t => if hc : graphic c ∧ c ≠ '#' then isTrue ⟨c, t, rfl, hc⟩ else isFalse (by
        rintro ⟨c', t', he, hc'⟩; cases he; exact hc hc')
  infer_instance

def WFfiller : Filler → Prop
  | .comment lead t => inlineWs lead ∧ okText t ∧ (lead ++ '#' :: t).length + 1 < maxTok
  | .emptyConf lead t => inlineWs lead ∧ okText t ∧ (lead ++ ("empty=".toList ++ t)).length + 1 < maxTok
  | .blank ws => inlineWs ws ∧ ws.length + 1 < maxTok
instance (f : Filler) : Decidable (WFfiller f) := by cases f <;> (unfold WFfiller; infer_instance)

def WF (rs : List GRec) : Prop := ∀ r ∈ rs, WFrec r
instance (rs : List GRec) : Decidable (WF rs) := by unfold WF; infer_instance

/-- the layout's fillers are well formed (only the first `n` `before` slots are used for `n` records) -/
def LayoutWF (ℓ : Layout) (n : Nat) : Prop :=
  (∀ i < n, ∀ f ∈ ℓ.before i, WFfiller f) ∧ (∀ f ∈ ℓ.after, WFfiller f)
instance (ℓ : Layout) (n : Nat) : Decidable (LayoutWF ℓ n) := by unfold LayoutWF; infer_instance

/-- a file without a final newline must not end in an empty line -/
def LayoutOK (ℓ : Layout) (rs : List GRec) : Prop := endsOK (fileLines ℓ rs) ℓ.eols.final
instance (ℓ : Layout) (rs : List GRec) : Decidable (LayoutOK ℓ rs) := by unfold LayoutOK endsOK; infer_instance

def installed (rs : List GRec) : List (List Char × List Char) :=
  rs.map fun r => (r.group ++ ':' :: r.artifact, r.ver)

end Scalibr.Parsers.Gradle
