/-
Specification side of C03 for `Gemfile.lock`: sections, their entries, every layout.
-/
import Scalibr.Model.Parsers.Gemfile
import Scalibr.Spec.Parsers.Layout
namespace Scalibr.Parsers.Gemfile
open Scalibr.Parsers

/-- one line below a section header -/
inductive Item where
  /-- a locked gem, four spaces deep: `    name (version)` or `    name (version-platform)` -/
  | spec (name ver : List Char) (plat : Option (List Char))
  /-- any other indented line (`  remote: …`, `  revision: …`, `  specs:`, `      dep (~> 1.0)`, `   2.3.7`):
  `indent` spaces (not 0, not 4) followed by text that does not start with a space -/
  | aux (indent : Nat) (text : List Char)
  | blank
deriving Repr

structure GSec where
  name : List Char
  items : List Item
deriving Repr

/-- what follows the version inside the parentheses: nothing, or `-platform` -/
def platTail : Option (List Char) → List Char
  | none => [')']
  | some p => '-' :: (p ++ [')'])

def specText (n v : List Char) (plat : Option (List Char)) : List Char :=
  n ++ ' ' :: '(' :: (v ++ platTail plat)

def itemLine : Item → Line
  | .spec n v p => ' ' :: ' ' :: ' ' :: ' ' :: specText n v p
  | .aux k t => List.replicate k ' ' ++ t
  | .blank => []

def secLines (s : GSec) : List Line := s.name :: s.items.map itemLine

/-- `lead i` blank lines in front of the i-th section header -/
structure Layout where
  lead : Nat → Nat := fun _ => 0
  eols : Eols := ⟨[], true⟩

def bodyLines (lead : Nat → Nat) : Nat → List GSec → List Line
  | _, [] => []
  | i, s :: rest => List.replicate (lead i) [] ++ secLines s ++ bodyLines lead (i + 1) rest

def fileLines (ℓ : Layout) (secs : List GSec) : List Line := bodyLines ℓ.lead 0 secs

def render (ℓ : Layout) (secs : List GSec) : List Char :=
  unlines (fileLines ℓ secs) ℓ.eols.crlf ℓ.eols.final

def WFitem : Item → Prop
  | .spec n v p => n ≠ [] ∧ ' ' ∉ n ∧ v ≠ [] ∧ '-' ∉ v ∧ okText n ∧ okText v ∧ (∀ q, p = some q → okText q) ∧
      (itemLine (.spec n v p)).length + 1 < maxTok
  | .aux k t => k ≠ 0 ∧ k ≠ 4 ∧ t.head? ≠ some ' ' ∧ okText t ∧ (List.replicate k ' ' ++ t).length + 1 < maxTok
  | .blank => True

instance (i : Item) : Decidable (WFitem i) := by
  cases i with
  | spec n v p =>
    unfold WFitem
    have : Decidable (∀ q, p = some q → okText q) := match p with
      | none => isTrue (by simp)
      | some q => if h : okText q then isTrue (by intro q' e; cases e; exact h) else isFalse (fun hh => h (hh q rfl))
    infer_instance
  | aux k t => unfold WFitem; infer_instance
  | blank => unfold WFitem; infer_instance

/-- a section header: non-empty, not starting with a space -/
def WFsec (s : GSec) : Prop :=
  s.name ≠ [] ∧ s.name.head? ≠ some ' ' ∧ okText s.name ∧ s.name.length + 1 < maxTok ∧ ∀ i ∈ s.items, WFitem i
instance (s : GSec) : Decidable (WFsec s) := by unfold WFsec; infer_instance

def WF (secs : List GSec) : Prop := ∀ s ∈ secs, WFsec s
instance (secs : List GSec) : Decidable (WF secs) := by unfold WF; infer_instance

def LayoutOK (ℓ : Layout) (secs : List GSec) : Prop := endsOK (fileLines ℓ secs) ℓ.eols.final
instance (ℓ : Layout) (secs : List GSec) : Decidable (LayoutOK ℓ secs) := by unfold LayoutOK endsOK; infer_instance

def itemPkg : Item → Option (List Char × List Char)
  | .spec n v _ => some (n, v)
  | _ => none

/-- the installed gems: the four-space entries of the source sections GIT, GEM, PATH, PLUGIN SOURCE; four-space
entries of any other section are not packages -/
def installed (secs : List GSec) : List (List Char × List Char) :=
  secs.flatMap fun s => if sourceNames.contains s.name then s.items.filterMap itemPkg else []

end Scalibr.Parsers.Gemfile
