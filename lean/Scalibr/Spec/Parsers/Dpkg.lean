/-
Specification side of C03 for dpkg `status` (the stanza grammar: `Key: value`, continuation lines, blank-line
separators), every layout.
-/
import Scalibr.Model.Parsers.Dpkg
import Scalibr.Spec.Parsers.Layout
namespace Scalibr.Parsers.Dpkg
open Scalibr.Parsers

/-- one field of a stanza as written: key, white space after the colon, first-line value, continuation lines
(each starting with a space or a tab) -/
structure Field where
  key : List Char
  sep : List Char := [' ']
  value : List Char
  cont : List (List Char) := []
deriving Repr, DecidableEq

/-- one package as the generator knows it, with the layout of its stanza -/
structure GRec where
  name : List Char
  ver : List Char
  /-- the three words of `Status: want flag state` -/
  want : List Char := "install".toList
  flag : List Char := "ok".toList
  state : List Char := "installed".toList
  /-- value of the optional `Source` field -/
  source : Option (List Char) := none
  /-- spelling of the significant keys (field names are case-insensitive) and the white space after their colon -/
  keyP : List Char := "Package".toList
  keyS : List Char := "Status".toList
  keyV : List Char := "Version".toList
  keySrc : List Char := "Source".toList
  sepP : List Char := [' ']
  sepS : List Char := [' ']
  sepV : List Char := [' ']
  /-- unrelated fields -/
  extras : List Field := []
  /-- the fields in FILE ORDER: any permutation of the significant fields and the extras -/
  fields : List Field
deriving Repr

def statusValue (r : GRec) : List Char := r.want ++ ' ' :: (r.flag ++ ' ' :: r.state)

/-- the `Version` field; a record that is not installed may have none (`ver = []`: the usual purged / config-files
stanza) -/
def verFields (r : GRec) : List Field := if r.ver = [] then [] else [⟨r.keyV, r.sepV, r.ver, []⟩]

/-- the significant fields -/
def sigFields (r : GRec) : List Field :=
  [⟨r.keyP, r.sepP, r.name, []⟩, ⟨r.keyS, r.sepS, statusValue r, []⟩] ++ verFields r ++
  (match r.source with | some s => [⟨r.keySrc, [' '], s, []⟩] | none => [])

def fieldLines (f : Field) : List Line := (f.key ++ ':' :: (f.sep ++ f.value)) :: f.cont

def recLines (r : GRec) : List Line := r.fields.flatMap fieldLines

/-- file layout as for apk: leading blank lines, `gap i + 1` blank lines after the i-th stanza, trailing blank
lines, line endings -/
structure Layout where
  lead : Nat := 0
  gap : Nat → Nat := fun _ => 0
  tail : Nat := 0
  eols : Eols := ⟨[], true⟩

def bodyLines (gap : Nat → Nat) : Nat → List GRec → List Line
  | _, [] => []
  | _, [r] => recLines r
  | i, r :: r' :: rest => recLines r ++ List.replicate (gap i + 1) [] ++ bodyLines gap (i + 1) (r' :: rest)

def fileLines (ℓ : Layout) (rs : List GRec) : List Line :=
  List.replicate ℓ.lead [] ++ bodyLines ℓ.gap 0 rs ++ List.replicate ℓ.tail []

def render (ℓ : Layout) (rs : List GRec) : List Char :=
  unlines (fileLines ℓ rs) ℓ.eols.crlf ℓ.eols.final

def noSpTab (c : Option Char) : Prop := c ≠ some ' ' ∧ c ≠ some '\t'
instance (c : Option Char) : Decidable (noSpTab c) := by unfold noSpTab; infer_instance

/-- a field the reader accepts: key of header-field bytes, spaces/tabs after the colon, value bytes legal, the
first line neither starts nor ends in white space, continuation lines start with white space; no CR/LF -/
def WFfield (f : Field) : Prop :=
  f.key ≠ [] ∧ f.key.all fieldByte = true ∧ f.sep.all isSpTab = true ∧
  (f.value = [] → f.sep = []) ∧ noSpTab f.value.head? ∧ noSpTab f.value.getLast? ∧
  f.value.all valueByte = true ∧ okText f.value ∧
  (∀ c ∈ f.cont, startsSpTab c = true ∧ c.all valueByte = true ∧ okText c ∧ c.length + 1 < maxTok) ∧
  (f.key ++ ':' :: (f.sep ++ f.value)).length + 1 < maxTok
instance (f : Field) : Decidable (WFfield f) := by unfold WFfield; infer_instance

def word (w : List Char) : Prop := w ≠ [] ∧ ' ' ∉ w
instance (w : List Char) : Decidable (word w) := by unfold word; infer_instance

def sigKeys : List (List Char) := ["Package".toList, "Status".toList, "Version".toList, "Source".toList]

/-- an unrelated field is not named like a significant one (in any letter case) -/
def extraKeyOK (f : Field) : Bool :=
  match canonKey f.key with
  | some k => !sigKeys.contains k
  | none => true

/-- legal stanza: the file order is a permutation of significant fields + extras; the significant keys are
spelled in any letter case; name non-empty; version non-empty when the record is installed (a not-installed record may
lack the `Version` field altogether); `Status` is three words; a `Source` value with " (" ends in
")"; no unrelated field is named like a significant one -/
def WFrec (r : GRec) : Prop :=
  r.fields.Perm (sigFields r ++ r.extras) ∧ (∀ f ∈ r.fields, WFfield f) ∧
  canonKey r.keyP = some "Package".toList ∧ canonKey r.keyS = some "Status".toList ∧
  canonKey r.keyV = some "Version".toList ∧ canonKey r.keySrc = some "Source".toList ∧
  r.name ≠ [] ∧ (r.state = "installed".toList → r.ver ≠ []) ∧ word r.want ∧ word r.flag ∧ word r.state ∧
  (∀ s, r.source = some s → s ≠ [] ∧ (containsSpParen s = true → s.getLast? = some ')')) ∧
  (∀ f ∈ r.extras, extraKeyOK f = true)

instance (r : GRec) : Decidable (WFrec r) := by
  unfold WFrec
  have d1 : Decidable (∀ s, r.source = some s → s ≠ [] ∧ (containsSpParen s = true → s.getLast? = some ')')) :=
    match h : r.source with
    | none => isTrue (by simp)
    | some s => if hs : s ≠ [] ∧ (containsSpParen s = true → s.getLast? = some ')') then isTrue (by intro s' e; cases e; exact hs)
                else isFalse (fun hh => hs (hh s rfl))
  infer_instance

def WF (rs : List GRec) : Prop := ∀ r ∈ rs, WFrec r
instance (rs : List GRec) : Decidable (WF rs) := by unfold WF; infer_instance

def LayoutOK (ℓ : Layout) (rs : List GRec) : Prop := ℓ.eols.final = false → ℓ.tail = 0 ∧ rs ≠ []
instance (ℓ : Layout) (rs : List GRec) : Decidable (LayoutOK ℓ rs) := by unfold LayoutOK; infer_instance

/-- the packages the database marks as installed: third status word `installed` -/
def installed (rs : List GRec) : List (List Char × List Char) :=
  (rs.filter fun r => r.state = "installed".toList).map fun r => (r.name, r.ver)

end Scalibr.Parsers.Dpkg
