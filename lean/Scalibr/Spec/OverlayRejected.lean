/-
C04, entries the loader cannot expose: a regular file at or above MaxFileBytes (C10: it must not be shown) and a
symbolic link pointing out of the root.  The tar entry is still there: applying the layer REPLACES whatever older
layers have at its path ("later entries replace earlier ones").  The view cannot show the new object, and it must
not show the old one either: the path is absent.  The specification therefore reads such an entry as a whiteout
of its path (`specEffective`) — and since fix <P3> so does the loader (`effective`, Model/OverlayImage.lean:
`specEffective_eq`).

The two readings give the same views exactly when no rejected entry has anything older, or of the same archive, at
or beneath its path (`rejectedShadows` = false): then the extra whiteouts delete nothing.  Otherwise the loader shows
the older object: known finding C04/rejected-entry-shows-older-file.
-/
import Scalibr.Model.OverlayImage
import Scalibr.Spec.Overlay
namespace Scalibr.Overlay

/-- the entry as the specification reads it -/
def specEntry (pe : PEntry) : Option Entry :=
  match pe.act with
  | .accept => some pe.e
  | .big => some ⟨pe.e.p, .link, true, pe.e.mode, 0, 0, []⟩
  | .badlink => some ⟨pe.e.p, .link, true, pe.e.mode, 0, 0, []⟩
  | _ => none

def specEffective (l : List PEntry) : Layer := l.filterMap specEntry

/-- since fix <P3> the loader leaves the same whiteout: the two readings are one -/
theorem specEffective_eq (l : List PEntry) : specEffective l = effective l := by
  unfold specEffective effective
  have : specEntry = PEntry.node? := by
    funext pe
    unfold specEntry PEntry.node?
    cases pe.act <;> rfl
  rw [this]

def PEntry.rejected (pe : PEntry) : Bool := pe.act = .big || pe.act = .badlink

/-- some rejected entry of the archive `l` sits at or above a path that an older layer, or another entry of `l`, has -/
def rejectedShadows (older : List Layer) (l : List PEntry) : Bool :=
  l.any fun pe => pe.rejected &&
    (older.any (fun o => o.any fun x => x.p == pe.e.p || isUnder pe.e.p x.p) ||
     (l.filter fun x => x.act = .accept && (x.e.p == pe.e.p || isUnder pe.e.p x.e.p)).length > 0 ||
     (l.filter fun x => x.rejected && x.e.p == pe.e.p).length > 1)

/-- … for view `j` of the chain (layers `0..j`, oldest first) -/
def rejectedShadowsAt (chain : List (List PEntry)) (j : Nat) : Bool :=
  (List.range (j+1)).any fun i => rejectedShadows ((chain.take i).map effective) (chain.getD i [])

end Scalibr.Overlay
