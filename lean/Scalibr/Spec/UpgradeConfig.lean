/-
Specification of the textual upgrade configuration (C11): what a list of `--upgrade-config` entries MEANS, stated on the
entries themselves (package, level word), not on their concatenation.  upgrade.go documents: each string is "pkg:level",
level one of major / minor / patch / none; without a package the level is the default for all packages not named; invalid
strings are ignored, a later string for the same package overwrites an earlier one.  A package name may itself contain
colons (Maven `group:artifact`, or more), a level word never does.
-/
import Scalibr.Model.Upgrade
namespace Scalibr.Upgrade

/-- an intended entry: `bare` = written as the level word alone (only for the default level, `pkg = ""`) -/
structure Entry where
  pkg : List Char
  word : List Char
  bare : Bool
deriving Repr, DecidableEq

/-- the string handed to `NewConfigFromStrings` for an entry -/
def render (e : Entry) : List Char :=
  if e.bare ∧ e.pkg = [] then e.word else e.pkg ++ ':' :: e.word

/-- the level word of an entry does not contain the separator -/
def WFentry (e : Entry) : Prop := ':' ∉ e.word

instance (e : Entry) : Decidable (WFentry e) := by unfold WFentry; infer_instance

/-- the level of the LAST entry that names `p` and carries one of the four level words -/
def lastLevel (es : List Entry) (p : List Char) : Option Nat :=
  es.foldl (fun acc e => if e.pkg = p then (match levelOfWord e.word with | some l => some l | none => acc) else acc) none

/-- the level a package is meant to have: its own last valid entry, else the last valid default entry, else Major -/
def intended (es : List Entry) (p : List Char) : Nat :=
  match lastLevel es p with
  | some l => l
  | none => match lastLevel es [] with
    | some l => l
    | none => lMajor

end Scalibr.Upgrade
