/-
Specification for C19: when does a scanning environment satisfy a plugin's stated requirements
(the doc comments of `plugin.Capabilities` / `plugin.OS` / `plugin.Network`), and what filtering and
name resolution are supposed to deliver.
-/
import Scalibr.Model.Registry
namespace Scalibr.Registry

/-- OS: "any" asks for nothing; "unix" means Linux or Mac; otherwise the very same OS -/
def osOK : OS → OS → Bool
  | .any, _ => true
  | .unix, c => c = .linux || c = .mac
  | r, c => r = c

/-- network: "any" asks for nothing; otherwise exactly the stated connectivity -/
def netOK : Net → Net → Bool
  | .any, _ => true
  | r, c => r = c

/-- the environment `caps` provides what `req` asks for -/
def satisfied (req caps : Caps) : Bool :=
  osOK req.os caps.os && netOK req.net caps.net &&
    (!req.directFS || caps.directFS) && (!req.runningSystem || caps.runningSystem)

/-- spec of the capability filter: keep exactly the satisfied plugins, in order -/
def specFilter (ps : List Plugin) (caps : Caps) : List Plugin := ps.filter fun p => satisfied p.req caps

/-- a required extractor `e` of a detector with requirements `dreq` "can be enabled automatically" w.r.t.
the two extractor name tables: its exact name resolves in at least one of them, and whatever it
resolves to runs wherever the detector runs -/
def requiredOK (fsT stT : Table) (dreq : Caps) (e : String) : Prop :=
  ((∃ x, fromName fsT e = .ok x) ∨ (∃ x, fromName stT e = .ok x)) ∧
  (∀ x, fromName fsT e = .ok x → ∀ caps, satisfied dreq caps = true → satisfied x.req caps = true) ∧
  (∀ x, fromName stT e = .ok x → ∀ caps, satisfied dreq caps = true → satisfied x.req caps = true)

/-- executable form of `requiredOK` over the finite capability product (used by `decide` and the driver) -/
def requiredOKB (fsT stT : Table) (dreq : Caps) (e : String) : Bool :=
  let okOf : Except NameErr Plugin → Bool := fun r =>
    match r with
    | .ok x => allCaps.all fun caps => !satisfied dreq caps || satisfied x.req caps
    | .error _ => true
  let isOk : Except NameErr Plugin → Bool := fun r => match r with | .ok _ => true | .error _ => false
  (isOk (fromName fsT e) || isOk (fromName stT e)) && okOf (fromName fsT e) && okOf (fromName stT e)

end Scalibr.Registry
