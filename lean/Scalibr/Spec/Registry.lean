/-
Specification for C19: when does a scanning environment satisfy a plugin's stated requirements
(the doc comments of `plugin.Capabilities` / `plugin.OS` / `plugin.Network`), and what filtering and
name resolution are supposed to deliver.
-/
import Scalibr.Model.Registry
namespace Scalibr.Registry

/-- OS: "any" asks for nothing; "unix" means Linux or Mac; otherwise the very same OS -/
def osOK : OS → OS → Bool
  | .any, _ => true
  | .unix, c => c = .linux || c = .mac
  | r, c => r = c

/-- network: "any" asks for nothing; otherwise exactly the stated connectivity -/
def netOK : Net → Net → Bool
  | .any, _ => true
  | r, c => r = c

/-- the environment `caps` provides what `req` asks for -/
def satisfied (req caps : Caps) : Bool :=
  osOK req.os caps.os && netOK req.net caps.net &&
    (!req.directFS || caps.directFS) && (!req.runningSystem || caps.runningSystem)

/-- spec of the capability filter: keep exactly the satisfied plugins, in order -/
def specFilter (ps : List Plugin) (caps : Caps) : List Plugin := ps.filter fun p => satisfied p.req caps

/-- SPECIFICATION-side resolution (no lookup order, no code path of the model): `p` is registered under the exact name `n`
— the table has the entry `n ↦ [p]` and `p` calls itself `n` -/
def RegisteredAs (t : Table) (n : String) (p : Plugin) : Prop := (n, [p]) ∈ t ∧ p.name = n

/-- a name table is a Go map: its keys are distinct -/
def KeysNodup (t : Table) : Prop := (t.map (·.1)).Nodup

/-- a required extractor `e` of a detector with requirements `dreq` "can be enabled automatically" w.r.t. the two
extractor name tables: it is registered under its exact name in at least one of them, and whatever is registered
under that name runs wherever the detector runs -/
def requiredOK (fsT stT : Table) (dreq : Caps) (e : String) : Prop :=
  ((∃ x, RegisteredAs fsT e x) ∨ (∃ x, RegisteredAs stT e x)) ∧
  (∀ x, RegisteredAs fsT e x → ∀ caps, satisfied dreq caps = true → satisfied x.req caps = true) ∧
  (∀ x, RegisteredAs stT e x → ∀ caps, satisfied dreq caps = true → satisfied x.req caps = true)

/-- executable check over the finite capability product, through the MODEL's `fromName` (used by `decide` and the driver);
`requiredOK_of_B` ties it to the specification above for tables with distinct keys -/
def requiredOKB (fsT stT : Table) (dreq : Caps) (e : String) : Bool :=
  let okOf : Except NameErr Plugin → Bool := fun r =>
    match r with
    | .ok x => allCaps.all fun caps => !satisfied dreq caps || satisfied x.req caps
    | .error _ => true
  let isOk : Except NameErr Plugin → Bool := fun r => match r with | .ok _ => true | .error _ => false
  (isOk (fromName fsT e) || isOk (fromName stT e)) && okOf (fromName fsT e) && okOf (fromName stT e)

/-! ### resolving a LIST of names, and auto-enabling: set union, nothing twice -/

/-- `p` is one of the plugins the table lists under the key `n` -/
def ListedUnder (t : Table) (n : String) (p : Plugin) : Prop := ∃ ms, (n, ms) ∈ t ∧ p ∈ ms

/-- SPECIFICATION of `…FromNames(names)` (for detectors, filesystem and standalone extractors alike): the result is the SET
UNION of what the single names stand for — every plugin listed under one of the names, nothing else — and no plugin
twice, however the names overlap (group + member, group + group, `all` + anything, the same name twice). -/
def ResolvesTo (t : Table) (names : List String) (r : List Plugin) : Prop :=
  (r.map (·.name)).Nodup ∧ ∀ p, p ∈ r ↔ ∃ n ∈ names, ListedUnder t n p

/-- within one registry a name identifies the plugin: whatever two keys list under one plugin name is the same plugin -/
def NameDetermines (t : Table) : Prop :=
  ∀ kv ∈ t, ∀ kw ∈ t, ∀ p ∈ kv.2, ∀ q ∈ kw.2, p.name = q.name → p = q

/-- SPECIFICATION of `EnableRequiredExtractors` on NAMES: the enabled list after it is the explicitly enabled list followed by
the required names that were not enabled yet, each ONCE, in order of first occurrence (idempotent set union preserving
first occurrence). `seen` = names enabled so far (in either of the two extractor lists). -/
def firstNew : List String → List String → List String
  | _, [] => []
  | seen, e :: es => if seen.contains e then firstNew seen es else e :: firstNew (e :: seen) es

end Scalibr.Registry
