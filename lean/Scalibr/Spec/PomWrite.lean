/-
Specification for the pom.xml writer at requirement level (C13): re-reading the written file yields
the original requirements with the updated versions substituted, and nothing else changes.
`feature` names the syntactic situations in which the unchanged writer is known to leave that
statement (known_findings.txt, keys C13/pom-…); `WFcase` is their absence.
-/
import Scalibr.Model.PomWrite
namespace Scalibr.Pom

def addresses (u : Upd) (r : Req) : Bool := r.key = u.key && r.origin = u.origin && r.ver = u.frm

def substReq (u : Upd) (r : Req) : Req := if addresses u r then { r with ver := u.to } else r

def substitute (rs : List Req) (us : List Upd) : List Req := us.foldl (fun rs u => rs.map (substReq u)) rs

/-- the placeholder names of a version string, left to right -/
def names : Nat → Str → List Str
  | 0, _ => []
  | fuel + 1, s =>
    match indexOf dollarBrace s with
    | none => []
    | some st =>
      let after := s.drop (st + 2)
      match indexOf closeBrace after with
      | none => []
      | some e => after.take e :: names fuel (after.drop (e + 1))

def namesOf (s : Str) : List Str := names (s.length + 1) s

/-- the entries an update's key reaches -/
def hits (pom : Pom) (u : Upd) : List Dep :=
  pom.deps.filter fun d => d.key = u.key || interpKey (coordDict pom) d = u.key

/-- class predicate of C13/pom-key-property: the requirement an update addresses is a dependency whose coordinates use a
property of the pom (`<groupId>${grp}</groupId>`): `Read` interpolates it, the writer resolves only the project's own
coordinates in a key, takes the update for a key the pom does not hold and adds a dependencyManagement entry instead -/
def keyProperty (pom : Pom) (us : List Upd) : Bool :=
  us.any fun u => pom.deps.any fun d =>
    !hasPrefix sProfile d.origin && interpKey (dict pom) d = u.key && !(d.key = u.key || interpKey (coordDict pom) d = u.key)

/-- class predicate of C13/pom-origin-ignored as it is left after fix b0b162fc: two declarations reached by the update's key get the
same best score — same kind of requirement (dependencyManagement or not) and both, or neither, written with the version the update
starts from (the project's and a profile's entry at one version, versions through properties) — so the writer takes the first -/
def ambiguous (pom : Pom) (u : Upd) : Bool :=
  let hs := (hits pom u).filter fun d => d.ver ≠ [] && (matchScore u d).isSome
  let top := hs.foldl (fun m d => max m (scoreVal u d)) 0
  (hs.filter fun d => scoreVal u d = top).length ≥ 2 ||
  -- … or Read reports the SAME requirement twice (one declaration with a literal version, another reaching that version through a
  -- property): the update addresses both, the writer rewrites one declaration
  ((requirements pom).filter (addresses u)).length ≥ 2

/-- where a property patch for dependency `d` can be written: the project's `<properties>` or the
`<properties>` of the dependency's own profile -/
def writableProp (pom : Pom) (d : Dep) (n : Str) : Bool :=
  let po := if hasPrefix sProfile d.origin then cutSuffix d.origin ('@' :: sManagement) else []
  pom.props.any fun p => p.name = n && (p.origin = [] || p.origin = po)

/-- the situation of the former class C13/pom-property-other-profile (repaired by 95fbdd2e: such a dependency is now
updated directly): an updated dependency's version uses a property that some local `<properties>` defines but none that a
patch for this dependency is written to -/
def otherProfileProp (pom : Pom) (us : List Upd) : Bool :=
  us.any fun u => (hits pom u).any fun d =>
    (namesOf d.ver).any fun n => pom.props.any (fun p => p.name = n) && !writableProp pom d n

/-- known classes, most specific first; `none` = the case is inside the requirement-level statement.
(The classes key-whitespace, undefined-property, props-repeated-name and property-other-profile were repaired by fixes
5743d35a, f5d17448, d4dd80ce and 95fbdd2e.) -/
def feature (pom : Pom) (us : List Upd) : Option String :=
  if keyProperty pom us then some "C13/pom-key-property"
  else if us.any (ambiguous pom) then some "C13/pom-origin-ignored"
  else if us.any (fun u => (hits pom u).any fun d =>
      (namesOf d.ver).any fun n => pom.deps.any fun d' => d' ≠ d && (namesOf d'.ver).contains n) then
    some "C13/pom-shared-property"
  else none

def WFcase (pom : Pom) (us : List Upd) : Bool := (feature pom us).isNone

end Scalibr.Pom
