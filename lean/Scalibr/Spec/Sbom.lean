/-
Specification for C15: which package URLs must come back when an inventory is exported as an SBOM and
the file is scanned with the library's own SBOM extractors. No document, no serialiser, no loop state:
one `filter` and one `map` over the inventory.
-/
import Scalibr.Model.Sbom
namespace Scalibr.Sbom

/-- purl normalisation: what `purl.FromString(u.String())` yields (`none` = it fails) -/
def normP {Purl : Type} (ops : PurlOps Purl) (u : Purl) : Option Purl := ops.parse (ops.str u)

def hasPurl {Purl : Type} (p : Pkg Purl) : Bool := p.purl.isSome

/-- SPDX export keeps a package when it has a purl whose name and version are both non-empty
(ToSPDX23 logs "PURL name or version empty, skipping" otherwise). -/
def exportedSpdx {Purl : Type} (ops : PurlOps Purl) (p : Pkg Purl) : Bool :=
  match p.purl with
  | none => false
  | some u => ops.name u ≠ "" && ops.version u ≠ ""

/-- CycloneDX export writes every package; a purl is written for the packages that have one. -/
def exportedCdx {Purl : Type} (p : Pkg Purl) : Bool := hasPurl p

/-- expected purls, in inventory order; an exported purl whose string form the library cannot parse
back contributes nothing (that situation is outside the property's domain and is counted by `lostOf`) -/
def specPurls {Purl : Type} (ops : PurlOps Purl) (exported : Pkg Purl → Bool) (inv : List (Pkg Purl)) : List Purl :=
  (inv.filter exported).filterMap fun p => p.purl.bind (normP ops)

def specSpdx {Purl : Type} (ops : PurlOps Purl) (inv : List (Pkg Purl)) : List Purl := specPurls ops (exportedSpdx ops) inv
def specCdx {Purl : Type} (ops : PurlOps Purl) (inv : List (Pkg Purl)) : List Purl := specPurls ops exportedCdx inv

/-- the property's own sentence, for a total normalisation `norm`: the exported packages' purls, normalised -/
def specNorm {Purl : Type} (norm : Purl → Purl) (exported : Pkg Purl → Bool) (inv : List (Pkg Purl)) : List Purl :=
  ((inv.filter exported).filterMap (·.purl)).map norm

/-- hypothesis of the `norm` form: every exported purl's string form parses back, to `norm u` -/
def ParsesBack {Purl : Type} (ops : PurlOps Purl) (norm : Purl → Purl) (inv : List (Pkg Purl)) : Prop :=
  ∀ p ∈ inv, ∀ u, p.purl = some u → ops.parse (ops.str u) = some (norm u)

/-- executable form of the hypothesis (used by the driver as `wf`): number of exported purls that do
not parse back -/
def lostOf {Purl : Type} (ops : PurlOps Purl) (exported : Pkg Purl → Bool) (inv : List (Pkg Purl)) : Nat :=
  ((inv.filter exported).filter fun p => match p.purl with | some u => (normP ops u).isNone | none => false).length

/-- what two purl names must share to denote the same package under the per-type normalisations of packageurl-go
(lower-casing; `_` and `.` folded to `-` for pypi) -/
def canonName (s : String) : String := s.map fun c => if c = '_' || c = '.' then '-' else c.toLower

/-- the components of a purl besides name and version (accessors of the purl library's struct) -/
structure PurlFields (Purl : Type) where
  typ : Purl → String
  ns : Purl → String
  /-- qualifiers, as (key, value) pairs -/
  quals : Purl → List (String × String)
  subpath : Purl → String

/-- path-like components are compared segment-wise; empty, "." and ".." segments carry no meaning in a purl -/
def cleanSegs (s : String) : List String := (s.splitOn "/").filter fun x => x ≠ "" && x ≠ "." && x ≠ ".."

/-- lower-cased characters of a string (kernel-reducible on literals, unlike `String.toLower`) -/
def lowerL (s : String) : List Char := s.toList.map Char.toLower

/-- qualifiers as the purl specification reads them: keys are case-insensitive, an empty value is no qualifier -/
def canonQuals (q : List (String × String)) : List (List Char × String) :=
  (q.filter fun kv => kv.2 ≠ "").map fun kv => (lowerL kv.1, kv.2)

/-- What `norm` (= print, then parse, with the purl library) is ALLOWED to do: "the same package URLs up to the normalisation of
their type" — and nothing else. Without this a "parser" that returns one fixed purl, or one that rewrites every TYPE to "evil",
would satisfy `ParsesBack` (audit findings). `norm` is idempotent, never touches the version, changes the name at most by the case /
separator folding of `canonName`, lower-cases the type and changes nothing else of it, keeps the namespace up to case and
empty segments, keeps every qualifier VALUE (keys are case-insensitive, empty values are no qualifiers) and keeps the sub-path up
to empty / "." / ".." segments. The real library (packageurl-go alone) is checked against these laws on every generated purl:
by c15gen (`checkNormLaws`) and, from the components in the case line, by the Lean driver (reply field `laws=`). -/
structure NormLaws {Purl : Type} (ops : PurlOps Purl) (fld : PurlFields Purl) (norm : Purl → Purl) : Prop where
  idem : ∀ u, norm (norm u) = norm u
  version : ∀ u, ops.version (norm u) = ops.version u
  name : ∀ u, canonName (ops.name (norm u)) = canonName (ops.name u)
  typ : ∀ u, (fld.typ (norm u)).toList = lowerL (fld.typ u)
  ns : ∀ u, (cleanSegs (fld.ns (norm u))).map lowerL = (cleanSegs (fld.ns u)).map lowerL
  quals : ∀ u x, x ∈ canonQuals (fld.quals (norm u)) ↔ x ∈ canonQuals (fld.quals u)
  subpath : ∀ u, cleanSegs (fld.subpath (norm u)) = cleanSegs (fld.subpath u)

/-- the per-purl part of `NormLaws` that can be decided from one row (u, norm u) of the library's table (driver: `laws=`) -/
def lawsHold {Purl : Type} (ops : PurlOps Purl) (fld : PurlFields Purl) (u n : Purl) : Bool :=
  ops.version n = ops.version u && canonName (ops.name n) = canonName (ops.name u) && (fld.typ n).toList = lowerL (fld.typ u) &&
  (cleanSegs (fld.ns n)).map lowerL = (cleanSegs (fld.ns u)).map lowerL &&
  (canonQuals (fld.quals n)).all (fun x => (canonQuals (fld.quals u)).contains x) &&
  (canonQuals (fld.quals u)).all (fun x => (canonQuals (fld.quals n)).contains x) &&
  cleanSegs (fld.subpath n) = cleanSegs (fld.subpath u)

/-- the part of `lawsHold` that involves no case folding: version, qualifier values (keys are ASCII by the purl grammar), sub-path -/
def lawsExact {Purl : Type} (ops : PurlOps Purl) (fld : PurlFields Purl) (u n : Purl) : Bool :=
  ops.version n = ops.version u &&
  (canonQuals (fld.quals n)).all (fun x => (canonQuals (fld.quals u)).contains x) &&
  (canonQuals (fld.quals u)).all (fun x => (canonQuals (fld.quals n)).contains x) &&
  cleanSegs (fld.subpath n) = cleanSegs (fld.subpath u)

end Scalibr.Sbom
