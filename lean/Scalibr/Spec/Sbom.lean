/-
Specification for C15: which package URLs must come back when an inventory is exported as an SBOM and
the file is scanned with the library's own SBOM extractors. No document, no serialiser, no loop state:
one `filter` and one `map` over the inventory.
-/
import Scalibr.Model.Sbom
namespace Scalibr.Sbom

/-- purl normalisation: what `purl.FromString(u.String())` yields (`none` = it fails) -/
def normP {Purl : Type} (ops : PurlOps Purl) (u : Purl) : Option Purl := ops.parse (ops.str u)

def hasPurl {Purl : Type} (p : Pkg Purl) : Bool := p.purl.isSome

/-- SPDX export keeps a package when it has a purl whose name and version are both non-empty
(ToSPDX23 logs "PURL name or version empty, skipping" otherwise). -/
def exportedSpdx {Purl : Type} (ops : PurlOps Purl) (p : Pkg Purl) : Bool :=
  match p.purl with
  | none => false
  | some u => ops.name u ≠ "" && ops.version u ≠ ""

/-- CycloneDX export writes every package; a purl is written for the packages that have one. -/
def exportedCdx {Purl : Type} (p : Pkg Purl) : Bool := hasPurl p

/-- expected purls, in inventory order; an exported purl whose string form the library cannot parse
back contributes nothing (that situation is outside the property's domain and is counted by `lostOf`) -/
def specPurls {Purl : Type} (ops : PurlOps Purl) (exported : Pkg Purl → Bool) (inv : List (Pkg Purl)) : List Purl :=
  (inv.filter exported).filterMap fun p => p.purl.bind (normP ops)

def specSpdx {Purl : Type} (ops : PurlOps Purl) (inv : List (Pkg Purl)) : List Purl := specPurls ops (exportedSpdx ops) inv
def specCdx {Purl : Type} (ops : PurlOps Purl) (inv : List (Pkg Purl)) : List Purl := specPurls ops exportedCdx inv

/-- the property's own sentence, for a total normalisation `norm`: the exported packages' purls, normalised -/
def specNorm {Purl : Type} (norm : Purl → Purl) (exported : Pkg Purl → Bool) (inv : List (Pkg Purl)) : List Purl :=
  ((inv.filter exported).filterMap (·.purl)).map norm

/-- hypothesis of the `norm` form: every exported purl's string form parses back, to `norm u` -/
def ParsesBack {Purl : Type} (ops : PurlOps Purl) (norm : Purl → Purl) (inv : List (Pkg Purl)) : Prop :=
  ∀ p ∈ inv, ∀ u, p.purl = some u → ops.parse (ops.str u) = some (norm u)

/-- executable form of the hypothesis (used by the driver as `wf`): number of exported purls that do
not parse back -/
def lostOf {Purl : Type} (ops : PurlOps Purl) (exported : Pkg Purl → Bool) (inv : List (Pkg Purl)) : Nat :=
  ((inv.filter exported).filter fun p => match p.purl with | some u => (normP ops u).isNone | none => false).length

/-- what two purl names must share to denote the same package under the per-type normalisations of packageurl-go
(lower-casing; `_` and `.` folded to `-` for pypi) -/
def canonName (s : String) : String := s.map fun c => if c = '_' || c = '.' then '-' else c.toLower

/-- What `norm` (= `purl.FromString ∘ String`) is ALLOWED to do — without this a "parser" that returns one fixed purl for
every input would satisfy `ParsesBack` (audit finding). It is idempotent (so it is the identity on purls that are already
normal), it never touches the version, and it changes the name at most by the case / separator folding of `canonName`.
The real library is checked against these laws on every generated purl by c15gen (reply field `laws=`). -/
structure NormLaws {Purl : Type} (ops : PurlOps Purl) (norm : Purl → Purl) : Prop where
  idem : ∀ u, norm (norm u) = norm u
  version : ∀ u, ops.version (norm u) = ops.version u
  name : ∀ u, canonName (ops.name (norm u)) = canonName (ops.name u)

end Scalibr.Sbom
