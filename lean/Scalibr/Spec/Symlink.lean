/-
Specification for C17. The chain of a path is the sequence of entries reached by following link
targets one hop at a time, with no cycle detection and no budget; the property's sentence is read off
that chain. `specWalk` is the executable form (a linear walk of at most `D + 1` hops) the driver
prints as the oracle of the violation search.
-/
import Scalibr.Model.Symlink
namespace Scalibr.Symlink

variable {α : Type} [DecidableEq α]

/-- the entry `k` hops from `p` (`none`: the chain stopped before — a non-symlink or a missing
entry has no successor). `chain g k p = some q` does not say `q` exists: `g q = none` is
"the chain reaches a missing entry at hop `k`". -/
def chain (g : Graph α) : Nat → α → Option α
  | 0, p => some p
  | k+1, p =>
    match g p with
    | some (.link t) => chain g k t
    | _ => none

def isTerm (g : Graph α) (p : α) : Bool := match g p with | some (.term _) => true | _ => false
def isLink (g : Graph α) (p : α) : Bool := match g p with | some (.link _) => true | _ => false
/-- a real (not deleted) file or directory -/
def isReal (g : Graph α) (p : α) : Bool :=
  match g p with | some (.term .file) => true | some (.term .dir) => true | _ => false
/-- missing, or deleted by a later layer (whiteout node) -/
def isGone (g : Graph α) (p : α) : Bool :=
  match g p with | none => true | some (.term .wh) => true | _ => false

/-- what the property allows `Stat` to answer -/
inductive Verdict (α : Type)
  | mustOk (id : α)      -- the first non-symlink, reached within the hop budget
  | mustNotExist         -- a missing / deleted entry reached within the hop budget
  | boundary             -- a missing / deleted entry is exactly one hop past the budget: any error class
  | cycleOrDepth         -- everything else
deriving DecidableEq, Repr

/-- walk the chain with `b` hops left -/
def specWalk (g : Graph α) : (b : Nat) → α → Verdict α
  | b, q =>
    match g q with
    | none => .mustNotExist
    | some (.term .wh) => .mustNotExist
    | some (.term _) => .mustOk q
    | some (.link t) =>
      match b with
      | 0 => if isGone g t then .boundary else .cycleOrDepth
      | b+1 => specWalk g b t

/-- does an observed `Stat` class meet the verdict? -/
def allowed (g : Graph α) : Verdict α → StatRes α → Bool
  | .mustOk n, .file m => n = m && g n = some (.term .file)
  | .mustOk n, .dir m => n = m && g n = some (.term .dir)
  | .mustNotExist, .notExist => true
  | .boundary, .notExist => true
  | .boundary, .cycle => true
  | .boundary, .depth => true
  | .cycleOrDepth, .cycle => true
  | .cycleOrDepth, .depth => true
  | _, _ => false

/-- load time: the target leaves the image root iff some prefix of dir ++ target has more `..` than
names (`d` = names currently above the root) -/
def escapes : (d : Nat) → List String → Bool
  | _, [] => false
  | d, s :: rest =>
    if s = "." || s = "" then escapes d rest
    else if s = ".." then (match d with | 0 => true | d+1 => escapes d rest)
    else escapes (d+1) rest

/-- a canonical tree key: no empty, `.` or `..` segment -/
def canonical (key : List String) : Bool := key.all fun s => s ≠ "" && s ≠ "." && s ≠ ".."

/-- what a link name denotes, lexically (as `path.Clean` reads it): `none` when it leaves the root,
otherwise the canonical key of the target. `linkSegs` = the link name split on "/" (absolute names
start with ""). -/
def denotes (dir : List String) (linkSegs : List String) : Option (List String) :=
  if linkSegs.head? = some "" then (if escapes 0 linkSegs then none else some (cleanAbs linkSegs))
  else (if escapes dir.length linkSegs then none else some (cleanAbs (dir ++ linkSegs)))

end Scalibr.Symlink
