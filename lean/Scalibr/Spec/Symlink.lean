/-
Specification for C17. The chain of a path is the sequence of entries reached by following link
targets one hop at a time, with no cycle detection and no budget; the property's sentence is read off
that chain. `specWalk` is the executable form (a linear walk of at most `D + 1` hops) the driver
prints as the oracle of the violation search.
-/
import Scalibr.Model.Symlink
namespace Scalibr.Symlink

variable {α : Type} [DecidableEq α]

/-- the entry `k` hops from `p` (`none`: the chain stopped before — a non-symlink or a missing
entry has no successor). `chain g k p = some q` does not say `q` exists: `g q = none` is
"the chain reaches a missing entry at hop `k`". -/
def chain (g : Graph α) : Nat → α → Option α
  | 0, p => some p
  | k+1, p =>
    match g p with
    | some (.link t) => chain g k t
    | _ => none

def isTerm (g : Graph α) (p : α) : Bool := match g p with | some (.term _) => true | _ => false
def isLink (g : Graph α) (p : α) : Bool := match g p with | some (.link _) => true | _ => false
/-- a real (not deleted) file or directory -/
def isReal (g : Graph α) (p : α) : Bool :=
  match g p with | some (.term .file) => true | some (.term .dir) => true | _ => false
/-- missing, or deleted by a later layer (whiteout node) -/
def isGone (g : Graph α) (p : α) : Bool :=
  match g p with | none => true | some (.term .wh) => true | _ => false

/-- what the property's sentence prescribes -/
inductive Verdict (α : Type)
  | mustOk (id : α)      -- "the first non-symlink target when the chain has at most the configured number of hops"
  | mustNotExist         -- "'not found' when the chain reaches a missing or deleted entry before the hop budget is exhausted"
  | cycleOrDepth         -- "a cycle or depth error otherwise"
deriving DecidableEq, Repr

/-- walk the chain with `b` hops left: exactly the sentence, no slack at the budget's edge — whatever
lies one hop past the budget (a file, a deleted entry, nothing at all) is a cycle or depth error -/
def specWalk (g : Graph α) : (b : Nat) → α → Verdict α
  | b, q =>
    match g q with
    | none => .mustNotExist
    | some (.term .wh) => .mustNotExist
    | some (.term _) => .mustOk q
    | some (.link t) =>
      match b with
      | 0 => .cycleOrDepth
      | b+1 => specWalk g b t

/-- does an observed `Stat` class meet the verdict? -/
def allowed (g : Graph α) : Verdict α → StatRes α → Bool
  | .mustOk n, .file m => n = m && g n = some (.term .file)
  | .mustOk n, .dir m => n = m && g n = some (.term .dir)
  | .mustNotExist, .notExist => true
  | .cycleOrDepth, .cycle => true
  | .cycleOrDepth, .depth => true
  | _, _ => false

/-- does the result of `Open` itself (not of a later `Stat` on the handle) meet the verdict? -/
def allowedOpen : Verdict α → Res α → Bool
  | .mustOk n, .ok m => n = m
  | .mustNotExist, .notExist => true
  | .cycleOrDepth, .cycle => true
  | .cycleOrDepth, .depth => true
  | _, _ => false

/-- load time: the target leaves the image root iff some prefix of dir ++ target has more `..` than
names (`d` = names currently above the root) -/
def escapes : (d : Nat) → List String → Bool
  | _, [] => false
  | d, s :: rest =>
    if s = "." || s = "" then escapes d rest
    else if s = ".." then (match d with | 0 => true | d+1 => escapes d rest)
    else escapes (d+1) rest

/-- a canonical tree key: no empty, `.` or `..` segment -/
def canonical (key : List String) : Bool := key.all fun s => s ≠ "" && s ≠ "." && s ≠ ".."

/-- Lexical resolution of a path given as segments, starting in directory `cur` (the root is []):
"" and "." stay, ".." goes up — leaving the root gives `none` —, a name goes down. This is the
specification's own reading of a path; it shares nothing with the model's `cleanAbs`/`cleanRel`. -/
def resolveLex : List String → List String → Option (List String)
  | cur, [] => some cur
  | cur, s :: rest =>
    if s = "." || s = "" then resolveLex cur rest
    else if s = ".." then (if cur = [] then none else resolveLex cur.dropLast rest)
    else resolveLex (cur ++ [s]) rest

/-- what a link name denotes: an absolute name is resolved from the root, a relative one is joined to
the link's directory first; `none` when it leaves the root. `linkSegs` = the link name split on "/"
(absolute names start with ""). -/
def denotes (dir : List String) (linkSegs : List String) : Option (List String) :=
  if linkSegs.head? = some "" then resolveLex [] linkSegs else resolveLex [] (dir ++ linkSegs)

end Scalibr.Symlink
