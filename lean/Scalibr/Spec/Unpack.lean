/-
Specification for the unpack half of C06: containment.  After unpacking into the directory `D` of a sandbox,
(1) nothing outside `D` was created, modified or deleted, and (2) no symbolic link left inside `D` resolves to a
location outside `D` (a link that does not resolve at all points nowhere).
-/
import Scalibr.Model.Unpack
namespace Scalibr.Unpack

/-- where a link stored at the physical path `p` leads, as the kernel resolves it -/
def linkDest (D : Path) (s : FS) (fuel : Nat) (p : Path) (t : Target) : Except RErr Path :=
  resolve D s fuel (if t.abs then D else p.dropLast) t.comps

/-- `Contained D s0 s`: the property's sentence about unpacking, for the state `s` reached from `s0` -/
def Contained (D : Path) (s0 s : FS) : Prop :=
  (∀ p, isPrefix D p = false → s.get p = s0.get p) ∧
  (∀ p t, isPrefix D p = true → s.get p = some (.link t) → ∀ fuel r, linkDest D s fuel p t = .ok r → isPrefix D r = true)

/-- executable form over the paths ever touched -/
def outsideUnchangedB (D : Path) (s0 s : FS) : Bool :=
  (s0.keys ++ s.keys).all fun p => isPrefix D p || s.get p == s0.get p

def linksInsideB (D : Path) (s : FS) : Bool :=
  s.keys.all fun p => !isPrefix D p ||
    match s.get p with
    | some (.link t) =>
      (match linkDest D s (fuelFor s t.comps) p t with
       | .ok r => isPrefix D r
       | .error _ => true)
    | _ => true

def containedB (D : Path) (s0 s : FS) : Bool := outsideUnchangedB D s0 s && linksInsideB D s

/-- hypothesis of the partial theorem: no relative link target has a ".." component (finding 37: the lexical
`TargetOutsideRoot` accepts `t → s/..` although `s` may be a link to the root of the target directory) -/
def noDotDotTargets (es : List TarEntry) : Bool :=
  es.all fun e => !(e.typ = 'l') || e.linkAbs || !e.linkComps.contains ".."

end Scalibr.Unpack
