/-
Specification vocabulary for C11: what is assumed about deps.dev (the only assumptions, each an
explicit hypothesis of the theorems that need it) and what "within the level" means.
-/
import Scalibr.Model.Override
import Scalibr.Model.OverrideMulti
import Scalibr.Spec.VersionOrder
import Scalibr.Model.Relax
import Scalibr.Model.SuggestMaven
namespace Scalibr.Upgrade

/-- `semver.Difference` classes, as far as the cumulative statement needs them: a version does not
differ from itself; "same major", "same major.minor" and "same" are transitive. -/
structure DiffClassLaws (diff : Nat → Nat → Nat) : Prop where
  refl : ∀ a, diff a a = dSame
  major : ∀ a b c, diff a b ≠ dMajor → diff b c ≠ dMajor → diff a c ≠ dMajor
  minor : ∀ a b c, (diff a b ≠ dMajor ∧ diff a b ≠ dMinor) → (diff b c ≠ dMajor ∧ diff b c ≠ dMinor) →
      (diff a c ≠ dMajor ∧ diff a c ≠ dMinor)
  same : ∀ a b c, diff a b = dSame → diff b c = dSame → diff a c = dSame

/-- What deps.dev's resolver (with the override client) guarantees for a pinned requirement, and nothing
more: a package whose requirement / dependencyManagement entry names version `b` is resolved at `b` if it is in
the graph at all.  Packages without an entry are unconstrained (they move with whoever requires them). -/
def HonoursPinsM (resolve : OverrideMulti.Pins → OverrideMulti.Res) : Prop :=
  ∀ pins p b, pins.getD p none = some b → (resolve pins).getD p none = some b ∨ (resolve pins).getD p none = none

/-- `slices.SortFunc` contract: the list is ascending in the comparator's rank -/
def Sorted (rank : Nat → Nat) (vs : List Nat) : Prop := vs.Pairwise (fun a b => rank a ≤ rank b)

/-! ### what the property accepts (used by the driver for its `spec=` verdicts) -/

/-- a written version `x` is an acceptable move from base `b`: strictly upward in the order and within the level -/
def acceptable (level : Nat) (rank : Nat → Nat) (diff : Nat → Nat → Nat) (b x : Nat) : Bool :=
  decide (rank b < rank x) && allows level (diff b x) && level != lNone

/-- Relax: acceptable indices for the version the new requirement is built from (`last` = highest matching the old one) -/
def relaxAcceptable (t : Relax.T) (level : Nat) (last : Option Nat) : List Bool :=
  (List.range t.n).map fun i => match last with
    | some l => decide (l < i) && allows level ((t.diff l i).getD dOther) && level != lNone
    | none => false

/-- bulk update: acceptable versions for one requirement -/
def updateAcceptable (level : Nat) (cur : Option Suggest.V) (vs : List Suggest.V) : List Bool :=
  vs.map fun v => match cur with
    | some c => decide (c.rank < v.rank) && allows level v.diff && level != lNone
    | none => false

end Scalibr.Upgrade
