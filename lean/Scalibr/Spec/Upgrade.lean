/-
Specification vocabulary for C11: what is assumed about deps.dev (the only assumptions, each an
explicit hypothesis of the theorems that need it) and what "within the level" means.
-/
import Scalibr.Model.Override
import Scalibr.Model.Relax
import Scalibr.Model.SuggestMaven
namespace Scalibr.Upgrade

/-- `semver.Difference` classes, as far as the cumulative statement needs them: a version does not
differ from itself; "same major", "same major.minor" and "same" are transitive. -/
structure DiffClassLaws (diff : Nat → Nat → Nat) : Prop where
  refl : ∀ a, diff a a = dSame
  major : ∀ a b c, diff a b ≠ dMajor → diff b c ≠ dMajor → diff a c ≠ dMajor
  minor : ∀ a b c, (diff a b ≠ dMajor ∧ diff a b ≠ dMinor) → (diff b c ≠ dMajor ∧ diff b c ≠ dMinor) →
      (diff a c ≠ dMajor ∧ diff a c ≠ dMinor)
  same : ∀ a b c, diff a b = dSame → diff b c = dSame → diff a c = dSame

/-- re-resolution yields the version the requirement was pinned to -/
def HonoursPins (resolve : Nat → Nat) : Prop := ∀ b, resolve b = b

/-- `slices.SortFunc` contract + a comparator that never calls two distinct versions equal -/
def StrictSorted (vs : List Nat) : Prop := vs.Pairwise (· < ·)
def Sorted (vs : List Nat) : Prop := vs.Pairwise (· ≤ ·)

end Scalibr.Upgrade
