/-
What "the ecosystem's version order" has to satisfy for the rank models of C11 to speak about it.
The models take the comparator (`semver.Compare`, `mavenutil.CompareVersions`) as a function `rank` from
version identifiers to naturals.  Such a function exists for a set of versions exactly when the
comparator is a total preorder on it (`Scalibr.Upgrade.rank_exists_iff`); Maven's comparator is NOT
transitive on all accepted strings (`Scalibr.Semantic.C07_maven_trans_fails`: `1 < 1.foo < 1rc` but
`1 > 1rc`, known finding C07/maven-qualifier-cycle), so every C11 theorem is about version sets on
which it happens to be one — the harness computes the ranks by sorting with the real comparator and the
correspondence stream would show a disagreement; the generators' pools are checked to be chains.
-/
namespace Scalibr.Upgrade

structure TotalPreorder {α : Type} (cmp : α → α → Ordering) : Prop where
  refl : ∀ a, cmp a a = .eq
  swap : ∀ a b, cmp b a = (cmp a b).swap
  le_trans : ∀ a b c, cmp a b ≠ .gt → cmp b c ≠ .gt → cmp a c ≠ .gt

/-- `rank` represents `cmp` on the versions `vs` -/
def RankFor {α : Type} (cmp : α → α → Ordering) (vs : List α) (rank : α → Nat) : Prop :=
  ∀ a ∈ vs, ∀ b ∈ vs, cmp a b = compare (rank a) (rank b)

/-- the laws of a total preorder, restricted to the versions at hand -/
structure TotalPreorderOn {α : Type} (cmp : α → α → Ordering) (vs : List α) : Prop where
  refl : ∀ a ∈ vs, cmp a a = .eq
  swap : ∀ a ∈ vs, ∀ b ∈ vs, cmp b a = (cmp a b).swap
  le_trans : ∀ a ∈ vs, ∀ b ∈ vs, ∀ c ∈ vs, cmp a b ≠ .gt → cmp b c ≠ .gt → cmp a c ≠ .gt

/-- the canonical rank: how many listed versions compare strictly below -/
def countBelow {α : Type} (cmp : α → α → Ordering) (vs : List α) (a : α) : Nat :=
  (vs.filter fun c => cmp c a == .lt).length

end Scalibr.Upgrade
