/-
Specification for C04: what the filesystem of "layers 0..j applied in order" contains, by the OCI
image-spec rules ("Applying changesets").

Primary form — the declarative visibility rule, a transcription of the property's sentence.  Scan the
layers from the newest (`j`) to the oldest:
* a layer that lists `q` itself (not as a whiteout) decides: `q` is that entry (a later entry of the
  same tar replaces an earlier one);
* a layer that has a (non-whiteout) entry beneath `q` implies that `q` is a directory: the directory the
  lower layers left there is kept (with its own metadata) unless this layer also deletes it; otherwise a
  directory is created.  A whiteout entry beneath `q` only creates `q` when nothing else provides it;
* a layer that *covers* `q` — a whiteout of `q` or of an ancestor, an opaque marker in an ancestor,
  or a non-directory entry at an ancestor — hides whatever lower layers say about `q`;
* whiteouts and opaque markers never affect entries of their own layer.

Second form — the forward fold `ociApply` (the operational reading), kept executable so that the
driver can compare the two readings on every case.

`H` is the decidable hypothesis of `C04_view_partial`; each clause is the class predicate of a known
finding or an ill-formedness condition on a single tar.
-/
import Scalibr.Model.Overlay
namespace Scalibr.Overlay

/-- `dir/.wh..wh..opq`, after `whiteout.ToPath` stripped one ".wh." -/
def Entry.isOpq (e : Entry) : Bool := e.wh && e.kind != .dir && e.p.getLast? == some ".wh..opq"

/-- hides what lies beneath it: whiteout or non-directory -/
def Entry.blocker (e : Entry) : Bool := e.wh || e.kind != .dir

/-- the layer's own (non-whiteout) entry for `q`: the last one listed -/
def explicitReal (i : Nat) (l : Layer) (q : Path) : Option Node :=
  (l.reverse.find? fun e => !e.wh && e.p == q).map (·.node i)

/-- `q` is a proper ancestor of some entry of the layer (the code creates parents for every entry) -/
def impliedDir (l : Layer) (q : Path) : Bool := l.any fun e => isUnder q e.p

/-- `q` is a proper ancestor of a non-whiteout entry: extraction makes `q` a directory, replacing a non-directory -/
def realImplied (l : Layer) (q : Path) : Bool := l.any fun e => !e.wh && isUnder q e.p

/-- `q` is a proper ancestor of a whiteout entry: extraction creates `q` only if it is missing -/
def whImplied (l : Layer) (q : Path) : Bool := l.any fun e => e.wh && isUnder q e.p

def covers (l : Layer) (q : Path) : Bool :=
  l.any fun e =>
    (e.wh && !e.isOpq && (e.p == q || isUnder e.p q)) ||
    (e.isOpq && isUnder e.p.dropLast q) ||
    (!e.wh && e.kind != .dir && isUnder e.p q)

/-- the visibility rule on layers listed newest first, each with its index -/
def visible : List (Nat × Layer) → Path → Option Node
  | [], _ => none
  | (i, l) :: ls, q =>
    match explicitReal i l q with
    | some n => some n
    | none =>
      if realImplied l q then
        match (if covers l q then none else visible ls q) with
        | some n => if n.kind = .dir then some n else some (implDir i)
        | none => some (implDir i)
      else if covers l q then none
      else
        match visible ls q with
        | some n => some n
        | none => if whImplied l q then some (implDir i) else none

/-- layers `j, j-1, …, 0` with their indices -/
def newestFirst (layers : List Layer) : Nat → List (Nat × Layer)
  | 0 => []
  | i+1 => (i, layers.getD i []) :: newestFirst layers i

/-- the specification of view `j` -/
def specView (layers : List Layer) (j : Nat) : Tree :=
  ⟨fun q => if q = [] then some (implDir j) else visible (newestFirst layers (j+1)) q⟩

/-! ### forward fold -/

abbrev FTree := List (Path × Node)

def FTree.get (t : FTree) (p : Path) : Option Node := (t.find? (·.1 == p)).map (·.2)
def FTree.rmTree (t : FTree) (p : Path) : FTree := t.filter fun x => !(x.1 == p || isUnder p x.1)
def FTree.rmChildren (t : FTree) (d : Path) : FTree := t.filter fun x => !(isUnder d x.1)
def FTree.set (t : FTree) (p : Path) (n : Node) : FTree := (p, n) :: t.filter fun x => !(x.1 == p)

def putParents (i : Nat) (t : FTree) (p : Path) : FTree :=
  (parents p).foldl (fun t d =>
    match t.get d with
    | some n => if n.kind = .dir then t else (t.rmTree d).set d (implDir i)
    | none => t.set d (implDir i)) t

def put (i : Nat) (t : FTree) (e : Entry) : FTree :=
  let t := putParents i t e.p
  match t.get e.p with
  | some n => if e.kind = .dir && n.kind = .dir then t.set e.p (e.node i)     -- directory over directory: children stay
              else (t.rmTree e.p).set e.p (e.node i)
  | none => t.set e.p (e.node i)

/-- parents of a whiteout entry: created only where missing -/
def putParentsWeak (i : Nat) (t : FTree) (p : Path) : FTree :=
  (parents p).foldl (fun t d => match t.get d with | some _ => t | none => t.set d (implDir i)) t

def ociApply (i : Nat) (t : FTree) (l : Layer) : FTree :=
  -- whiteouts and opaque markers act on what the lower layers left
  let t := l.foldl (fun t e => if e.isOpq then t.rmChildren e.p.dropLast else if e.wh then t.rmTree e.p else t) t
  -- then the layer's own entries in tar order; their parents become directories
  let t := l.foldl (fun t e => if e.wh then t else put i t e) t
  -- the directory a whiteout entry sits in exists (tars that list a whiteout beneath a path they delete are
  -- order-dependent in real extractors and outside `H`)
  l.foldl (fun t e => if e.wh then putParentsWeak i t e.p else t) t

def ociFrom (layers : List Layer) : Nat → FTree
  | 0 => []
  | i+1 => ociApply i (ociFrom layers i) (layers.getD i [])

def ociView (layers : List Layer) (j : Nat) : Tree :=
  let t := ociFrom layers (j+1)
  ⟨fun q => if q = [] then some (implDir j) else t.get q⟩

/-! ### hypothesis of the partial theorem -/

/-- `q` is listed by the layer or is an ancestor of a listed path -/
def mentionedBy (l : Layer) (q : Path) : Bool := l.any fun e => e.p == q || isUnder q e.p

/-- a directory's own entry may follow entries beneath it (which created the directory implicitly): it then supplies
the directory's metadata -/
def upgradeOK (done : Layer) (e : Entry) : Bool := e.kind == .dir && !e.wh && !(done.any fun x => x.p == e.p)

/-- every entry's path is new when it arrives — distinct paths; a whiteout or a file is not listed after entries
beneath it (excludes finding 29 and duplicate names) -/
def freshB : Layer → Layer → Bool
  | _, [] => true
  | done, e :: rest => (!mentionedBy done e.p || upgradeOK done e) && e.p != [] && freshB (done ++ [e]) rest

/-- nothing is listed beneath a whiteout or a non-directory of the same tar (excludes finding 30 and
tars that put entries below a file) -/
def noUnderBlocker (l : Layer) : Bool := l.all fun b => !b.blocker || l.all fun e => !isUnder b.p e.p

def layerOK (l : Layer) : Bool := freshB [] l && noUnderBlocker l

/-- no opaque marker (finding 12) -/
def noOpaque (l : Layer) : Bool := l.all fun e => !e.isOpq

def explicitDirAt (l : Layer) (d : Path) : Bool := l.any fun e => !e.wh && e.kind == .dir && e.p == d
def explicitRealAt (l : Layer) (d : Path) : Bool := l.any fun e => !e.wh && e.p == d
def dirMention (l : Layer) (d : Path) : Bool := explicitDirAt l d || impliedDir l d

/-- finding 10: a path deleted (or replaced by a non-directory) in `l`, re-created as a directory in a
later layer, while an older layer has entries beneath it -/
def noRecreateAt (later : List Layer) (l : Layer) (older : List Layer) : Bool :=
  l.all fun b => !b.blocker || !(later.any fun l' => dirMention l' b.p) ||
    older.all fun l0 => l0.all fun x => !isUnder b.p x.p

/-- new class: a directory that `l` only implies (no entry of its own) while an older layer lists it —
the view reports the made-up node (mode 0) instead of the older entry's metadata.  For a directory implied by
a real entry an older *directory* entry is the problem; for one implied only by whiteouts any older entry is
(a whiteout listed beneath an older layer's file is ill-formed). -/
def noImplicitOverExplicitAt (l : Layer) (older : List Layer) : Bool :=
  l.all fun e => (parents e.p).all fun d => explicitRealAt l d ||
    older.all fun l0 => if realImplied l d then !explicitDirAt l0 d else !explicitRealAt l0 d

/-- `later` = layers already passed (newer), the list = current and older layers, newest first -/
def Hfrom : List Layer → List Layer → Bool
  | _, [] => true
  | later, l :: older =>
    layerOK l && noOpaque l && noRecreateAt later l older && noImplicitOverExplicitAt l older &&
    Hfrom (l :: later) older

def layersNewestFirst (layers : List Layer) (j : Nat) : List Layer := (newestFirst layers (j+1)).map (·.2)

/-- the hypothesis for view `j` -/
def H (layers : List Layer) (j : Nat) : Bool := Hfrom [] (layersNewestFirst layers j)

/-! ### class predicates of the known findings (which clause of `H` fails, and how) -/

/-- an entry whose path was already created earlier in the same tar — implicitly as a parent (unless the entry is the
directory's own, which is honoured), or by an entry of the other whiteout-ness — is dropped (finding 29) -/
def droppedEntry : Layer → Layer → Bool
  | _, [] => false
  | done, e :: rest =>
    (!upgradeOK done e && done.any fun x => isUnder e.p x.p || (x.p == e.p && x.wh != e.wh)) || droppedEntry (done ++ [e]) rest

/-- exact duplicates (same path, same whiteout-ness): first wins in the code, last in a tar extraction; ill-formed -/
def duplicateEntry : Layer → Layer → Bool
  | _, [] => false
  | done, e :: rest => (done.any fun x => x.p == e.p && x.wh == e.wh) || duplicateEntry (done ++ [e]) rest

/-- `e` repeats the earlier entry `x` of the same tar: same path, same whiteout-ness (as in `duplicateEntry`) -/
def repeats (x e : Entry) : Bool := x.p == e.p && x.wh == e.wh

/-- the tar read as "the first entry of a name counts": every entry that repeats an earlier one is left out.  What the
loader does with duplicate member names (known finding C04/same-layer-duplicate-first-wins; a tar extraction keeps the
last) -/
def dedupFirst : Layer → Layer → Layer
  | _, [] => []
  | done, e :: rest => if done.any (fun x => repeats x e) then dedupFirst (done ++ [e]) rest else e :: dedupFirst (done ++ [e]) rest

/-- entries beneath a path the same tar whites out (finding 30) -/
def whiteoutWithChildren (l : Layer) : Bool := l.any fun b => b.wh && l.any fun e => isUnder b.p e.p

/-- entries beneath a non-directory of the same tar; ill-formed -/
def fileWithChildren (l : Layer) : Bool := l.any fun b => !b.wh && b.kind != .dir && l.any fun e => isUnder b.p e.p

/-- the clauses of `H` that fail for view `j`, as class keys -/
def failing : List Layer → List Layer → List String
  | _, [] => []
  | later, l :: older =>
    (if !noOpaque l then ["opaque"] else []) ++
    (if droppedEntry [] l then ["dropped-entry"] else []) ++
    (if whiteoutWithChildren l then ["wh-recreate"] else []) ++
    (if !noRecreateAt later l older then ["recreate"] else []) ++
    (if !noImplicitOverExplicitAt l older then
       (if l.all fun e => (parents e.p).all fun d => explicitRealAt l d || older.all fun l0 => !explicitDirAt l0 d
        then ["ill-wh-under-file"] else ["implicit-dir"]) else []) ++
    (if duplicateEntry [] l then ["ill-dup"] else []) ++
    (if fileWithChildren l then ["ill-file-children"] else []) ++
    (if l.any (fun e => e.p == []) then ["ill-root"] else []) ++
    failing (l :: later) older

def failingOf (layers : List Layer) (j : Nat) : List String := (failing [] (layersNewestFirst layers j)).eraseDups

end Scalibr.Overlay
