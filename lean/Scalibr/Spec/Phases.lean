/-
Specification of the cancellation clause for the plugin loops: the schedule is the list of loop
iterations of all phases; everything up to and including the iteration in which the context is
cancelled runs, nothing after it, and the scan fails whenever an iteration was left out.
-/
import Scalibr.Model.Phases
namespace Scalibr.Phases

/-- the whole schedule of a scan, in order -/
def schedule (nfx : Nat) (roots : List (List (List Plugin))) (sts dets : List Plugin) : List Iter :=
  fsUnits nfx roots ++ plUnits sts ++ plUnits dets

def names (us : List Iter) : List String := us.flatMap fun u => u.plugins.map (·.name)

/-- the iterations that may run: up to and including the first one in which the context is cancelled -/
def through (us : List Iter) : List Iter := us.take ((us.takeWhile fun u => !u.cancels).length + 1)

/-- … and the ones that may not -/
def after (us : List Iter) : List Iter := us.drop ((us.takeWhile fun u => !u.cancels).length + 1)

def specStarted (before : Bool) (us : List Iter) : List String := if before then [] else names (through us)

/-- work remained: some iteration of the schedule was left out -/
def specRemaining (before : Bool) (us : List Iter) : List Iter := if before then us else after us

/-- the status entries a scan that nobody cancels must report for its standalone extractors and detectors: one each, in
order, failed iff the plugin returned an error (`ctx.Err()` is nil then) -/
def specStatusNoCancel (sts dets : List Plugin) : List (String × Bool) :=
  (sts ++ dets).map fun p => (p.name, decide (p.ret = .err))

end Scalibr.Phases
