/-
Specification of the requirer clause of C04: "Loading the image with a restriction to required files changes nothing
except that non-required files are absent."  Directories, and everything about the files that stay, are untouched.
A file is needed when the requirer asks for it or when a required symlink leads to it within `depth` hops (the
loader's documented rule for keeping link targets; `neededSet`).
-/
import Scalibr.Model.OverlayImage
import Scalibr.Spec.Overlay
namespace Scalibr.Overlay

/-- the final view the property asks for: the unrestricted view minus the non-directories that are not needed -/
def specRequired (U : List Path) (req : Path → Bool) (depth : Nat) (t : Tree) : Tree :=
  let marked := neededSet U t req depth
  ⟨fun q => match t.get q with
    | some n => if n.kind = .dir || n.wh || req q || marked.contains q then some n else none
    | none => none⟩

end Scalibr.Overlay
