/-
Specification of the requirer clause of C04: "Loading the image with a restriction to required files changes nothing
except that non-required files are absent."  Directories, and everything about the files that stay, are untouched.

A path is *needed* when the requirer asks for it, or when a required symbolic link leads to it in at most `depth` hops
(the loader's documented rule: the targets of required links are kept).  "Leads to" is the relation `Reach` below,
stated on the tree alone; `withinB` is its executable test (`withinB_iff_Reach`, Proofs/OverlayRequired.lean).  Nothing
here refers to the model of the loader (`chase`, `neededSet`, `pruneFinal`, Model/OverlayImage.lean).
-/
import Scalibr.Model.Overlay
import Scalibr.Spec.Overlay
namespace Scalibr.Overlay

/-- `Reach t n d q`: following the link node `n` arrives at the path `q` after at least one and at most `d` hops, every
hop landing on a node of `t` and every intermediate node being a link again -/
inductive Reach (t : Tree) : Node → Nat → Path → Prop
  /-- the target of `n` exists: it is reached with one hop -/
  | here {n : Node} {m : Node} {d : Nat} : t.get n.target = some m → Reach t n (d+1) n.target
  /-- the target of `n` is itself a link `m`: whatever `m` reaches in `d` hops, `n` reaches in `d+1` -/
  | next {n : Node} {m : Node} {d : Nat} {q : Path} :
      t.get n.target = some m → m.kind = .link → Reach t m d q → Reach t n (d+1) q

/-- a link that counts: a required, non-whiteout symbolic link of the view -/
def RequiredLink (t : Tree) (req : Path → Bool) (s : Path) (n : Node) : Prop :=
  t.get s = some n ∧ n.kind = .link ∧ n.wh = false ∧ req s = true

/-- **needed**: required, or reached from a required link (one of the paths `U`) within `depth` hops -/
def Needed (U : List Path) (t : Tree) (req : Path → Bool) (depth : Nat) (q : Path) : Prop :=
  req q = true ∨ ∃ s n, s ∈ U ∧ RequiredLink t req s n ∧ Reach t n depth q

/-- the same without a universe: over every path of the tree -/
def NeededAny (t : Tree) (req : Path → Bool) (depth : Nat) (q : Path) : Prop :=
  req q = true ∨ ∃ s n, RequiredLink t req s n ∧ Reach t n depth q

/-- what the clause asks of the restricted final view `r` of the unrestricted view `t`: a node of `r` is the node `t`
has there, and a node of `t` is in `r` exactly when it is a directory, a whiteout record or needed -/
def RequiredView (U : List Path) (req : Path → Bool) (depth : Nat) (t r : Tree) : Prop :=
  ∀ q n, r.get q = some n ↔ (t.get q = some n ∧ (n.kind = .dir ∨ n.wh = true ∨ Needed U t req depth q))

/-- executable test of `Reach` (a yes/no walk along the link; it lists nothing) -/
def withinB (t : Tree) : Nat → Node → Path → Bool
  | 0, _, _ => false
  | d+1, n, q =>
    match t.get n.target with
    | none => false
    | some m => n.target == q || (m.kind == .link && withinB t d m q)

/-- executable test of `Needed` -/
def neededB (U : List Path) (t : Tree) (req : Path → Bool) (depth : Nat) (q : Path) : Bool :=
  req q || U.any fun s =>
    match t.get s with
    | some n => n.kind == .link && !n.wh && req s && withinB t depth n q
    | none => false

/-- the final view the property asks for: the unrestricted view minus the non-directories that are not needed -/
def specRequired (U : List Path) (req : Path → Bool) (depth : Nat) (t : Tree) : Tree :=
  ⟨fun q => match t.get q with
    | some n => if n.kind == .dir || n.wh || neededB U t req depth q then some n else none
    | none => none⟩

end Scalibr.Overlay
