/-
C07 — which ecosystems are supported and which ordering rule each one follows.

This table is the SPECIFICATION's: it is taken from the property text (the ecosystems it quantifies
over: Alpine, CRAN, crates.io / npm / Go / Hex / Pub / ConanCenter with semver, Debian / Ubuntu, Maven,
NuGet, Packagist, PyPI, Red Hat, RubyGems — the OSV schema's ecosystem names) and from each ecosystem's
documentation, not from the `switch` in parse.go. `Fam` (imported from the model) is used as the NAME of
a rule only.

`witnesses` are example orderings printed in the ecosystems' own documentation; they are chosen so that
for every ecosystem and every OTHER rule at least one of its examples comes out differently under that
other rule (`C07_witnesses_discriminate`): routing an ecosystem name to a different comparator cannot
satisfy them.
-/
import Scalibr.Model.Semantic.Parse
namespace Scalibr.Semantic

def ecosystemTable : List (String × Fam) :=
  [("Alpine", .alpine), ("ConanCenter", .semver), ("CRAN", .cran), ("crates.io", .semver), ("Debian", .debian),
   ("Go", .semver), ("Hex", .semver), ("Maven", .maven), ("npm", .semver), ("NuGet", .nuget),
   ("Packagist", .packagist), ("Pub", .semver), ("PyPI", .pypi), ("Red Hat", .redhat), ("RubyGems", .rubygems),
   ("Ubuntu", .debian)]

/-- the rule an ecosystem name follows; `none`: the name is not a supported ecosystem (names are
case-sensitive, exactly as the OSV schema writes them) -/
def ecosystemRule (eco : String) : Option Fam := ecosystemTable.lookup eco

def allFams : List Fam := [.semver, .nuget, .cran, .debian, .rubygems, .redhat, .packagist, .pypi, .alpine, .maven]

/-- the documented result of comparing `a` with `b`: an ordering, or `.err` where the documentation says
that one of the strings is not a version at all -/
structure Witness where
  a : String
  b : String
  ord : Outcome

/-- semver.org §11 examples; the identifiers `RC` / `rc` differ (ASCII order) -/
def semverWitnesses : List Witness :=
  [⟨"1.0.0-alpha", "1.0.0-alpha.1", .lt⟩, ⟨"1.0.0-alpha.beta", "1.0.0-beta", .lt⟩, ⟨"1.0.0-rc.1", "1.0.0", .lt⟩,
   ⟨"1.0.0-beta.2", "1.0.0-beta.11", .lt⟩, ⟨"1.0.0-RC", "1.0.0-rc", .lt⟩, ⟨"1.0.0+a", "1.0.0+b", .eq⟩]

def familyWitnesses : Fam → List Witness
  | .semver => semverWitnesses
  -- NuGet docs: labels are case-insensitive; the legacy fourth part counts
  | .nuget => [⟨"1.0.0-RC", "1.0.0-rc", .eq⟩, ⟨"1.0.0.1", "1.0.0", .gt⟩, ⟨"1.0.0-beta", "1.0.0", .lt⟩, ⟨"1.0.0.0", "1.0.0", .eq⟩, ⟨"1.0.0-x", "1.0.0", .lt⟩,
      ⟨"1.0.0-alpha.2", "1.0.0-alpha.10", .lt⟩, ⟨"1.0.0-alpha", "1.0.0-alpha.0", .lt⟩]
  -- R package_version: '.' and '-' are the same separator; more components = greater
  | .cran => [⟨"1.2-3", "1.2.3", .eq⟩, ⟨"1.10", "1.9", .gt⟩, ⟨"1.2", "1.2.0", .lt⟩, ⟨"1.0a", "1.0", .err⟩]
  -- deb-version(7)
  | .debian => [⟨"1.0~rc1", "1.0", .lt⟩, ⟨"1:0.9", "2.0", .gt⟩, ⟨"1.0-1", "1.0-2", .lt⟩, ⟨"1.0+b1", "1.0", .gt⟩, ⟨"1.0", "1.0-0", .eq⟩]
  -- Gem::Version
  | .rubygems => [⟨"1.0.a", "1.0", .lt⟩, ⟨"1.0.b1", "1.0.b2", .lt⟩, ⟨"1.0", "1", .eq⟩, ⟨"1.0.rc1", "1.0.rc.1", .eq⟩, ⟨"1.0.pre", "1.0.rc", .lt⟩]
  -- rpm-version(7)
  | .redhat => [⟨"1.0~rc1", "1.0", .lt⟩, ⟨"1.0^git1", "1.0", .gt⟩, ⟨"1.0^git1", "1.0.1", .lt⟩, ⟨"1:0.9", "2.0", .gt⟩, ⟨"1.0a", "1.0.a", .eq⟩]
  -- Composer / PHP version_compare: dev < alpha < beta < RC < (none) < p
  | .packagist => [⟨"1.0.0-dev", "1.0.0-alpha", .lt⟩, ⟨"1.0.0-beta", "1.0.0-RC", .lt⟩, ⟨"1.0.0-RC", "1.0.0", .lt⟩, ⟨"1.0.0", "1.0.0-p1", .lt⟩,
      ⟨"v1.0.0", "1.0.0", .eq⟩]
  -- PEP 440
  | .pypi => [⟨"1.0.dev1", "1.0a1", .lt⟩, ⟨"1.0a1", "1.0", .lt⟩, ⟨"1.0", "1.0.post1", .lt⟩, ⟨"1!0.5", "2.0", .gt⟩, ⟨"1.0", "1.0.0", .eq⟩,
      ⟨"1.0rc1", "1.0c1", .eq⟩]
  -- apk: suffixes, letters, revisions
  | .alpine => [⟨"1.0_alpha", "1.0_rc", .lt⟩, ⟨"1.0_rc1", "1.0", .lt⟩, ⟨"1.0", "1.0_p1", .lt⟩, ⟨"1.0_cvs", "1.0", .gt⟩, ⟨"1.0-r1", "1.0-r2", .lt⟩,
      ⟨"1.0a", "1.0", .gt⟩]
  -- Maven (pom version order): alpha < beta < milestone < rc < snapshot < (none) = ga = final < sp
  | .maven => [⟨"1.0-alpha-1", "1.0-beta-1", .lt⟩, ⟨"1.0-rc", "1.0", .lt⟩, ⟨"1.0-SNAPSHOT", "1.0", .lt⟩, ⟨"1.0", "1.0-sp", .lt⟩, ⟨"1.0-ga", "1.0", .eq⟩,
      ⟨"1.0.0", "1", .eq⟩, ⟨"1.0-a1", "1.0-alpha-1", .eq⟩]

/-- the documented examples of an ecosystem name -/
def witnessesOf (eco : String) : List Witness :=
  match ecosystemRule eco with
  | some f => familyWitnesses f
  | none => []

/-- the documented verdict for a pair of an ecosystem, if the pair is one of its examples -/
def witnessVerdict (eco : String) (a b : List Char) : Option Outcome :=
  match (witnessesOf eco).find? (fun w => w.a.toList = a && w.b.toList = b) with
  | some w => some w.ord
  | none => none

end Scalibr.Semantic
