/-
C07 — CRAN version ordering as R documents it (`?numeric_version`, `?package_version`, "Writing R
Extensions" §1.1.1): "a sequence of at least two non-negative integers separated by single `.` or
`-` characters"; versions are compared as integer sequences, component by component, and when one
sequence is a proper prefix of the other the shorter one is the smaller (`1.2 < 1.2.0`).
Written from the R documentation, NOT from `/repo/semantic/version-cran.go`.
-/
import Scalibr.Model.Semantic.Basic
namespace Scalibr.Semantic.CranSpec
open Scalibr.Semantic

/-- a version: the first integer, then (separator, integer) pairs; `true` = `-`, `false` = `.` -/
structure V where
  first : Nat
  rest : List (Bool × Nat)
deriving Repr, DecidableEq

/-- the integer sequence -/
def V.nums (v : V) : List Nat := v.first :: v.rest.map (·.2)

/-- lexicographic comparison of the integer sequences; a proper prefix is smaller -/
def specCmp (a b : V) : Ordering := cmpLex ncmp a.nums b.nums

/-- `package_version` wants at least two integers (`numeric_version` accepts one) -/
def V.wf (v : V) : Bool := !v.rest.isEmpty

def renderRest : List (Bool × Nat) → List Char
  | [] => []
  | (s, n) :: rest => (if s then '-' else '.') :: (Nat.toDigits 10 n ++ renderRest rest)

def render (v : V) : List Char := Nat.toDigits 10 v.first ++ renderRest v.rest

/-! ## reading a version back (used by the driver for the oracle) -/

def readNum (s : List Char) : Option Nat :=
  if s.isEmpty || !s.all isDigit then none else some (digitsToNat s)

/-- the rest after the first integer: separator, digits, … -/
def readRest : Nat → List Char → Option (List (Bool × Nat))
  | 0, _ => none
  | fuel + 1, s =>
    match s with
    | [] => some []
    | c :: r =>
      if c = '.' || c = '-' then
        match readNum (r.takeWhile isDigit), readRest fuel (r.dropWhile isDigit) with
        | some n, some rest => some ((decide (c = '-'), n) :: rest)
        | _, _ => none
      else none

def specParse (s : List Char) : Option V :=
  match readNum (s.takeWhile isDigit), readRest (s.length + 1) (s.dropWhile isDigit) with
  | some n, some rest => some ⟨n, rest⟩
  | _, _ => none

end Scalibr.Semantic.CranSpec
