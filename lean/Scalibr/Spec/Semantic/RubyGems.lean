/-
C07 — RubyGems version ordering as the `Gem::Version` documentation states it. Written from the
RubyGems documentation (and the `<=>` / `canonical_segments` it documents), NOT from
`/repo/semantic/version-rubygems.go`.

"A version string should normally be a series of numbers separated by periods. Each part (digits
separated by periods) is considered its own number, and these are used for sorting. … If any part
contains letters (currently only a-z are supported) then that version is considered prerelease.
Versions with a prerelease part in the Nth part sort less than versions with N-1 parts. Prerelease
parts are sorted alphabetically using the normal Ruby string sorting rules. If a prerelease part
contains both letters and numbers, it will be broken into multiple parts to provide expected sort
behavior (1.0.a10 becomes 1.0.a.10, and is greater than 1.0.a9)."

`<=>` compares the canonical segments — trailing zero segments are dropped, both at the end and
just before the first letter segment (`1.0 == 1`, `1.0.a == 1.a`) — position by position, a missing
segment counting as 0; numbers numerically, strings as strings, and a string is below a number.
-/
import Scalibr.Model.Semantic.Basic
namespace Scalibr.Semantic.RubySpec
open Scalibr.Semantic

/-- one segment: a number or a run of letters -/
inductive Seg
  | num (n : Nat)
  | str (s : List Char)
deriving DecidableEq, Repr

/-- a version is its list of segments (`1.0.a10` is `[1, 0, a, 10]`) -/
structure V where
  segs : List Seg
deriving Repr, DecidableEq

def Seg.isNum : Seg → Bool
  | .num _ => true
  | .str _ => false

/-- numbers numerically, strings by Ruby's string comparison, a string below a number -/
def Seg.cmp : Seg → Seg → Ordering
  | .num a, .num b => ncmp a b
  | .str a, .str b => strCmp a b
  | .str _, .num _ => .lt
  | .num _, .str _ => .gt

/-- drop trailing zero segments -/
def dropTrailingZeros (l : List Seg) : List Seg := (l.reverse.dropWhile (· = .num 0)).reverse

/-- `canonical_segments`: the numeric segments before the first letter segment and the rest, each
without trailing zeros -/
def canonicalSegments (v : V) : List Seg :=
  dropTrailingZeros (v.segs.takeWhile Seg.isNum) ++ dropTrailingZeros (v.segs.dropWhile Seg.isNum)

/-- position by position, a missing segment counting as 0 -/
def specCmp (a b : V) : Ordering := cmpPad Seg.cmp (.num 0) (canonicalSegments a) (canonicalSegments b)

def Seg.wf : Seg → Bool
  | .num _ => true
  | .str s => !s.isEmpty && s.all isLetter

/-- at least one segment, the first one a number, letter segments are non-empty ASCII letters -/
def V.wf (v : V) : Bool :=
  (match v.segs with
   | .num _ :: _ => true
   | _ => false) && v.segs.all Seg.wf

def Seg.render : Seg → List Char
  | .num n => Nat.toDigits 10 n
  | .str s => s

def joinDots : List (List Char) → List Char
  | [] => []
  | [t] => t
  | t :: u :: rest => t ++ '.' :: joinDots (u :: rest)

/-- every segment written out, separated by dots -/
def render (v : V) : List Char := joinDots (v.segs.map Seg.render)

/-! ## reading a version back (used by the driver for the oracle) -/

/-- scan `[0-9]+|[a-zA-Z]+` runs of a dot-free part -/
def readRuns : Nat → List Char → Option (List Seg)
  | 0, _ => none
  | fuel + 1, s =>
    match s with
    | [] => some []
    | c :: _ =>
      if isDigit c then
        let ds := s.takeWhile isDigit
        -- canonical numerals only (`00` is the integer 0 for Ruby, but it is not a canonical spelling)
        if ds.length > 1 && ds.head? = some '0' then none
        else
          match readRuns fuel (s.dropWhile isDigit) with
          | some r => some (.num (digitsToNat ds) :: r)
          | none => none
      else if isLetter c then
        match readRuns fuel (s.dropWhile isLetter) with
        | some r => some (.str (s.takeWhile isLetter) :: r)
        | none => none
      else none

def readParts : List (List Char) → Option (List Seg)
  | [] => some []
  | p :: rest =>
    if p.isEmpty then none
    else
      match readRuns (p.length + 1) p, readParts rest with
      | some a, some b => some (a ++ b)
      | _, _ => none

def specParse (s : List Char) : Option V :=
  match readParts (splitOn '.' s) with
  | some (.num n :: rest) => some ⟨.num n :: rest⟩
  | _ => none

end Scalibr.Semantic.RubySpec
