/-
C07 — NuGet version ordering as the NuGet documentation states it ("Package versioning":
Version basics, Pre-release versions, Normalized version numbers). Written from the documentation,
NOT from `/repo/semantic/version-nuget.go`.

* `Major.Minor.Patch[.Revision][-Suffix][+metadata]`: "NuGet … supports SemVer 2.0.0"; the fourth
  numeric part is the legacy `Revision`; `1.0.0.0` is normalised to `1.0.0`, i.e. an absent
  revision is 0.
* the numeric parts are compared numerically, in order;
* pre-release labels follow SemVer 2.0.0 §11 (a pre-release version is lower than the release;
  dot-separated identifiers: numeric ones numerically, others lexically, numeric below
  alphanumeric, a longer list wins when all preceding identifiers are equal), except that "NuGet
  … compares … pre-release labels … case insensitively";
* build metadata is ignored.
-/
import Scalibr.Model.Semantic.Basic
namespace Scalibr.Semantic.NuGetSpec
open Scalibr.Semantic

/-- a dot-separated pre-release identifier -/
inductive Label
  | num (n : Nat)
  | alnum (s : List Char)
deriving DecidableEq, Repr

structure V where
  major : Nat
  minor : Nat
  patch : Nat
  revision : Option Nat
  pre : List Label
  build : List Char
deriving Repr, DecidableEq

/-- ASCII case folding -/
def lower (s : List Char) : List Char := s.map lowerAscii

/-- numeric identifiers numerically; alphanumeric ones lexically, ignoring case; numeric below
alphanumeric -/
def Label.cmp : Label → Label → Ordering
  | .num a, .num b => ncmp a b
  | .num _, .alnum _ => .lt
  | .alnum _, .num _ => .gt
  | .alnum a, .alnum b => strCmp (lower a) (lower b)

/-- identifier by identifier; if all preceding ones are equal the longer list wins -/
def preCmp : List Label → List Label → Ordering
  | [], [] => .eq
  | [], _ :: _ => .lt
  | _ :: _, [] => .gt
  | a :: as, b :: bs => (a.cmp b).then (preCmp as bs)

/-- a pre-release version is lower than the release version -/
def preRule : List Label → List Label → Ordering
  | [], [] => .eq
  | [], _ :: _ => .gt
  | _ :: _, [] => .lt
  | p, q => preCmp p q

/-- major, minor, patch, revision (absent = 0), then the pre-release rule; metadata ignored -/
def specCmp (a b : V) : Ordering :=
  (ncmp a.major b.major).then ((ncmp a.minor b.minor).then ((ncmp a.patch b.patch).then
    ((ncmp (a.revision.getD 0) (b.revision.getD 0)).then (preRule a.pre b.pre))))

def identChar (c : Char) : Bool := isDigit c || isLetter c || c = '-'

def Label.wf : Label → Bool
  | .num _ => true
  | .alnum s => !s.isEmpty && s.all identChar && s.any (fun c => !isDigit c)

def V.wf (v : V) : Bool := v.pre.all Label.wf && v.build.all (fun c => identChar c || c = '.')

def Label.render : Label → List Char
  | .num n => Nat.toDigits 10 n
  | .alnum s => s

def renderPre : List Label → List Char
  | [] => []
  | [i] => i.render
  | i :: j :: rest => i.render ++ '.' :: renderPre (j :: rest)

/-- `-suffix` and `+metadata` -/
def V.tail (v : V) : List Char :=
  (if v.pre.isEmpty then [] else '-' :: renderPre v.pre) ++ (if v.build.isEmpty then [] else '+' :: v.build)

/-- numbers joined by dots -/
def joinNums : Nat → List Nat → List Char
  | n, [] => Nat.toDigits 10 n
  | n, m :: ms => Nat.toDigits 10 n ++ '.' :: joinNums m ms

def V.nums (v : V) : List Nat := v.minor :: v.patch :: v.revision.toList

def render (v : V) : List Char := joinNums v.major v.nums ++ v.tail

/-! ## reading a version back (used by the driver for the oracle) -/

def readNum (s : List Char) : Option Nat :=
  if s.isEmpty || !s.all isDigit then none else some (digitsToNat s)

def readLabel (s : List Char) : Option Label :=
  if s.isEmpty || !s.all identChar then none
  else if s.all isDigit then (if s.length > 1 && s.head? = some '0' then none else some (.num (digitsToNat s)))
  else some (.alnum s)

def readLabels : List (List Char) → Option (List Label)
  | [] => some []
  | s :: rest =>
    match readLabel s, readLabels rest with
    | some i, some is => some (i :: is)
    | _, _ => none

def specParse (s : List Char) : Option V :=
  let (main, build?) : List Char × Option (List Char) :=
    match cutAt '+' s with
    | some (m, b) => (m, some b)
    | none => (s, none)
  let (core, pre?) : List Char × Option (List Char) :=
    match cutAt '-' main with
    | some (c, p) => (c, some p)
    | none => (main, none)
  let buildOk : Bool :=
    match build? with
    | none => true
    | some b => (splitOn '.' b).all fun i => !i.isEmpty && i.all identChar
  let pre : Option (List Label) :=
    match pre? with
    | none => some []
    | some p => readLabels (splitOn '.' p)
  if !buildOk then none
  else
    match pre with
    | none => none
    | some pre =>
      match (splitOn '.' core).map readNum with
      | [some a, some b, some c] => some ⟨a, b, c, none, pre, build?.getD []⟩
      | [some a, some b, some c, some d] => some ⟨a, b, c, some d, pre, build?.getD []⟩
      | _ => none

end Scalibr.Semantic.NuGetSpec
