/-
C07 — PyPI version ordering as PEP 440 states it ("Version scheme", "Summary of permitted suffixes
and relative ordering", "Local version identifiers"). Written from the PEP, NOT from
`/repo/semantic/version-pypi.go`.

  [N!]N(.N)*[{a|b|rc}N][.postN][.devN][+local]

* "The epoch segment of version identifiers MUST be sorted according to the numeric value of the
  given epoch. If no epoch segment is present, the implicit numeric value is 0."
* "The release segment … MUST be sorted in the same order as Python's tuple sorting when the
  normalized release segment is parsed as … when comparing release segments with different numbers
  of components, the shorter segment is padded out with additional zeros as necessary."
* "Within a numeric release (1.0, 2.7.3), the following suffixes are permitted and MUST be ordered
  as shown: .devN, aN, bN, rcN, <no suffix>, .postN"; "Within an alpha (1.0a1), beta (1.0b1), or
  release candidate (1.0rc1, 1.0c1), the following suffixes are permitted and MUST be ordered as
  shown: .devN, <no suffix>, .postN"; "Within a post-release (1.0.post1) …: .devN, <no suffix>";
  "Within a pre-release, post-release or development release segment with a shared prefix,
  ordering MUST be by the value of the numeric component."
* local versions: "… considers each segment of the local version (divided by a .) separately. If a
  segment consists entirely of ASCII digits then that section should be considered an integer for
  comparison purposes and if a segment contains any ASCII letters then that segment is compared
  lexicographically with case insensitivity. When comparing a numeric and lexicographic segment,
  the numeric section always compares as greater than the lexicographic segment. Additionally a
  local version with a great number of segments will always compare as greater than a local version
  with fewer segments, as long as the shorter local version's segments match the beginning of the
  longer local version's segments exactly."; a version with a local label sorts after the same
  version without one.
-/
import Scalibr.Model.Semantic.Basic
namespace Scalibr.Semantic.PepSpec
open Scalibr.Semantic

inductive Phase | a | b | rc
deriving DecidableEq, Repr

/-- one segment of a local version label -/
inductive LSeg
  | num (n : Nat)
  | str (s : List Char)
deriving DecidableEq, Repr

/-- a normalised PEP 440 version -/
structure V where
  epoch : Nat
  first : Nat
  rest : List Nat
  pre : Option (Phase × Nat)
  post : Option Nat
  dev : Option Nat
  loc : List LSeg
deriving Repr, DecidableEq

def V.release (v : V) : List Nat := v.first :: v.rest

def Phase.rank : Phase → Nat
  | .a => 0
  | .b => 1
  | .rc => 2

/-- where the version stands among the suffixes of its release: 0 = a development release of the
release itself (`1.0.dev1`, before every pre-release), 1 = alpha / beta / release candidate (by
phase, then number), 2 = the release or one of its post-releases -/
def V.stage (v : V) : Nat × Nat × Nat :=
  match v.pre, v.post, v.dev with
  | none, none, some _ => (0, 0, 0)
  | some (ph, n), _, _ => (1, ph.rank, n)
  | none, _, _ => (2, 0, 0)

def stageCmp (x y : Nat × Nat × Nat) : Ordering :=
  (ncmp x.1 y.1).then ((ncmp x.2.1 y.2.1).then (ncmp x.2.2 y.2.2))

/-- `<no suffix>` before `.postN`, post-releases by number -/
def postCmp : Option Nat → Option Nat → Ordering
  | none, none => .eq
  | none, some _ => .lt
  | some _, none => .gt
  | some a, some b => ncmp a b

/-- `.devN` before `<no suffix>`, development releases by number -/
def devCmp : Option Nat → Option Nat → Ordering
  | none, none => .eq
  | none, some _ => .gt
  | some _, none => .lt
  | some a, some b => ncmp a b

/-- integers numerically, other segments lexicographically, an integer above a lexicographic one -/
def LSeg.cmp : LSeg → LSeg → Ordering
  | .num a, .num b => ncmp a b
  | .str a, .str b => strCmp a b
  | .num _, .str _ => .gt
  | .str _, .num _ => .lt

/-- segment by segment; a label that extends another one is greater; no label is lowest -/
def localCmp (a b : List LSeg) : Ordering := cmpLex LSeg.cmp a b

/-- epoch, release (zero-padded), position among the suffixes, post, dev, local -/
def specCmp (a b : V) : Ordering :=
  (ncmp a.epoch b.epoch).then ((cmpPad ncmp 0 a.release b.release).then ((stageCmp a.stage b.stage).then
    ((postCmp a.post b.post).then ((devCmp a.dev b.dev).then (localCmp a.loc b.loc)))))

/-! ## canonical (normalised) text -/

def Phase.text : Phase → List Char
  | .a => ['a']
  | .b => ['b']
  | .rc => ['r', 'c']

def LSeg.render : LSeg → List Char
  | .num n => Nat.toDigits 10 n
  | .str s => s

def joinNums : Nat → List Nat → List Char
  | n, [] => Nat.toDigits 10 n
  | n, m :: ms => Nat.toDigits 10 n ++ '.' :: joinNums m ms

def joinDots : List (List Char) → List Char
  | [] => []
  | [t] => t
  | t :: u :: rest => t ++ '.' :: joinDots (u :: rest)

def V.epochText (v : V) : List Char := if v.epoch = 0 then [] else Nat.toDigits 10 v.epoch ++ ['!']
def V.preText (v : V) : List Char :=
  match v.pre with
  | some (ph, n) => ph.text ++ Nat.toDigits 10 n
  | none => []
def V.postText (v : V) : List Char :=
  match v.post with
  | some n => ['.', 'p', 'o', 's', 't'] ++ Nat.toDigits 10 n
  | none => []
def V.devText (v : V) : List Char :=
  match v.dev with
  | some n => ['.', 'd', 'e', 'v'] ++ Nat.toDigits 10 n
  | none => []
def V.localText (v : V) : List Char :=
  if v.loc.isEmpty then [] else '+' :: joinDots (v.loc.map LSeg.render)

def render (v : V) : List Char :=
  v.epochText ++ (joinNums v.first v.rest ++ (v.preText ++ (v.postText ++ (v.devText ++ v.localText))))

def isLocalChar (c : Char) : Bool := isDigit c || isLower c

/-- a lexicographic local segment: non-empty `[a-z0-9]` with at least one letter -/
def LSeg.wf : LSeg → Bool
  | .num _ => true
  | .str s => !s.isEmpty && s.all isLocalChar && s.any isLower

def V.wf (v : V) : Bool := v.loc.all LSeg.wf

/-! ## reading a normalised version back (used by the driver for the oracle) -/

def readNum (s : List Char) : Option Nat :=
  if s.isEmpty || !s.all isDigit then none else some (digitsToNat s)

def readNums : List (List Char) → Option (List Nat)
  | [] => some []
  | s :: rest =>
    match readNum s, readNums rest with
    | some n, some ns => some (n :: ns)
    | _, _ => none

def readLSeg (s : List Char) : Option LSeg :=
  if s.isEmpty || !s.all isLocalChar then none
  else if s.all isDigit then some (.num (digitsToNat s)) else some (.str s)

def readLSegs : List (List Char) → Option (List LSeg)
  | [] => some []
  | s :: rest =>
    match readLSeg s, readLSegs rest with
    | some x, some xs => some (x :: xs)
    | _, _ => none

/-- strip a literal prefix followed by digits: `(number, rest)` -/
def readTagged (tag : List Char) (s : List Char) : Option (Nat × List Char) :=
  if hasPrefix tag s then
    let r := s.drop tag.length
    match readNum (r.takeWhile isDigit) with
    | some n => some (n, r.dropWhile isDigit)
    | none => none
  else none

def specParse (s : List Char) : Option V :=
  let (main, loc?) : List Char × Option (List Char) :=
    match cutAt '+' s with
    | some (m, l) => (m, some l)
    | none => (s, none)
  let (epoch?, body) : Option (List Char) × List Char :=
    match cutAt '!' main with
    | some (e, b) => (some e, b)
    | none => (none, main)
  let epoch : Option Nat :=
    match epoch? with
    | some e => readNum e
    | none => some 0
  let relText := body.takeWhile (fun c => isDigit c || c = '.')
  let r0 := body.dropWhile (fun c => isDigit c || c = '.')
  -- a trailing '.' of the release text belongs to `.post` / `.dev`
  let (relText, r0) : List Char × List Char :=
    match relText.reverse with
    | '.' :: rr => (rr.reverse, '.' :: r0)
    | _ => (relText, r0)
  let pre : Option (Phase × Nat) × List Char :=
    match readTagged ['r', 'c'] r0, readTagged ['a'] r0, readTagged ['b'] r0 with
    | some (n, r), _, _ => (some (.rc, n), r)
    | none, some (n, r), _ => (some (.a, n), r)
    | none, none, some (n, r) => (some (.b, n), r)
    | none, none, none => (none, r0)
  let post : Option Nat × List Char :=
    match readTagged ['.', 'p', 'o', 's', 't'] pre.2 with
    | some (n, r) => (some n, r)
    | none => (none, pre.2)
  let dev : Option Nat × List Char :=
    match readTagged ['.', 'd', 'e', 'v'] post.2 with
    | some (n, r) => (some n, r)
    | none => (none, post.2)
  let loc : Option (List LSeg) :=
    match loc? with
    | some l => readLSegs (splitOn '.' l)
    | none => some []
  if !dev.2.isEmpty then none
  else
    match epoch, readNums (splitOn '.' relText), loc with
    | some e, some (n :: ns), some l => some ⟨e, n, ns, pre.1, post.1, dev.1, l⟩
    | _, _, _ => none

end Scalibr.Semantic.PepSpec
