/-
C07 — Debian / Ubuntu version ordering as deb-version(7) and Debian Policy §5.6.12 state it.
Written from the manual page, NOT from `/repo/semantic/version-debian.go`.

  [epoch:]upstream_version[-debian_revision]

* epoch: a single unsigned integer, compared numerically; absent = 0.
* absence of a debian_revision is equivalent to a debian_revision of 0.
* upstream_version and debian_revision are compared by the same algorithm: "The strings are
  compared from left to right. First the initial part of each string consisting entirely of
  non-digit characters is determined. These two parts (one of which may be empty) are compared
  lexically. … The lexical comparison is a comparison of ASCII values modified so that all the
  letters sort earlier than all the non-letters and so that a tilde sorts before anything, even the
  end of a part. … Then the initial part of the remainder of each string which consists entirely
  of digit characters is determined. The numerical values of these two parts are compared … an
  empty string (which can only occur at the end of one or both version strings being compared)
  counts as zero. These two steps … are repeated … until a difference is found or both strings are
  exhausted."
-/
import Scalibr.Model.Semantic.Basic
namespace Scalibr.Semantic.DebSpec
open Scalibr.Semantic

/-- one step of the alternation: a non-digit run followed by a digit run (`none` = no digits, which
can only happen at the end of the part) -/
structure Seg where
  nd : List Char
  num : Option Nat
deriving Repr, DecidableEq

/-- a canonical Debian version -/
structure V where
  epoch : Nat
  upstream : List Seg
  revision : Option (List Seg)
deriving Repr, DecidableEq

/-- "all the letters sort earlier than all the non-letters and … a tilde sorts before anything, even
the end of a part" (`none`): the rank of one position of a non-digit run -/
def order : Option Char → Int
  | none => 0
  | some c => if c = '~' then -1 else if isLetter c then c.toNat else c.toNat + 256

/-- the non-digit parts "are compared lexically": position by position, a missing character being
the end of the part -/
def ndCmp (a b : List Char) : Ordering :=
  cmpPad (fun x y => icmp (order x) (order y)) none (a.map some) (b.map some)

/-- an empty digit part "counts as zero" -/
def Seg.value (s : Seg) : Nat := s.num.getD 0

/-- first the non-digit parts, then the numerical values -/
def segCmp (s t : Seg) : Ordering := (ndCmp s.nd t.nd).then (ncmp s.value t.value)

/-- the two steps "are repeated … until a difference is found or both strings are exhausted"; an
exhausted string contributes empty parts -/
def partCmp (a b : List Seg) : Ordering := cmpPad segCmp ⟨[], none⟩ a b

/-- absence of a debian_revision is equivalent to a debian_revision of 0 -/
def V.rev (v : V) : List Seg := v.revision.getD [⟨[], some 0⟩]

/-- epoch, then upstream_version, then debian_revision -/
def specCmp (a b : V) : Ordering :=
  (ncmp a.epoch b.epoch).then ((partCmp a.upstream b.upstream).then (partCmp a.rev b.rev))

/-! ## canonical text -/

def Seg.digits (s : Seg) : List Char :=
  match s.num with
  | some n => Nat.toDigits 10 n
  | none => []

def Seg.render (s : Seg) : List Char := s.nd ++ s.digits

def renderPart : List Seg → List Char
  | [] => []
  | s :: rest => s.render ++ renderPart rest

/-- `-debian_revision`, if there is one -/
def V.revTail (v : V) : List Char :=
  match v.revision with
  | some r => '-' :: renderPart r
  | none => []

def render (v : V) : List Char :=
  (if v.epoch = 0 then [] else Nat.toDigits 10 v.epoch ++ [':']) ++ (renderPart v.upstream ++ v.revTail)

/-- characters of a non-digit run: letters and `. + ~`, and `-` where `hyphen` allows it -/
def ndChar (hyphen : Bool) (c : Char) : Bool :=
  isLetter c || c = '.' || c = '+' || c = '~' || (hyphen && c = '-')

/-- the segments describe the part uniquely: non-digit runs consist of allowed characters, only the
first may be empty, and a segment without digits is the last one (and not empty) -/
def partWf (hyphen : Bool) : Bool → List Seg → Bool
  | _, [] => true
  | first, s :: rest =>
    s.nd.all (ndChar hyphen) && (first || !s.nd.isEmpty) &&
      (match s.num with
       | some _ => partWf hyphen false rest
       | none => rest.isEmpty && !s.nd.isEmpty)

/-- upstream_version is not empty and may contain a hyphen only if there is a debian_revision;
the debian_revision is not empty and contains no hyphen (Policy §5.6.12; colons in the
upstream_version are left out of the canonical class) -/
def V.wf (v : V) : Bool :=
  !v.upstream.isEmpty && partWf v.revision.isSome true v.upstream &&
    (match v.revision with
     | some r => !r.isEmpty && partWf false true r
     | none => true)

/-! ## reading a version back (used by the driver for the oracle) -/

/-- digits (leading zeros allowed: the value is what the rule compares) -/
def readNum (s : List Char) : Option Nat :=
  if s.isEmpty || !s.all isDigit then none else some (digitsToNat s)

/-- split a part into segments; `none` if a character is outside the grammar -/
def readPart (hyphen : Bool) : Nat → List Char → Option (List Seg)
  | 0, _ => none
  | fuel + 1, s =>
    if s.isEmpty then some []
    else
      let nd := s.takeWhile (fun c => !isDigit c)
      let r := s.dropWhile (fun c => !isDigit c)
      let ds := r.takeWhile isDigit
      let r' := r.dropWhile isDigit
      if !nd.all (ndChar hyphen) then none
      else if ds.isEmpty then some [⟨nd, none⟩]
      else
        match readPart hyphen fuel r' with
        | some rest => some (⟨nd, some (digitsToNat ds)⟩ :: rest)
        | none => none

/-- `[epoch:]upstream[-revision]` with the grammar above; `none` otherwise -/
def specParse (s : List Char) : Option V :=
  let (epoch?, body) : Option (List Char) × List Char :=
    match cutAt ':' s with
    | some (e, b) => (some e, b)
    | none => (none, s)
  let epoch : Option Nat :=
    match epoch? with
    | some e => readNum e
    | none => some 0
  match epoch with
  | none => none
  | some epoch =>
    match cutLast '-' body with
    | some (up, rev) =>
      (match readPart true (up.length + 1) up, readPart false (rev.length + 1) rev with
       | some u, some r => if u.isEmpty || r.isEmpty then none else some ⟨epoch, u, some r⟩
       | _, _ => none)
    | none =>
      (match readPart false (body.length + 1) body with
       | some u => if u.isEmpty then none else some ⟨epoch, u, none⟩
       | none => none)

end Scalibr.Semantic.DebSpec
