/-
C07 — the strings the total-preorder claim is about, per family.

For the seven families whose published rule is formalised (`Spec/Semantic.lean` §3 for semver.org,
`Spec/Semantic/<Eco>.lean` for the others) the grammar is the PUBLISHED one and mentions no piece
of the implementation's parser: a string is in the grammar iff it is the canonical text `render v`
of some well-formed structured version `v` of that ecosystem's documentation.

For Packagist, Alpine and Maven no published grammar is formalised; there the domain is defined
from the code's own parser (`acceptedByCode`, narrowed by the class of the known finding) and is
named accordingly — it is NOT an independent notion of "valid version".

`cmpOrd` is the comparison as a plain `Ordering`, the shape `Scalibr.Upgrade.TotalPreorderOn` /
`RankFor` (`Spec/VersionOrder.lean`, used by C11 / C18) talk about.
-/
import Scalibr.Spec.Semantic
import Scalibr.Spec.Semantic.Debian
import Scalibr.Spec.Semantic.PyPI
import Scalibr.Spec.Semantic.RubyGems
import Scalibr.Spec.Semantic.NuGet
import Scalibr.Spec.Semantic.Cran
import Scalibr.Spec.Semantic.RedHat
import Scalibr.Spec.VersionOrder
namespace Scalibr.Semantic

/-- the published grammar: canonical texts of well-formed versions of the ecosystem's documentation -/
def PublishedGrammar : Fam → Option (List Char → Prop)
  | .semver => some fun s => ∃ v : SemVer, v.wf = true ∧ v.render = s
  | .nuget => some fun s => ∃ v : NuGetSpec.V, v.wf = true ∧ NuGetSpec.render v = s
  | .cran => some fun s => ∃ v : CranSpec.V, CranSpec.render v = s
  | .debian => some fun s => ∃ v : DebSpec.V, v.wf = true ∧ DebSpec.render v = s
  | .rubygems => some fun s => ∃ v : RubySpec.V, v.wf = true ∧ RubySpec.render v = s
  | .redhat => some fun s => ∃ v : RpmSpec.V, v.wf = true ∧ RpmSpec.render v = s
  | .pypi => some fun s => ∃ v : PepSpec.V, v.wf = true ∧ PepSpec.render v = s
  | .packagist => none
  | .alpine => none
  | .maven => none

/-- the domain defined from the code's parser, for the three families without a formalised grammar:
accepted by the parser (Packagist: and no `#` component; Alpine: and not flagged invalid), outside
the class of the family's known finding -/
def codeDomain (f : Fam) (s : List Char) : Prop := acceptedByCode f s = true ∧ knownClass f s = false

/-- the strings the total-preorder theorem `C07_preorder` is about: the published grammar where one
is formalised, the code-defined domain otherwise -/
def Grammar (f : Fam) (s : List Char) : Prop :=
  match PublishedGrammar f with
  | some G => G s
  | none => codeDomain f s

/-- `Parse(a); CompareStr(b)` as an `Ordering`; an error or a crash counts as "equal" (neither occurs
inside `Grammar`, theorem `C07_grammar_accepted` and `C07_all_total`) -/
def cmpOrd (f : Fam) (a b : List Char) : Ordering :=
  match compareStr f a b with
  | .lt => .lt
  | .gt => .gt
  | _ => .eq

end Scalibr.Semantic
