/-
C07 — Alpine: the SUFFIX rule, written from the documented list and not from the code.

apk versions are `digits(.digits)*[a-z]?(_suffix[digits])*(~hash)?(-r digits)?`. The documented order
of the suffixes is

    alpha < beta < pre < rc  <  (no suffix)  <  cvs < svn < git < hg < p

(pre-release suffixes sort before the version without a suffix, post-release suffixes after it), a
number after the suffix breaks ties (`_rc` = `_rc0`), and a sequence of suffixes is compared position
by position, a missing position counting as "no suffix".

The rule is stated for two versions that agree on everything else (digits, letter, hash, revision);
how the numeric components compare is NOT specified here (the code's zero padding of those is the
recorded finding C07/alpine-leading-zero-padding). This file imports none of the models.
-/
import Scalibr.Model.Semantic.Basic
namespace Scalibr.Semantic.ApkSpec

inductive Kind | alpha | beta | pre | rc | cvs | svn | git | hg | p
deriving DecidableEq, Repr

def Kind.name : Kind → List Char
  | .alpha => ['a', 'l', 'p', 'h', 'a']
  | .beta => ['b', 'e', 't', 'a']
  | .pre => ['p', 'r', 'e']
  | .rc => ['r', 'c']
  | .cvs => ['c', 'v', 's']
  | .svn => ['s', 'v', 'n']
  | .git => ['g', 'i', 't']
  | .hg => ['h', 'g']
  | .p => ['p']

/-- position in the documented list; position 4 is "no suffix" -/
def Kind.rank : Kind → Nat
  | .alpha => 0
  | .beta => 1
  | .pre => 2
  | .rc => 3
  | .cvs => 5
  | .svn => 6
  | .git => 7
  | .hg => 8
  | .p => 9

def noSuffixRank : Nat := 4

/-- one suffix; a missing number is 0 -/
structure Suf where
  kind : Kind
  num : Option Nat
deriving DecidableEq, Repr

def Suf.value (s : Suf) : Nat := s.num.getD 0

/-- one position of a suffix sequence (`none` = no suffix at that position): its place in the
documented list, then its number -/
def slotKey : Option Suf → Nat × Nat
  | none => (noSuffixRank, 0)
  | some s => (s.kind.rank, s.value)

def slotCmp (a b : Option Suf) : Ordering :=
  (ncmp (slotKey a).1 (slotKey b).1).then (ncmp (slotKey a).2 (slotKey b).2)

/-- suffix sequences: position by position, "no suffix" standing in for a missing position -/
def sufCmp (a b : List Suf) : Ordering := cmpPad slotCmp none (a.map some) (b.map some)

/-- a version; `nums` are the digit runs as written, `hash` the hexadecimal digits after `~` (empty:
none) -/
structure V where
  nums : List (List Char)
  letter : Option Char
  sufs : List Suf
  hash : List Char
  rev : Option Nat
deriving DecidableEq, Repr

/-- the ordering of two versions that differ in their suffixes only -/
def specCmp (a b : V) : Ordering := sufCmp a.sufs b.sufs

/-- the two versions agree on digits, letter, hash and revision -/
def sameBase (a b : V) : Bool := a.nums = b.nums && a.letter = b.letter && a.hash = b.hash && a.rev = b.rev

def isHex (c : Char) : Bool := isDigit c || (97 ≤ c.toNat && c.toNat ≤ 102)

def V.wf (v : V) : Bool :=
  !v.nums.isEmpty && v.nums.all (fun d => !d.isEmpty && d.all isDigit) &&
    (match v.letter with
     | some c => isLower c
     | none => true) &&
    v.hash.all isHex

def joinDots : List (List Char) → List Char
  | [] => []
  | [t] => t
  | t :: u :: rest => t ++ '.' :: joinDots (u :: rest)

def Suf.render (s : Suf) : List Char :=
  '_' :: s.kind.name ++
    (match s.num with
     | some n => Nat.toDigits 10 n
     | none => [])

def renderSufs : List Suf → List Char
  | [] => []
  | s :: rest => s.render ++ renderSufs rest

def renderLetter : Option Char → List Char
  | some c => [c]
  | none => []

def renderHash (h : List Char) : List Char := if h.isEmpty then [] else '~' :: h

def renderRev : Option Nat → List Char
  | some n => '-' :: 'r' :: Nat.toDigits 10 n
  | none => []

def V.tail (v : V) : List Char := renderHash v.hash ++ renderRev v.rev

def render (v : V) : List Char :=
  joinDots v.nums ++ (renderLetter v.letter ++ (renderSufs v.sufs ++ v.tail))

/-! ## reader (for the oracle): `some v` with `render v = s`, numbers read as values -/

def readNat (s : List Char) : Nat := s.foldl (fun n c => n * 10 + (c.toNat - 48)) 0

/-- digit runs separated by single dots -/
def readNums : Nat → List Char → Option (List (List Char) × List Char)
  | 0, _ => none
  | fuel + 1, s =>
    let ds := s.takeWhile isDigit
    if ds.isEmpty then none
    else
      match s.dropWhile isDigit with
      | '.' :: r =>
        match readNums fuel r with
        | some (ns, rest) => some (ds :: ns, rest)
        | none => none
      | rest => some ([ds], rest)

def kinds : List Kind := [.alpha, .beta, .pre, .rc, .cvs, .svn, .git, .hg, .p]

def canonNumeral (ds : List Char) : Bool := ds = ['0'] || (ds.head? != some '0')

/-- `_name[digits]` repeatedly; the longest name wins (`pre` before `p`) -/
def readSufs : Nat → List Char → Option (List Suf × List Char)
  | 0, _ => none
  | fuel + 1, s =>
    match s with
    | '_' :: r =>
      match kinds.find? (fun k => k.name.isPrefixOf r) with
      | none => none
      | some k =>
        let after := r.drop k.name.length
        let ds := after.takeWhile isDigit
        if !ds.isEmpty && !canonNumeral ds then none
        else
          match readSufs fuel (after.dropWhile isDigit) with
          | some (ss, rest) => some (⟨k, if ds.isEmpty then none else some (readNat ds)⟩ :: ss, rest)
          | none => none
    | rest => some ([], rest)

def specParse (s : List Char) : Option V :=
  match readNums (s.length + 1) s with
  | none => none
  | some (nums, r1) =>
    let (letter, r2) : Option Char × List Char :=
      match r1 with
      | c :: t => if isLower c then (some c, t) else (none, r1)
      | [] => (none, r1)
    match readSufs (r2.length + 1) r2 with
    | none => none
    | some (sufs, r3) =>
      let (hash, r4) : List Char × List Char :=
        match r3 with
        | '~' :: t => (t.takeWhile isHex, t.dropWhile isHex)
        | _ => ([], r3)
      if (match r3 with
          | '~' :: _ => hash.isEmpty
          | _ => false) then none
      else
        match r4 with
        | [] => some ⟨nums, letter, sufs, hash, none⟩
        | '-' :: 'r' :: ds =>
          if !ds.isEmpty && ds.all isDigit && canonNumeral ds then some ⟨nums, letter, sufs, hash, some (readNat ds)⟩ else none
        | _ => none

end Scalibr.Semantic.ApkSpec
