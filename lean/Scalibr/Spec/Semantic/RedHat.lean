/-
C07 — Red Hat (RPM) version ordering as rpm documents it (rpm-version(7), "Version comparison";
`rpmvercmp` / `rpmverCmp`). Written from the rpm documentation, NOT from
`/repo/semantic/version-redhat.go`.

  [epoch:]version[-release]

* the epoch is a number, compared numerically; absent = 0;
* version and release are labels compared by the same algorithm: a label is cut into maximal
  segments of digits and of letters, every other character only separating segments — except the
  tilde and the caret, which are compared themselves;
* segments are compared pairwise from the left: two numeric segments as integers (leading zeros do
  not matter), two alphabetic segments as strings, and a numeric segment is newer than an
  alphabetic one; if all compared segments are equal, the label with segments left over is newer;
* a tilde sorts before everything, even before the end of the label (`1.0~rc1 < 1.0`);
* a caret sorts after the end of the label but before any other continuation
  (`1.0 < 1.0^git1 < 1.0.1`, `1.0^git1 < 1.0a`);
* a release that is present is newer than an absent one (`rpmverCmp` compares the release only
  when the versions are equal; a missing value sorts first).
-/
import Scalibr.Model.Semantic.Basic
namespace Scalibr.Semantic.RpmSpec
open Scalibr.Semantic

/-- what a label consists of, separators dropped -/
inductive Tok
  | tilde
  | caret
  | num (n : Nat)
  | alpha (s : List Char)
deriving DecidableEq, Repr

structure V where
  epoch : Nat
  version : List Tok
  release : Option (List Tok)
deriving Repr, DecidableEq

/-- what stands at a position (`none` = the label has ended):
tilde < end < caret < letters < digits -/
def rank : Option Tok → Nat
  | some .tilde => 0
  | none => 1
  | some .caret => 2
  | some (.alpha _) => 3
  | some (.num _) => 4

/-- within one kind: integers numerically, letters as strings -/
def sameKind : Option Tok → Option Tok → Ordering
  | some (.num a), some (.num b) => ncmp a b
  | some (.alpha a), some (.alpha b) => strCmp a b
  | _, _ => .eq

def posCmp (x y : Option Tok) : Ordering := (ncmp (rank x) (rank y)).then (sameKind x y)

/-- position by position from the left; a label that has ended offers "end" -/
def labelCmp (a b : List Tok) : Ordering := cmpPad posCmp none (a.map some) (b.map some)

/-- an absent release sorts before a present one -/
def relCmp : Option (List Tok) → Option (List Tok) → Ordering
  | none, none => .eq
  | none, some _ => .lt
  | some _, none => .gt
  | some a, some b => labelCmp a b

/-- epoch, then version, then release -/
def specCmp (a b : V) : Ordering :=
  (ncmp a.epoch b.epoch).then ((labelCmp a.version b.version).then (relCmp a.release b.release))

/-! ## canonical text: a `.` only where two segments of the same kind meet -/

def Tok.text : Tok → List Char
  | .tilde => ['~']
  | .caret => ['^']
  | .num n => Nat.toDigits 10 n
  | .alpha s => s

/-- two digit segments, or two letter segments, need a separator between them -/
def needSep : Option Tok → Tok → Bool
  | some (.num _), .num _ => true
  | some (.alpha _), .alpha _ => true
  | _, _ => false

def renderToks : Option Tok → List Tok → List Char
  | _, [] => []
  | prev, t :: rest => (if needSep prev t then ['.'] else []) ++ (t.text ++ renderToks (some t) rest)

def V.relText (v : V) : List Char :=
  match v.release with
  | some r => '-' :: renderToks none r
  | none => []

def render (v : V) : List Char :=
  (if v.epoch = 0 then [] else Nat.toDigits 10 v.epoch ++ [':']) ++ (renderToks none v.version ++ v.relText)

def Tok.wf : Tok → Bool
  | .alpha s => !s.isEmpty && s.all isLetter
  | _ => true

def V.wf (v : V) : Bool :=
  !v.version.isEmpty && v.version.all Tok.wf &&
    (match v.release with
     | some r => !r.isEmpty && r.all Tok.wf
     | none => true)

/-! ## reading a version back (used by the driver for the oracle) -/

/-- tokens of a label; a single `.` may separate two tokens; `none` for any other character -/
def readLabel : Nat → Bool → List Char → Option (List Tok)
  | 0, _, _ => none
  | fuel + 1, sepOk, s =>
    match s with
    | [] => some []
    | c :: r =>
      if c = '~' then (readLabel fuel true r).map (Tok.tilde :: ·)
      else if c = '^' then (readLabel fuel true r).map (Tok.caret :: ·)
      else if isDigit c then (readLabel fuel true (s.dropWhile isDigit)).map (Tok.num (digitsToNat (s.takeWhile isDigit)) :: ·)
      else if isLetter c then (readLabel fuel true (s.dropWhile isLetter)).map (Tok.alpha (s.takeWhile isLetter) :: ·)
      else if c = '.' && sepOk && !r.isEmpty then readLabel fuel false r
      else none

def readNum (s : List Char) : Option Nat :=
  if s.isEmpty || !s.all isDigit then none else some (digitsToNat s)

def specParse (s : List Char) : Option V :=
  let (epoch?, body) : Option (List Char) × List Char :=
    match cutAt ':' s with
    | some (e, b) => (some e, b)
    | none => (none, s)
  let epoch : Option Nat :=
    match epoch? with
    | some e => readNum e
    | none => some 0
  match epoch with
  | none => none
  | some epoch =>
    match cutAt '-' body with
    | some (ver, rel) =>
      (match readLabel (ver.length + 1) false ver, readLabel (rel.length + 1) false rel with
       | some v, some r => if v.isEmpty || r.isEmpty then none else some ⟨epoch, v, some r⟩
       | _, _ => none)
    | none =>
      (match readLabel (body.length + 1) false body with
       | some v => if v.isEmpty then none else some ⟨epoch, v, none⟩
       | none => none)

end Scalibr.Semantic.RpmSpec
