/-
Specification side for the result proto (C14): what a READER of the record recovers. The repository has no
proto → package direction, so this decoder is the specification's, not a model of code: "the record
represents the package" means that reading the record's generic fields back gives the package's.
-/
import Scalibr.Model.ProtoPkg
namespace Scalibr.ProtoPkg

/-- the generic, extractor-independent content of a package as a consumer of the scan result sees it -/
structure Generic where
  name : String
  version : String
  sourceCode : Option SourceCode
  locations : List String
  annotations : List Int
  layerDetails : Option LayerDetails
  purl : Option Purl
  purlString : Option String
  ecosystem : String
  extractor : String
deriving DecidableEq, Repr

/-- the package's generic content (with what its extractor says about it) -/
def genericOf {M PM : Type} (ops : Ops M PM) (pkg : Package M) : Generic :=
  { name := pkg.name, version := pkg.version, sourceCode := pkg.sourceCode, locations := pkg.locations,
    annotations := pkg.annotations, layerDetails := pkg.layerDetails, purl := ops.toPURL pkg,
    purlString := (ops.toPURL pkg).map ops.purlString, ecosystem := ops.ecosystem pkg, extractor := ops.extractorName pkg }

def readAnnotation : ProtoAnnotation → Int
  | .unspecified => 0 | .transitional => 1 | .insideOSPackage => 2 | .insideCacheDir => 3

/-- reading a record -/
def read {PM : Type} (r : ProtoPackage PM) : Generic :=
  { name := r.name, version := r.version, sourceCode := r.sourceCode, locations := r.locations,
    annotations := r.annotations.map readAnnotation,
    layerDetails := r.layerDetails.map fun l => ⟨l.index, l.diffID, l.command, l.inBaseImage⟩,
    purl := r.purl.map fun p => ⟨p.typ, p.ns, p.name, p.version, p.qualifiers, p.subpath⟩,
    purlString := r.purl.map (·.purl), ecosystem := r.ecosystem, extractor := r.extractor }

/-- the two places where the record cannot be verbatim: annotation values the proto enum has no name for, and
a layer index that does not fit an int32 -/
def Representable {M : Type} (pkg : Package M) : Prop :=
  (∀ a ∈ pkg.annotations, a = 0 ∨ a = 1 ∨ a = 2 ∨ a = 3) ∧
  (∀ ld, pkg.layerDetails = some ld → -2147483648 ≤ ld.index ∧ ld.index < 2147483648)

end Scalibr.ProtoPkg
