/-
Specification for C18: the evaluation algorithm of the OSV schema ("for each event in order:
introduced → vulnerable if v ≥ introduced; fixed → not vulnerable if v ≥ fixed; last_affected → not
vulnerable if v > last_affected"), well-formedness of a range, and the record-level rule.
-/
import Scalibr.Model.Vulns
namespace Scalibr.Vulns

/-- one step of the OSV evaluation loop -/
def step (q : Nat) (vul : Bool) (e : Ev) : Bool :=
  match e.k with
  | .intro => if q ≥ e.v then true else vul
  | .fixed => if q ≥ e.v then false else vul
  | .last  => if q > e.v then false else vul

/-- the OSV evaluation of one range on events in version order -/
def osvScan (es : List Ev) (q : Nat) : Bool := es.foldl (step q) false

/-- ordered events: strictly increasing versions, alternating introduced / (fixed | last_affected),
starting with introduced -/
def WFfrom : (expectIntro : Bool) → (lo : Option Nat) → List Ev → Bool
  | _, _, [] => true
  | ei, lo, e :: es =>
    (match lo with | none => true | some l => l < e.v) &&
    (if ei then e.k = .intro else e.k ≠ .intro) && WFfrom (!ei) (some e.v) es

def WFsorted (es : List Ev) : Bool := WFfrom true none es

/-- a range as listed (any order) is well formed when its events are once ordered -/
def WF (es : List Ev) : Bool := WFsorted (sortEvents es)

/-- the OSV verdict for a range listed in any order: order the events, then evaluate -/
def osvRange (es : List Ev) (q : Nat) : Bool := osvScan (sortEvents es) q

/-- A declarative reading of the same rule (the property's own sentence): `q` lies in an interval
opened by an `introduced` event at or below it and not closed by a later `fixed` at or below `q` or a
later `last_affected` strictly below `q`. -/
def osvDecl (es : List Ev) (q : Nat) : Bool :=
  es.any fun i => i.k = .intro && i.v ≤ q &&
    !(es.any fun c => i.v < c.v && ((c.k = .fixed && c.v ≤ q) || (c.k = .last && c.v < q)))

/-- which range types speak about a package's versions (OSV schema: ECOSYSTEM ranges use the ecosystem's own
ordering; SEMVER ranges apply to packages whose versions ARE SemVer 2.0 — of the ecosystems deps.dev resolves
(npm, Maven, PyPI) that is npm only; GIT and unknown types never describe versions). Stated independently of the code. -/
def matchingType (a : Affected) (r : Range) : Bool :=
  match r.typ with
  | .ecosystem => true
  | .semver => a.eco = 0
  | .other => false

/-- record level: some affected entry for this very package lists the version or has a range of a
matching type whose OSV evaluation says "vulnerable" -/
def specAffected (known : Nat → Bool) (vuln : List Affected) (p : Pkg) : Prop :=
  known p.eco = true ∧ ∃ a ∈ vuln, a.eco = p.eco ∧ a.name = p.name ∧
    (p.vid ∈ a.versions ∨ ∃ r ∈ a.ranges, matchingType a r = true ∧ osvRange r.events p.version = true)

/-! ### the same rule stated with the ecosystem's comparison on version strings (no ranks) -/

/-- a range event carrying the version STRING (an element of an arbitrary type `α` of version spellings) -/
structure EvS (α : Type) where
  k : Kind
  v : α

/-- one step of the OSV evaluation loop, stated with the ecosystem's comparison itself -/
def stepC {α : Type} (cmp : α → α → Ordering) (q : α) (vul : Bool) (e : EvS α) : Bool :=
  match e.k with
  | .intro => if cmp q e.v ≠ .lt then true else vul
  | .fixed => if cmp q e.v ≠ .lt then false else vul
  | .last  => if cmp q e.v = .gt then false else vul

/-- the OSV verdict for a range listed in any order: order the events with the comparison, then evaluate -/
def osvRangeC {α : Type} (cmp : α → α → Ordering) (es : List (EvS α)) (q : α) : Bool :=
  (isort (fun a b => cmp a.v b.v == .lt) es).foldl (stepC cmp q) false

def toRank {α : Type} (rank : α → Nat) (e : EvS α) : Ev := ⟨e.k, rank e.v⟩


end Scalibr.Vulns

namespace Scalibr.Vulns
/-- executable form of `specAffected` (used by the driver as the oracle of the violation search) -/
def specAffectedB (known : Nat → Bool) (vuln : List Affected) (p : Pkg) : Bool :=
  known p.eco && vuln.any fun a => a.eco = p.eco && a.name = p.name &&
    (a.versions.contains p.vid || a.ranges.any fun r => matchingType a r && osvRange r.events p.version)

theorem specAffectedB_iff (known : Nat → Bool) (vuln : List Affected) (p : Pkg) :
    specAffectedB known vuln p = true ↔ specAffected known vuln p := by
  unfold specAffectedB specAffected
  simp only [Bool.and_eq_true, List.any_eq_true, Bool.or_eq_true, decide_eq_true_eq,
    List.contains_iff_mem]
  constructor
  · rintro ⟨hk, a, ha, ⟨he, hn⟩, h⟩
    exact ⟨hk, a, ha, he, hn, h⟩
  · rintro ⟨hk, a, ha, he, hn, h⟩
    exact ⟨hk, a, ha, ⟨he, hn⟩, h⟩
end Scalibr.Vulns
