/-
Specification for C18.

PRIMARY: `osvDecl`, the property's own sentence, which needs no order on the events at all — a version is affected
by a range iff it lies in an interval opened by an `introduced` event at or below it that no `fixed` event after the
opening and at or below the version, and no `last_affected` event at or after the opening and strictly below the
version, closes.

ALSO: the evaluation loop of the OSV schema (`osvScan`: "for each event in order: introduced → vulnerable if
v ≥ introduced; fixed → not vulnerable if v ≥ fixed; last_affected → not vulnerable if v > last_affected") run over the
events ordered by (version, kind) with `fixed` before `introduced` before `last_affected` on one version
(`osvRange`). `C18_decl` proves the two readings equal for EVERY event list in every listing order.

Well-formedness (`WF`): ordered that way the events alternate introduced, fixed|last_affected, introduced, … and no
event occurs twice. On one version this admits exactly: one event; `fixed X, introduced X` (adjacent intervals
[a, X) [X, …)); `introduced X, last_affected X` (exactly the version X); and all three. It excludes
{introduced X, fixed X} as an interval of its own (it would be empty: ordered, the `fixed` comes first and closes
nothing), two closing events on one version, and duplicates.
-/
import Scalibr.Model.Vulns
namespace Scalibr.Vulns

/-- **The specification** (order-free): `q` lies in an interval opened by an `introduced` event `i` (`i.v ≤ q`) that is not
closed by a `fixed` event `c` with `i.v < c.v ≤ q` or a `last_affected` event `c` with `i.v ≤ c.v < q`. -/
def osvDecl (es : List Ev) (q : Nat) : Bool :=
  es.any fun i => i.k = .intro && i.v ≤ q &&
    !(es.any fun c => (c.k = .fixed && i.v < c.v && c.v ≤ q) || (c.k = .last && i.v ≤ c.v && c.v < q))

/-- one step of the OSV evaluation loop -/
def step (q : Nat) (vul : Bool) (e : Ev) : Bool :=
  match e.k with
  | .intro => if q ≥ e.v then true else vul
  | .fixed => if q ≥ e.v then false else vul
  | .last  => if q > e.v then false else vul

/-- the OSV evaluation of one range on events in order -/
def osvScan (es : List Ev) (q : Nat) : Bool := es.foldl (step q) false

/-- on one version: a `fixed` ends the interval before an `introduced` opens the next, and a `last_affected` on the
very version that opens an interval ends that interval (stated here without reference to the code's `eventOrder`) -/
def kindBefore : Kind → Kind → Bool
  | .fixed, .intro => true
  | .fixed, .last => true
  | .intro, .last => true
  | _, _ => false

/-- the order in which the OSV loop reads the events: by version, then `kindBefore` -/
def osvBefore (a b : Ev) : Bool := a.v < b.v || (a.v == b.v && kindBefore a.k b.k)

def osvOrder (es : List Ev) : List Ev := isort osvBefore es

/-- ordered events: strictly increasing in (version, kind), alternating introduced / (fixed | last_affected),
starting with introduced -/
def WFfrom : (expectIntro : Bool) → (lo : Option Ev) → List Ev → Bool
  | _, _, [] => true
  | ei, lo, e :: es =>
    (match lo with | none => true | some l => osvBefore l e) &&
    (if ei then e.k = .intro else e.k ≠ .intro) && WFfrom (!ei) (some e) es

def WFsorted (es : List Ev) : Bool := WFfrom true none es

/-- a range as listed (any order) is well formed when its events are once ordered -/
def WF (es : List Ev) : Bool := WFsorted (osvOrder es)

/-- the OSV loop's verdict for a range listed in any order: order the events, then evaluate -/
def osvRange (es : List Ev) (q : Nat) : Bool := osvScan (osvOrder es) q

/-- which range types speak about a package's versions (OSV schema: ECOSYSTEM ranges use the ecosystem's own
ordering; SEMVER ranges apply to packages whose versions ARE SemVer 2.0 — of the ecosystems deps.dev resolves
(npm, Maven, PyPI) that is npm only; GIT and unknown types never describe versions). Stated independently of the code. -/
def matchingType (a : Affected) (r : Range) : Bool :=
  match r.typ with
  | .ecosystem => true
  | .semver => a.eco = 0
  | .other => false

/-- record level: some affected entry for this very package lists the version or has a range of a
matching type in one of whose intervals (`osvDecl`) the version lies -/
def specAffected (known : Nat → Bool) (vuln : List Affected) (p : Pkg) : Prop :=
  known p.eco = true ∧ ∃ a ∈ vuln, a.eco = p.eco ∧ a.name = p.name ∧
    (p.vid ∈ a.versions ∨ ∃ r ∈ a.ranges, matchingType a r = true ∧ osvDecl r.events p.version = true)

/-! ### the same rule stated with the ecosystem's comparison on version strings (no ranks) -/

/-- a range event carrying the version STRING (an element of an arbitrary type `α` of version spellings) -/
structure EvS (α : Type) where
  k : Kind
  v : α

/-- one step of the OSV evaluation loop, stated with the ecosystem's comparison itself -/
def stepC {α : Type} (cmp : α → α → Ordering) (q : α) (vul : Bool) (e : EvS α) : Bool :=
  match e.k with
  | .intro => if cmp q e.v ≠ .lt then true else vul
  | .fixed => if cmp q e.v ≠ .lt then false else vul
  | .last  => if cmp q e.v = .gt then false else vul

/-- the OSV loop's verdict for a range listed in any order: order the events with the comparison (and `kindBefore` on
versions that compare equal), then evaluate -/
def osvRangeC {α : Type} (cmp : α → α → Ordering) (es : List (EvS α)) (q : α) : Bool :=
  (isort (fun a b => cmp a.v b.v == .lt || (cmp a.v b.v == .eq && kindBefore a.k b.k)) es).foldl (stepC cmp q) false

/-- the order-free specification stated with the ecosystem's comparison itself -/
def osvDeclC {α : Type} (cmp : α → α → Ordering) (es : List (EvS α)) (q : α) : Bool :=
  es.any fun i => i.k = .intro && cmp i.v q != .gt &&
    !(es.any fun c => (c.k = .fixed && cmp i.v c.v == .lt && cmp c.v q != .gt) ||
                      (c.k = .last && cmp i.v c.v != .gt && cmp c.v q == .lt))

def toRank {α : Type} (rank : α → Nat) (e : EvS α) : Ev := ⟨e.k, rank e.v⟩


end Scalibr.Vulns

namespace Scalibr.Vulns
/-- executable form of `specAffected` (used by the driver as the oracle of the violation search) -/
def specAffectedB (known : Nat → Bool) (vuln : List Affected) (p : Pkg) : Bool :=
  known p.eco && vuln.any fun a => a.eco = p.eco && a.name = p.name &&
    (a.versions.contains p.vid || a.ranges.any fun r => matchingType a r && osvDecl r.events p.version)

theorem specAffectedB_iff (known : Nat → Bool) (vuln : List Affected) (p : Pkg) :
    specAffectedB known vuln p = true ↔ specAffected known vuln p := by
  unfold specAffectedB specAffected
  simp only [Bool.and_eq_true, List.any_eq_true, Bool.or_eq_true, decide_eq_true_eq,
    List.contains_iff_mem]
  constructor
  · rintro ⟨hk, a, ha, ⟨he, hn⟩, h⟩
    exact ⟨hk, a, ha, he, hn, h⟩
  · rintro ⟨hk, a, ha, he, hn, h⟩
    exact ⟨hk, a, ha, ⟨he, hn⟩, h⟩
end Scalibr.Vulns
