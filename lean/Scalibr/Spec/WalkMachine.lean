/-
The sequential reading of a scan (C10), as a SPECIFICATION-side function: given the list of `handleFile` calls a scan
owes when nothing stops it, each with its extraction attempts (`traceScan`, Spec/WalkCount.lean), what must a scan with
an inode limit and/or a cancellation point do?

  for each call of the trace, in order:   count the inode — fail with MaxInodes beyond the limit;
                                          report the visit — fail when the context is cancelled;
                                          make the call's attempts (the k-th `Extract` cancels the context).

It looks only at `c.maxInodes`, `c.cancelAt` and the initial "cancelled before the scan" flag; it knows nothing of trees,
gitignore stacks or the engine's control flow.  `run_trace` (Proofs/WalkTrace.lean) proves the engine model equal to it
for every configuration in which filesystem errors are not fatal and no extractor panics.
-/
import Scalibr.Spec.WalkCount
namespace Scalibr.Walk

/-- the part of the engine state the machine talks about -/
structure AS where
  inodes : Nat
  visited : Nat
  extracts : Nat
  cancelled : Bool
  calls : List Call
deriving DecidableEq, Repr

/-- does one of the `Extract` calls number `x+1 … x+m` cancel the context? -/
def hits (ca : Option Nat) (x m : Nat) : Bool :=
  match ca with
  | none => false
  | some k => decide (x < k ∧ k ≤ x + m)

/-- making the attempts of one `handleFile` call -/
def aBlock (c : Cfg) (a : AS) (blk : List Call) : AS :=
  { a with calls := a.calls ++ blk, extracts := a.extracts + openedCount blk,
           cancelled := a.cancelled || hits c.cancelAt a.extracts (openedCount blk) }

/-- the prologue of `handleFile` on the abstract state -/
def aPro (c : Cfg) (a : AS) : AS × Option Err :=
  let a := { a with inodes := a.inodes + 1 }
  if c.maxInodes > 0 && a.inodes > c.maxInodes then (a, some .maxInodes) else
  let a := { a with visited := a.visited + 1 }
  if a.cancelled then (a, some .ctx) else (a, none)

/-- one `handleFile` call -/
def visit (c : Cfg) (a : AS) (blk : List Call) : AS × Err :=
  match aPro c a with
  | (a, some e) => (a, e)
  | (a, none) => (aBlock c a blk, .none)

/-- the machine: the calls of the trace in order, stopping at the first failure -/
def runT (c : Cfg) : AS → List (List Call) → AS × Err
  | a, [] => (a, .none)
  | a, b :: rest =>
    let r := visit c a b
    if r.2 = .none then runT c r.1 rest else r

/-- the outcome the machine prescribes for a whole scan: attempts, error, visited-inode count -/
def machineOutcome (c : Cfg) (roots : List (Node × Faults)) : List Call × Err × Nat :=
  let r := runT c ⟨0, 0, 0, c.cancelBefore, []⟩ (traceScan c roots)
  (r.1.calls, r.2, r.1.visited)

end Scalibr.Walk
