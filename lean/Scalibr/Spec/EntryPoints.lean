/-
Specification of the public entry points `FixVulns` / `Update` on misuse and boundary inputs (C11, C12): which calls must be
refused.  A refused call returns an error and leaves the manifest on disk as it was.  Kinds (harness/remx EntryPoint):
  0  FixVulns without manifest and lockfile            1  manifest with an unsupported file name (build.gradle)
  2  lockfile only (no lockfile format is supported)    3  manifest path that does not exist
  4  package.json that is not JSON                      5  pom.xml that is not well-formed
  6  pom.xml, Strategy "override" spelled out          7  package.json, Strategy "relax" spelled out
  8  a strategy name that does not exist               9  Update without manifest
  10 Update on package.json (no suggester for npm)     11 Update on a path that does not exist
  12 Update on a pom.xml                               13 a requirement on a package the registry does not know
  14 pom.xml plus a lockfile                           15 a requirement no known version satisfies
  16 POM.XML (the file name is matched without regard to case)
  17 package.json whose section is spelled "Dependencies": Read accepts it (encoding/json), the writer's JSON path does not find it — the
     patch cannot be placed, so the call must fail (fix 400b3071; it returned nil with the file unchanged)
-/
namespace Scalibr.EntryPoints

inductive Want
  | refuse     -- error, manifest untouched
  | succeed    -- no error
  | flagged    -- must not pass silently: an error, or a result that lists resolve errors
deriving Repr, DecidableEq

def want : Nat → Option Want
  | 0 | 1 | 2 | 3 | 4 | 5 | 8 | 9 | 10 | 11 | 14 | 17 => some .refuse
  | 6 | 7 | 12 | 16 => some .succeed
  | 13 | 15 => some .flagged
  | _ => none

/-- the verdict on an observation: `err` = an error was returned, `errs` = number of resolve errors in the result,
`same` = the manifest file is byte-identical (`none` when the case has no file to compare) -/
def judge (k : Nat) (err : Bool) (errs : Nat) (same : Option Bool) : Bool :=
  match want k with
  | some .refuse => err && same != some false
  | some .succeed => !err
  | some .flagged => err || errs > 0
  | none => false

end Scalibr.EntryPoints
