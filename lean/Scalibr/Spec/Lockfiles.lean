/-
Specifications for C03 (b): what each record loop must compute, as comprehensions over the decoded document.
-/
import Scalibr.Model.Lockfiles
namespace Scalibr.Lockfiles

/-- the value written last under key `k` in a list of (key, value) writes -/
def lastOf {κ ν} [DecidableEq κ] : List (κ × ν) → κ → Option ν
  | [], _ => none
  | e :: es, k => match lastOf es k with
    | some v => some v
    | none => if e.1 = k then some e.2 else none

/-- a duplicate-free list with the same members (order is irrelevant: the property is about multisets of distinct packages) -/
def dedup {α} [DecidableEq α] : List α → List α
  | [] => []
  | x :: xs => if x ∈ xs then dedup xs else x :: dedup xs

/-- the pairs (k, f k) for the distinct keys of `ks` on which `f` is defined -/
def tabulate {κ ν} [DecidableEq κ] (ks : List κ) (f : κ → Option ν) : List (κ × ν) :=
  (dedup ks).filterMap fun k => (f k).map fun x => (k, x)

namespace PackageLock

/-- the map write of one v1 entry (`depEntry` never panics — `depEntry_total` — so the default is never used) -/
def entryOf (name version commit : Str) : Str × Details :=
  (depEntry name version commit).getD ([], ⟨[], [], []⟩)

mutual
/-- every map write of a v1 `dependencies` tree, children before their parent -/
def flatDeps : List Dep → List (Str × Details)
  | [] => []
  | d :: ds => flatDep d ++ flatDeps ds
def flatDep : Dep → List (Str × Details)
  | .mk name version commit deps =>
    -- an entry without a name (an empty key, an alias without a target) is not a package; its children still are
    flatDeps deps ++ (if (entryOf name version commit).2.name.isEmpty then [] else [entryOf name version commit])
end

/-- the (key, details) writes of a v2/v3 `packages` map: every entry except the root project `""` -/
def pkgWrites (ps : List LPkg) : List (Str × Details) := (ps.filter (fun p => !p.path.isEmpty)).map pkgEntry

/-- the map writes the document calls for: `packages` (root project excluded) when present, else the flattened
`dependencies` tree -/
def writes (d : Doc) : List (Str × Details) :=
  match d.packages with
  | some ps => pkgWrites ps
  | none => flatDeps d.dependencies

/-- what a scan must report, executable (Drivers/C03 prints it): per distinct de-duplication key the LAST write.
MODEL SEMANTICS inside: what one entry denotes (`entryOf` → `depEntry`, `pkgWrites` → `pkgEntry`: aliases, file: and git
versions) is the extractor's own per-entry function, not an independent grammar. -/
def expected (d : Doc) : List (Str × Details) :=
  tabulate ((writes d).map (·.1)) (lastOf (writes d))

end PackageLock

namespace Pipfile
/-- what one entry of `default` / `develop` denotes: a pinned `==version` gives a package -/
def pinnedV (e : Str × Str) : Option NV :=
  match e.2 with
  | '=' :: '=' :: c :: rest => some ⟨e.1, c :: rest⟩
  | _ => none

/-- … under a name: an entry under an empty key is not a package -/
def pinned (e : Str × Str) : Option NV := if e.1.isEmpty then none else pinnedV e

/-- the de-duplication key of the extractor's map -/
def keyNV (nv : NV) : Str := nv.name ++ '@' :: nv.version
def pinnedKV (e : Str × Str) : Option (Str × NV) := (pinned e).map fun nv => (keyNV nv, nv)

/-- what a scan must report, executable: the pinned entries of `default` then `develop`, the first one per `name@version` key -/
def expected (d : Doc) : List (Str × NV) :=
  let l := (d.default ++ d.develop).filterMap pinnedKV
  tabulate (l.map (·.1)) (lookup l)
end Pipfile

namespace PackagesLock
/-- every (id, resolved version) the file lists as a NuGet package under any target framework; a `"type": "Project"` entry is a
project reference, not a package -/
def listed (d : Doc) : List NV :=
  d.flatMap fun fw => (fw.2.filter fun e => e.2.2 ≠ "Project".toList ∧ e.1 ≠ []).map fun e => ⟨e.1, e.2.1⟩

/-- what a scan must report: the DISTINCT (id, version) pairs — NuGet resolves every target framework on its own, so one id
can be listed at different versions (two packages) or at the same version (one package) -/
def expected (d : Doc) : List NV := dedup (listed d)
end PackagesLock

namespace GoMod
/-- one `replace` directive seen from a single requirement: its ORIGINAL key and its current value -/
def step (kv : (Str × Str) × NV) (rp : Replace) : (Str × Str) × NV :=
  let new : NV := ⟨rp.newPath, trimPrefixV rp.newVersion⟩
  if rp.oldVersion.isEmpty then (if kv.1.1 = rp.oldPath then (kv.1, new) else kv)
  else (if kv.1 = (rp.oldPath, trimPrefixV rp.oldVersion) then (kv.1, new) else kv)

def keyOf (r : Str × Str) : Str × Str := (r.1, trimPrefixV r.2)
/-- the package a `require` line ends up as, after all `replace` directives in file order -/
def finalOf (d : Doc) (r : Str × Str) : NV :=
  ((ordered d).foldl step (keyOf r, ⟨r.1, trimPrefixV r.2⟩)).2

def stdlibKey : Str × Str := ("stdlib".toList, [])

/-- what a scan must report, executable: `stdlib` at the toolchain / go version when there is one, and what every `require`
line ends up as. MODEL SEMANTICS inside: `step` is the body of the extractor's `applyReplace` over `ordered d` (since fix 22707b48:
the wildcard directives, matched against the module as required, then the version-specific ones). The go command's rule itself is
`goFinal` / `expectedGo` below. -/
def expected (d : Doc) : List NV :=
  dedup ((if stdlibVersion d ≠ [] then [⟨"stdlib".toList, stdlibVersion d⟩] else []) ++
    (d.requires.filter fun r => decide (stdlibVersion d = [] ∨ keyOf r ≠ stdlibKey)).map (finalOf d))

/-! ### The go command's rule, stated without looking at the extractor

"Go Modules Reference", `replace` directive: *"If a version is present on the left side of the arrow, only that specific version of
the module is replaced; other versions will be accessed normally. If the left version is omitted, all versions of the module are
replaced."* The go command looks a required module up first under (path, version) and only then under (path, no version)
(`modload.Replacement`), so a version-specific directive takes precedence over a wildcard one wherever the two are written, and the
look-up is done ONCE, on the module as required: the result of a replacement is never looked up again (no chaining). Two directives
with the same left side and different right sides are an error of the go command ("conflicting replacements"): `consistent`. -/

def newOf (rp : Replace) : NV := ⟨rp.newPath, trimPrefixV rp.newVersion⟩
/-- the directive names exactly this (path, version) -/
def isExact (k : Str × Str) (rp : Replace) : Bool := !rp.oldVersion.isEmpty && decide ((rp.oldPath, trimPrefixV rp.oldVersion) = k)
/-- the directive names every version of this path -/
def isWild (p : Str) (rp : Replace) : Bool := rp.oldVersion.isEmpty && decide (rp.oldPath = p)

/-- what a `require` line stands for under the go command's rule -/
def goFinal (d : Doc) (r : Str × Str) : NV :=
  match d.replaces.find? (isExact (keyOf r)) with
  | some rp => newOf rp
  | none =>
    match d.replaces.find? (isWild r.1) with
    | some rp => newOf rp
    | none => ⟨r.1, trimPrefixV r.2⟩

/-- no two directives with the same left side and different right sides -/
def consistent (d : Doc) : Bool :=
  d.replaces.all fun a => d.replaces.all fun b =>
    !(decide (a.oldPath = b.oldPath) && decide (trimPrefixV a.oldVersion = trimPrefixV b.oldVersion) && (a.oldVersion.isEmpty == b.oldVersion.isEmpty))
      || decide (newOf a = newOf b)

/-- what a scan must report under the go command's rule: `stdlib` at the toolchain / go version when there is one, and what every
`require` line stands for; one package per distinct (name, version) -/
def expectedGo (d : Doc) : List NV :=
  dedup ((if stdlibVersion d ≠ [] then [⟨"stdlib".toList, stdlibVersion d⟩] else []) ++
    (d.requires.filter fun r => decide (stdlibVersion d = [] ∨ keyOf r ≠ stdlibKey)).map (goFinal d))

def expectedGoSum (d : Doc) (older : Bool) (sum : Sum) : List NV :=
  match older, sum with
  | true, some es => dedup (expectedGo d ++ es.filterMap sumEntry)
  | _, _ => expectedGo d

/-- with the go.sum branch (go older than 1.17 and a readable go.sum): additionally every module go.sum lists (not its `/go.mod` hash
lines), at the version written there; one package per distinct (name, version) -/
def expectedSum (d : Doc) (older : Bool) (sum : Sum) : List NV :=
  match older, sum with
  | true, some es => dedup (expected d ++ es.filterMap sumEntry)
  | _, _ => expected d
end GoMod

end Scalibr.Lockfiles
