/-
Specifications for C03 (b): what each record loop must compute, as comprehensions over the decoded document.
-/
import Scalibr.Model.Lockfiles
namespace Scalibr.Lockfiles

/-- the value written last under key `k` in a list of (key, value) writes -/
def lastOf {κ ν} [DecidableEq κ] : List (κ × ν) → κ → Option ν
  | [], _ => none
  | e :: es, k => match lastOf es k with
    | some v => some v
    | none => if e.1 = k then some e.2 else none

namespace PackageLock

/-- the map write of one v1 entry (`depEntry` never panics — `depEntry_total` — so the default is never used) -/
def entryOf (name version commit : Str) : Str × Details :=
  (depEntry name version commit).getD ([], ⟨[], [], []⟩)

mutual
/-- every map write of a v1 `dependencies` tree, children before their parent -/
def flatDeps : List Dep → List (Str × Details)
  | [] => []
  | d :: ds => flatDep d ++ flatDeps ds
def flatDep : Dep → List (Str × Details)
  | .mk name version commit deps => flatDeps deps ++ [entryOf name version commit]
end

/-- the (key, details) writes of a v2/v3 `packages` map: every entry except the root project `""` -/
def pkgWrites (ps : List LPkg) : List (Str × Details) := (ps.filter (fun p => !p.path.isEmpty)).map pkgEntry

end PackageLock

namespace Pipfile
/-- what one entry of `default` / `develop` denotes: a pinned `==version` gives a package -/
def pinned (e : Str × Str) : Option NV :=
  match e.2 with
  | '=' :: '=' :: c :: rest => some ⟨e.1, c :: rest⟩
  | _ => none
end Pipfile

namespace GoMod
/-- one `replace` directive seen from a single requirement: its ORIGINAL key and its current value -/
def step (kv : (Str × Str) × NV) (rp : Replace) : (Str × Str) × NV :=
  let new : NV := ⟨rp.newPath, trimPrefixV rp.newVersion⟩
  if rp.oldVersion.isEmpty then (if kv.2.name = rp.oldPath then (kv.1, new) else kv)
  else (if kv.1 = (rp.oldPath, trimPrefixV rp.oldVersion) then (kv.1, new) else kv)

def keyOf (r : Str × Str) : Str × Str := (r.1, trimPrefixV r.2)
/-- the package a `require` line ends up as, after all `replace` directives in file order -/
def finalOf (d : Doc) (r : Str × Str) : NV :=
  (d.replaces.foldl step (keyOf r, ⟨r.1, trimPrefixV r.2⟩)).2
end GoMod

end Scalibr.Lockfiles
