/-
C16(a) — specification-side vocabulary of the ComputePatches property and the small universes the property file uses as
witnesses (counterexamples to the unrestricted statements, satisfiability of the hypotheses).
-/
import Scalibr.Model.Worklist
namespace Scalibr.C16
open Scalibr Scalibr.Worklist

/-- patches that `Compare` equal are identical — since fix 09778cd0 a theorem (`C16_cmpeq_holds`); before it NOT a theorem of the code (`Compare` ignores the ids in
`Fixed`/`Introduced`, `VersionFrom`, `Transitive`, `Type`): an explicit hypothesis, evaluated by the harness on
every generated universe -/
def CmpEqImpliesEq (vc : Str → Str → Int) (c : List Patch) : Prop :=
  ∀ a ∈ c, ∀ b ∈ c, Patch.compare vc a b = 0 → a = b

instance (vc : Str → Str → Int) (c : List Patch) : Decidable (CmpEqImpliesEq vc c) := by
  unfold CmpEqImpliesEq; exact inferInstance

/-- ASCII names used in the examples, spelled as bytes so that `decide` can evaluate them -/
def bytes : String → Str
  | "a" => [97] | "b" => [98] | "x" => [120] | "y" => [121]
  | "A" => [65] | "B" => [66] | "C" => [67] | "V" => [86] | "W" => [87] | "X" => [88]
  | "1.0.0" => [49, 46, 48, 46, 48] | "2.0.0" => [50, 46, 48, 46, 48] | "3.0.0" => [51, 46, 48, 46, 48]
  | "9.0.0" => [57, 46, 48, 46, 48] | "10.0.0" => [49, 48, 46, 48, 46, 48] | "1x" => [49, 120]
  | _ => []
def demoVc : Str → Str → Int := verCmp parseMajor (fun a b => cmpInt a b)
def one (name vto : String) (fixed : List String) : Patch :=
  ⟨[⟨bytes name, bytes "1.0.0", bytes vto, false, []⟩], fixed.map bytes, []⟩

def demoFn : Task → Option Patch := fun t =>
  if t = [bytes "A"] then some (one "x" "2.0.0" ["A"])
  else if t = [bytes "B"] then some (one "x" "2.0.0" ["B"]) else none


/-- a universe with follow-up tasks in which all hypotheses of `C16_final` hold: A is fixed by x→2.0.0 which
introduces C; A,C together are fixed by x→3.0.0; B is fixed by y→2.0.0 -/
def okFn : Task → Option Patch := fun t =>
  if t = [bytes "A"] then some ⟨[⟨bytes "x", bytes "1.0.0", bytes "2.0.0", false, []⟩], [bytes "A"], [bytes "C"]⟩
  else if t = [bytes "A", bytes "C"] then some ⟨[⟨bytes "x", bytes "1.0.0", bytes "3.0.0", false, []⟩], [bytes "A"], []⟩
  else if t = [bytes "B"] then some ⟨[⟨bytes "y", bytes "1.0.0", bytes "2.0.0", false, []⟩], [bytes "B"], []⟩
  else none

def okA : Patch := ⟨[⟨bytes "x", bytes "1.0.0", bytes "2.0.0", false, []⟩], [bytes "A"], [bytes "C"]⟩
def okAC : Patch := ⟨[⟨bytes "x", bytes "1.0.0", bytes "3.0.0", false, []⟩], [bytes "A"], []⟩
def okB : Patch := ⟨[⟨bytes "y", bytes "1.0.0", bytes "2.0.0", false, []⟩], [bytes "B"], []⟩
/-- a strategy that introduces a vulnerability not seen before on every attempt (an id longer than every id so far) -/
def freshFn : Task → Option Patch := fun t => some ⟨[⟨[120], [], [t.length], false, []⟩], [], [List.replicate (t.length + 1) 7]⟩

end Scalibr.C16
