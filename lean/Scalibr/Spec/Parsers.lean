/-
Specification side of C03 (a), all five line formats: for each format a generator-side description of a
well-formed file — `GRec` / `GSec` (abstract records with the layout of their own stanza or line), `Layout`
(file-level layout: blank lines, filler lines, per-line LF/CRLF, final newline), `render : Layout → List Rec → bytes`,
the decidable legal-alphabet predicates `WF…`, and `installed` (the packages the file lists as installed).
Shared layout machinery: `Scalibr.Spec.Parsers.Layout`.
-/
import Scalibr.Spec.Parsers.Layout
import Scalibr.Spec.Parsers.Apk
import Scalibr.Spec.Parsers.Gradle
import Scalibr.Spec.Parsers.Gemfile
import Scalibr.Spec.Parsers.Dpkg
import Scalibr.Spec.Parsers.Requirements
import Scalibr.Spec.Parsers.RequirementsTree
