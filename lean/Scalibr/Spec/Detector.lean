/-
Specification for C20, in the property's own words: every detector runs once on the index of the
extracted packages, its findings come back tagged with its name, its status says whether it failed,
and inconsistent advisories fail the scan instead of being emitted.
-/
import Scalibr.Model.Detector
import Scalibr.Spec.Index
namespace Scalibr.Detector
open Scalibr.Index

/-- a finding as it must be reported for detector `n`: untouched except for the tag -/
def tag (n : String) (f : Finding) : Finding := { f with detectors := [n] }

/-- what the detectors return on index `px`, each entry tagged with its detector (nil entries kept):
the findings the scan must report -/
def specFindings (ds : List Detector) (px : PkgMap) : List (Option Finding) :=
  ds.flatMap fun d => (d.scan px).1.map (Option.map (tag d.name))

/-- one status entry per detector, in order, failed iff its Scan returned an error -/
def specStatus (ds : List Detector) (px : PkgMap) : List Status :=
  ds.map fun d => ⟨d.name, if (d.scan px).2 then .failed else .succeeded⟩

/-- no entry is nil, every finding has an advisory with an ID, and findings that share an advisory ID
carry identical advisories -/
def Consistent (fs : List (Option Finding)) : Prop :=
  (∀ x ∈ fs, ∃ f a i, x = some f ∧ f.adv = some a ∧ a.id = some i) ∧
  (∀ f, some f ∈ fs → ∀ g, some g ∈ fs → ∀ a b, f.adv = some a → g.adv = some b → a.id = b.id → a = b)

/-- executable form of `Consistent` (quadratic, obviously equivalent; used by the driver as the oracle) -/
def consistentB (fs : List (Option Finding)) : Bool :=
  (fs.all fun x => match x with
    | some f => (match f.adv with | some a => a.id.isSome | none => false)
    | none => false) &&
  (fs.all fun x => fs.all fun y =>
    match x, y with
    | some f, some g =>
      (match f.adv, g.adv with
       | some a, some b => !(a.id == b.id) || a == b
       | _, _ => true)
    | _, _ => true)

/-- no detector cancels the scan's context while another detector is still to run (the LAST one may: nothing
is skipped then). A context already cancelled when the scan starts is the subject of `Scalibr.Phases` (C10). -/
def NoCancel (ds : List Detector) : Prop := ∀ d ∈ ds.dropLast, d.cancels = false

def noCancelB (ds : List Detector) : Bool := ds.dropLast.all fun d => !d.cancels

/-- ALL findings a scan collects: those carried by the extractors' inventories (as they are) and the
detectors' findings (tagged) — the property's sentence "if two FINDINGS share an advisory ID but differ in
advisory content, or a finding lacks an advisory, the scan reports failure" speaks of findings, not of
detector findings only -/
def allFindings (i : ScanIn) : List (Option Finding) :=
  (i.fsFindings ++ i.stFindings).map some ++ specFindings i.dets (Index.new (i.fsPkgs ++ i.stPkgs))

def ConsistentAll (i : ScanIn) : Prop := Consistent (allFindings i)

/-- SPECIFICATION of the gate in front of the three phases: plugins run only if every required extractor could be enabled, every
plugin's requirements are met, there is a scan root, and specific files are asked for with one root only -/
def Runs (enableOK validOK : Bool) (nroots : Nat) (paths : Bool) : Prop :=
  enableOK = true ∧ validOK = true ∧ 0 < nroots ∧ (paths = true → nroots = 1)

def runsB (enableOK validOK : Bool) (nroots : Nat) (paths : Bool) : Bool :=
  enableOK && validOK && decide (0 < nroots) && (!paths || decide (nroots = 1))

/-- the reason reported: the FIRST unmet condition, in the order enable, requirements, roots, files -/
def specReason (enableOK validOK : Bool) (nroots : Nat) (paths : Bool) : Option PreErr :=
  ([(!enableOK, PreErr.enable), (!validOK, .invalid), (nroots == 0, .noRoot), (paths && nroots != 1, .severalRoots)].find? (·.1)).map (·.2)

end Scalibr.Detector
