/-
Specification for C12.  The pipeline is abstract: a manifest type with `requirements`, an in-memory
patching step, a writer/reader pair, and an analysis that depends on the requirements only
(deterministic resolver and matcher).  `WriterCorrect` is C13's round-trip theorem, as a hypothesis.
-/
import Scalibr.Model.Pipeline
namespace Scalibr.Pipeline

/-- set difference on lists -/
def minus (a b : List Nat) : List Nat := a.filter (!b.contains ·)

/-- "the original vulnerabilities minus the fixed ones plus the introduced ones", as a membership predicate -/
def expectedAfter (orig fixed introduced : List Nat) (v : Nat) : Bool :=
  (orig.contains v && !fixed.contains v) || introduced.contains v

/-- substitute requirement updates into a requirement list -/
def applyUpdates (reqs : List (Key × Nat)) (us : List ReqUpdate) : List (Key × Nat) :=
  reqs.map fun (k, v) =>
    match us.find? (fun u => u.key = k ∧ u.frm = some v) with
    | some u => (k, u.to)
    | none => (k, v)

structure Pipe (M : Type) where
  requirements : M → List (Key × Nat)
  vulns : List (Key × Nat) → List Nat                   -- resolve + match, a function of the requirements
  write : M → List ReqUpdate → M                        -- ReadWriter.Write then ReadWriter.Read
  patched : M → List ReqUpdate → M                      -- the strategy's in-memory manifest

/-- C13: re-reading what was written gives the original requirements with the updates substituted -/
def WriterCorrect {M : Type} (p : Pipe M) : Prop :=
  ∀ m us, p.requirements (p.write m us) = applyUpdates (p.requirements m) us

/-- two patches as `choosePatches` must keep them apart -/
def compatible (p q : Patch) : Prop :=
  (∀ u ∈ q.updates, ∀ w ∈ p.updates, ¬ (u.name = w.name ∧ u.frm = w.frm)) ∧ (∀ v ∈ q.fixed, v ∉ p.fixed)

end Scalibr.Pipeline
