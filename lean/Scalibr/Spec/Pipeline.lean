/-
Specification for C12: set arithmetic of the report, substitution of reported updates, and the pipeline
(writer / reader pair, resolver + matcher as one deterministic function `raw`, the remediation options'
ExplicitVulns handling).  `WriterCorrect` is C13's round-trip theorem as a hypothesis; it is discharged for
package.json in `Properties/C12.lean` (`C12_npm_writer_correct`).
-/
import Scalibr.Model.Pipeline
namespace Scalibr.Pipeline

/-- set difference on lists -/
def minus (a b : List Nat) : List Nat := a.filter (!b.contains ·)

/-- "the original vulnerabilities minus the fixed ones plus the introduced ones", as a membership predicate -/
def expectedAfter (orig fixed introduced : List Nat) (v : Nat) : Bool :=
  (orig.contains v && !fixed.contains v) || introduced.contains v

/-- substitute requirement updates into a requirement list -/
def applyUpdates (reqs : List (Key × Nat)) (us : List ReqUpdate) : List (Key × Nat) :=
  reqs.map fun (k, v) =>
    match us.find? (fun u => u.key = k ∧ u.frm = some v) with
    | some u => (k, u.to)
    | none => (k, v)

/-- The pipeline around the decision logic.  `M` manifest as read, `F` file on disk, `R` requirement list,
`U` requirement update.  `write` is `ReadWriter.Write` (its error returns are `none`), `read` is `ReadWriter.Read`
on what was written, `subst` is the property's "with the updated versions substituted", and `raw` is resolve +
match: the vulnerability ids found in the graph these requirements resolve to.  That `raw` is a FUNCTION of the
requirements is the determinism assumption on deps.dev's resolver and on the matcher (both runs use the same
clients); everything the remediation options add on top is modelled below, not assumed. -/
structure Pipe (M F R U : Type) where
  requirements : M → R
  read : F → M
  write : M → List U → Option F
  subst : R → List U → R
  raw : R → List Nat

/-- `ResolveGraphVulns` on a manifest as given: with `ExplicitVulns = E ≠ []` every other vulnerability found in
THIS graph is appended to `IgnoreVulns`, so only `E` survives; with `E = []` everything found survives.
(Ignore lists, depth, severity and dev filters are functions of the vulnerability and fold into `raw`.) -/
def analyseFresh {M F R U : Type} (p : Pipe M F R U) (E : List Nat) (r : R) : List Nat :=
  (p.raw r).filter fun v => E.isEmpty || E.contains v

/-- the analysis `patchVulns` makes of a patched manifest INSIDE a run that started from requirements `r0`: the
ignore list still holds only what `ResolveGraphVulns` put there for the original graph -/
def analyseInRun {M F R U : Type} (p : Pipe M F R U) (E : List Nat) (r0 r : R) : List Nat :=
  (p.raw r).filter fun v => !(!E.isEmpty && (p.raw r0).contains v && !E.contains v)

/-- C13 as a hypothesis: whenever `Write` succeeds on a well-formed manifest and update list, re-reading the file
gives the original requirements with the updates substituted -/
def WriterCorrect {M F R U : Type} (p : Pipe M F R U) (wf : M → List U → Prop) : Prop :=
  ∀ m us f, wf m us → p.write m us = some f → p.requirements (p.read f) = p.subst (p.requirements m) us

/-- two patches as `choosePatches` must keep them apart -/
def compatible (p q : Patch) : Prop :=
  (∀ u ∈ q.updates, ∀ w ∈ p.updates, ¬ (u.name = w.name ∧ u.frm = w.frm)) ∧ (∀ v ∈ q.fixed, v ∉ p.fixed)

end Scalibr.Pipeline
