/-
Specification for C05: the origin of a package is the least layer index L such that the package is
present in the image-up-to-layer view of every layer from L to the last.
-/
import Scalibr.Model.Trace
namespace Scalibr.Trace

/-- The specification's own reading of "the image-up-to-layer view of a file" (it does not use the
model's `viewAt`/`applyOp`): scanning DOWN from layer `i`, the latest layer at or below `i` that touches
the file decides. -/
def lastTouch (h : History) : Nat → Option Op
  | 0 => (match h[0]? with | some Op.keep => none | r => r)
  | i+1 => (match h[i+1]? with | some Op.keep => lastTouch h i | none => lastTouch h i | r => r)

/-- the package is in the view up to layer `i`: the latest touch wrote the file (as a regular file or
as a symlink to a list) with the package in it -/
def present (h : History) (i : Nat) (p : Pkg) : Bool :=
  match lastTouch h i with
  | some (.write ps) => ps.contains p
  | some (.link ps) => ps.contains p
  | _ => false

/-- `L` is the origin: within range, present in every view from `L` on, and least such -/
def IsOrigin (h : History) (p : Pkg) (L : Nat) : Prop :=
  L < h.length ∧ (∀ j, L ≤ j → j < h.length → present h j p = true) ∧
  (∀ L', L' < h.length → (∀ j, L' ≤ j → j < h.length → present h j p = true) → L ≤ L')

/-- brute force, as the driver's oracle computes it -/
def originSpec (h : History) (p : Pkg) : Option Nat :=
  let n := h.length
  (List.range n).find? fun L => (List.range n).all fun j => j < L || present h j p

/-- the alignment a valid history prescribes: entry `i` is chain layer `i`; the non-empty entries take
the v1 layers in order -/
def alignSpec : List HEntry → (v hi : Nat) → List ChainMeta
  | [], _, _ => []
  | e :: rest, v, hi =>
    if e.empty then ⟨hi, none, e.cmd⟩ :: alignSpec rest v (hi+1)
    else ⟨hi, some v, e.cmd⟩ :: alignSpec rest (v+1) (hi+1)

/-- the chain layers `initializeChainLayers` must produce: a history with exactly one non-empty entry per
v1 layer is followed (`alignSpec`); any other history is ignored — one chain layer per v1 layer, no
commands -/
def specChain (nLayers : Nat) (hist : List HEntry) : List ChainMeta :=
  if (hist.filter (fun e => !e.empty)).length = nLayers then alignSpec hist 0 0
  else (List.range nLayers).map fun i => ⟨i, some i, ""⟩

/-- insert a layer that does not touch the file (e.g. an empty layer) before position `k` -/
def insertKeep (h : History) (k : Nat) : History := h.take k ++ .keep :: h.drop k

/-- where layer index `i` moves when a layer is inserted before position `k` -/
def shift (k i : Nat) : Nat := if i < k then i else i + 1

end Scalibr.Trace
