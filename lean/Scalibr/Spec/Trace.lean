/-
Specification for C05: the origin of a package is the least layer index L such that the package is
present in the image-up-to-layer view of every layer from L to the last.
-/
import Scalibr.Model.Trace
namespace Scalibr.Trace

def has (v : Option (List Pkg)) (p : Pkg) : Bool :=
  match v with
  | some ps => ps.contains p
  | none => false

/-- the package is in the view up to layer `i` -/
def present (h : History) (i : Nat) (p : Pkg) : Bool := has (viewAt h i) p

/-- `L` is the origin: within range, present in every view from `L` on, and least such -/
def IsOrigin (h : History) (p : Pkg) (L : Nat) : Prop :=
  L < h.length ∧ (∀ j, L ≤ j → j < h.length → present h j p = true) ∧
  (∀ L', L' < h.length → (∀ j, L' ≤ j → j < h.length → present h j p = true) → L ≤ L')

/-- brute force, as the driver's oracle computes it -/
def originSpec (h : History) (p : Pkg) : Option Nat :=
  let n := h.length
  (List.range n).find? fun L => (List.range n).all fun j => j < L || present h j p

/-- the alignment a valid history prescribes: entry `i` is chain layer `i`; the non-empty entries take
the v1 layers in order -/
def alignSpec : List HEntry → (v hi : Nat) → List ChainMeta
  | [], _, _ => []
  | e :: rest, v, hi =>
    if e.empty then ⟨hi, none, e.cmd⟩ :: alignSpec rest v (hi+1)
    else ⟨hi, some v, e.cmd⟩ :: alignSpec rest (v+1) (hi+1)

/-- insert a layer that does not touch the file (e.g. an empty layer) before position `k` -/
def insertKeep (h : History) (k : Nat) : History := h.take k ++ .keep :: h.drop k

/-- where layer index `i` moves when a layer is inserted before position `k` -/
def shift (k i : Nat) : Nat := if i < k then i else i + 1

end Scalibr.Trace
