/-
Specification for the package.json half of C13.

`substitute` is the property's own sentence: "the original requirements with the updated versions
substituted".  `applySpec` is its document-level reading: the value of an addressed key is replaced in
every section where key and old value match; nothing else moves (`sameOutside`).
-/
import Scalibr.Model.NpmWriter
namespace Scalibr.Npm

/-- an update addresses a requirement by package name, alias and old version -/
def addresses (u : Up) (r : Req) : Bool := r.name = u.name && r.knownAs = u.knownAs && r.ver = u.frm

def substReq (u : Up) (r : Req) : Req := if addresses u r then { r with ver := u.to } else r

def substitute (rs : List Req) (us : List Up) : List Req := us.foldl (fun rs u => rs.map (substReq u)) rs

/-- the requirement is present in the file as `Read` sees it -/
def present (u : Up) (d : Doc) : Prop := ∃ r ∈ requirements d, addresses u r = true

def substEntry (u : Up) (e : Str × Str) : Str × Str :=
  if e.1 = wkey u ∧ e.2 = origVer u then (e.1, newVer u) else e

def applySpec (u : Up) (d : Doc) : Doc :=
  { dev := d.dev.map (substEntry u), opt := d.opt.map (substEntry u), prod := d.prod.map (substEntry u) }

def applyAll (d : Doc) (us : List Up) : Doc := us.foldl (fun d u => applySpec u d) d

/-- a version string that survives the alias syntax and the registry filter -/
def plainVer (v : Str) : Bool := !v.any (fun c => c = ':' || c = '/' || c = '@')

/-- well-formed update: plain versions; an aliased update names a real package and an old version -/
def WFup (u : Up) : Bool :=
  plainVer u.frm && plainVer u.to && (u.knownAs.isNone || (u.name ≠ [] && u.frm ≠ []))

def keysNodup (s : Sec) : Prop := (s.map (·.1)).Nodup
/-- JSON objects with unique keys (gjson finds the first, encoding/json keeps the last duplicate) -/
def WFdoc (d : Doc) : Prop := keysNodup d.dev ∧ keysNodup d.opt ∧ keysNodup d.prod

instance (s : Sec) : Decidable (keysNodup s) := by unfold keysNodup; infer_instance
instance (d : Doc) : Decidable (WFdoc d) := by unfold WFdoc; infer_instance

/-- same keys in the same order; values differ only where an update's key and old value matched -/
def secSameOutside (us : List Up) (s s' : Sec) : Prop :=
  s'.map (·.1) = s.map (·.1) ∧
  ∀ e ∈ s, (∀ u ∈ us, e.1 ≠ wkey u) → e ∈ s'

def sameOutside (us : List Up) (d d' : Doc) : Prop :=
  secSameOutside us d.dev d'.dev ∧ secSameOutside us d.opt d'.opt ∧ secSameOutside us d.prod d'.prod

/-- the update was applied in one step `d → d'`: some section held key ↦ old value and now holds the new -/
def applied (u : Up) (d d' : Doc) : Prop :=
  (lookup d.dev (wkey u) = some (origVer u) ∧ lookup d'.dev (wkey u) = some (newVer u)) ∨
  (lookup d.opt (wkey u) = some (origVer u) ∧ lookup d'.opt (wkey u) = some (newVer u)) ∨
  (lookup d.prod (wkey u) = some (origVer u) ∧ lookup d'.prod (wkey u) = some (newVer u))

/-- `Read` loses no entry: every entry of the three sections that `makeNPMReqVer` accepts is among the requirements under
its own identity — the package together with the alias (the key of a `"bar": "npm:foo@…"` entry).  The version may be
that of a later section (dev over optional over regular). -/
def readComplete (d : Doc) (rs : List Req) : Bool :=
  (d.dev ++ d.opt ++ d.prod).all fun e =>
    match makeReq e with
    | none => true
    | some q => rs.any fun r => r.name = q.name && r.knownAs = q.knownAs

def keyPresent (u : Up) (d : Doc) : Prop :=
  (lookup d.dev (wkey u)).isSome ∨ (lookup d.opt (wkey u)).isSome ∨ (lookup d.prod (wkey u)).isSome

end Scalibr.Npm
