/-
Specification of WHAT A SCAN VISITS (C10): defined on the tree, the fault plan and the configuration
only — no engine state.

`visits` counts the `handleFile` calls (one per inode processed, plus the "second call" with which
the directory iterator reports a failing `Open` / `ReadDir(1)`) that a walk makes when it runs to the
end and filesystem errors are not fatal.  `trace` lists the same `handleFile` calls in order, each with
the extraction attempts it owes (`mustOne` of `Spec/Walk.lean` for a file, nothing for a directory or an
error report), so that `visits = trace.length` and `trace.flatten = mustExtract`.
-/
import Scalibr.Spec.Walk
namespace Scalibr.Walk

mutual
/-- number of `handleFile` calls of a walk of node `n` at `p` below the gitignore context `gis`:
one per file; for a directory one, plus the second call when it is entered but cannot be opened, else
plus the calls for its entries in listing order — a failing k-th read is reported by one more call and ends
the listing (this includes the read that would have returned EOF) -/
def visits (c : Cfg) (f : Faults) (gis : List GiEntry) (p : Path) : Node → Nat
  | .file _ _ => 1
  | .dir gi es =>
    if excludedDir c gis p then 1
    else if f.openFail p then 2
    else 1 + visitsL c f (if c.useGitignore then gis ++ [giEntryOf f ⟨p, gi, 0⟩] else gis) p es 0
def visitsL (c : Cfg) (f : Faults) (gis : List GiEntry) (p : Path) : List (String × Node) → Nat → Nat
  | [], k => if f.readEntryFail p k then 1 else 0
  | (s, n) :: rest, k =>
    if f.readEntryFail p k then 1
    else visits c f gis (p ++ [s]) n + visitsL c f gis p rest (k+1)
end

/-- one requested path: a start path that cannot be stat'ed or does not exist is reported by one call -/
def visitsRequested (c : Cfg) (f : Faults) (root : Node) (p : Path) : Nat :=
  if f.statFail p then 1 else
  match lookup root p with
  | none => 1
  | some (.dir gi es) => visits c f (if c.useGitignore then (parentGis f root p).1 else []) p (.dir gi es)
  | some (.file _ _) => 1

def visitsRoot (c : Cfg) (f : Faults) (root : Node) : Nat :=
  if c.paths.isEmpty then (if f.statFail [] then 1 else visits c f [] [] root)
  else (c.paths.map (visitsRequested c f root)).sum

/-- `handleFile` calls of a whole scan that runs to the end (all roots: the inode counter is shared) -/
def visitsScan (c : Cfg) (roots : List (Node × Faults)) : Nat :=
  (roots.map fun (r, f) => visitsRoot c f r).sum

/-! ### the same calls, in order, each with the extraction attempts it owes -/

mutual
/-- a file that is visited under the patterns `gis` owes `mustOne` (taken as the start of its own walk:
every directory above it has let the walk through); directories and error reports owe nothing -/
def trace (c : Cfg) (f : Faults) (gis : List GiEntry) (p : Path) : Node → List (List Call)
  | .file k sz => [mustOne c f gis ⟨p, k, sz, []⟩]
  | .dir gi es =>
    if excludedDir c gis p then [[]]
    else if f.openFail p then [[], []]
    else [] :: traceL c f (if c.useGitignore then gis ++ [giEntryOf f ⟨p, gi, 0⟩] else gis) p es 0
def traceL (c : Cfg) (f : Faults) (gis : List GiEntry) (p : Path) : List (String × Node) → Nat → List (List Call)
  | [], k => if f.readEntryFail p k then [[]] else []
  | (s, n) :: rest, k =>
    if f.readEntryFail p k then [[]]
    else trace c f gis (p ++ [s]) n ++ traceL c f gis p rest (k+1)
end

def traceRequested (c : Cfg) (f : Faults) (root : Node) (p : Path) : List (List Call) :=
  if f.statFail p then [[]] else
  match lookup root p with
  | none => [[]]
  | some (.dir gi es) => trace c f (if c.useGitignore then (parentGis f root p).1 else []) p (.dir gi es)
  | some (.file k sz) => [mustOne { c with useGitignore := false } f [] ⟨p, statKind k, sz, []⟩]

def traceRoot (c : Cfg) (f : Faults) (root : Node) : List (List Call) :=
  if c.paths.isEmpty then (if f.statFail [] then [[]] else trace c f [] [] root)
  else c.paths.flatMap (traceRequested c f root)

/-- the `handleFile` calls of a scan that runs to the end, in order, each with its attempts -/
def traceScan (c : Cfg) (roots : List (Node × Faults)) : List (List Call) :=
  roots.flatMap fun (r, f) => traceRoot c f r

/-- number of attempts in which `Extract` is really called -/
def openedCount (l : List Call) : Nat := (l.filter (·.opened)).length

/-- What a scan whose context is cancelled from inside the k-th `Extract` must do, read off the trace
(`x` = `Extract` calls before it): every `handleFile` call up to AND INCLUDING the one in which the k-th
`Extract` happens is made in full; nothing after it; the scan fails with the context error iff a call
remained, and that one call is still counted as visited.  Result: attempts, error, visited inodes. -/
def cancelOutcome (k : Nat) : Nat → List (List Call) → List Call × Err × Nat
  | _, [] => ([], .none, 0)
  | x, b :: rest =>
    if k ≤ x + openedCount b then (b, if rest = [] then .none else .ctx, 1 + (if rest = [] then 0 else 1))
    else
      let r := cancelOutcome k (x + openedCount b) rest
      (b ++ r.1, r.2.1, r.2.2 + 1)

/-- what a scan must do when its context is cancelled right after the j-th `handleFile` call has returned
(j ≥ 1): the calls so far are complete, nothing later is attempted, and the scan fails iff a call remained -/
def cancelBetween (j : Nat) (T : List (List Call)) : List Call × Err × Nat :=
  ((T.take j).flatten, (if T.drop j = [] then .none else .ctx), j + (if T.drop j = [] then 0 else 1))

end Scalibr.Walk
