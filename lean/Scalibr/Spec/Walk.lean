/-
Specification for the walk engine (C01, C08, C09): which `Extract` calls a scan MUST make, written
as a comprehension over "every file of the tree together with the directories above it", not as a
traversal.  Faults are part of the specification: a file is not extracted when a directory above it
cannot be opened, when the listing of a directory above it failed at or before the entry leading to it,
or when the file itself cannot be stat'ed for the size check, opened, or stat'ed once open.

WHAT THIS SPECIFICATION SHARES WITH THE MODEL (it imports Model/Walk.lean) and why that is harmless:
  * DATA TYPES of the problem statement: `Node`, `Path`, `Kind`, `Pat`/`PatSet`, `Cfg`, `Faults`, `Call`, `GiEntry`, `Err`.
  * `lookup` (the node a path leads to — first entry of that name), `statKind` (`fs.Stat` follows a link): vocabulary needed
    to SAY which node a requested path denotes; `Proofs/WalkOnce.lean` anchors `lookup` against `allFiles`
    (`C01_allFiles_exact`).
  * `tokens`, `domainOf`, `stackMatch`: how a path and a `.gitignore`'s directory are handed to the (parametric) go-git
    matcher `c.giMatch`, and "some pattern set of the list excludes it"; these are the matcher's calling convention,
    validated against go-git by the stream, not walk logic.
  * `parentGis` (the `.gitignore` context of a requested directory): used verbatim in `mustRequested`.  It is anchored
    declaratively by `C01_parentGis_is_chain` (Properties/C01.lean = `parentGis_chain`): it equals the `giEntryOf`s of
    the chain of directories leading from the root to the requested path — the same context the whole-tree enumeration
    gives the files below it.
  * `excludedDir` below is, clause for clause, the disjunction `shouldSkipDir` evaluates.  That is intended: the property
    is parametric in "a configured skip rule", and this disjunction (skip list ∨ sub-directory cut-off ∨ gitignore ∨
    regex ∨ glob; the scan root is never gitignored) is the DEFINITION of that phrase, not a derived fact.  What the
    specification adds is WHERE the rules are applied: to every directory on the chain above a file, with exactly the
    patterns of the directories above it (the model instead pushes and pops a stack while walking, and tests a directory
    after pushing its own patterns — the domain law is what reconciles the two).
Nothing of the walk itself (traversal order, the stacks, the second-call protocol, early exits, counters) is shared.
-/
import Scalibr.Model.Walk
namespace Scalibr.Walk

/-- a directory on the way from the start of a walk down to a file -/
structure DirInfo where
  path : Path
  gi : Option PatSet      -- content of its .gitignore
  childIdx : Nat          -- position, in this directory's listing, of the entry that leads to the file
deriving Repr

structure FileRec where
  path : Path
  kind : Kind
  size : Nat
  dirs : List DirInfo     -- from the start directory (inclusive) to the file's parent, outermost first
deriving Repr

mutual
/-- every non-directory below (or at) `p`, with the directories above it -/
def allFiles (p : Path) (anc : List DirInfo) : Node → List FileRec
  | .file k sz => [⟨p, k, sz, anc⟩]
  | .dir gi es => allFilesList p gi anc es 0
def allFilesList (p : Path) (gi : Option PatSet) (anc : List DirInfo) : List (String × Node) → Nat → List FileRec
  | [], _ => []
  | (s, n) :: rest, i => allFiles (p ++ [s]) (anc ++ [⟨p, gi, i⟩]) n ++ allFilesList p gi anc rest (i+1)
end

/-- the patterns a directory contributes: none when its `.gitignore` cannot be read -/
def giEntryOf (f : Faults) (d : DirInfo) : GiEntry :=
  if f.openFail (d.path ++ [".gitignore"]) then none else d.gi.map fun ps => (domainOf d.path, ps)

/-- a configured skip rule excludes directory `d` (gitignore patterns: those of the directories above it) -/
def excludedDir (c : Cfg) (gisAbove : List GiEntry) (d : Path) : Bool :=
  c.dirsToSkip d || (c.ignoreSubDirs && !c.paths.contains d) ||
  (c.useGitignore && d != [] && stackMatch c gisAbove (tokens d) true) ||
  (match c.regex with | some r => r d | none => false) ||
  (match c.glob with | some g => g d | none => false)

/-- directory number `i` of the chain lets the walk through to the next component -/
def dirPasses (c : Cfg) (f : Faults) (above : List GiEntry) (dirs : List DirInfo) (i : Nat) : Bool :=
  match dirs[i]? with
  | none => true
  | some d =>
    !excludedDir c (above ++ (dirs.take i).map (giEntryOf f)) d.path &&
    !f.openFail d.path &&
    (List.range (d.childIdx + 1)).all fun k => !f.readEntryFail d.path k

/-- the file itself may be handed to extractors -/
def fileEligible (c : Cfg) (f : Faults) (above : List GiEntry) (r : FileRec) : Bool :=
  !((r.kind = .special) || (r.kind = .symlink && !c.readSymlinks)) &&
  !(c.useGitignore && stackMatch c (above ++ r.dirs.map (giEntryOf f)) (tokens r.path) false)

/-- size rule (shared by all extractors) and readability -/
def sizeOk (c : Cfg) (f : Faults) (r : FileRec) : Bool :=
  !(c.maxFileSize > 0) || (!f.statFail r.path && !(r.size > c.maxFileSize))
def readable (f : Faults) (r : FileRec) : Bool := !f.openFail r.path && !f.fileStatFail r.path

def reached (c : Cfg) (f : Faults) (above : List GiEntry) (r : FileRec) : Bool :=
  (List.range r.dirs.length).all (dirPasses c f above r.dirs) && fileEligible c f above r

/-- the extraction attempts owed to one file: one per extractor that requires it, in configuration
order; `Extract` is really called when the file can be opened and stat'ed (`opened`), otherwise the
attempt only leaves an error with the extractor -/
def mustOne (c : Cfg) (f : Faults) (above : List GiEntry) (r : FileRec) : List Call :=
  if reached c f above r && sizeOk c f r
  then ((List.range c.nExt).filter fun e => c.required e r.path).map fun e => ⟨e, r.path, r.size, readable f r⟩
  else []

/-- calls owed to a walk that starts at directory/file node `n` located at `p`, below gitignore context `above` -/
def mustFrom (c : Cfg) (f : Faults) (above : List GiEntry) (p : Path) (n : Node) : List Call :=
  (allFiles p [] n).flatMap (mustOne c f above)

/-- calls owed to one requested path (a requested *file* is taken as is: no ancestor rule, no gitignore) -/
def mustRequested (c : Cfg) (f : Faults) (root : Node) (p : Path) : List Call :=
  if f.statFail p then [] else
  match lookup root p with
  | none => []
  | some (.dir gi es) =>
    mustFrom c f (if c.useGitignore then (parentGis f root p).1 else []) p (.dir gi es)
  | some (.file k sz) => mustOne { c with useGitignore := false } f [] ⟨p, statKind k, sz, []⟩

/-- calls owed to one scan root -/
def mustRoot (c : Cfg) (f : Faults) (root : Node) : List Call :=
  if c.paths.isEmpty then (if f.statFail [] then [] else mustFrom c f [] [] root)
  else c.paths.flatMap (mustRequested c f root)

/-- calls owed to a whole scan -/
def mustExtract (c : Cfg) (roots : List (Node × Faults)) : List Call :=
  roots.flatMap fun (r, f) => mustRoot c f r

/-- hypothesis of the non-fatal theorems: no limit, no cancellation, errors not fatal, extractors do not panic -/
def Benign (c : Cfg) : Prop :=
  c.maxInodes = 0 ∧ c.errorOnFSErrors = false ∧ c.cancelBefore = false ∧ c.cancelAt = none ∧
  ∀ e p, (c.extract e p).panics = false

end Scalibr.Walk

namespace Scalibr.Walk

/-! ### which filesystem failures a walk is told about (C09, "fatal only on request")

`traversalFault` is true when the walk — proceeding as it does when errors are NOT fatal — meets a
failure that `handleFile` is told about: a directory that cannot be opened or whose listing fails, an
unreadable `.gitignore` of a directory it enters, the failing size stat of a file some extractor
requires, a start path that cannot be stat'ed or does not exist.  (Failing to open or stat a file for
extraction is not a traversal failure: it is charged to the extractor's status.) -/
mutual
def traversalFault (c : Cfg) (f : Faults) (gis : List GiEntry) (p : Path) : Node → Bool
  | .file k _ =>
    !((k = .special) || (k = .symlink && !c.readSymlinks)) &&
    !(c.useGitignore && stackMatch c gis (tokens p) false) &&
    (List.range c.nExt).any (fun e => c.required e p) && decide (c.maxFileSize > 0) && f.statFail p
  | .dir gi es =>
    if excludedDir c gis p then false
    else (c.useGitignore && f.openFail (p ++ [".gitignore"])) || f.openFail p ||
      traversalFaultL c f (if c.useGitignore then gis ++ [giEntryOf f ⟨p, gi, 0⟩] else gis) p es 0
def traversalFaultL (c : Cfg) (f : Faults) (gis : List GiEntry) (p : Path) : List (String × Node) → Nat → Bool
  | [], k => f.readEntryFail p k
  | (s, n) :: rest, k => f.readEntryFail p k || traversalFault c f gis (p ++ [s]) n || traversalFaultL c f gis p rest (k+1)
end

def traversalFaultRequested (c : Cfg) (f : Faults) (root : Node) (p : Path) : Bool :=
  if f.statFail p then true else
  match lookup root p with
  | none => true
  | some (.dir gi es) =>
    if c.useGitignore then (parentGis f root p).2 || traversalFault c f (parentGis f root p).1 p (.dir gi es)
    else traversalFault c f [] p (.dir gi es)
  | some (.file k sz) => traversalFault { c with useGitignore := false } f [] p (.file (statKind k) sz)

def traversalFaultRoot (c : Cfg) (f : Faults) (root : Node) : Bool :=
  if c.paths.isEmpty then (f.statFail [] || traversalFault c f [] [] root)
  else c.paths.any (traversalFaultRequested c f root)

def traversalFaultScan (c : Cfg) (roots : List (Node × Faults)) : Bool :=
  roots.any fun (r, f) => traversalFaultRoot c f r

end Scalibr.Walk
