/-
Specification for C07.

1. What "a valid ordering" means: `IsCmp` (a comparator that is a total preorder), and the
   string-level laws `Total`, `Refl`, `Antisymm`, `TransOn` about `Parse` + `CompareStr`.
2. Which strings the transitivity claim is about per family (`acceptedByCode`) and the two classes of
   known findings (`knownClass`) — both executable, the driver prints them for the oracle.
3. semver.org §11 precedence, written independently of the implementation (`SemVer`, `specCmp`,
   `render`).
-/
import Scalibr.Model.Semantic.Parse
namespace Scalibr.Semantic

/-! ## 1. order laws -/

/-- a comparator that is a total preorder: reflexive, antisymmetric in the `swap` sense (so total),
transitive on `≤` -/
structure IsCmp {α : Type} (cmp : α → α → Ordering) : Prop where
  refl : ∀ a, cmp a a = .eq
  swap : ∀ a b, cmp b a = (cmp a b).swap
  trans_le : ∀ a b c, cmp a b ≠ .gt → cmp b c ≠ .gt → cmp a c ≠ .gt

/-- the same laws restricted to the values satisfying `P` -/
structure IsCmpOn {α : Type} (P : α → Prop) (cmp : α → α → Ordering) : Prop where
  refl : ∀ a, P a → cmp a a = .eq
  swap : ∀ a b, P a → P b → cmp b a = (cmp a b).swap
  trans_le : ∀ a b c, P a → P b → P c → cmp a b ≠ .gt → cmp b c ≠ .gt → cmp a c ≠ .gt

/-- exact negation of a comparison result -/
def Outcome.flip : Outcome → Outcome
  | .lt => .gt
  | .gt => .lt
  | o => o

def Outcome.isLe (o : Outcome) : Bool := o = .lt || o = .eq

/-- parsing and comparing never crashes, for any two strings -/
def Total (f : Fam) : Prop := ∀ a b, compareStr f a b ≠ .panic

/-- an accepted version compares equal to itself -/
def Refl (f : Fam) : Prop := ∀ a, accepted f a = true → compareStr f a a = .eq

/-- when both strings are accepted the comparison does not fail and `a ? b` is the exact negation
of `b ? a` -/
def Antisymm (f : Fam) : Prop :=
  ∀ a b, accepted f a = true → accepted f b = true →
    compareStr f a b ≠ .err ∧ compareStr f a b = (compareStr f b a).flip

/-- total preorder on the strings satisfying `P`: `≤` is transitive, strictness is inherited from
either side, and equality is transitive -/
def TransOn (f : Fam) (P : List Char → Prop) : Prop :=
  ∀ a b c, P a → P b → P c →
    (compareStr f a b).isLe = true → (compareStr f b c).isLe = true →
      (compareStr f a c).isLe = true ∧
      (compareStr f a b = .lt ∨ compareStr f b c = .lt → compareStr f a c = .lt) ∧
      (compareStr f a b = .eq → compareStr f b c = .eq → compareStr f a c = .eq)

/-- `P` holds of the parsed form of `s` -/
def parsesTo (F : Family) (P : F.V → Prop) (s : List Char) : Prop := ∃ v, F.parse s = .ok v ∧ P v

/-! ## 2. grammar-valid strings and the classes of the known findings -/

/-- Packagist: `#` is the internal stand-in for "a number"; no real version contains it -/
def pkNoHash (v : List (List Char)) : Bool := v.all fun c => !hasPrefix ['#'] c

/-- Alpine: a later component is written canonically (no leading zero, or exactly "0") -/
def aNumCanon (c : ANum) : Bool :=
  c.idx = 0 || c.orig = ['0'] ||
    (match c.orig with
     | x :: _ => x ≠ '0'
     | [] => false)

def alpCanon (v : AlpV) : Bool := v.comps.all aNumCanon

/-! Maven: the canonical token shape — a first number, '.'-prefixed numbers without a trailing
zero, then only '-'-prefixed tokens (qualifiers or numbers): what `N(.N)*(-qualifier | -N)*`
strings such as `1.2`, `1.0-rc-1`, `2.1-SNAPSHOT`, `1-alpha1` parse to. A '.'-prefixed qualifier
(`1.foo`) is outside it. -/

/-- a '-'-prefixed token: the end-of-list padding, a qualifier, or a number -/
inductive DTok
  | endd
  | q (s : List Char)
  | n (v : Int)
deriving Repr

def DTok.tok : DTok → MTok
  | .endd => ⟨['-'], [], true⟩
  | .q s => ⟨['-'], s, false⟩
  | .n v => ⟨['-'], intToChars v, false⟩

def dotTok (v : Int) : MTok := ⟨['.'], intToChars v, false⟩
def headTok (v : Int) : MTok := ⟨[], intToChars v, false⟩

/-- the tokens of a canonical version -/
def canonToks (n0 : Int) (nums : List Int) (ds : List DTok) : List MTok :=
  headTok n0 :: (nums.map dotTok ++ ds.map DTok.tok)

def decDash : List MTok → Option (List DTok)
  | [] => some []
  | t :: rest =>
    if t.pre = ['-'] && !t.isNull then
      match toBig t.val with
      | some v => if t.val = intToChars v then (decDash rest).map (DTok.n v :: ·) else none
      | none => if t.val ≠ [] then (decDash rest).map (DTok.q t.val :: ·) else none
    else none

def decDots : List MTok → Option (List Int × List DTok)
  | [] => some ([], [])
  | t :: rest =>
    if t.pre = ['.'] then
      (if !t.isNull then
        match toBig t.val with
        | some v => if t.val = intToChars v && decide (0 ≤ v) then (decDots rest).map (fun p => (v :: p.1, p.2)) else none
        | none => none
       else none)
    else (decDash (t :: rest)).map (fun ds => ([], ds))

def decMvn : List MTok → Option (Int × List Int × List DTok)
  | [] => none
  | t :: rest =>
    if t.pre = [] && !t.isNull then
      match toBig t.val with
      | some v => if t.val = intToChars v then (decDots rest).map (fun p => (v, p.1, p.2)) else none
      | none => none
    else none

/-- the token list has the canonical shape -/
def mvnCanonToks (v : List MTok) : Bool :=
  match decMvn v with
  | some (_, nums, _) => nums.getLast? != some 0
  | none => false

/-- the strings whose triples the transitivity claim (and the oracle) is about -/
def acceptedByCode (f : Fam) (s : List Char) : Bool :=
  match f with
  | .packagist => pkNoHash (parsePk s)
  | .alpine =>
    (match parseAlp s with
     | .ok v => !v.invalid
     | _ => false)
  | f => accepted f s

/-- membership in the class of a known finding (Alpine: some later component has a leading zero;
Maven: the parsed token list is not of the canonical shape) -/
def knownClass (f : Fam) (s : List Char) : Bool :=
  match f with
  | .alpine =>
    (match parseAlp s with
     | .ok v => !alpCanon v
     | _ => false)
  | .maven =>
    (match parseMvn s with
     | .ok v => !mvnCanonToks v
     | _ => false)
  | _ => false

/-! ## 3. semver.org §11, written from the text -/

/-- a pre-release identifier: numeric, or alphanumeric (contains a non-digit) -/
inductive Ident
  | num (n : Nat)
  | alnum (s : List Char)
deriving DecidableEq, Repr

/-- `MAJOR.MINOR.PATCH[-pre][+build]` -/
structure SemVer where
  major : Nat
  minor : Nat
  patch : Nat
  pre : List Ident
  build : List Char
deriving Repr, DecidableEq

/-- §11.4.1–11.4.3: numeric identifiers numerically; alphanumeric ones lexically in ASCII order;
numeric identifiers have lower precedence -/
def Ident.cmp : Ident → Ident → Ordering
  | .num a, .num b => ncmp a b
  | .num _, .alnum _ => .lt
  | .alnum _, .num _ => .gt
  | .alnum a, .alnum b => strCmp a b

/-- §11.4 and 11.4.4: identifier by identifier from the left; if all preceding ones are equal the
larger set of fields wins -/
def preCmp : List Ident → List Ident → Ordering
  | [], [] => .eq
  | [], _ :: _ => .lt
  | _ :: _, [] => .gt
  | a :: as, b :: bs => (a.cmp b).then (preCmp as bs)

/-- §11.3 / 11.4: a pre-release version has lower precedence than the normal version; two
pre-release versions compare by their identifiers -/
def preRule : List Ident → List Ident → Ordering
  | [], [] => .eq
  | [], _ :: _ => .gt
  | _ :: _, [] => .lt
  | p, q => preCmp p q

/-- §11.2: major, minor, patch numerically, then the pre-release rule. §10: build metadata is ignored. -/
def specCmp (x y : SemVer) : Ordering :=
  (ncmp x.major y.major).then ((ncmp x.minor y.minor).then ((ncmp x.patch y.patch).then (preRule x.pre y.pre)))

def identChar (c : Char) : Bool := isDigit c || isLetter c || c = '-'

/-- §9: identifiers are non-empty `[0-9A-Za-z-]`; an alphanumeric one contains a non-digit -/
def Ident.wf : Ident → Bool
  | .num _ => true
  | .alnum s => !s.isEmpty && s.all identChar && s.any (fun c => !isDigit c)

/-- build metadata: `[0-9A-Za-z-.]`, no `+` -/
def SemVer.wf (x : SemVer) : Bool := x.pre.all Ident.wf && x.build.all (fun c => identChar c || c = '.')

def Ident.render : Ident → List Char
  | .num n => Nat.toDigits 10 n
  | .alnum s => s

def renderPre : List Ident → List Char
  | [] => []
  | [i] => i.render
  | i :: j :: rest => i.render ++ '.' :: renderPre (j :: rest)

/-- the canonical text of a version (numbers without leading zeros) -/
def SemVer.render (x : SemVer) : List Char :=
  Nat.toDigits 10 x.major ++ ('.' :: (Nat.toDigits 10 x.minor ++ ('.' :: (Nat.toDigits 10 x.patch ++
    ((if x.pre.isEmpty then [] else '-' :: renderPre x.pre) ++ (if x.build.isEmpty then [] else '+' :: x.build))))))

/-- build metadata as semver.org §10 writes it: absent, or dot-separated non-empty identifiers -/
def SemVer.buildWf (x : SemVer) : Bool :=
  x.build.isEmpty || (splitOn '.' x.build).all fun i => !i.isEmpty && i.all identChar

/-! ### reading a canonical version back (used by the driver for the oracle) -/

/-- a numeric field: digits, no leading zero -/
def specNum (s : List Char) : Option Nat :=
  if s.isEmpty || !s.all isDigit then none
  else if s.length > 1 && s.head? = some '0' then none
  else some (digitsToNat s)

def specIdent (s : List Char) : Option Ident :=
  if s.isEmpty || !s.all identChar then none
  else if s.all isDigit then (specNum s).map Ident.num
  else some (.alnum s)

def specIdents : List (List Char) → Option (List Ident)
  | [] => some []
  | s :: rest =>
    match specIdent s, specIdents rest with
    | some i, some is => some (i :: is)
    | _, _ => none

/-- `<major>.<minor>.<patch>[-<pre>][+<build>]` of semver.org's grammar; `none` otherwise -/
def specParse (s : List Char) : Option SemVer :=
  let (main, build?) : List Char × Option (List Char) :=
    match cutAt '+' s with
    | some (m, b) => (m, some b)
    | none => (s, none)
  let (core, pre?) : List Char × Option (List Char) :=
    match cutAt '-' main with
    | some (c, p) => (c, some p)
    | none => (main, none)
  let buildOk : Bool :=
    match build? with
    | none => true
    | some b => (splitOn '.' b).all fun i => !i.isEmpty && i.all identChar
  if !buildOk then none
  else
    match splitOn '.' core with
    | [a, b, c] =>
      match specNum a, specNum b, specNum c with
      | some a, some b, some c =>
        let pre : Option (List Ident) :=
          match pre? with
          | none => some []
          | some p => specIdents (splitOn '.' p)
        (match pre with
         | some pre => some ⟨a, b, c, pre, build?.getD []⟩
         | none => none)
      | _, _, _ => none
    | _ => none

end Scalibr.Semantic
