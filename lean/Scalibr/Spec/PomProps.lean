/-
Specification for the property-patch half of C13: Maven's `${name}` interpolation, left to right,
each placeholder ending at the first `}` after its `${`.  A returned patch map is *sound* when
interpolating the old requirement string with it yields the requested new version.
-/
import Scalibr.Model.PomProps
namespace Scalibr.Pom

/-- replace every `${name}` by `σ name` (left as it is when `σ` does not define it) -/
def subst (σ : Str → Option Str) : Nat → Str → Str
  | 0, s => s
  | fuel + 1, s =>
    match indexOf dollarBrace s with
    | none => s
    | some st =>
      let after := s.drop (st + 2)
      match indexOf closeBrace after with
      | none => s
      | some e =>
        let name := after.take e
        let rest := after.drop (e + 1)
        s.take st ++ (match σ name with | some v => v | none => dollarBrace ++ name ++ closeBrace) ++ subst σ fuel rest

def interpolate (σ : Str → Option Str) (s : Str) : Str := subst σ (s.length + 1) s

/-- every assignment made survives in the final map: no placeholder name was assigned two different values -/
def Consistent (ps : List (Str × Str)) : Prop := ∀ p ∈ ps, lookupLast ps p.1 = some p.2

instance (ps : List (Str × Str)) : Decidable (Consistent ps) := by unfold Consistent; infer_instance

/-- no name carries two different values -/
def Agree (ps : List (Str × Str)) : Prop := ∀ p ∈ ps, ∀ q ∈ ps, p.1 = q.1 → p.2 = q.2

end Scalibr.Pom
