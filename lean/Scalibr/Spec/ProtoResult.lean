/-
Specification for the non-package part of the result proto (C14): what a reader of the RECORD gets back.
`read*` go in the direction the code does not have (record → result); the property is that reading the record of a
result gives the result's generic content back (`generic`: packages replaced by their records), that the conversion
fails exactly when some finding lacks an advisory or an advisory id — with the error of the FIRST such finding — and
that it never panics. File names: `Write` accepts exactly the paths that end in `.binproto` / `.textproto`,
optionally followed by `.gz`.
-/
import Scalibr.Model.ProtoResult

namespace Scalibr.ProtoResult

def readStatusEnum : PStatusEnum → Int
  | .unspecified => 0 | .succeeded => 1 | .partiallySucceeded => 2 | .failed => 3

def readStatus (s : PScanStatus) : ScanStatus := ⟨readStatusEnum s.status, s.reason⟩

def readPlugin (s : PPluginStatus) : PluginStatus := ⟨s.name, s.version, readStatus s.status⟩

def readType : PType → Int
  | .unknown => 0 | .vulnerability => 1 | .cisFinding => 2

def readSevEnum : PSeverityEnum → Int
  | .unspecified => 0 | .minimal => 1 | .low => 2 | .medium => 3 | .high => 4 | .critical => 5

def readSeverity {S : Type} (s : PSeverity S) : Severity S := ⟨readSevEnum s.sev, s.v2, s.v3⟩

def readFinding {S PP : Type} (p : PFinding S PP) : Finding S PP :=
  { adv := some ⟨some p.adv.id, readType p.adv.typ, p.adv.title, p.adv.description, p.adv.recommendation, p.adv.sev.map readSeverity⟩
    target := p.target, extra := p.extra, detectors := p.detectors }

/-- the generic content of a finding: itself, with the target package replaced by its record -/
def genericFinding {S P PP : Type} (pkgToProto : P → PP) (f : Finding S P) : Finding S PP :=
  { adv := f.adv, target := f.target.map fun t => ⟨t.pkg.map pkgToProto, t.location⟩, extra := f.extra, detectors := f.detectors }

def generic {S P PP T : Type} (pkgToProto : P → PP) (r : ScanResult S P T) : ScanResult S PP T :=
  { version := r.version, startTime := r.startTime, endTime := r.endTime, status := r.status, pluginStatus := r.pluginStatus
    packages := r.packages.map pkgToProto, findings := r.findings.map (genericFinding pkgToProto) }

def read {S PP T : Type} (p : PScanResult S PP T) : ScanResult S PP T :=
  { version := p.version, startTime := p.startTime, endTime := p.endTime, status := readStatus p.status
    pluginStatus := p.pluginStatus.map readPlugin, packages := p.packages, findings := p.findings.map readFinding }

/-- values the record can represent: declared enum constants, plugin versions within int32 -/
def StatusOK (s : ScanStatus) : Prop := 0 ≤ s.status ∧ s.status ≤ 3
def PluginOK (s : PluginStatus) : Prop := StatusOK s.status ∧ -2147483648 ≤ s.version ∧ s.version < 2147483648
def SeverityOK {S : Type} (s : Severity S) : Prop := 0 ≤ s.sev ∧ s.sev ≤ 5
def AdvisoryOK {S : Type} (a : Advisory S) : Prop := 0 ≤ a.typ ∧ a.typ ≤ 2 ∧ ∀ s, a.sev = some s → SeverityOK s

/-- a finding the conversion must accept: it has an advisory with an id -/
def HasID {S P : Type} (f : Finding S P) : Prop := ∃ a id, f.adv = some a ∧ a.id = some id

/-- the outcome the specification demands: the error of the first finding without advisory / id, else success. Never a panic. -/
def specOutcome {S P : Type} : List (Finding S P) → Res Unit
  | [] => .ok ()
  | f :: rest =>
    match f.adv with
    | none => .advisoryMissing
    | some a => match a.id with
      | none => .advisoryIDMissing
      | some _ => specOutcome rest

/-- the file type by the NAME's endings (none of them contains a slash, so this speaks about the last path element) -/
def specFileType (p : List Char) : Option FileType :=
  if (dotBinproto ++ dotGz).isSuffixOf p then some ⟨true, true⟩
  else if (dotTextproto ++ dotGz).isSuffixOf p then some ⟨true, false⟩
  else if dotBinproto.isSuffixOf p then some ⟨false, true⟩
  else if dotTextproto.isSuffixOf p then some ⟨false, false⟩
  else none

end Scalibr.ProtoResult
