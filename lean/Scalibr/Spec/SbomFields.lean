/-
Specification side of C14's SBOM clause: what a consumer of the exported SPDX / CycloneDX document finds for a package
(filters and projections over the inventory, not the exporters' loops).
-/
import Scalibr.Model.Sbom
namespace Scalibr.Sbom

/-- SPECIFICATION of what an SPDX consumer finds for a package (a filter over the inventory, not the exporter's
loop): nothing without a purl or with an empty purl name or version; else the PURL's name and version (not
`pkg.Name` / `pkg.Version`: SPDX packages are identified by the purl), the purl's printed form as the one
external reference, and the locations only as the free-text summary `sourceInfo` (count + first two) — by
design of `ToSPDX23`, so "locations verbatim" holds for CycloneDX and the proto, not for SPDX. -/
def spdxRecord {Purl : Type} (ops : PurlOps Purl) (pkg : Pkg Purl) : Option (String × String × List String × String) :=
  match pkg.purl with
  | none => none
  | some u =>
    if ops.name u = "" ∨ ops.version u = "" then none
    else some (ops.name u, ops.version u, [ops.str u], sourceInfo pkg.extractor pkg.locations)

/-- the fields of a CycloneDX component a consumer reads: name, version, purl, evidence locations -/
def compFields : Component → String × String × String × List String
  | .mk _ _ n v p _ occ _ => (n, v, p, occ)

end Scalibr.Sbom
