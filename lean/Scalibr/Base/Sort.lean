/-
Stable insertion sort used by every model that mirrors a `slices.SortFunc` / `sort.Strings` call,
with the three facts the property theorems need: it returns a permutation, the result is sorted
when the comparator is a total preorder, and sorted permutations are unique when comparator-equal
elements are equal (so the listing order of the input is irrelevant).
`slices.SortFunc` itself is trusted by contract (DESIGN.md §3); for n ≤ 12 it *is* a stable
insertion sort, which is why ties keep listing order in the correspondence runs.
-/
namespace Scalibr

/-- insert `x` into `l` (sorted w.r.t. `lt`) after all elements that are not greater: stable. -/
def insertBy {α} (lt : α → α → Bool) (x : α) : List α → List α
  | [] => [x]
  | y :: ys => if lt x y then x :: y :: ys else y :: insertBy lt x ys

def isort {α} (lt : α → α → Bool) (l : List α) : List α :=
  l.foldl (fun acc x => insertBy lt x acc) []

theorem insertBy_perm {α} (lt : α → α → Bool) (x : α) (l : List α) :
    (insertBy lt x l).Perm (x :: l) := by
  induction l with
  | nil => simp [insertBy]
  | cons y ys ih =>
    unfold insertBy
    split
    · exact List.Perm.refl _
    · exact (List.Perm.cons y ih).trans (List.Perm.swap x y ys)

theorem foldl_insertBy_perm {α} (lt : α → α → Bool) (l acc : List α) :
    (l.foldl (fun acc x => insertBy lt x acc) acc).Perm (acc ++ l) := by
  induction l generalizing acc with
  | nil => simp
  | cons x xs ih =>
    simp only [List.foldl]
    refine (ih _).trans ?_
    have h1 : (insertBy lt x acc ++ xs).Perm ((x :: acc) ++ xs) :=
      List.Perm.append_right xs (insertBy_perm lt x acc)
    refine h1.trans ?_
    simp only [List.cons_append]
    exact (List.perm_middle (a := x) (l₁ := acc) (l₂ := xs)).symm

theorem isort_perm {α} (lt : α → α → Bool) (l : List α) : (isort lt l).Perm l := by
  have := foldl_insertBy_perm lt l []
  simpa [isort] using this

/-- `le x y` read off a strict comparator -/
def leOf {α} (lt : α → α → Bool) (x y : α) : Prop := lt y x = false

theorem insertBy_pairwise {α} (lt : α → α → Bool)
    (asymm : ∀ a b, lt a b = true → lt b a = false)
    (trans : ∀ a b c, lt b a = false → lt c b = false → lt c a = false)
    (x : α) (l : List α) (h : l.Pairwise (leOf lt)) : (insertBy lt x l).Pairwise (leOf lt) := by
  induction l with
  | nil => simp [insertBy]
  | cons y ys ih =>
    have hy := (List.pairwise_cons.mp h)
    unfold insertBy
    split
    · rename_i hxy
      refine List.pairwise_cons.mpr ⟨?_, h⟩
      intro z hz
      have hxy' : leOf lt x y := asymm x y hxy
      rcases List.mem_cons.mp hz with rfl | hz
      · exact hxy'
      · exact trans x y z hxy' (hy.1 z hz)
    · rename_i hxy
      have hxy' : leOf lt y x := by simpa [leOf] using hxy
      refine List.pairwise_cons.mpr ⟨?_, ih hy.2⟩
      intro z hz
      have : z ∈ x :: ys := (insertBy_perm lt x ys).subset hz
      rcases List.mem_cons.mp this with rfl | hz'
      · exact hxy'
      · exact hy.1 z hz'

theorem isort_pairwise {α} (lt : α → α → Bool)
    (asymm : ∀ a b, lt a b = true → lt b a = false)
    (trans : ∀ a b c, lt b a = false → lt c b = false → lt c a = false)
    (l : List α) : (isort lt l).Pairwise (leOf lt) := by
  unfold isort
  suffices ∀ acc : List α, acc.Pairwise (leOf lt) →
      (l.foldl (fun acc x => insertBy lt x acc) acc).Pairwise (leOf lt) from this [] List.Pairwise.nil
  induction l with
  | nil => intro acc h; simpa
  | cons x xs ih => intro acc h; exact ih _ (insertBy_pairwise lt asymm trans x acc h)

/-- Listing order is irrelevant: two permutations of the same multiset sort to the same list, as soon
as elements that the comparator cannot separate are equal. -/
theorem isort_eq_of_perm {α} (lt : α → α → Bool)
    (asymm : ∀ a b, lt a b = true → lt b a = false)
    (trans : ∀ a b c, lt b a = false → lt c b = false → lt c a = false)
    (l₁ l₂ : List α) (hp : l₁.Perm l₂)
    (sep : ∀ a b, a ∈ l₁ → b ∈ l₁ → lt a b = false → lt b a = false → a = b) :
    isort lt l₁ = isort lt l₂ := by
  apply List.Perm.eq_of_pairwise (le := leOf lt)
  · intro a b ha hb hab hba
    have ha' : a ∈ l₁ := (isort_perm lt l₁).subset ha
    have hb' : b ∈ l₁ := hp.symm.subset ((isort_perm lt l₂).subset hb)
    exact sep a b ha' hb' hba hab
  · exact isort_pairwise lt asymm trans l₁
  · exact isort_pairwise lt asymm trans l₂
  · exact ((isort_perm lt l₁).trans hp).trans (isort_perm lt l₂).symm

/-- a sorted list is a fixed point -/
theorem insertBy_of_ge {α} (lt : α → α → Bool) (x : α) (l : List α)
    (h : ∀ y ∈ l, lt x y = false) : insertBy lt x l = l ++ [x] := by
  induction l with
  | nil => rfl
  | cons y ys ih =>
    have hy : lt x y = false := h y (by simp)
    simp [insertBy, hy, ih (fun z hz => h z (by simp [hz]))]

end Scalibr
