/-
Strict total orders as Boolean comparators, closed under lexicographic products, and bytewise
lexicographic order on lists (how Go compares strings).  These are the comparators handed to
`slices.SortFunc` in `sortResults`; `StrictTotal` is exactly `SortFunc`'s precondition plus
"comparator-equal ⇒ equal", which makes the sorted output independent of the input order.
-/
import Scalibr.Base.Sort
namespace Scalibr

structure StrictTotal {α} (lt : α → α → Bool) : Prop where
  irrefl : ∀ a, lt a a = false
  trans : ∀ a b c, lt a b = true → lt b c = true → lt a c = true
  total : ∀ a b, lt a b = false → lt b a = false → a = b

namespace StrictTotal
variable {α} {lt : α → α → Bool} (h : StrictTotal lt)
include h

theorem asymm (a b : α) : lt a b = true → lt b a = false := by
  intro hab
  cases hba : lt b a with
  | false => rfl
  | true => have := h.trans a b a hab hba; rw [h.irrefl] at this; cases this

/-- transitivity of "not greater", the form `isort_pairwise` needs -/
theorem negTrans (a b c : α) : lt b a = false → lt c b = false → lt c a = false := by
  intro hba hcb
  cases hca : lt c a with
  | false => rfl
  | true =>
    -- c < a; compare a and b
    cases hab : lt a b with
    | true => have := h.trans c a b hca hab; rw [hcb] at this; cases this
    | false =>
      have : a = b := h.total a b hab hba
      subst this; rw [hca] at hcb; cases hcb

theorem isort_sorted (l : List α) : (isort lt l).Pairwise (leOf lt) :=
  isort_pairwise lt h.asymm h.negTrans l

/-- the sorted output does not depend on the listing order of the input -/
theorem isort_perm_eq (l₁ l₂ : List α) (hp : l₁.Perm l₂) : isort lt l₁ = isort lt l₂ :=
  isort_eq_of_perm lt h.asymm h.negTrans l₁ l₂ hp (fun a b _ _ => h.total a b)
end StrictTotal

/-- lexicographic product -/
def prodLt {α β} (la : α → α → Bool) (lb : β → β → Bool) (x y : α × β) : Bool :=
  if la x.1 y.1 then true else if la y.1 x.1 then false else lb x.2 y.2

theorem prodLt_strictTotal {α β} {la : α → α → Bool} {lb : β → β → Bool}
    (ha : StrictTotal la) (hb : StrictTotal lb) : StrictTotal (prodLt la lb) where
  irrefl := by intro a; simp [prodLt, ha.irrefl, hb.irrefl]
  trans := by
    intro a b c hab hbc
    unfold prodLt at *
    by_cases h1 : la a.1 b.1 = true
    · by_cases h2 : la b.1 c.1 = true
      · simp [ha.trans _ _ _ h1 h2]
      · simp only [h2, Bool.false_eq_true, if_false] at hbc
        by_cases h3 : la c.1 b.1 = true
        · simp [h3] at hbc
        · have : b.1 = c.1 := ha.total _ _ (by simpa using h2) (by simpa using h3)
          rw [← this]; simp [h1]
    · simp only [h1, Bool.false_eq_true, if_false] at hab
      by_cases h1' : la b.1 a.1 = true
      · simp [h1'] at hab
      · have hab1 : a.1 = b.1 := ha.total _ _ (by simpa using h1) (by simpa using h1')
        simp only [h1', Bool.false_eq_true, if_false] at hab
        rw [hab1]
        by_cases h2 : la b.1 c.1 = true
        · simp [h2]
        · simp only [h2, Bool.false_eq_true, if_false] at hbc ⊢
          by_cases h3 : la c.1 b.1 = true
          · simp [h3] at hbc
          · simp only [h3, Bool.false_eq_true, if_false] at hbc ⊢
            exact hb.trans _ _ _ hab hbc
  total := by
    intro a b hab hba
    unfold prodLt at *
    by_cases h1 : la a.1 b.1 = true
    · simp [h1] at hab
    · by_cases h2 : la b.1 a.1 = true
      · simp [h2] at hba
      · simp only [h1, h2, Bool.false_eq_true, if_false] at hab hba
        have e1 : a.1 = b.1 := ha.total _ _ (by simpa using h1) (by simpa using h2)
        have e2 : a.2 = b.2 := hb.total _ _ hab hba
        exact Prod.ext e1 e2

/-- bytewise lexicographic "less" (Go's `<` on strings) -/
def ltBytes : List Nat → List Nat → Bool
  | [], [] => false
  | [], _ :: _ => true
  | _ :: _, [] => false
  | a :: as, b :: bs => if a < b then true else if b < a then false else ltBytes as bs

theorem ltBytes_strictTotal : StrictTotal ltBytes where
  irrefl := by intro a; induction a with
    | nil => rfl
    | cons x xs ih => simp [ltBytes, ih]
  trans := by
    intro a
    induction a with
    | nil => intro b c hab hbc; cases b <;> cases c <;> simp_all [ltBytes]
    | cons x xs ih =>
      intro b c hab hbc
      cases b with
      | nil => simp [ltBytes] at hab
      | cons y ys =>
        cases c with
        | nil => simp [ltBytes] at hbc
        | cons z zs =>
          simp only [ltBytes] at hab hbc ⊢
          by_cases h1 : x < y
          · by_cases h2 : y < z
            · have : x < z := by omega
              simp [this]
            · simp only [h2, if_false] at hbc
              by_cases h3 : z < y
              · simp [h3] at hbc
              · have : x < z := by omega
                simp [this]
          · simp only [h1, if_false] at hab
            by_cases h1' : y < x
            · simp [h1'] at hab
            · simp only [h1', if_false] at hab
              have hxy : x = y := by omega
              subst hxy
              by_cases h2 : x < z
              · simp [h2]
              · simp only [h2, if_false] at hbc ⊢
                by_cases h3 : z < x
                · simp [h3] at hbc
                · simp only [h3, if_false] at hbc ⊢
                  exact ih ys zs hab hbc
  total := by
    intro a
    induction a with
    | nil => intro b hab hba; cases b <;> simp_all [ltBytes]
    | cons x xs ih =>
      intro b hab hba
      cases b with
      | nil => simp [ltBytes] at hba
      | cons y ys =>
        simp only [ltBytes] at hab hba
        by_cases h1 : x < y
        · simp [h1] at hab
        · by_cases h2 : y < x
          · simp [h2] at hba
          · simp only [h1, h2, if_false] at hab hba
            have : x = y := by omega
            rw [this, ih ys hab hba]

/-- a comparator pulled back along an injective key function -/
theorem strictTotal_of_key {α κ} {lt : κ → κ → Bool} (h : StrictTotal lt) (key : α → κ)
    (inj : ∀ a b, key a = key b → a = b) : StrictTotal (fun a b => lt (key a) (key b)) where
  irrefl a := h.irrefl _
  trans a b c := h.trans _ _ _
  total a b hab hba := inj a b (h.total _ _ hab hba)

end Scalibr
