/-
Line protocol helpers shared by all drivers (DESIGN.md §2.4): tokens are separated by single
spaces; byte strings travel hex-encoded in both directions; `-` stands for the empty list.
-/
namespace Scalibr.Wire

def hexDigit (n : Nat) : Char := if n < 10 then Char.ofNat (48 + n) else Char.ofNat (87 + n)

def hexOfBytes (bs : List UInt8) : String :=
  String.ofList (bs.flatMap fun b => [hexDigit (b.toNat / 16), hexDigit (b.toNat % 16)])

def hexVal (c : Char) : Option Nat :=
  if '0' ≤ c ∧ c ≤ '9' then some (c.toNat - 48)
  else if 'a' ≤ c ∧ c ≤ 'f' then some (c.toNat - 87)
  else if 'A' ≤ c ∧ c ≤ 'F' then some (c.toNat - 55)
  else none

def bytesOfHexAux : List Char → List UInt8 → Option (List UInt8)
  | [], acc => some acc.reverse
  | [_], _ => none
  | a :: b :: rest, acc =>
    match hexVal a, hexVal b with
    | some x, some y => bytesOfHexAux rest (UInt8.ofNat (x * 16 + y) :: acc)
    | _, _ => none

def bytesOfHex (s : String) : Option (List UInt8) := bytesOfHexAux s.toList []

/-- hex → String (the bytes must be valid UTF-8) -/
def strOfHex (s : String) : Option String :=
  match bytesOfHex s with
  | none => none
  | some bs => String.fromUTF8? ⟨bs.toArray⟩

def hexOfStr (s : String) : String := hexOfBytes s.toUTF8.toList

/-- split on a separator; "-" or "" denotes the empty list -/
def listOf (s : String) (sep : String) : List String :=
  if s = "-" || s = "" then [] else s.splitOn sep

def natOf? (s : String) : Option Nat := s.toNat?
def intOf? (s : String) : Option Int := s.toInt?

def boolStr (b : Bool) : String := if b then "1" else "0"
def boolOf? (s : String) : Option Bool := if s = "1" then some true else if s = "0" then some false else none

def joinWith (sep : String) (xs : List String) : String :=
  if xs.isEmpty then "-" else sep.intercalate xs

/-- Generic stdin → stdout loop: one reply line per request line. -/
partial def loop (h : IO.FS.Stream) (out : IO.FS.Stream) (f : String → String) : IO Unit := do
  let line ← h.getLine
  if line.isEmpty then return ()
  let l := String.ofList (line.toList.reverse.dropWhile (fun c => c = '\n' || c = '\r')).reverse
  out.putStrLn (f l)
  loop h out f

def serve (f : String → String) : IO Unit := do
  let i ← IO.getStdin
  let o ← IO.getStdout
  loop i o f
  o.flush

end Scalibr.Wire
