/-
C18 — Affected-version decisions follow the OSV range rules.
Property theorems only; helper lemmas live in `Scalibr.Proofs.Vulns`.

The model (`Scalibr.Model.Vulns`) is `vulns.IsAffected` AFTER the repair "fix: IsAffected orders events on one version
fixed, introduced, last_affected …". The specification is the order-free sentence `osvDecl`; well-formedness `WF` admits
several events on one version as far as they can be ordered to alternate unambiguously (see `C18_wf_tie_shapes`).
-/
import Scalibr.Proofs.Vulns
import Scalibr.Spec.VersionOrder
namespace Scalibr.Vulns

/-- **The property's own sentence is the OSV evaluation loop.** For EVERY event list (well formed or not), listed in
any order: running the OSV loop over the events ordered by (version, kind: fixed, introduced, last_affected) says
"vulnerable" exactly when the version lies in an interval opened by an `introduced` event `i` at or below it that no
`fixed` event in `(i, q]` and no `last_affected` event in `[i, q)` closes. (Before ties were admitted this needed `WF`;
with the total order on events it does not.) -/
theorem C18_decl (es : List Ev) (q : Nat) : osvRange es q = osvDecl es q :=
  osvRange_eq_osvDecl es q

/-- For a well-formed range, listed in any order, the code's sort + binary-search + exact-hit-scan decision is the OSV
evaluation loop. No bound on the number of events or on versions; events may share a version. -/
theorem C18_range (es : List Ev) (q : Nat) (h : WF es = true) :
    rangeDecision es q = osvRange es q := by
  unfold rangeDecision osvRange
  rw [sortEvents_eq_osvOrder]
  exact codeDecision_eq_osvScan (osvOrder es) q h

/-- … and therefore the specification `osvDecl`. -/
theorem C18_range_decl (es : List Ev) (q : Nat) (h : WF es = true) :
    rangeDecision es q = osvDecl es q := by
  rw [C18_range es q h, C18_decl]

/-- The order in which a range lists its events is irrelevant — now without any side condition: the comparator
separates any two different events, so every listing of the same events sorts to the same list (and any correct sort,
stable or not, returns it). -/
theorem C18_listing_order (es es' : List Ev) (hp : es.Perm es') :
    sortEvents es = sortEvents es' := by
  apply isort_eq_of_perm evLt evLt_asymm evLt_trans es es' hp
  intro a b _ _ h1 h2
  exact evLt_sep a b h1 h2

theorem C18_listing_order_decision (es es' : List Ev) (q : Nat) (hp : es.Perm es') :
    rangeDecision es q = rangeDecision es' q ∧ osvRange es q = osvRange es' q ∧ WF es = WF es' ∧
      osvDecl es q = osvDecl es' q := by
  have h := C18_listing_order es es' hp
  have h' : osvOrder es = osvOrder es' := by rw [← sortEvents_eq_osvOrder, ← sortEvents_eq_osvOrder, h]
  refine ⟨?_, ?_, ?_, ?_⟩
  · unfold rangeDecision; rw [h]
  · unfold osvRange; rw [h']
  · unfold WF; rw [h']
  · rw [osvDecl_eq, osvDecl_eq]; exact declOn_perm q es es' hp

/-! ### the same statements over the ecosystem's comparison on version strings -/

open Scalibr.Upgrade in
/-- the comparator of `osvRangeC` is the rank comparator, on the versions at hand -/
theorem cmp_lt_eq_evLt {α : Type} (cmp : α → α → Ordering) (vs : List α) (rank : α → Nat)
    (hr : RankFor cmp vs rank) (a b : EvS α) (ha : a.v ∈ vs) (hb : b.v ∈ vs) :
    (cmp a.v b.v == .lt || (cmp a.v b.v == .eq && kindBefore a.k b.k)) = evLt (toRank rank a) (toRank rank b) := by
  rw [hr a.v ha b.v hb, evLt_eq_osvBefore]
  unfold osvBefore toRank
  simp only []
  cases h : compare (rank a.v) (rank b.v) <;>
    simp_all [Nat.compare_eq_lt, Nat.compare_eq_gt] <;> omega

open Scalibr.Upgrade in
/-- **C18 over the ecosystem's comparison.** Let `cmp` be the comparison `IsAffected` uses (with "0" below
everything) and suppose it is a total preorder on the version strings at hand — equivalently (`C11_rank_exists_iff`)
some rank function represents it there. Then for a range that is well formed once ordered, the code's sort +
binary-search decision on the ranks is the OSV evaluation stated with `cmp` itself, for every queried version. -/
theorem C18_range_cmp {α : Type} (cmp : α → α → Ordering) (vs : List α) (rank : α → Nat)
    (hr : RankFor cmp vs rank) (es : List (EvS α)) (q : α)
    (hes : ∀ e ∈ es, e.v ∈ vs) (hq : q ∈ vs) (hwf : WF (es.map (toRank rank)) = true) :
    rangeDecision (es.map (toRank rank)) (rank q) = osvRangeC cmp es q := by
  rw [C18_range _ _ hwf]
  unfold osvRange osvRangeC osvScan
  rw [← sortEvents_eq_osvOrder]
  unfold sortEvents
  have hlt : ∀ a ∈ es, ∀ b ∈ es, (cmp a.v b.v == .lt || (cmp a.v b.v == .eq && kindBefore a.k b.k))
      = evLt (toRank rank a) (toRank rank b) :=
    fun a ha b hb => cmp_lt_eq_evLt cmp vs rank hr a b (hes a ha) (hes b hb)
  rw [← isort_mapK evLt (toRank rank) es,
      ← isort_congr_mem (fun a b => cmp a.v b.v == .lt || (cmp a.v b.v == .eq && kindBefore a.k b.k))
          (fun a b => evLt (toRank rank a) (toRank rank b)) es hlt,
      List.foldl_map]
  have hperm := isort_perm (fun a b : EvS α => cmp a.v b.v == .lt || (cmp a.v b.v == .eq && kindBefore a.k b.k)) es
  generalize isort (fun a b : EvS α => cmp a.v b.v == .lt || (cmp a.v b.v == .eq && kindBefore a.k b.k)) es = l at hperm
  have hl : ∀ e ∈ l, e.v ∈ vs := fun e he => hes e (hperm.mem_iff.mp he)
  clear hperm
  generalize false = acc
  induction l generalizing acc with
  | nil => rfl
  | cons e l ih =>
    simp only [List.foldl]
    have he : cmp q e.v = compare (rank q) (rank e.v) := hr q hq e.v (hl e (by simp))
    have hstep : step (rank q) acc (toRank rank e) = stepC cmp q acc e := by
      unfold step stepC toRank
      simp only [he]
      cases e.k <;> simp only [] <;>
        (cases h : compare (rank q) (rank e.v) <;>
          simp_all [Nat.compare_eq_lt, Nat.compare_eq_gt] <;> omega)
    rw [hstep]
    exact ih (fun x hx => hl x (by simp [hx])) _

theorem natcmp_lt_dec (a b : Nat) : (compare a b == Ordering.lt) = decide (a < b) := by
  rcases Nat.lt_trichotomy a b with h | h | h
  · simp [Nat.compare_eq_lt.mpr h, h]
  · subst h; simp
  · have : ¬ a < b := by omega
    simp [Nat.compare_eq_gt.mpr h, this]
theorem natcmp_ngt_dec (a b : Nat) : (compare a b != Ordering.gt) = decide (a ≤ b) := by
  rcases Nat.lt_trichotomy a b with h | h | h
  · have : a ≤ b := by omega
    simp [Nat.compare_eq_lt.mpr h, this]
  · subst h; simp
  · have : ¬ a ≤ b := by omega
    simp [Nat.compare_eq_gt.mpr h, this]

open Scalibr.Upgrade in
/-- the order-free specification stated with `cmp` itself is `osvDecl` on the ranks (no well-formedness needed) -/
theorem C18_decl_cmp {α : Type} (cmp : α → α → Ordering) (vs : List α) (rank : α → Nat)
    (hr : RankFor cmp vs rank) (es : List (EvS α)) (q : α) (hes : ∀ e ∈ es, e.v ∈ vs) (hq : q ∈ vs) :
    osvDeclC cmp es q = osvDecl (es.map (toRank rank)) (rank q) := by
  unfold osvDeclC osvDecl
  rw [List.any_map]
  apply any_congr_mem
  intro i hi
  have hiq := hr i.v (hes i hi) q hq
  have hinner : (es.any fun c => (c.k = .fixed && cmp i.v c.v == .lt && cmp c.v q != .gt) ||
        (c.k = .last && cmp i.v c.v != .gt && cmp c.v q == .lt)) =
      ((es.map (toRank rank)).any fun c => (c.k = .fixed && (toRank rank i).v < c.v && c.v ≤ rank q) ||
        (c.k = .last && (toRank rank i).v ≤ c.v && c.v < rank q)) := by
    rw [List.any_map]
    apply any_congr_mem
    intro c hc
    have h1 := hr i.v (hes i hi) c.v (hes c hc)
    have h2 := hr c.v (hes c hc) q hq
    simp only [Function.comp, toRank, h1, h2, natcmp_lt_dec, natcmp_ngt_dec]
    rfl
  rw [hinner]
  simp only [Function.comp, toRank, hiq, natcmp_ngt_dec]
  rfl

open Scalibr.Upgrade in
/-- the code's decision is the order-free specification stated with `cmp` itself -/
theorem C18_range_decl_cmp {α : Type} (cmp : α → α → Ordering) (vs : List α) (rank : α → Nat)
    (hr : RankFor cmp vs rank) (es : List (EvS α)) (q : α)
    (hes : ∀ e ∈ es, e.v ∈ vs) (hq : q ∈ vs) (hwf : WF (es.map (toRank rank)) = true) :
    rangeDecision (es.map (toRank rank)) (rank q) = osvDeclC cmp es q := by
  rw [C18_decl_cmp cmp vs rank hr es q hes hq, C18_range_decl _ _ hwf]

/-- non-vacuity of `C18_range_cmp`: the numeric comparison on `Nat` with the identity rank -/
example : Scalibr.Upgrade.RankFor (compare : Nat → Nat → Ordering) [0, 5, 7, 9] id := fun _ _ _ _ => rfl

/-! ### record level -/

theorem C18_range_type (a : Affected) (r : Range) : rangeApplies a r = matchingType a r := by
  unfold rangeApplies matchingType
  cases r.typ <;> simp

/-- Record level: with every range of the record well formed, `IsAffected` holds exactly when the
specification's rule does (explicit listing, or an applicable range in one of whose intervals the version lies),
for the package's own ecosystem and name only. -/
theorem C18_record (known : Nat → Bool) (vuln : List Affected) (p : Pkg)
    (hwf : ∀ a ∈ vuln, ∀ r ∈ a.ranges, WF r.events = true) :
    isAffected known vuln p = true ↔ specAffected known vuln p := by
  unfold isAffected specAffected
  by_cases hk : known p.eco = true
  · simp only [hk, Bool.not_true, Bool.false_eq_true, if_false, true_and, List.any_eq_true,
      Bool.and_eq_true, Bool.or_eq_true, decide_eq_true_eq, List.contains_iff_mem]
    constructor
    · rintro ⟨a, ha, ⟨he, hn⟩, h⟩
      refine ⟨a, ha, he, hn, ?_⟩
      rcases h with h | ⟨r, hr, hra, hrd⟩
      · exact Or.inl h
      · exact Or.inr ⟨r, hr, by rw [← C18_range_type]; exact hra, by rw [← C18_range_decl r.events p.version (hwf a ha r hr)]; exact hrd⟩
    · rintro ⟨a, ha, he, hn, h⟩
      refine ⟨a, ha, ⟨he, hn⟩, ?_⟩
      rcases h with h | ⟨r, hr, hra, hrd⟩
      · exact Or.inl h
      · exact Or.inr ⟨r, hr, by rw [C18_range_type]; exact hra, by rw [C18_range_decl r.events p.version (hwf a ha r hr)]; exact hrd⟩
  · simp [hk]

/-- Records for other packages or ecosystems never match — whatever their ranges contain
(no well-formedness needed). -/
theorem C18_other (known : Nat → Bool) (vuln : List Affected) (p : Pkg)
    (h : ∀ a ∈ vuln, a.eco ≠ p.eco ∨ a.name ≠ p.name) : isAffected known vuln p = false := by
  unfold isAffected
  split
  · rfl
  · rw [List.any_eq_false]
    intro a ha
    rcases h a ha with h | h <;> simp [h]

theorem C18_unknown_ecosystem (known : Nat → Bool) (vuln : List Affected) (p : Pkg)
    (h : known p.eco = false) : isAffected known vuln p = false := by
  simp [isAffected, h]

/-- `slices.SortFunc`'s precondition: the event comparator is a strict weak order; moreover it is total on distinct
events (so the sorted result does not depend on the sort's stability), and the sorted list is a permutation in
non-decreasing version order. -/
theorem C18_sort_pre :
    (∀ a b, evLt a b = true → evLt b a = false) ∧
    (∀ a b c, evLt b a = false → evLt c b = false → evLt c a = false) ∧
    (∀ a b, evLt a b = false → evLt b a = false → a = b) ∧
    (∀ es : List Ev, (sortEvents es).Perm es ∧ (sortEvents es).Pairwise (fun a b => a.v ≤ b.v)) := by
  refine ⟨evLt_asymm, evLt_trans, evLt_sep, fun es => ⟨isort_perm evLt es, ?_⟩⟩
  refine (sortEvents_pairwise es).imp ?_
  intro a b h
  rcases Nat.lt_or_ge (key a) (key b) with h' | h'
  · exact key_v_le a b h'
  · have : a = b := evLt_sep a b ((evLt_false_iff a b).mpr h') ((evLt_false_iff b a).mpr h)
    rw [this]; exact Nat.le_refl _

/-! ### which ties are well formed -/

/-- Events on ONE version `X` (here 5) that can be ordered to alternate unambiguously are well formed, in every listing
order: `introduced X, last_affected X` (exactly X); `fixed X, introduced X` after an earlier opening (adjacent
intervals); all three. Not well formed: `introduced X, fixed X` as an interval of its own (empty), a `fixed` and a
`last_affected` on one version, the same event twice, a closing event on the version of the first opening. -/
theorem C18_wf_tie_shapes :
    WF [⟨.intro, 5⟩, ⟨.last, 5⟩] = true ∧ WF [⟨.last, 5⟩, ⟨.intro, 5⟩] = true ∧
    WF [⟨.intro, 2⟩, ⟨.fixed, 5⟩, ⟨.intro, 5⟩] = true ∧ WF [⟨.intro, 5⟩, ⟨.fixed, 5⟩, ⟨.intro, 2⟩] = true ∧
    WF [⟨.intro, 2⟩, ⟨.fixed, 5⟩, ⟨.intro, 5⟩, ⟨.last, 5⟩, ⟨.intro, 7⟩] = true ∧
    WF [⟨.last, 5⟩, ⟨.intro, 7⟩, ⟨.intro, 5⟩, ⟨.intro, 2⟩, ⟨.fixed, 5⟩] = true ∧
    WF [⟨.intro, 5⟩, ⟨.fixed, 5⟩] = false ∧ WF [⟨.intro, 2⟩, ⟨.fixed, 5⟩, ⟨.last, 5⟩] = false ∧
    WF [⟨.intro, 5⟩, ⟨.intro, 5⟩] = false ∧ WF [⟨.intro, 2⟩, ⟨.last, 5⟩, ⟨.last, 5⟩] = false ∧
    WF [⟨.intro, 2⟩, ⟨.last, 5⟩, ⟨.intro, 5⟩] = false := by decide

/-! ### the defect this model no longer has (decided witnesses about the decision procedure BEFORE the repair) -/

/-- Before the repair, a single-version interval whose closing event is listed first — `last_affected 2, introduced 2` —
judged every later version affected (the stable sort kept `introduced 2` last, the "between events" rule saw it as the
previous event); the specification says version 3 is not affected, and the repaired decision agrees. -/
theorem C18_old_closing_listed_first :
    WF [⟨.last, 2⟩, ⟨.intro, 2⟩] = true ∧ osvDecl [⟨.last, 2⟩, ⟨.intro, 2⟩] 3 = false ∧
    rangeDecisionOld [⟨.last, 2⟩, ⟨.intro, 2⟩] 3 = true ∧ rangeDecision [⟨.last, 2⟩, ⟨.intro, 2⟩] 3 = false := by decide

/-- Before the repair, adjacent intervals `[1, 2) [2, …)` listed in their natural order judged the version 2 itself
unaffected (the binary search returns the first event on version 2, the `fixed`), and listed `introduced 2` first
judged every version after 2 unaffected (`fixed 2` was then the previous event). -/
theorem C18_old_adjacent_intervals :
    WF [⟨.intro, 1⟩, ⟨.fixed, 2⟩, ⟨.intro, 2⟩] = true ∧ osvDecl [⟨.intro, 1⟩, ⟨.fixed, 2⟩, ⟨.intro, 2⟩] 2 = true ∧
    rangeDecisionOld [⟨.intro, 1⟩, ⟨.fixed, 2⟩, ⟨.intro, 2⟩] 2 = false ∧
    rangeDecision [⟨.intro, 1⟩, ⟨.fixed, 2⟩, ⟨.intro, 2⟩] 2 = true ∧
    osvDecl [⟨.intro, 1⟩, ⟨.intro, 2⟩, ⟨.fixed, 2⟩] 3 = true ∧
    rangeDecisionOld [⟨.intro, 1⟩, ⟨.intro, 2⟩, ⟨.fixed, 2⟩] 3 = false ∧
    rangeDecision [⟨.intro, 1⟩, ⟨.intro, 2⟩, ⟨.fixed, 2⟩] 3 = true := by decide

/-! Non-vacuity: a concrete record meets the hypotheses, is listed out of order, has events sharing a version, and
exercises the exact-hit (one and several events), between-events and last_affected branches. -/
def exEvents : List Ev := [⟨.fixed, 5⟩, ⟨.intro, 0⟩, ⟨.last, 9⟩, ⟨.intro, 7⟩]
example : WF exEvents = true := by decide
example : (rangeDecision exEvents 3, rangeDecision exEvents 5, rangeDecision exEvents 9, rangeDecision exEvents 10)
    = (true, false, true, false) := by decide
example : (osvDecl exEvents 3, osvDecl exEvents 5, osvDecl exEvents 9, osvDecl exEvents 10) = (true, false, true, false) := by decide

def exTies : List Ev := [⟨.last, 7⟩, ⟨.intro, 5⟩, ⟨.intro, 7⟩, ⟨.fixed, 5⟩, ⟨.intro, 0⟩, ⟨.fixed, 7⟩]
example : WF exTies = true := by decide
example : (rangeDecision exTies 4, rangeDecision exTies 5, rangeDecision exTies 6, rangeDecision exTies 7, rangeDecision exTies 8)
    = (true, true, true, true, false) := by decide
example : (osvDecl exTies 4, osvDecl exTies 5, osvDecl exTies 6, osvDecl exTies 7, osvDecl exTies 8)
    = (true, true, true, true, false) := by decide

/-- Outside the hypothesis the code and the specification really differ (so `WF` is not decoration): a `last_affected`
that closes nothing — the code's exact-hit rule answers "affected" on it, no interval contains the version. -/
theorem C18_illformed_differs :
    rangeDecision [⟨.last, 1⟩] 1 ≠ osvDecl [⟨.last, 1⟩] 1 ∧
    rangeDecision [⟨.intro, 1⟩, ⟨.fixed, 2⟩, ⟨.last, 2⟩] 2 ≠ osvDecl [⟨.intro, 1⟩, ⟨.fixed, 2⟩, ⟨.last, 2⟩] 2 := by decide

end Scalibr.Vulns
