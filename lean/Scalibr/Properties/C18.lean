/-
C18 — Affected-version decisions follow the OSV range rules.
Property theorems only; helper lemmas live in `Scalibr.Proofs.Vulns`.
-/
import Scalibr.Proofs.Vulns
import Scalibr.Spec.VersionOrder
namespace Scalibr.Vulns

/-- For a well-formed range, listed in any order, the code's sort + binary-search decision is the OSV
evaluation. No bound on the number of events or on versions. -/
theorem C18_range (es : List Ev) (q : Nat) (h : WF es = true) :
    rangeDecision es q = osvRange es q :=
  codeDecision_eq_osvScan (sortEvents es) q h

/-- The order in which a range lists its events is irrelevant (events of a well-formed range have
pairwise distinct versions): model, specification and well-formedness all see the same sorted list. -/
theorem C18_listing_order (es es' : List Ev) (hp : es.Perm es')
    (hd : ∀ a b, a ∈ es → b ∈ es → a.v = b.v → a = b) :
    sortEvents es = sortEvents es' := by
  apply isort_eq_of_perm evLt evLt_asymm evLt_trans es es' hp
  intro a b ha hb h1 h2
  apply hd a b ha hb
  unfold evLt at h1 h2; simp at h1 h2; omega

theorem C18_listing_order_decision (es es' : List Ev) (q : Nat) (hp : es.Perm es')
    (hd : ∀ a b, a ∈ es → b ∈ es → a.v = b.v → a = b) :
    rangeDecision es q = rangeDecision es' q ∧ osvRange es q = osvRange es' q ∧ WF es = WF es' := by
  unfold rangeDecision osvRange WF
  rw [C18_listing_order es es' hp hd]
  exact ⟨rfl, rfl, rfl⟩

/-- **The property's own sentence.** For a well-formed range, listed in any order, the OSV evaluation loop says
"vulnerable" exactly when the version lies in an interval opened by an `introduced` event at or below it and not closed
by a later `fixed` event at or below it or a later `last_affected` event strictly below it. -/
theorem C18_decl (es : List Ev) (q : Nat) (h : WF es = true) : osvRange es q = osvDecl es q := by
  unfold osvRange osvScan
  rw [osvDecl_eq, declOn_perm q es (sortEvents es) (isort_perm evLt es).symm]
  have hi := incr_of_WFfrom true none (sortEvents es) h
  rw [fold_eq_decl q none (sortEvents es) false hi]
  simp

open Scalibr.Upgrade in
/-- **C18 over the ecosystem's comparison.** Let `cmp` be the comparison `IsAffected` uses (with "0" below
everything) and suppose it is a total preorder on the version strings at hand — equivalently (`C11_rank_exists_iff`)
some rank function represents it there. Then for a range that is well formed once ordered, the code's sort +
binary-search decision on the ranks is the OSV evaluation stated with `cmp` itself, for every queried version. -/
theorem C18_range_cmp {α : Type} (cmp : α → α → Ordering) (vs : List α) (rank : α → Nat)
    (hr : RankFor cmp vs rank) (es : List (EvS α)) (q : α)
    (hes : ∀ e ∈ es, e.v ∈ vs) (hq : q ∈ vs) (hwf : WF (es.map (toRank rank)) = true) :
    rangeDecision (es.map (toRank rank)) (rank q) = osvRangeC cmp es q := by
  rw [C18_range _ _ hwf]
  unfold osvRange osvRangeC osvScan sortEvents
  have hlt : ∀ a ∈ es, ∀ b ∈ es, (cmp a.v b.v == .lt) = evLt (toRank rank a) (toRank rank b) := by
    intro a ha b hb
    rw [hr a.v (hes a ha) b.v (hes b hb)]
    unfold evLt toRank
    simp only []
    cases h : compare (rank a.v) (rank b.v) <;>
      simp_all [Nat.compare_eq_lt, Nat.compare_eq_eq, Nat.compare_eq_gt] <;> omega
  rw [← isort_mapK evLt (toRank rank) es,
      ← isort_congr_mem (fun a b => cmp a.v b.v == .lt) (fun a b => evLt (toRank rank a) (toRank rank b)) es hlt,
      List.foldl_map]
  have hperm := isort_perm (fun a b : EvS α => cmp a.v b.v == .lt) es
  generalize isort (fun a b : EvS α => cmp a.v b.v == .lt) es = l at hperm
  have hl : ∀ e ∈ l, e.v ∈ vs := fun e he => hes e (hperm.mem_iff.mp he)
  clear hperm
  generalize false = acc
  induction l generalizing acc with
  | nil => rfl
  | cons e l ih =>
    simp only [List.foldl]
    have he : cmp q e.v = compare (rank q) (rank e.v) := hr q hq e.v (hl e (by simp))
    have hstep : step (rank q) acc (toRank rank e) = stepC cmp q acc e := by
      unfold step stepC toRank
      simp only [he]
      cases e.k <;> simp only [] <;>
        (cases h : compare (rank q) (rank e.v) <;>
          simp_all [Nat.compare_eq_lt, Nat.compare_eq_eq, Nat.compare_eq_gt] <;> omega)
    rw [hstep]
    exact ih (fun x hx => hl x (by simp [hx])) _

/-- non-vacuity of `C18_range_cmp`: the numeric comparison on `Nat` with the identity rank -/
example : Scalibr.Upgrade.RankFor (compare : Nat → Nat → Ordering) [0, 5, 7, 9] id := fun _ _ _ _ => rfl

/-- Record level: with every range of the record well formed, `IsAffected` holds exactly when the
specification's rule does (explicit listing, or an applicable range whose OSV evaluation is
"vulnerable"), for the package's own ecosystem and name only. -/
theorem C18_range_type (a : Affected) (r : Range) : rangeApplies a r = matchingType a r := by
  unfold rangeApplies matchingType
  cases r.typ <;> simp

theorem C18_record (known : Nat → Bool) (vuln : List Affected) (p : Pkg)
    (hwf : ∀ a ∈ vuln, ∀ r ∈ a.ranges, WF r.events = true) :
    isAffected known vuln p = true ↔ specAffected known vuln p := by
  unfold isAffected specAffected
  by_cases hk : known p.eco = true
  · simp only [hk, Bool.not_true, Bool.false_eq_true, if_false, true_and, List.any_eq_true,
      Bool.and_eq_true, Bool.or_eq_true, decide_eq_true_eq, List.contains_iff_mem]
    constructor
    · rintro ⟨a, ha, ⟨he, hn⟩, h⟩
      refine ⟨a, ha, he, hn, ?_⟩
      rcases h with h | ⟨r, hr, hra, hrd⟩
      · exact Or.inl h
      · exact Or.inr ⟨r, hr, by rw [← C18_range_type]; exact hra, by rw [← C18_range r.events p.version (hwf a ha r hr)]; exact hrd⟩
    · rintro ⟨a, ha, he, hn, h⟩
      refine ⟨a, ha, ⟨he, hn⟩, ?_⟩
      rcases h with h | ⟨r, hr, hra, hrd⟩
      · exact Or.inl h
      · exact Or.inr ⟨r, hr, by rw [C18_range_type]; exact hra, by rw [C18_range r.events p.version (hwf a ha r hr)]; exact hrd⟩
  · simp [hk]

/-- Records for other packages or ecosystems never match — whatever their ranges contain
(no well-formedness needed). -/
theorem C18_other (known : Nat → Bool) (vuln : List Affected) (p : Pkg)
    (h : ∀ a ∈ vuln, a.eco ≠ p.eco ∨ a.name ≠ p.name) : isAffected known vuln p = false := by
  unfold isAffected
  split
  · rfl
  · rw [List.any_eq_false]
    intro a ha
    rcases h a ha with h | h <;> simp [h]

theorem C18_unknown_ecosystem (known : Nat → Bool) (vuln : List Affected) (p : Pkg)
    (h : known p.eco = false) : isAffected known vuln p = false := by
  simp [isAffected, h]

/-- `slices.SortFunc`'s precondition: the event comparator is a strict weak order. -/
theorem C18_sort_pre :
    (∀ a b, evLt a b = true → evLt b a = false) ∧
    (∀ a b c, evLt b a = false → evLt c b = false → evLt c a = false) ∧
    (∀ es : List Ev, (sortEvents es).Perm es ∧ (sortEvents es).Pairwise (fun a b => a.v ≤ b.v)) := by
  refine ⟨evLt_asymm, evLt_trans, fun es => ⟨isort_perm evLt es, ?_⟩⟩
  have := isort_pairwise evLt evLt_asymm evLt_trans es
  refine this.imp ?_
  intro a b h; unfold leOf evLt at h; simp at h; omega

/-! Non-vacuity: a concrete record meets the hypotheses, is listed out of order, and exercises the
exact-hit, between-events and last_affected branches. -/
def exEvents : List Ev := [⟨.fixed, 5⟩, ⟨.intro, 0⟩, ⟨.last, 9⟩, ⟨.intro, 7⟩]
example : WF exEvents = true := by decide
example : (rangeDecision exEvents 3, rangeDecision exEvents 5, rangeDecision exEvents 9, rangeDecision exEvents 10)
    = (true, false, true, false) := by decide
example : (osvDecl exEvents 3, osvDecl exEvents 5, osvDecl exEvents 9, osvDecl exEvents 10) = (true, false, true, false) := by decide

example : ∀ a b, a ∈ exEvents → b ∈ exEvents → a.v = b.v → a = b := by
  have h : ∀ a ∈ exEvents, ∀ b ∈ exEvents, a.v = b.v → a = b := by decide
  intro a b ha hb; exact h a ha b hb

/-- Outside the hypothesis the code and the OSV evaluation really differ (so `WF` is not decoration):
two `introduced` events in a row followed by a `fixed`. -/
theorem C18_illformed_differs :
    rangeDecision [⟨.intro, 1⟩, ⟨.fixed, 1⟩] 1 ≠ osvRange [⟨.intro, 1⟩, ⟨.fixed, 1⟩] 1 := by decide

end Scalibr.Vulns
