/-
C14 — Every emitted package is well-formed and convertible  (PARTIAL: level `other`).

Kernel-checked here:
* over tables REGENERATED from /repo on every run (`Scalibr.Gen.Purl`, written by
  /verif/translator/cmd/purldump): every purl type reachable from a built-in extractor's `ToPURL` is a
  key of `purl.validType`'s table, so `purl.FromString` cannot reject a built-in package's purl for its type;
* for ALL package lists: the package index returns a package when queried by its purl's type and name,
  returns nothing else, and each query is the corresponding filter of the indexed list.
Not proved (covered by the harvest loop of harness/cmd/c14gen, which is testing): that `ToPURL` /
`Ecosystem` never panic on what `Extract` returned, print∘parse idempotence of packageurl-go, non-empty
name and location, and field preservation of the proto / SPDX / CycloneDX converters.
-/
import Scalibr.Proofs.Index
import Scalibr.Gen.Purl
namespace Scalibr.Index
open Scalibr.Gen.Purl

/-! ### purl types (regenerated tables) -/

/-- Every purl type a built-in `ToPURL` can produce in code is accepted by `purl.validType`
(the emitted types are lower-cased by the translator, as `validType` does before its lookup).
Stated over the source's table: when `validType` is no longer a map-literal lookup
(`validTableFound = false`, empty table) this fails on purpose, and the runtime `accept` stream of
harness/cmd/c14gen — the real `purl.FromString` on every emitted type — names the rejected type. -/
theorem C14_types_accepted : ∀ e ∈ emitted, e.2.2 ∈ validTypes := by decide +kernel

/-- The translator evaluated every `Type:` expression it met (nothing it does not understand is hidden). -/
theorem C14_types_resolved : unresolved = [] := by decide

/-- Every built-in extractor package is accounted for: its `ToPURL` builds a purl with a listed type,
only ever returns nil, or hands back a purl found in the scanned data (the two SBOM extractors). -/
theorem C14_extractors_covered :
    ∀ p ∈ extractorPackages, p ∈ emitted.map (·.1) ∨ p ∈ nilOnly ∨ p ∈ dynamic.map (·.1) := by decide +kernel

/-- `validType` lower-cases its argument before the lookup, so a table key with an upper-case letter
could never match: there is none. -/
theorem C14_valid_lowercase : ∀ t ∈ validTypes, t.toList.all (fun c => !c.isUpper) = true := by decide +kernel

/-! ### package index (all package lists) -/

/-- `GetSpecific(name, type)` = the packages whose purl has that type and name, in extraction order. -/
theorem C14_index (pkgs : List Pkg) (n t : String) :
    getSpecific (new pkgs) n t = pkgs.filter (fun p => p.purl = some (t, n)) := new_getSpecific pkgs n t

/-- `GetAllOfType(type)` = the packages whose purl has that type, in some order (Go map iteration). -/
theorem C14_index_type (pkgs : List Pkg) (t : String) :
    (getAllOfType (new pkgs) t).Perm (pkgs.filter fun p => purlType p = some t) := new_getAllOfType pkgs t

/-- `GetAll()` = the packages that have a purl, in some order. -/
theorem C14_index_all (pkgs : List Pkg) : (getAll (new pkgs)).Perm (pkgs.filter hasPurl) := new_getAll pkgs

/-- The index returns a package when queried by its purl's type and name. -/
theorem C14_index_has (pkgs : List Pkg) (p : Pkg) (t n : String) (hp : p ∈ pkgs) (hu : p.purl = some (t, n)) :
    p ∈ getSpecific (new pkgs) n t ∧ p ∈ getAllOfType (new pkgs) t ∧ p ∈ getAll (new pkgs) := new_has pkgs p t n hp hu

/-- Nothing that was not indexed, and no package without a purl, is ever returned. -/
theorem C14_index_only (pkgs : List Pkg) (p : Pkg) (h : p ∈ getAll (new pkgs)) :
    p ∈ pkgs ∧ p.purl.isSome = true := new_only pkgs p h

/-! ### non-vacuity -/
example : emitted.length ≥ 50 ∧ validTypes.length ≥ 30 := by decide +kernel
example : getSpecific (new [⟨0, some ("deb", "a")⟩, ⟨1, none⟩, ⟨2, some ("deb", "b")⟩, ⟨3, some ("deb", "a")⟩]) "a" "deb" =
    [⟨0, some ("deb", "a")⟩, ⟨3, some ("deb", "a")⟩] := by decide
/-- what the `snap` defect looked like: an emitted type outside the table is caught -/
example : ¬ (∀ e ∈ [("os/snap", "TypeSnap", "snap")], e.2.2 ∈ ["deb", "rpm"]) := by decide

end Scalibr.Index
