/-
C14 — Every emitted package is well-formed and convertible  (PARTIAL: level `other`).

Kernel-checked here:
* over tables REGENERATED from /repo on every run (`Scalibr.Gen.Purl`, written by
  /verif/translator/cmd/purldump): every purl type reachable from a built-in extractor's `ToPURL` is a
  key of `purl.validType`'s table, so `purl.FromString` cannot reject a built-in package's purl for its type;
* for ALL package lists: the package index returns a package when queried by its purl's type and name,
  returns nothing else, and each query is the corresponding filter of the indexed list.
* for ALL packages: the generic field copying of `binary/proto/proto.go` (model `Scalibr.ProtoPkg`) is
  LOSSLESS — reading the record back gives the package's name, version, locations, purl, layer details,
  source code, annotations (`C14_proto_lossless_partial`, with the two exceptions decided as
  counterexamples) — and the SPDX / CycloneDX exporters (model `Scalibr.Sbom`) carry the purl / name /
  version / locations of every package.
  AUDIT NOTE. The per-field statements `C14_proto_fields`, `C14_proto_purl`, `C14_proto_list`,
  `C14_cdx_fields` are DEFINITIONAL: they restate the Lean record builder (`rfl`). They are kept because
  they spell out, field by field, what the model claims the Go code does; their content is the
  correspondence stream (`proto` op of harness/cmd/c14gen against `Drivers/C14.lean`: the real
  `proto.ScanResultToProto` on harvested and synthetic packages, every generic field compared with this
  builder), respectively C15's stream for the SBOM model. What is stated against something other than
  the builder: `C14_proto_lossless_partial` (against the reader `Scalibr.ProtoPkg.read`), the wrap and
  annotation counterexamples, and `C14_spdx_fields` (against `Scalibr.Sbom.spdxRecord`, a filter).
* for ALL scan results: the non-package part of the result proto (model `Scalibr.ProtoResult`: scan / plugin statuses,
  findings with advisory, severity, CVSS, target, the early error return, the deprecated copies) — the conversion's
  OUTCOME is the specification's (error of the first finding without advisory / id, else success:
  `C14_result_outcome`, never a panic: `C14_result_never_panics`), reading the record back gives the result
  (`C14_result_lossless_partial`, for representable values); the detector names are carried (`C14_result_detectors`); and `typeForPath` accepts exactly the paths ending
  in .binproto / .textproto [.gz] (`C14_file_type`, for all paths).
Not proved (exercised by the harvest / layout / accept / purlrt streams, which are testing): that the 58
`ToPURL` / `Ecosystem` implementations never panic on what `Extract` returned and give a non-empty name and
a location; packageurl-go's printing and parsing (idempotence; type acceptance of the data-determined purls
of the two SBOM extractors); the ecosystem-name conversion.
-/
import Scalibr.Proofs.Index
import Scalibr.Gen.Purl
import Scalibr.Spec.ProtoPkg
import Scalibr.Proofs.SbomFields
import Scalibr.Proofs.ProtoResult
import Scalibr.Proofs.ProtoFile
namespace Scalibr.Index
open Scalibr.Gen.Purl

/-! ### purl types (regenerated tables) -/

/-- Every purl type a built-in `ToPURL` can produce in code is accepted by `purl.validType`
(the emitted types are lower-cased by the translator, as `validType` does before its lookup).
Stated over the source's table: when `validType` is no longer a map-literal lookup
(`validTableFound = false`, empty table) this fails on purpose, and the runtime `accept` stream of
harness/cmd/c14gen — the real `purl.FromString` on every emitted type — names the rejected type. -/
theorem C14_types_accepted : ∀ e ∈ emitted, e.2.2 ∈ validTypes := by decide +kernel

/-- The translator evaluated every `Type:` expression it met (nothing it does not understand is hidden). -/
theorem C14_types_resolved : unresolved = [] := by decide

/-- Every built-in extractor package is accounted for: its `ToPURL` builds a purl with a listed type,
only ever returns nil, or hands back a purl found in the scanned data (the two SBOM extractors). -/
theorem C14_extractors_covered :
    ∀ p ∈ extractorPackages, p ∈ emitted.map (·.1) ∨ p ∈ nilOnly ∨ p ∈ dynamic.map (·.1) := by decide +kernel

/-- `validType` lower-cases its argument before the lookup, so a table key with an upper-case letter
could never match: there is none. -/
theorem C14_valid_lowercase : ∀ t ∈ validTypes, t.toList.all (fun c => !c.isUpper) = true := by decide +kernel

/-! ### package index (all package lists) -/

/-- `GetSpecific(name, type)` = the packages whose purl has that type and name, in extraction order. -/
theorem C14_index (pkgs : List Pkg) (n t : String) :
    getSpecific (new pkgs) n t = pkgs.filter (fun p => p.purl = some (t, n)) := new_getSpecific pkgs n t

/-- `GetAllOfType(type)` = the packages whose purl has that type, in some order (Go map iteration). -/
theorem C14_index_type (pkgs : List Pkg) (t : String) :
    (getAllOfType (new pkgs) t).Perm (pkgs.filter fun p => purlType p = some t) := new_getAllOfType pkgs t

/-- `GetAll()` = the packages that have a purl, in some order. -/
theorem C14_index_all (pkgs : List Pkg) : (getAll (new pkgs)).Perm (pkgs.filter hasPurl) := new_getAll pkgs

/-- The index returns a package when queried by its purl's type and name. -/
theorem C14_index_has (pkgs : List Pkg) (p : Pkg) (t n : String) (hp : p ∈ pkgs) (hu : p.purl = some (t, n)) :
    p ∈ getSpecific (new pkgs) n t ∧ p ∈ getAllOfType (new pkgs) t ∧ p ∈ getAll (new pkgs) := new_has pkgs p t n hp hu

/-- Nothing that was not indexed, and no package without a purl, is ever returned. -/
theorem C14_index_only (pkgs : List Pkg) (p : Pkg) (h : p ∈ getAll (new pkgs)) :
    p ∈ pkgs ∧ p.purl.isSome = true := new_only pkgs p h

/-! ### non-vacuity -/
example : emitted.length ≥ 50 ∧ validTypes.length ≥ 30 := by decide +kernel
example : getSpecific (new [⟨0, some ("deb", "a")⟩, ⟨1, none⟩, ⟨2, some ("deb", "b")⟩, ⟨3, some ("deb", "a")⟩]) "a" "deb" =
    [⟨0, some ("deb", "a")⟩, ⟨3, some ("deb", "a")⟩] := by decide
/-- what the `snap` defect looked like: an emitted type outside the table is caught -/
example : ¬ (∀ e ∈ [("os/snap", "TypeSnap", "snap")], e.2.2 ∈ ["deb", "rpm"]) := by decide

end Scalibr.Index

/-! ### result proto: the generic field copying of `binary/proto/proto.go` (all packages, all extractors) -/

namespace Scalibr.ProtoPkg

/-- `int32(x)` is the identity on what fits an int32 … -/
theorem toInt32_id (x : Int) (h1 : -2147483648 ≤ x) (h2 : x < 2147483648) : toInt32 x = x := by
  unfold toInt32; omega

/-- (definitional, see the header) The proto record carries the package's name, version, locations (same order),
extractor name, ecosystem, source code identifier and one annotation per annotation — verbatim, for every package. -/
theorem C14_proto_fields {M PM : Type} (ops : Ops M PM) (pkg : Package M) :
    (packageToProto ops pkg).name = pkg.name ∧
    (packageToProto ops pkg).version = pkg.version ∧
    (packageToProto ops pkg).locations = pkg.locations ∧
    (packageToProto ops pkg).extractor = ops.extractorName pkg ∧
    (packageToProto ops pkg).ecosystem = ops.ecosystem pkg ∧
    (packageToProto ops pkg).sourceCode = pkg.sourceCode ∧
    (packageToProto ops pkg).annotations.length = pkg.annotations.length ∧
    (packageToProto ops pkg).metadata = ops.setMeta pkg.metadata := by
  refine ⟨rfl, rfl, rfl, rfl, rfl, ?_, by simp [packageToProto], rfl⟩
  unfold packageToProto sourceCodeToProto
  cases pkg.sourceCode <;> rfl

/-- (definitional) The proto purl is `ToPURL`'s purl, field by field (qualifiers in order), with its printed form; no
purl record iff `ToPURL` returned nil. -/
theorem C14_proto_purl {M PM : Type} (ops : Ops M PM) (pkg : Package M) :
    (ops.toPURL pkg = none → (packageToProto ops pkg).purl = none) ∧
    (∀ u, ops.toPURL pkg = some u →
      (packageToProto ops pkg).purl =
        some ⟨ops.purlString u, u.typ, u.ns, u.name, u.version, u.qualifiers, u.subpath⟩) := by
  unfold packageToProto
  refine ⟨fun h => by simp [h, purlToProto], fun u h => ?_⟩
  simp [h, purlToProto, qualifiersToProto]

/-- Layer details are carried verbatim (index within int32 range, as layer indexes are); none iff none. -/
theorem C14_proto_layer_partial {M PM : Type} (ops : Ops M PM) (pkg : Package M) :
    (pkg.layerDetails = none → (packageToProto ops pkg).layerDetails = none) ∧
    (∀ ld, pkg.layerDetails = some ld → -2147483648 ≤ ld.index → ld.index < 2147483648 →
      (packageToProto ops pkg).layerDetails = some ⟨ld.index, ld.diffID, ld.command, ld.inBaseImage⟩) := by
  unfold packageToProto
  refine ⟨fun h => by simp [h, layerDetailsToProto], fun ld h h1 h2 => ?_⟩
  simp [h, layerDetailsToProto, toInt32_id ld.index h1 h2]

/-- … and NOT beyond: the full-strength "verbatim" fails for an index that does not fit an int32
(`int32(ld.Index)` wraps) — no real image has 2³¹ layers; the hypothesis above is exactly this. -/
theorem C14_proto_layer_wraps : toInt32 2147483648 = -2147483648 ∧ toInt32 4294967296 = 0 := by decide

/-- The three known annotations are told apart; everything else becomes UNSPECIFIED. -/
theorem C14_proto_annotations :
    annotationToProto 1 = .transitional ∧ annotationToProto 2 = .insideOSPackage ∧ annotationToProto 3 = .insideCacheDir ∧
    ∀ a : Int, a ≠ 1 → a ≠ 2 → a ≠ 3 → annotationToProto a = .unspecified := by
  refine ⟨rfl, rfl, rfl, fun a h1 h2 h3 => ?_⟩
  simp [annotationToProto, h1, h2, h3]

/-- (definitional: the loop is a `map`) The result lists one record per package, in inventory order: record `i`
is the conversion of package `i`. -/
theorem C14_proto_list {M PM : Type} (ops : Ops M PM) (pkgs : List (Package M)) :
    (packagesToProto ops pkgs).length = pkgs.length ∧
    ∀ i (h : i < pkgs.length), (packagesToProto ops pkgs)[i]? = some (packageToProto ops pkgs[i]) := by
  unfold packagesToProto
  refine ⟨by simp, fun i h => by simp [h]⟩

/-- LOSSLESS. Reading the record back gives the package's generic content — name, version, locations in order,
purl fields and printed form, layer details, source code, annotations, ecosystem, extractor — for every package
whose annotations are the declared ones and whose layer index fits an int32. -/
theorem C14_proto_lossless_partial {M PM : Type} (ops : Ops M PM) (pkg : Package M) (h : Representable pkg) :
    read (packageToProto ops pkg) = genericOf ops pkg := by
  obtain ⟨ha, hl⟩ := h
  have hann : (pkg.annotations.map annotationToProto).map readAnnotation = pkg.annotations := by
    rw [List.map_map]
    conv => rhs; rw [← List.map_id pkg.annotations]
    apply List.map_congr_left
    intro a hm
    rcases ha a hm with rfl | rfl | rfl | rfl <;> rfl
  have hsrc : sourceCodeToProto pkg.sourceCode = pkg.sourceCode := by
    unfold sourceCodeToProto; cases pkg.sourceCode <;> rfl
  have hlay : (layerDetailsToProto pkg.layerDetails).map (fun l => (⟨l.index, l.diffID, l.command, l.inBaseImage⟩ : LayerDetails)) =
      pkg.layerDetails := by
    cases hld : pkg.layerDetails with
    | none => rfl
    | some ld =>
      obtain ⟨h1, h2⟩ := hl ld hld
      simp [layerDetailsToProto, toInt32_id ld.index h1 h2]
  unfold read genericOf packageToProto
  simp only [hann, hsrc, hlay]
  cases ops.toPURL pkg <;> simp [purlToProto, qualifiersToProto]

/-- … and `Representable` is needed: two different packages (annotation 0 vs 7; layer index 0 vs 2³²) have the
same record. -/
theorem C14_proto_not_injective_outside :
    let ops : Ops Unit Unit := ⟨fun _ => none, fun _ => "", fun _ => "", fun _ => "", fun _ => none⟩
    let p (a : Int) (i : Int) : Package Unit := ⟨"n", "1", none, [], [a], some ⟨i, "", "", false⟩, ()⟩
    read (packageToProto ops (p 0 0)) = read (packageToProto ops (p 7 4294967296)) := by
  decide

end Scalibr.ProtoPkg

/-! ### SBOM exporters (model of `converter.ToSPDX23` / `ToCDX`: `Scalibr.Sbom`, tied to the code by C15's stream) -/

namespace Scalibr.Sbom

/-- Every SPDX package record after the synthetic `main` one carries the purl name, purl version, the purl string
and the location summary of its package, in inventory order; packages without an exportable purl are the only
ones left out. (Against `spdxRecord`, a filter; the exporter is a loop with a uuid counter.) -/
theorem C14_spdx_fields {Purl : Type} (ops : PurlOps Purl) (env : Env) (cfg : SPDXConfig) (inv : List (Pkg Purl)) :
    ((toSpdx ops env cfg inv).packages.drop 1).map (fun p => (p.name, p.version, p.extRefs.map (·.locator), p.sourceInfo)) =
      inv.filterMap (spdxRecord ops) := by
  unfold toSpdx
  simpa using spdxLoop_fields ops env _ inv 1

/-- NOT VERBATIM, by design of `ToSPDX23` (the property's sentence "the proto and SBOM records preserve name, version,
locations … and layer details verbatim" does not hold for SPDX as written): the SPDX record carries the PURL's name and
version, not `pkg.Name` / `pkg.Version`; of three locations only the first two survive, in free text; layer details are
not exported at all (`Sbom.Pkg` has no such field because neither exporter reads `LayerDetails`). Decided witness. -/
def nvOps : PurlOps (String × String) := ⟨fun u => "pkg:x/" ++ u.1 ++ "@" ++ u.2, fun _ => none, (·.1), (·.2)⟩
def nvPkg : Pkg (String × String) :=
  { name := "Display Name", version := "v1", locations := ["a", "b", "c"], extractor := "ex", purl := some ("purlname", "1"), cpes := [] }
theorem C14_spdx_not_verbatim :
    ((toSpdx nvOps ⟨fun _ => "u", "now"⟩ ⟨"", "", []⟩ [nvPkg]).packages.drop 1).map
        (fun p => (p.name, p.version, p.sourceInfo)) =
      [("purlname", "1", "Identified by the ex extractor from 3 locations, including a and b")] ∧
    nvPkg.name ≠ "purlname" ∧ nvPkg.version ≠ "1" := by
  refine ⟨by decide +kernel, by decide, by decide⟩

/-- (close to definitional: `cdxLoop` is a `map` with a uuid counter) Every CycloneDX component carries its
package's name, version, purl string ("" without purl) and all its locations in order — the component list is
always present, one component per package, in inventory order. -/
theorem C14_cdx_fields {Purl : Type} (ops : PurlOps Purl) (env : Env) (cfg : CDXConfig) (inv : List (Pkg Purl)) :
    ∃ cs, (toCdx ops env cfg inv).components = some cs ∧
      cs.map compFields =
        inv.map fun pkg => (pkg.name, pkg.version, (match pkg.purl with | some u => ops.str u | none => ""), pkg.locations) := by
  unfold toCdx
  exact ⟨_, rfl, cdxLoop_fields ops env inv 1⟩

end Scalibr.Sbom


/-! ## The rest of the result proto: statuses, findings, file names -/

namespace Scalibr.ProtoResult

/-- OUTCOME. For EVERY scan result `ScanResultToProto` fails exactly as the specification says: with the error of the FIRST
finding that has no advisory / no advisory id, and succeeds otherwise. -/
theorem C14_result_outcome {S P PP T : Type} (pk : P → PP) (r : ScanResult S P T) :
    (scanResultToProto pk r).erase = specOutcome r.findings := by
  have := findingsLoop_outcome pk r.findings []
  unfold scanResultToProto
  cases hl : findingsLoop pk r.findings [] <;> rw [hl] at this <;> exact this

/-- the conversion never panics (fix of C14/finding-nil-severity-panics: an advisory without severity gives a record without one) -/
theorem C14_result_never_panics {S P PP T : Type} (pk : P → PP) (r : ScanResult S P T) : scanResultToProto pk r ≠ .panic := by
  intro h
  have ho := C14_result_outcome pk r
  rw [h] at ho
  exact specOutcome_ne_panic r.findings ho.symm

/-- LOSSLESS. For a result whose values the record can represent (declared enum constants, plugin versions within int32) and
whose findings all have an advisory with id: the conversion succeeds, reading the record
back gives the result's generic content (statuses, reasons, plugin names / versions, every advisory / severity / CVSS / target
field, the detector names, in order), and the two deprecated copies equal the inventory's lists. -/
theorem C14_result_lossless_partial {S P PP T : Type} (pk : P → PP) (r : ScanResult S P T)
    (hs : StatusOK r.status) (hp : ∀ s ∈ r.pluginStatus, PluginOK s) (hf : ∀ f ∈ r.findings, FindingOK f) :
    ∃ p, scanResultToProto pk r = .ok p ∧ read p = generic pk r ∧
      p.inventoriesDeprecated = p.packages ∧ p.findingsDeprecated = p.findings := by
  obtain ⟨ps, hps, hm⟩ := findingsLoop_lossless pk r.findings [] hf
  refine ⟨_, by simp only [scanResultToProto, hps]; rfl, ?_, rfl, rfl⟩
  have hpl : (r.pluginStatus.map pluginStatusToProto).map readPlugin = r.pluginStatus := by
    rw [List.map_map]
    conv => rhs; rw [← List.map_id r.pluginStatus]
    exact List.map_congr_left fun s hs' => readPlugin_pluginStatusToProto s (hp s hs')
  simp only [read, generic, readStatus_scanStatusToProto r.status hs, hpl, List.nil_append, hm]

/-- the record of a finding names the detectors the core library recorded (fix of C14/finding-detectors-dropped), for ALL findings -/
theorem C14_result_detectors {S P PP : Type} (pk : P → PP) (f : Finding S P) (p : PFinding S PP)
    (h : findingToProto pk f = .ok p) : p.detectors = f.detectors := by
  obtain ⟨adv, target, extra, dets⟩ := f
  rcases adv with _ | ⟨aid, typ, title, desc, recm, sev⟩
  · cases h
  · rcases aid with _ | id
    · cases h
    · rcases sev with _ | s <;> first | (cases h; rfl) | cases h

/-- every status value outside the three declared constants becomes UNSPECIFIED (the record cannot tell them apart) -/
theorem C14_result_status_default (s : ScanStatus) (h : s.status < 1 ∨ 3 < s.status) :
    (scanStatusToProto s).status = .unspecified := by
  unfold scanStatusToProto
  have h1 : s.status ≠ 1 := by omega
  have h2 : s.status ≠ 2 := by omega
  have h3 : s.status ≠ 3 := by omega
  simp [h1, h2, h3]

/-- FILE NAMES. `typeForPath` (hence `ValidExtension` / `Write`) accepts exactly the paths that end in `.binproto` or
`.textproto`, optionally followed by `.gz`, and gzips / writes binary accordingly — for all paths. -/
theorem C14_file_type (p : List Char) (ft : FileType) : typeForPath p = .ok ft ↔ specFileType p = some ft :=
  typeForPath_spec p ft

end Scalibr.ProtoResult
