/-
C12 — A reported fix is a real fix: re-analysis matches the report.
Reduction theorems over the pipeline model; `WriterCorrect` is C13's round-trip theorem as a hypothesis,
discharged for package.json at the end (`C12_npm_writer_correct`).  Helper lemmas live in `Scalibr.Proofs.Pipeline`.
-/
import Scalibr.Proofs.Pipeline
import Scalibr.Properties.C13

namespace Scalibr.Pipeline

/-- `choosePatches` returns a sublist of the computed patches, at most `maxUpgrades` of them when that
is positive (so at most one for `MaxUpgrades = 1`), pairwise compatible (no package changed twice
from the same version, no vulnerability fixed twice), and none introducing a vulnerability when
`NoIntroduce` is set. -/
theorem C12_choose_sublist (all : List Patch) (k : Int) (ni : Bool) :
    (choosePatches all k ni).Sublist all ∧
    (0 < k → ((choosePatches all k ni).length : Int) ≤ k) ∧
    (k = 1 → (choosePatches all k ni).length ≤ 1) ∧
    (choosePatches all k ni).Pairwise compatible ∧
    (ni = true → ∀ p ∈ choosePatches all k ni, p.introduced = []) := by
  refine ⟨chooseAux_sublist _ _ _ _ _, chooseAux_length _ _ _ _ _, ?_, chooseAux_pairwise _ _ _ _ _, ?_⟩
  · intro hk
    have := chooseAux_length all [] [] k ni (by omega)
    unfold choosePatches; omega
  · intro hni p hp
    exact (chooseAux_avoids all [] [] k ni p hp).2.2 hni

/-- No vulnerability fixed by an applied patch is marked unactionable. -/
theorem C12_unactionable (vulns : List Nat) (all : List Patch) (k : Int) (ni : Bool) (p : Patch)
    (hp : p ∈ choosePatches all k ni) (v : Nat) (hv : v ∈ p.fixed) :
    ∀ e ∈ computeVulnsResult vulns all, e.1 = v → e.2 = false := by
  have hin : p ∈ all := (chooseAux_sublist all [] [] k ni).subset hp
  intro e he hev
  unfold computeVulnsResult at he
  simp only [List.mem_map] at he
  obtain ⟨w, _, rfl⟩ := he
  simp only at hev ⊢
  subst hev
  have : w ∈ all.flatMap (·.fixed) := List.mem_flatMap.mpr ⟨p, hin, hv⟩
  simp [this]

/-- `ConstructPatches` reports exactly the set differences: fixed = old ∖ new, introduced = new ∖ old
(the new analysis lists every vulnerability once). -/
theorem C12_patch_is_diff_partial (old new : List Nat) (hn : new.Nodup) (v : Nat) :
    (v ∈ (vulnDiff old new).1 ↔ v ∈ old ∧ v ∉ new) ∧ (v ∈ (vulnDiff old new).2 ↔ v ∈ new ∧ v ∉ old) := by
  obtain ⟨h1, h2⟩ := vulnDiffAux_spec new old.eraseDups [] hn v
  unfold vulnDiff
  rw [h1, h2]
  simp [mem_eraseDups]

/-- hence: the new analysis is the original minus the fixed plus the introduced -/
theorem C12_after_is_expected_partial (old new : List Nat) (hn : new.Nodup) (v : Nat) :
    v ∈ new ↔ expectedAfter old (vulnDiff old new).1 (vulnDiff old new).2 v = true := by
  obtain ⟨h1, h2⟩ := C12_patch_is_diff_partial old new hn v
  unfold expectedAfter
  simp only [Bool.or_eq_true, Bool.and_eq_true, List.contains_iff_mem, Bool.not_eq_true', decide_eq_false_iff_not,
    List.contains_eq_mem, decide_eq_true_eq]
  rw [h1, h2]
  by_cases a : v ∈ old <;> by_cases b : v ∈ new <;> simp [a, b]

/-- `ConstructPatches`' update list is the requirement diff keyed by manifest ENTRY (package name together
with the npm alias / Maven type): every entry whose version changed has its own update, carrying its
own key, and every reported update comes from an entry of the new manifest with that key whose old
version (under the same key) differs.  Two entries for one package — its own name and an `npm:` alias,
at the same old and new range — therefore yield two updates (`C12_alias_pair_witness`). -/
theorem C12_update_per_entry_partial (old new : List (Key × Nat)) (hn : (old.map (·.1)).Nodup) :
    (∀ k v v', (k, v) ∈ old → (k, v') ∈ new → v' ≠ v → (⟨k, some v, v'⟩ : ReqUpdate) ∈ reqDiff old new) ∧
    (∀ u ∈ reqDiff old new, (u.key, u.to) ∈ new ∧ u.frm = lookupReq old u.key ∧ u.frm ≠ some u.to) :=
  ⟨fun k v v' h1 h2 hne => reqDiff_has_update old new hn k v v' h1 h2 hne, fun u hu => reqDiff_sound old new u hu⟩

/-- "lib" (alias 0) and "lib-legacy" → npm:lib (alias 7), both ^1 (10) relaxed to ^2 (11): two updates that
differ only in the key's alias component; a writer given both rewrites both entries -/
theorem C12_alias_pair_witness :
    reqDiff [((1, 0), 10), ((1, 7), 10)] [((1, 0), 11), ((1, 7), 11)] = [⟨(1, 0), some 10, 11⟩, ⟨(1, 7), some 10, 11⟩] ∧
    applyUpdates [((1, 0), 10), ((1, 7), 10)] [⟨(1, 0), some 10, 11⟩, ⟨(1, 7), some 10, 11⟩] = [((1, 0), 11), ((1, 7), 11)] ∧
    applyUpdates [((1, 0), 10), ((1, 7), 10)] [⟨(1, 0), some 10, 11⟩] ≠ [((1, 0), 11), ((1, 7), 11)] := by
  decide

/-- The requirement updates a patch reports, substituted into the old requirements, give the patched
requirements (same keys in the same order, no duplicates: an update, not an addition). -/
theorem C12_updates_substitute_partial (old new : List (Key × Nat)) (hk : old.map (·.1) = new.map (·.1))
    (hn : (old.map (·.1)).Nodup) : applyUpdates old (reqDiff old new) = new :=
  applyUpdates_reqDiff old new hk hn

/-- the report `ConstructPatches` attaches to the patch that turns requirements `r0` into `r'` inside one run -/
def reportOf {M F R U : Type} (p : Pipe M F R U) (E : List Nat) (r0 r' : R) : List Nat × List Nat :=
  vulnDiff (analyseFresh p E r0) (analyseInRun p E r0 r')

/-- The analysis made inside the run and a fresh analysis agree on a patched requirement list exactly when no
vulnerability outside the ExplicitVulns list enters the graph with the patch (always, when there is no such list). -/
def NoNewOutsideExplicit {M F R U : Type} (p : Pipe M F R U) (E : List Nat) (r0 r' : R) : Prop :=
  E = [] ∨ ∀ v ∈ p.raw r', v ∉ E → v ∈ p.raw r0

theorem analyseInRun_eq_fresh {M F R U : Type} (p : Pipe M F R U) (E : List Nat) (r0 r' : R)
    (h : NoNewOutsideExplicit p E r0 r') : analyseInRun p E r0 r' = analyseFresh p E r' := by
  unfold analyseInRun analyseFresh
  apply List.filter_congr
  intro v hv
  rcases h with h | h
  · subst h; simp
  · by_cases hE : v ∈ E
    · simp [hE]
    · have := h v hv hE
      cases hEe : E.isEmpty <;> simp_all

/-- C12, clause 1, with the report COMPUTED by the model.  A run starts from manifest `m`; a candidate patch is a list of
requirement updates `us`; the strategy's in-memory manifest has the requirements `subst (requirements m) us`, and
`ConstructPatches` attaches the report `reportOf` = (fixed, introduced) computed from the run's two analyses.  If `Write`
succeeds with file `f`, then the FRESH analysis of what is read back from `f` (same options) is exactly the original
vulnerabilities minus that patch's fixed plus its introduced ones.
Hypotheses: the writer is correct (C13: a theorem for package.json — `C12_npm_real_fix_partial` — and for the literal
pom fragment — `C12_pom_real_fix_partial`); resolve + match is a function `raw` of the requirements (determinism of
deps.dev's resolver and of the matcher) that lists every id once; and `NoNewOutsideExplicit`: with an ExplicitVulns list
the statement is FALSE for the unchanged code when the patch brings in a vulnerability outside the list
(`C12_explicit_vulns_witness`, known finding C12/explicit-vulns-introduced). -/
theorem C12_roundtrip_partial {M F R U : Type} (p : Pipe M F R U) (wf : M → List U → Prop) (hw : WriterCorrect p wf)
    (E : List Nat) (m : M) (us : List U) (f : F) (hwf : wf m us) (hwr : p.write m us = some f)
    (hE : NoNewOutsideExplicit p E (p.requirements m) (p.subst (p.requirements m) us))
    (hnd : (p.raw (p.subst (p.requirements m) us)).Nodup) :
    let rep := reportOf p E (p.requirements m) (p.subst (p.requirements m) us)
    ∀ v, v ∈ analyseFresh p E (p.requirements (p.read f)) ↔
      expectedAfter (analyseFresh p E (p.requirements m)) rep.1 rep.2 v = true := by
  intro rep v
  rw [hw m us f hwf hwr]
  simp only [rep, reportOf]
  rw [analyseInRun_eq_fresh p E _ _ hE]
  apply C12_after_is_expected_partial
  unfold analyseFresh
  exact hnd.sublist List.filter_sublist

/-- the patch `ConstructPatches` builds for a candidate, as `choosePatches` sees it (`enc` names package and old version
of an update) -/
def patchOf {M F R U : Type} (p : Pipe M F R U) (E : List Nat) (enc : U → Update) (m : M) (us : List U) : Patch :=
  ⟨us.map enc, (reportOf p E (p.requirements m) (p.subst (p.requirements m) us)).1,
    (reportOf p E (p.requirements m) (p.subst (p.requirements m) us)).2⟩

/-- … and for the patches `choosePatches` actually picks: every chosen patch is the patch of one of the candidates, and
applying that candidate makes the fresh analysis equal the original minus ITS fixed plus ITS introduced. -/
theorem C12_chosen_patch_is_real_partial {M F R U : Type} (p : Pipe M F R U) (wf : M → List U → Prop)
    (hw : WriterCorrect p wf) (E : List Nat) (enc : U → Update) (m : M) (cands : List (List U)) (k : Int) (ni : Bool)
    (pt : Patch) (hc : pt ∈ choosePatches (cands.map (patchOf p E enc m)) k ni)
    (hall : ∀ us ∈ cands, wf m us ∧ NoNewOutsideExplicit p E (p.requirements m) (p.subst (p.requirements m) us) ∧
      (p.raw (p.subst (p.requirements m) us)).Nodup) :
    ∃ us ∈ cands, pt = patchOf p E enc m us ∧
      ∀ f, p.write m us = some f → ∀ v, v ∈ analyseFresh p E (p.requirements (p.read f)) ↔
        expectedAfter (analyseFresh p E (p.requirements m)) pt.fixed pt.introduced v = true := by
  have hin := (chooseAux_sublist (cands.map (patchOf p E enc m)) [] [] k ni).subset hc
  rw [List.mem_map] at hin
  obtain ⟨us, hus, rfl⟩ := hin
  refine ⟨us, hus, rfl, ?_⟩
  intro f hf
  obtain ⟨h1, h2, h3⟩ := hall us hus
  exact C12_roundtrip_partial p wf hw E m us f h1 hf h2 h3

/-- When no patch is reported, the manifest read back has the requirements it had (given the writer's identity on
no update, i.e. `subst r [] = r`). -/
theorem C12_no_patch_no_change_partial {M F R U : Type} (p : Pipe M F R U) (wf : M → List U → Prop) (hw : WriterCorrect p wf)
    (hid : ∀ r, p.subst r [] = r) (m : M) (f : F) (hwf : wf m []) (hwr : p.write m [] = some f) :
    p.requirements (p.read f) = p.requirements m := by
  rw [hw m [] f hwf hwr, hid]

/-- Known finding C12/explicit-vulns-introduced on the model: ExplicitVulns = [1]; the original graph holds
vulnerability 1 only, the patched graph holds 3 only.  The run reports fixed = [1], introduced = [3] (3 was not in
the original graph, so it is not on the ignore list); a fresh analysis of the same requirements ignores 3. -/
theorem C12_explicit_vulns_witness :
    let p : Pipe Nat Nat Nat Nat := ⟨id, id, fun _ _ => some 1, fun _ _ => 1, fun r => if r = 0 then [1] else [3]⟩
    reportOf p [1] 0 1 = ([1], [3]) ∧ analyseFresh p [1] 1 = [] ∧
    ¬ (∀ v, v ∈ analyseFresh p [1] 1 ↔ expectedAfter (analyseFresh p [1] 0) (reportOf p [1] 0 1).1 (reportOf p [1] 0 1).2 v = true) := by
  refine ⟨by decide, by decide, ?_⟩
  intro h
  have := (h 3).mpr (by decide)
  exact absurd this (by decide)

/-! Non-vacuity: a pipe satisfying `WriterCorrect` on requirement lists, and concrete patch lists exercising every
branch of `choosePatches`. -/
def listPipe (raw : List (Key × Nat) → List Nat) : Pipe (List (Key × Nat)) (List (Key × Nat)) (List (Key × Nat)) ReqUpdate :=
  ⟨id, id, fun m us => some (applyUpdates m us), applyUpdates, raw⟩
example (raw : List (Key × Nat) → List Nat) : WriterCorrect (listPipe raw) (fun _ _ => True) := by
  intro m us f _ h
  simp only [listPipe, Option.some.injEq] at h
  subst h; rfl

def exPatches : List Patch :=
  [⟨[⟨1, 10, 11⟩], [100], []⟩, ⟨[⟨1, 10, 12⟩], [100, 101], []⟩, ⟨[⟨2, 20, 21⟩], [100], []⟩, ⟨[⟨3, 30, 31⟩], [102], [200]⟩, ⟨[⟨4, 40, 41⟩], [103], []⟩]
example : (choosePatches exPatches 0 false).map (·.fixed) = [[100], [102], [103]] := by decide
example : (choosePatches exPatches 0 true).map (·.fixed) = [[100], [103]] := by decide
example : (choosePatches exPatches 1 false).map (·.fixed) = [[100]] := by decide
example : computeVulnsResult [100, 104] exPatches = [(100, false), (104, true)] := by decide
example : vulnDiff [1, 2, 3] [3, 4] = ([1, 2], [4]) := by decide
example : reqDiff [((1, 0), 10), ((2, 0), 20)] [((1, 0), 10), ((2, 0), 21), ((3, 0), 30)] = [⟨(2, 0), some 20, 21⟩, ⟨(3, 0), none, 30⟩] := by decide
/-- the `Nodup` hypothesis of `C12_patch_is_diff_partial` is not decoration: a vulnerability listed twice by the
new analysis is reported as introduced although it was there before -/
theorem C12_duplicate_witness : vulnDiff [7] [7, 7] = ([], [7]) := by decide

end Scalibr.Pipeline

namespace Scalibr.Npm
open Scalibr.Pipeline

/-- the pipeline for package.json: the file IS the document model of C13, `Write` fails where `packagejson.Write`
returns an error, `Read` is the model of `parse` -/
def npmPipe (raw : List Req → List Nat) : Pipe Doc Doc (List Req) Up :=
  ⟨requirements, id, fun d us => match write d us with | .ok d' => some d' | .err => none, substitute, raw⟩

/-- `WriterCorrect` for package.json is C13's theorem: documents with unique keys per section, well-formed updates -/
theorem C12_npm_writer_correct (raw : List Req → List Nat) :
    WriterCorrect (npmPipe raw) (fun d us => WFdoc d ∧ ∀ u ∈ us, WFup u = true) := by
  intro d us f hwf h
  simp only [npmPipe] at h ⊢
  cases hw : write d us with
  | err => simp [hw] at h
  | ok d' =>
    simp only [hw, Option.some.injEq] at h
    subst h
    exact (C13_npm_roundtrip_partial d d' us hwf.1 hwf.2 hw).1

/-- hence, for package.json: a reported fix is a real fix.  No hypothesis about the writer is left. -/
theorem C12_npm_real_fix_partial (raw : List Req → List Nat) (E : List Nat) (d d' : Doc) (us : List Up)
    (hwf : WFdoc d) (hu : ∀ u ∈ us, WFup u = true) (hw : write d us = .ok d')
    (hE : NoNewOutsideExplicit (npmPipe raw) E (requirements d) (substitute (requirements d) us))
    (hnd : (raw (substitute (requirements d) us)).Nodup) :
    let rep := reportOf (npmPipe raw) E (requirements d) (substitute (requirements d) us)
    ∀ v, v ∈ analyseFresh (npmPipe raw) E (requirements d') ↔
      expectedAfter (analyseFresh (npmPipe raw) E (requirements d)) rep.1 rep.2 v = true := by
  have := C12_roundtrip_partial (npmPipe raw) _ (C12_npm_writer_correct raw) E d us d' ⟨hwf, hu⟩ (by simp [npmPipe, hw]) hE hnd
  simpa [npmPipe] using this

end Scalibr.Npm

namespace Scalibr.Pom
open Scalibr.Pipeline

/-- the pipeline for pom.xml over the abstract pom of C13 -/
def pomPipe (raw : List Req → List Nat) : Pipe Pom Pom (List Req) Upd :=
  ⟨requirements, id, write, substitute, raw⟩

/-- `WriterCorrect` for pom.xml holds on the literal fragment (C13_pom_literal_roundtrip_partial); outside it the
unchanged writer is known to be wrong in the classes C13/pom-origin-ignored, pom-shared-property and
pom-property-other-profile -/
theorem C12_pom_writer_correct_partial (raw : List Req → List Nat) : WriterCorrect (pomPipe raw) LiteralCases := by
  intro pom us f hwf h
  exact (roundtrip_literal pom f us hwf h).1

theorem C12_pom_real_fix_partial (raw : List Req → List Nat) (E : List Nat) (pom pom' : Pom) (us : List Upd)
    (c : LiteralCases pom us) (hw : write pom us = some pom')
    (hE : NoNewOutsideExplicit (pomPipe raw) E (requirements pom) (substitute (requirements pom) us))
    (hnd : (raw (substitute (requirements pom) us)).Nodup) :
    let rep := reportOf (pomPipe raw) E (requirements pom) (substitute (requirements pom) us)
    ∀ v, v ∈ analyseFresh (pomPipe raw) E (requirements pom') ↔
      expectedAfter (analyseFresh (pomPipe raw) E (requirements pom)) rep.1 rep.2 v = true :=
  C12_roundtrip_partial (pomPipe raw) _ (C12_pom_writer_correct_partial raw) E pom us pom' c hw hE hnd

end Scalibr.Pom
