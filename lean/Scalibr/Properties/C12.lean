/-
C12 — A reported fix is a real fix: re-analysis matches the report.
Reduction theorems over the pipeline model; `WriterCorrect` is C13's round-trip theorem as a hypothesis
(instantiated for package.json at the end).  Helper lemmas live in `Scalibr.Proofs.Pipeline`.
-/
import Scalibr.Proofs.Pipeline
import Scalibr.Properties.C13

namespace Scalibr.Pipeline

/-- `choosePatches` returns a sublist of the computed patches, at most `maxUpgrades` of them when that
is positive (so at most one for `MaxUpgrades = 1`), pairwise compatible (no package changed twice
from the same version, no vulnerability fixed twice), and none introducing a vulnerability when
`NoIntroduce` is set. -/
theorem C12_choose_sublist (all : List Patch) (k : Int) (ni : Bool) :
    (choosePatches all k ni).Sublist all ∧
    (0 < k → ((choosePatches all k ni).length : Int) ≤ k) ∧
    (k = 1 → (choosePatches all k ni).length ≤ 1) ∧
    (choosePatches all k ni).Pairwise compatible ∧
    (ni = true → ∀ p ∈ choosePatches all k ni, p.introduced = []) := by
  refine ⟨chooseAux_sublist _ _ _ _ _, chooseAux_length _ _ _ _ _, ?_, chooseAux_pairwise _ _ _ _ _, ?_⟩
  · intro hk
    have := chooseAux_length all [] [] k ni (by omega)
    unfold choosePatches; omega
  · intro hni p hp
    exact (chooseAux_avoids all [] [] k ni p hp).2.2 hni

/-- No vulnerability fixed by an applied patch is marked unactionable. -/
theorem C12_unactionable (vulns : List Nat) (all : List Patch) (k : Int) (ni : Bool) (p : Patch)
    (hp : p ∈ choosePatches all k ni) (v : Nat) (hv : v ∈ p.fixed) :
    ∀ e ∈ computeVulnsResult vulns all, e.1 = v → e.2 = false := by
  have hin : p ∈ all := (chooseAux_sublist all [] [] k ni).subset hp
  intro e he hev
  unfold computeVulnsResult at he
  simp only [List.mem_map] at he
  obtain ⟨w, _, rfl⟩ := he
  simp only at hev ⊢
  subst hev
  have : w ∈ all.flatMap (·.fixed) := List.mem_flatMap.mpr ⟨p, hin, hv⟩
  simp [this]

/-- `ConstructPatches` reports exactly the set differences: fixed = old ∖ new, introduced = new ∖ old
(the new analysis lists every vulnerability once). -/
theorem C12_patch_is_diff (old new : List Nat) (hn : new.Nodup) (v : Nat) :
    (v ∈ (vulnDiff old new).1 ↔ v ∈ old ∧ v ∉ new) ∧ (v ∈ (vulnDiff old new).2 ↔ v ∈ new ∧ v ∉ old) := by
  obtain ⟨h1, h2⟩ := vulnDiffAux_spec new old.eraseDups [] hn v
  unfold vulnDiff
  rw [h1, h2]
  simp [mem_eraseDups]

/-- hence: the new analysis is the original minus the fixed plus the introduced -/
theorem C12_after_is_expected (old new : List Nat) (hn : new.Nodup) (v : Nat) :
    v ∈ new ↔ expectedAfter old (vulnDiff old new).1 (vulnDiff old new).2 v = true := by
  obtain ⟨h1, h2⟩ := C12_patch_is_diff old new hn v
  unfold expectedAfter
  simp only [Bool.or_eq_true, Bool.and_eq_true, List.contains_iff_mem, Bool.not_eq_true', decide_eq_false_iff_not,
    List.contains_eq_mem, decide_eq_true_eq]
  rw [h1, h2]
  by_cases a : v ∈ old <;> by_cases b : v ∈ new <;> simp [a, b]

/-- `ConstructPatches`' update list is the requirement diff keyed by manifest ENTRY (package name together
with the npm alias / Maven type): every entry whose version changed has its own update, carrying its
own key, and every reported update comes from an entry of the new manifest with that key whose old
version (under the same key) differs.  Two entries for one package — its own name and an `npm:` alias,
at the same old and new range — therefore yield two updates (`C12_alias_pair_witness`). -/
theorem C12_update_per_entry (old new : List (Key × Nat)) (hn : (old.map (·.1)).Nodup) :
    (∀ k v v', (k, v) ∈ old → (k, v') ∈ new → v' ≠ v → (⟨k, some v, v'⟩ : ReqUpdate) ∈ reqDiff old new) ∧
    (∀ u ∈ reqDiff old new, (u.key, u.to) ∈ new ∧ u.frm = lookupReq old u.key ∧ u.frm ≠ some u.to) :=
  ⟨fun k v v' h1 h2 hne => reqDiff_has_update old new hn k v v' h1 h2 hne, fun u hu => reqDiff_sound old new u hu⟩

/-- "lib" (alias 0) and "lib-legacy" → npm:lib (alias 7), both ^1 (10) relaxed to ^2 (11): two updates that
differ only in the key's alias component; a writer given both rewrites both entries -/
theorem C12_alias_pair_witness :
    reqDiff [((1, 0), 10), ((1, 7), 10)] [((1, 0), 11), ((1, 7), 11)] = [⟨(1, 0), some 10, 11⟩, ⟨(1, 7), some 10, 11⟩] ∧
    applyUpdates [((1, 0), 10), ((1, 7), 10)] [⟨(1, 0), some 10, 11⟩, ⟨(1, 7), some 10, 11⟩] = [((1, 0), 11), ((1, 7), 11)] ∧
    applyUpdates [((1, 0), 10), ((1, 7), 10)] [⟨(1, 0), some 10, 11⟩] ≠ [((1, 0), 11), ((1, 7), 11)] := by
  decide

/-- The requirement updates a patch reports, substituted into the old requirements, give the patched
requirements (same keys in the same order, no duplicates: an update, not an addition). -/
theorem C12_updates_substitute (old new : List (Key × Nat)) (hk : old.map (·.1) = new.map (·.1))
    (hn : (old.map (·.1)).Nodup) : applyUpdates old (reqDiff old new) = new :=
  applyUpdates_reqDiff old new hk hn

/-- Reduction to C13.  If the writer is correct (re-read = substitute) and the strategy's in-memory
manifest differs from the original by the same key-preserving updates it reports, then the fresh
analysis of the file written to disk equals the analysis the report was computed from — and therefore
consists of the original vulnerabilities minus the fixed plus the introduced ones. -/
theorem C12_roundtrip {M : Type} (p : Pipe M) (hw : WriterCorrect p) (m : M) (m' : M)
    (hk : (p.requirements m).map (·.1) = (p.requirements m').map (·.1))
    (hn : ((p.requirements m).map (·.1)).Nodup) (hnd : (p.vulns (p.requirements m')).Nodup) :
    let us := reqDiff (p.requirements m) (p.requirements m')
    let rep := vulnDiff (p.vulns (p.requirements m)) (p.vulns (p.requirements m'))
    p.requirements (p.write m us) = p.requirements m' ∧
    ∀ v, v ∈ p.vulns (p.requirements (p.write m us)) ↔
      expectedAfter (p.vulns (p.requirements m)) rep.1 rep.2 v = true := by
  intro us rep
  have h1 : p.requirements (p.write m us) = p.requirements m' := by
    rw [hw m us]; exact C12_updates_substitute _ _ hk hn
  refine ⟨h1, ?_⟩
  intro v
  rw [h1]
  exact C12_after_is_expected _ _ hnd v

/-- When no patch is reported, the written manifest has the requirements it had. -/
theorem C12_no_patch_no_change {M : Type} (p : Pipe M) (hw : WriterCorrect p) (m : M) :
    p.requirements (p.write m []) = p.requirements m := by
  rw [hw m []]
  unfold applyUpdates
  have : (p.requirements m).map (fun x => match ([] : List ReqUpdate).find? (fun u => u.key = x.1 ∧ u.frm = some x.2) with
      | some u => (x.1, u.to) | none => (x.1, x.2)) = (p.requirements m).map id := by
    apply List.map_congr_left; intro x _; simp
  refine Eq.trans ?_ (this.trans (by simp))
  apply List.map_congr_left
  intro x _
  obtain ⟨k, v⟩ := x
  rfl

/-! Non-vacuity: a pipe satisfying `WriterCorrect` (manifest = its requirement list), and concrete
patch lists exercising every branch of `choosePatches`. -/
def listPipe (vulns : List (Key × Nat) → List Nat) : Pipe (List (Key × Nat)) :=
  ⟨id, vulns, fun m us => applyUpdates m us, fun m us => applyUpdates m us⟩
example (vulns : List (Key × Nat) → List Nat) : WriterCorrect (listPipe vulns) := fun _ _ => rfl

def exPatches : List Patch :=
  [⟨[⟨1, 10, 11⟩], [100], []⟩, ⟨[⟨1, 10, 12⟩], [100, 101], []⟩, ⟨[⟨2, 20, 21⟩], [100], []⟩, ⟨[⟨3, 30, 31⟩], [102], [200]⟩, ⟨[⟨4, 40, 41⟩], [103], []⟩]
example : (choosePatches exPatches 0 false).map (·.fixed) = [[100], [102], [103]] := by decide
example : (choosePatches exPatches 0 true).map (·.fixed) = [[100], [103]] := by decide
example : (choosePatches exPatches 1 false).map (·.fixed) = [[100]] := by decide
example : computeVulnsResult [100, 104] exPatches = [(100, false), (104, true)] := by decide
example : vulnDiff [1, 2, 3] [3, 4] = ([1, 2], [4]) := by decide
example : reqDiff [((1, 0), 10), ((2, 0), 20)] [((1, 0), 10), ((2, 0), 21), ((3, 0), 30)] = [⟨(2, 0), some 20, 21⟩, ⟨(3, 0), none, 30⟩] := by decide
/-- the `Nodup` hypothesis of `C12_patch_is_diff` is not decoration: a vulnerability listed twice by the
new analysis is reported as introduced although it was there before -/
theorem C12_duplicate_witness : vulnDiff [7] [7, 7] = ([], [7]) := by decide

end Scalibr.Pipeline

namespace Scalibr.Npm

/-- C13's theorem in the shape `WriterCorrect` asks for, for package.json: whenever `Write` succeeds
on a well-formed document with well-formed updates, re-reading gives the substituted requirements. -/
theorem C12_writer_correct_npm (d d' : Doc) (us : List Up) (hwf : WFdoc d) (hu : ∀ u ∈ us, WFup u = true)
    (h : write d us = .ok d') : requirements d' = substitute (requirements d) us :=
  (C13_npm_roundtrip d d' us hwf hu h).1

end Scalibr.Npm
