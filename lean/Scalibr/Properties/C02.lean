/-
C02 — No file content can crash or hang a built-in extractor: the part Lean carries for the MODELLED parsers.

Coverage, stated up front: 7 of the 58 built-in extractors have a model here — five byte-level parsers (apk,
gradle.lockfile, Gemfile.lock, dpkg status, requirements.txt) and two record loops that start at the decoded document
(package-lock.json, Pipfile.lock; the "document is `null`" crash class of fix 0ef40a9a is not expressible there).
The other 51 are only searched by the fuzz loop of checks/c02.py.

What "never panics" means here. Go run-time panics the modelled code can raise are indexing and slicing out of range.
The models are "Go-shaped": every `x[i]` / `x[lo:hi]` of the Go source is `goIndex` / `goSliceI` / `goSlice`, whose `none`
is propagated to `Outcome.panic`. A `_total` theorem therefore says: on EVERY input, every index and slice the code
performs is in range (proved through the `…Go_eq` lemmas of Proofs/Parsers/GoShape.lean, which show the Go-shaped function
equals an index-free reformulation). The sites:
  gradle        parts[0], parts[1], parts[2] behind `len(parts) < 3`; `strings.SplitN(version, "=", 2)[0]`
  Gemfile.lock  m[1], m[2] behind `len(m) < 3`
  dpkg          parts[2] behind `len(parts) != 3`; `source[:idx]`, `source[idx+2 : len(source)-1]` behind " (" found and ")" suffix
  requirements  `l[:len(l)-1]` behind HasSuffix "\\"; `SplitN(s, ";", 2)[0]`; t[0], t[1] behind `len(t) != 2`
  package-lock  `Version[4:i]`, `Version[i+1:]`, `Version[4:]` (the pre-7578723d crash); Pipfile: `Version[2:]`
  apk           NONE: `parseSingleApkRecord` / `extractFromInput` index nothing, slice nothing, write to no nil map and
                dereference no pointer that can be nil. `C02_apk_total` is therefore true by construction of the model
                (it is kept for completeness and NOT listed as a proof obligation; the apk tie is the stream).
Nil dereferences, nil-map writes, stack exhaustion and panics inside library calls (regexp, textproto, bufio) are not
modelled anywhere: for those the check only searches.

"Bounded time": the three record loops that carry an iteration bound (apk, dpkg, requirements) are proved FUEL-ADEQUATE on
arbitrary input — the bound (`lines + 2`) never ends the loop, every iteration consumes a line or stops — so the models
terminate in a number of iterations linear in the number of lines; all other model functions are structural recursion.
That is a theorem about the models; for the Go code it is tied only by the streams (a Go-side hang shows as `pk=hang`
against a terminating model). Memory is not modelled.
Engine-level confinement lives in Properties/C02Engine.lean.
-/
import Scalibr.Proofs.Parsers.GoShape
import Scalibr.Proofs.Parsers.Fuel
import Scalibr.Proofs.Lockfiles
namespace Scalibr.Parsers

/-- VACUOUS BY CONSTRUCTION (see header): the apk parser has no indexing / slicing site, so the model has no panic
outcome to reach. Not listed in THEOREMS. -/
theorem C02_apk_total (bytes : List Char) : Apk.parse bytes ≠ .panic := by
  unfold Apk.parse; split; split <;> simp

/-- gradle.lockfile: `parts[0..2]` and `SplitN(version, "=", 2)[0]` are in range on every input. -/
theorem C02_gradle_total (bytes : List Char) : Gradle.parse bytes ≠ .panic := by
  rw [Gradle.parse_eq]; split <;> simp

/-- Gemfile.lock: `m[1]`, `m[2]` are in range on every input. -/
theorem C02_gemfile_total (bytes : List Char) : Gemfile.parse bytes ≠ .panic := by
  rw [Gemfile.parse_eq]; split
  · simp
  · split <;> simp

/-- dpkg status: `parts[2]` and both slices of `parseSourceNameVersion` are in range on every input. -/
theorem C02_dpkg_total (bytes : List Char) : Dpkg.parse bytes ≠ .panic := by
  rw [Dpkg.parse_eq]; split <;> simp

/-- requirements.txt: `l[:len(l)-1]`, `SplitN(…)[0]`, `t[0]`, `t[1]` are in range on every input. -/
theorem C02_requirements_total (bytes : List Char) : Requirements.parse bytes ≠ .panic := by
  rw [Requirements.parse_eq]; split <;> simp

/-- the sites are real: the same primitives DO fail when a guard is missing (an index behind no length check) -/
theorem C02_index_can_fail : goIndex (splitN ':' 3 "a:b".toList) 2 = none ∧ goSliceI "x".toList 0 (-1) = none ∧
    goSliceI [] 0 (([] : List Char).length - 1) = none := by decide

/-- the scanner hands the record loops at most `bytes + 1` lines (so `lines + 2` is a bound computable from the input
size). This lemma is ONLY that count; termination of the loops within the bound is the three `_fuel_adequate` theorems. -/
theorem C02_scan_lines_bounded (bytes : List Char) : (scan bytes).1.length ≤ bytes.length + 1 := by
  unfold scan
  simp only [List.length_map]
  have hch : ∀ (s cur : List Char), (chunks s cur).length ≤ s.length + 1 := by
    intro s
    induction s with
    | nil => intro cur; simp [chunks]; split <;> simp
    | cons c s ih =>
      intro cur
      simp only [chunks]
      split
      · have := ih []; simp only [List.length_cons]; omega
      · have := ih (c :: cur); simp only [List.length_cons]; omega
  have htw : ∀ (p : List Char → Bool) (l : List (List Char)), (l.takeWhile p).length ≤ l.length := by
    intro p l
    induction l with
    | nil => simp
    | cons x xs ih => rw [List.takeWhile_cons]; split <;> simp <;> omega
  exact Nat.le_trans (htw _ _) (hch bytes [])

/-- apk: the iteration bound `lines + 2` never ends the record loop, on ANY lines (every iteration consumes a line or
stops): the result is the same for every larger bound. -/
theorem C02_apk_fuel_adequate (tl : Bool) (ls : List Line) (acc : List (List Char × List Char)) (f : Nat) (h : ls.length + 2 ≤ f) :
    Apk.extract tl f ls acc = Apk.extract tl (ls.length + 2) ls acc :=
  Apk.extract_fuel tl ls.length ls acc f (ls.length + 2) (Nat.le_refl _) (by omega) (by omega)

/-- dpkg: the same for the stanza loop (each `ReadMIMEHeader` consumes a line or hits EOF) -/
theorem C02_dpkg_fuel_adequate (ls : List Line) (acc : List (List Char × List Char)) (f : Nat) (h : ls.length + 2 ≤ f) :
    Dpkg.loop f ls acc = Dpkg.loop (ls.length + 2) ls acc :=
  Dpkg.loop_fuel ls.length ls acc f (ls.length + 2) (Nat.le_refl _) (by omega) (by omega)

/-- requirements.txt: the same for the `for s.Scan()` loop with its continuation-line reader -/
theorem C02_requirements_fuel_adequate (ls : List Line) (acc : List (List Char × List Char)) (f : Nat) (h : ls.length + 1 ≤ f) :
    Requirements.loop f ls acc = Requirements.loop (ls.length + 1) ls acc :=
  Requirements.loop_fuel ls.length ls acc f (ls.length + 1) (Nat.le_refl _) (by omega) (by omega)

end Scalibr.Parsers

namespace Scalibr.Lockfiles
/-- the record loop of package-lock.json never panics, for ANY decoded document (alias without `@version`,
alias `npm:@scope/x`, `npm:` alone, …): `Version[4:i]`, `Version[i+1:]`, `Version[4:]` are in range. -/
theorem C02_packagelock_total (d : PackageLock.Doc) : PackageLock.extract d ≠ .panic := by
  unfold PackageLock.extract
  cases d.packages with
  | some ps => simp
  | none =>
    obtain ⟨m, hm, _⟩ := PackageLock.parseDeps_spec d.dependencies [] (by simp [keys])
    simp [hm]

/-- the record loop of Pipfile.lock never panics (`Version[2:]` is guarded) -/
theorem C02_pipfile_total (d : Pipfile.Doc) : Pipfile.extract d ≠ .panic := by
  unfold Pipfile.extract
  rw [Pipfile.addPkgs_eq]; simp only []
  rw [Pipfile.addPkgs_eq]; simp

/-- the pre-fix code of 7578723d on the model: WITHOUT the `i > 4` guard the slice `Version[4:i]` fails for `"npm:foo"`
(`LastIndex = none`, i.e. -1) — the crash the fix removed; with the guard (`aliasSplit`) it is an alias without version. -/
theorem C02_packagelock_prefix_panics : Scalibr.Parsers.goSliceI "npm:foo".toList 4 (-1) = none ∧
    PackageLock.depEntry "x".toList "npm:foo".toList [] = some ("foo@npm:foo".toList, ⟨"foo".toList, [], []⟩) := by decide
example : PackageLock.depEntry "x".toList "npm:".toList [] = some ("@npm:".toList, ⟨[], [], []⟩) := by decide
end Scalibr.Lockfiles
