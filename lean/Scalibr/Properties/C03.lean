/-
C03 — Well-formed package databases are reported completely and exactly.
Property theorems only; models in `Scalibr.Model.Parsers.*`, specifications (renderers, `WF`, `installed`)
in `Scalibr.Spec.Parsers.*`, helper lemmas in `Scalibr.Proofs.Parsers.*`.

(a) line formats: `parse (render ℓ rs) = .ok (installed rs)` for ALL record lists `rs` (so for every order of a
package set — `rs` is an arbitrary list and the result keeps its order) and ALL layouts `ℓ`: per-line LF/CRLF,
final newline or not, any number of blank lines where the format allows them, comments, unrelated fields.
-/
import Scalibr.Proofs.Parsers.Apk
import Scalibr.Proofs.Parsers.Gradle
import Scalibr.Proofs.Lockfiles
import Scalibr.Proofs.Parsers.Gemfile
import Scalibr.Proofs.Parsers.Dpkg
import Scalibr.Proofs.Parsers.Requirements
import Scalibr.Proofs.Parsers.GoShape
import Scalibr.Proofs.Parsers.RequirementsTree
namespace Scalibr.Parsers

/-! ### apk `installed` -/

/-- Every well-formed apk database, in every layout, is read back exactly: the (name, version) pairs of all
records, in file order, nothing dropped, duplicated, merged or invented. Unbounded in the number of records,
fields, blank lines and in line lengths up to the scanner's limit. -/
theorem C03_apk (ℓ : Apk.Layout) (rs : List Apk.GRec) (hwf : Apk.WF rs) (hl : Apk.LayoutOK ℓ rs) :
    Apk.parse (Apk.render ℓ rs) = .ok (Apk.installed rs) := by
  unfold Apk.parse Apk.render
  rw [scan_unlines _ _ _ (Apk.fileLines_clean ℓ rs hwf) (Apk.fileLines_endsOK ℓ rs hl)]
  have hlen : rs.length + 2 ≤ (Apk.fileLines ℓ rs).length + 2 := by
    have := Apk.bodyLines_length ℓ.gap rs 0
    simp only [Apk.fileLines, List.length_append, List.length_replicate]; omega
  have := Apk.extract_body ℓ.gap ℓ.tail rs hwf ℓ.lead 0 _ [] hlen
  simp only [Apk.fileLines] at this ⊢
  rw [this]; simp

/-- non-vacuity: three records, unrelated fields in every position, `V:` before `P:` in one, two leading blank
lines, gaps of 1 and 3 blank lines, CRLF on some lines, no final newline -/
def Apk.exRecs : List Apk.GRec :=
  [ { name := "musl".toList, ver := "1.2.4-r2".toList, pre := [("C".toList, "Q1abc=".toList)], post := [("A".toList, "x86_64".toList)] },
    { name := "busybox".toList, ver := "1.36.1-r5".toList, mid := [("o".toList, "busybox".toList), ("m".toList, "a <b@c>".toList)], vFirst := true },
    { name := "zlib".toList, ver := "1.3-r0".toList, post := [("".toList, "odd:value".toList)] } ]
def Apk.exLayout : Apk.Layout := { lead := 2, gap := fun i => 2 * i, tail := 0, eols := ⟨[true, false, true], false⟩ }
example : Apk.WF Apk.exRecs ∧ Apk.LayoutOK Apk.exLayout Apk.exRecs := by decide
example : Apk.parse (Apk.render Apk.exLayout Apk.exRecs)
    = .ok [("musl".toList, "1.2.4-r2".toList), ("busybox".toList, "1.36.1-r5".toList), ("zlib".toList, "1.3-r0".toList)] :=
  C03_apk _ _ (by decide) (by decide)

/-! ### gradle.lockfile -/

/-- Every well-formed `gradle.lockfile`, in every layout (comments, the `empty=` line, blank or white-space-only
lines anywhere, white space around each dependency line, LF/CRLF per line, final newline or not), is read back
exactly: `group:artifact` and version of every dependency line, in order. -/
theorem C03_gradle (ℓ : Gradle.Layout) (rs : List Gradle.GRec) (hwf : Gradle.WF rs)
    (hlw : Gradle.LayoutWF ℓ rs.length) (hl : Gradle.LayoutOK ℓ rs) :
    Gradle.parse (Gradle.render ℓ rs) = .ok (Gradle.installed rs) := by
  have hb : ∀ j, 0 ≤ j → j < 0 + rs.length → ∀ f ∈ ℓ.before j, Gradle.WFfiller f :=
    fun j _ h2 => hlw.1 j (by omega)
  have hclean : ∀ l ∈ Gradle.fileLines ℓ rs, cleanLine l := by
    intro l hm
    simp only [Gradle.fileLines, List.mem_append, List.mem_map] at hm
    rcases hm with hm | ⟨f, hf, rfl⟩
    · exact Gradle.bodyLines_clean ℓ.before rs 0 hwf hb l hm
    · exact Gradle.fillerLine_clean f (hlw.2 f hf)
  rw [Gradle.parse_eq]
  unfold Gradle.render
  rw [scan_unlines _ _ _ hclean hl]
  simp only [Gradle.fileLines, List.filterMap_append, Gradle.filterMap_body ℓ.before rs 0 hwf hb,
    Gradle.filterMap_fillers ℓ.after hlw.2]
  simp

/-- non-vacuity: three dependencies, a header comment, the `empty=` line, indented and blank lines, CRLF -/
def Gradle.exRecs : List Gradle.GRec :=
  [ { group := "com.google.guava".toList, artifact := "guava".toList, ver := "31.1-jre".toList, confs := "compileClasspath,runtimeClasspath".toList },
    { group := "org.slf4j".toList, artifact := "slf4j-api".toList, ver := "1.7.36".toList, lead := "  ".toList, trail := " \t".toList },
    { group := "edu.x".toList, artifact := "empty".toList, ver := "2:0".toList, confs := [] } ]
def Gradle.exLayout : Gradle.Layout :=
  { before := fun i => if i = 0 then [.comment [] " This is a Gradle generated file".toList, .comment "  ".toList []] else [.blank " ".toList, .blank []],
    after := [.emptyConf [] "annotationProcessor".toList], eols := ⟨[true, true, false, true], false⟩ }
example : Gradle.WF Gradle.exRecs ∧ Gradle.LayoutWF Gradle.exLayout 3 ∧ Gradle.LayoutOK Gradle.exLayout Gradle.exRecs := by decide
example : Gradle.parse (Gradle.render Gradle.exLayout Gradle.exRecs)
    = .ok [("com.google.guava:guava".toList, "31.1-jre".toList), ("org.slf4j:slf4j-api".toList, "1.7.36".toList), ("edu.x:empty".toList, "2:0".toList)] :=
  C03_gradle _ _ (by decide) (by decide) (by decide)

/-! ### Gemfile.lock -/

/-- Every well-formed `Gemfile.lock`, in every layout (sections in any order, any number of blank lines before
each section and inside it, option / dependency / version lines of any indentation other than 0 and 4, LF/CRLF
per line, final newline or not), is read back exactly: name and version (platform stripped) of every four-space
entry of the source sections GIT, GEM, PATH and PLUGIN SOURCE, in file order — and nothing from other sections. -/
theorem C03_gemfile (ℓ : Gemfile.Layout) (secs : List Gemfile.GSec) (hwf : Gemfile.WF secs) (hl : Gemfile.LayoutOK ℓ secs) :
    Gemfile.parse (Gemfile.render ℓ secs) = .ok (Gemfile.installed secs) := by
  have hclean : ∀ l ∈ Gemfile.fileLines ℓ secs, cleanLine l := Gemfile.bodyLines_clean ℓ.lead secs hwf 0
  rw [Gemfile.parse_eq]
  unfold Gemfile.render
  rw [scan_unlines _ _ _ hclean hl]
  simp only [Gemfile.fileLines, Gemfile.gemSections_body ℓ.lead secs hwf 0 none [], Gemfile.flush, List.nil_append,
    Gemfile.pkgsOf_toSec secs hwf, Bool.false_eq_true, if_false]

/-- non-vacuity: a GIT and a GEM section (three gems, one with a platform, dependency lines below them), the
usual trailing sections, and a non-source section whose four-space entry is NOT an installed gem, in last position -/
def Gemfile.exSecs : List Gemfile.GSec :=
  [ ⟨"GIT".toList, [.aux 2 "remote: https://github.com/a/b.git".toList, .aux 2 "revision: 0123abc".toList, .aux 2 "specs:".toList,
      .spec "mygem".toList "0.1.0".toList none, .aux 6 "racc (~> 1.4)".toList, .blank]⟩,
    ⟨"GEM".toList, [.aux 2 "remote: https://rubygems.org/".toList, .aux 2 "specs:".toList,
      .spec "nokogiri".toList "1.13.3".toList (some "x86_64-linux".toList), .aux 6 "racc (~> 1.4)".toList,
      .spec "racc".toList "1.6.0".toList none]⟩,
    ⟨"DEPENDENCIES".toList, [.aux 2 "mygem!".toList, .aux 2 "nokogiri".toList]⟩,
    ⟨"BUNDLED WITH".toList, [.aux 3 "2.3.7".toList]⟩,
    ⟨"CHECKSUMS".toList, [.spec "notinstalled".toList "9.9".toList none]⟩ ]
def Gemfile.exLayout : Gemfile.Layout := { lead := fun i => if i = 0 then 0 else i, eols := ⟨[false, true, true], false⟩ }
example : Gemfile.WF Gemfile.exSecs ∧ Gemfile.LayoutOK Gemfile.exLayout Gemfile.exSecs := by decide
example : Gemfile.parse (Gemfile.render Gemfile.exLayout Gemfile.exSecs)
    = .ok [("mygem".toList, "0.1.0".toList), ("nokogiri".toList, "1.13.3".toList), ("racc".toList, "1.6.0".toList)] :=
  C03_gemfile _ _ (by decide) (by decide)

/-! ### dpkg `status` -/

/-- Every well-formed dpkg status database, in every layout — stanzas in any order, the fields of a stanza in
ANY order (a permutation), field names in any letter case, any white space after the colon, unrelated fields with
continuation lines (which may themselves look like `Package:` / `Version:` / `Status:` lines), any number of blank
lines between stanzas and at either end, LF/CRLF per line, the last stanza with or without a final newline — is
read back exactly: (name, version) of the stanzas whose status ends in `installed`, in file order; stanzas the
database marks otherwise (config-files, half-installed, not-installed, …) are the only ones left out, wherever
they stand (first, last, alone). -/
theorem C03_dpkg (ℓ : Dpkg.Layout) (rs : List Dpkg.GRec) (hwf : Dpkg.WF rs) (hl : Dpkg.LayoutOK ℓ rs) :
    Dpkg.parse (Dpkg.render ℓ rs) = .ok (Dpkg.installed rs) := by
  have hclean := Dpkg.fileLines_clean ℓ rs hwf
  rw [Dpkg.parse_eq]
  unfold Dpkg.render
  rw [Dpkg.rlines_unlines _ (fun l h => ⟨(hclean l h).1, (hclean l h).2.1⟩) _ _ (Dpkg.fileLines_endsOK ℓ rs hwf hl)]
  have := Dpkg.loop_body ℓ.gap ℓ.tail rs hwf ℓ.lead 0 ((Dpkg.fileLines ℓ rs).length + 2) [] (by simp [Dpkg.fileLines])
  simp only [Dpkg.fileLines] at this ⊢
  rw [this]; simp

/-- non-vacuity: three stanzas — fields in dpkg's own order with a multi-line Description whose continuation
lines look like fields; a stanza with lower-case keys, `Version` first and a Source field; and, in LAST position and
without a final newline, a package that is NOT installed (`deinstall ok config-files`) and, as usual for such records,
has no `Version` field at all -/
def Dpkg.exRecs : List Dpkg.GRec :=
  [ { name := "libc6".toList, ver := "2.36-9+deb12u4".toList,
      extras := [⟨"Architecture".toList, [' '], "amd64".toList, []⟩,
                 ⟨"Description".toList, [' '], "GNU C Library".toList, [" Package: fake".toList, " .".toList, "\tVersion: 0".toList]⟩],
      fields := [⟨"Package".toList, [' '], "libc6".toList, []⟩, ⟨"Status".toList, [' '], "install ok installed".toList, []⟩,
                 ⟨"Architecture".toList, [' '], "amd64".toList, []⟩, ⟨"Version".toList, [' '], "2.36-9+deb12u4".toList, []⟩,
                 ⟨"Description".toList, [' '], "GNU C Library".toList, [" Package: fake".toList, " .".toList, "\tVersion: 0".toList]⟩] },
    { name := "adduser".toList, ver := "3.134".toList, want := "hold".toList, source := some "adduser-src (3.134)".toList,
      keyP := "package".toList, keyV := "VERSION".toList, sepV := [], sepP := [' ', '\t'],
      fields := [⟨"VERSION".toList, [], "3.134".toList, []⟩, ⟨"Source".toList, [' '], "adduser-src (3.134)".toList, []⟩,
                 ⟨"package".toList, [' ', '\t'], "adduser".toList, []⟩, ⟨"Status".toList, [' '], "hold ok installed".toList, []⟩] },
    { name := "oldpkg".toList, ver := [], want := "deinstall".toList, state := "config-files".toList,
      fields := [⟨"Package".toList, [' '], "oldpkg".toList, []⟩, ⟨"Status".toList, [' '], "deinstall ok config-files".toList, []⟩] } ]
def Dpkg.exLayout : Dpkg.Layout := { lead := 1, gap := fun i => i, tail := 0, eols := ⟨[true, false, true, true], false⟩ }
example : Dpkg.WF Dpkg.exRecs ∧ Dpkg.LayoutOK Dpkg.exLayout Dpkg.exRecs := by decide
example : Dpkg.parse (Dpkg.render Dpkg.exLayout Dpkg.exRecs)
    = .ok [("libc6".toList, "2.36-9+deb12u4".toList), ("adduser".toList, "3.134".toList)] :=
  C03_dpkg _ _ (by decide) (by decide)

/-! ### requirements.txt (core) -/

/-- Every well-formed core `requirements.txt` — one requirement per line: a PEP 508 name (dotted, one-character
and `-C`-containing names included, cf. fixes c0539e29 and 0b3783b7), optional extras, one of `==` `===` `>=` `<=`
`~=` with any white space around it or no operator at all, an optional trailing comment, leading white space —
in every layout (requirements in any order; blank, white-space-only, comment and global-option lines anywhere;
LF/CRLF per line; final newline or not) is read back exactly: every name with the version its operator names
(empty for a bare name), in file order. Environment markers, per-requirement options and backslash continuations
are outside this theorem (differential stream only) — hence `_partial`: `WF` is a proper subset of the requirements grammar
(no `!=` / `<` / `>` / version lists / markers / options / continuations / `name @ url`). -/
theorem C03_requirements_partial (ℓ : Requirements.Layout) (rs : List Requirements.GRec) (hwf : Requirements.WF rs)
    (hlw : Requirements.LayoutWF ℓ rs.length) (hl : Requirements.LayoutOK ℓ rs) :
    Requirements.parse (Requirements.render ℓ rs) = .ok (Requirements.installed rs) := by
  have hb : ∀ j, 0 ≤ j → j < 0 + rs.length → ∀ f ∈ ℓ.before j, Requirements.WFfiller f :=
    fun j _ h2 => hlw.1 j (by omega)
  have hclean : ∀ l ∈ Requirements.fileLines ℓ rs, cleanLine l := by
    intro l hm
    simp only [Requirements.fileLines, List.mem_append, List.mem_map] at hm
    rcases hm with hm | ⟨f, hf, rfl⟩
    · exact Requirements.bodyLines_clean ℓ.before rs 0 hwf hb l hm
    · exact Requirements.fillerLine_clean f (hlw.2 f hf)
  let pairs := Requirements.bodyPairs ℓ.before 0 rs ++ Requirements.fillerPairs ℓ.after
  have hfst : pairs.map (·.1) = Requirements.fileLines ℓ rs := by
    simp [pairs, Requirements.fileLines, Requirements.bodyPairs_fst, Requirements.fillerPairs_fst]
  have hsnd : pairs.filterMap (·.2) = Requirements.installed rs := by
    simp [pairs, Requirements.bodyPairs_snd, Requirements.fillerPairs_snd]
  have hsingle : ∀ x ∈ pairs, Requirements.Single x.1 x.2 := by
    intro x hx
    rcases List.mem_append.mp hx with hx | hx
    · exact Requirements.bodyPairs_single ℓ.before rs 0 hwf hb x hx
    · exact Requirements.fillerPairs_single ℓ.after hlw.2 x hx
  rw [Requirements.parse_eq]
  unfold Requirements.render
  rw [scan_unlines _ _ _ hclean hl]
  have := Requirements.loop_singles pairs hsingle ((Requirements.fileLines ℓ rs).length + 1) [] (by rw [← hfst]; simp)
  rw [hfst] at this
  simp only [this, hsnd]
  simp

/-- non-vacuity: a dotted name with extras and spaces around `==`, a one-character name with `>=` and a trailing
comment, a `-C`-containing name, a bare name; header comment, `-r` line, blank lines; CRLF; no final newline -/
def Requirements.exRecs : List Requirements.GRec :=
  [ { name := "zope.interface".toList, ver := "5.0".toList, extras := some "test, docs".toList, sp1 := [' '], sp2 := [' '] },
    { name := "q".toList, op := .ge, ver := "1!2.0.post1".toList, comment := some (" \t".toList, " via x == 9".toList) },
    { name := "Flask-Cors".toList, op := .eq3, ver := "3.0.10".toList, lead := "  ".toList },
    { name := "requests".toList, op := .bare, ver := [] } ]
def Requirements.exLayout : Requirements.Layout :=
  { before := fun i => if i = 0 then [.comment [] " generated".toList, .option "r base.txt".toList] else [.blank [], .blank "  ".toList],
    after := [.comment "  ".toList "end".toList], eols := ⟨[true, false, true], false⟩ }
example : Requirements.WF Requirements.exRecs ∧ Requirements.LayoutWF Requirements.exLayout 4 ∧
    Requirements.LayoutOK Requirements.exLayout Requirements.exRecs := by decide
example : Requirements.parse (Requirements.render Requirements.exLayout Requirements.exRecs)
    = .ok [("zope.interface".toList, "5.0".toList), ("q".toList, "1!2.0.post1".toList),
           ("Flask-Cors".toList, "3.0.10".toList), ("requests".toList, [])] :=
  C03_requirements_partial _ _ (by decide) (by decide) (by decide)

/-! #### requirements files that include each other (`-r`) -/

namespace Requirements

theorem openFile_filesOf (files : List FileSpec) (p : Line) :
    openFile (filesOf files) p = (fileAt files p).map content := by
  induction files with
  | nil => rfl
  | cons f fs ih =>
    simp only [openFile, filesOf, fileAt, List.map_cons, List.find?_cons] at ih ⊢
    by_cases h : f.path = p
    · simp [h]
    · simp only [h, decide_false]; exact ih

theorem fileAt_some {files : List FileSpec} {p : Line} {f : FileSpec} (h : fileAt files p = some f) : f ∈ files ∧ f.path = p := by
  unfold fileAt at h
  exact ⟨List.mem_of_find?_eq_some h, by simpa using List.find?_some h⟩

theorem visit_none (files : List FileSpec) (p : Line) (h : fileAt files p = none) : visit (filesOf files) p = .err := by
  simp [visit, openFile_filesOf, h]

theorem visit_some (files : List FileSpec) (hwf : ∀ f ∈ files, WFfile f) (p : Line) (f : FileSpec) (h : fileAt files p = some f) :
    visit (filesOf files) p = .ok (installed f.rs, (targets f).map (resolve p)) := by
  have hw := hwf f (fileAt_some h).1
  have hp : parse (content f) = .ok (installed f.rs) := C03_requirements_partial f.ℓ f.rs hw.1 hw.2.1.toWF hw.2.2
  simp [visit, openFile_filesOf, h, hp, includes_render f hw]

theorem flatMap_pins (files : List FileSpec) (hwf : ∀ f ∈ files, WFfile f) (top : Line) :
    ∀ r : List (Line × List (List Char × List Char)),
      (∀ x a, (x, a) ∈ r → ∃ i, visit (filesOf files) x = .ok (a, i)) →
      r.flatMap (fun y => y.2.map (fun x => (x.1, x.2, [top, y.1]))) = (r.map (·.1)).flatMap (pinsAt files top) := by
  intro r
  induction r with
  | nil => intro _; rfl
  | cons y r ih =>
    intro h
    obtain ⟨i, hi⟩ := h y.1 y.2 (by simp)
    have hy : y.2.map (fun x => (x.1, x.2, [top, y.1])) = pinsAt files top y.1 := by
      cases hf : fileAt files y.1 with
      | none => rw [visit_none files y.1 hf] at hi; cases hi
      | some f =>
        rw [visit_some files hwf y.1 f hf] at hi
        simp only [Outcome.ok.injEq, Prod.mk.injEq] at hi
        simp [pinsAt, hf, hi.1]
    simp only [List.flatMap_cons, List.map_cons, hy]
    rw [ih (fun x a hx => h x a (by simp [hx]))]

end Requirements

/-- **C03, requirements.txt with `-r` includes.** For every finite set of well-formed requirements files (`files`, the
file system; core grammar of `C03_requirements_partial` plus `-r <path>` lines, each file with its own layout) and every
well-formed top-level file, `Extract` — the byte-level model `extractAll` over the path → content map — reports the
pins of the top-level file with locations `[top]`, followed, for the files of some list `order`, by the pins of that
file with locations `[top, file]`; `order` has no duplicates and holds exactly the paths other than the top-level one that
are REACHABLE (`Reach`): existing files named by an include line of a reachable file, the operand being resolved
against the directory of the file that contains the line. So every reachable file's pins are reported exactly once —
whatever the depth of the chain, the number of routes to a file, cycles, or same-named files in other directories —
and nothing else is reported. `_partial`: per-file grammar as in `C03_requirements_partial`; include operands are
made of letters, digits, `_`, `.`, `-` and `/`, not starting with '-'; only the `-r` spelling is an include (`--requirement` and `-c` lines are
option lines for the extractor); `resolve` (= `filepath.Join(filepath.Dir(including), operand)`) is the model's path
arithmetic, validated against the Go functions by the stream. -/
theorem C03_requirements_tree_partial (files : List Requirements.FileSpec) (top : Requirements.FileSpec)
    (hwf : ∀ f ∈ top :: files, Requirements.WFfile f) :
    ∃ order : List Line,
      Requirements.extractAll (Requirements.filesOf files) top.path (Requirements.content top)
        = .ok ((Requirements.installed top.rs).map (fun x => (x.1, x.2, [top.path]))
               ++ order.flatMap (Requirements.pinsAt files top.path))
      ∧ order.Nodup ∧ ∀ p, p ∈ order ↔ (p ≠ top.path ∧ Requirements.Reach files top p) := by
  open Requirements in
  have hwfF : ∀ f ∈ files, WFfile f := fun f hf => hwf f (by simp [hf])
  have hwt : WFfile top := hwf top (by simp)
  have hnp : ∀ p, visit (filesOf files) p ≠ .panic := by
    intro p
    cases hf : fileAt files p with
    | none => rw [visit_none files p hf]; intro h; cases h
    | some f => rw [visit_some files hwfF p f hf]; intro h; cases h
  have hvis : ∀ p, Visitable (visit (filesOf files)) p ↔ (fileAt files p).isSome := by
    intro p
    cases hf : fileAt files p with
    | none =>
      simp only [Option.isSome_none, Bool.false_eq_true, iff_false]
      rintro ⟨a, i, h⟩; rw [visit_none files p hf] at h; cases h
    | some f => simp only [Option.isSome_some, iff_true]; exact ⟨_, _, visit_some files hwfF p f hf⟩
  let univ := files.map (·.path)
  have hu : ∀ p, Visitable (visit (filesOf files)) p → p ∈ univ := by
    intro p hp
    have := (hvis p).mp hp
    cases hf : fileAt files p with
    | none => rw [hf] at this; cases this
    | some f =>
      obtain ⟨hm, he⟩ := fileAt_some hf
      exact List.mem_map.mpr ⟨f, hm, he⟩
  have hparse : parse (content top) = .ok (installed top.rs) :=
    C03_requirements_partial top.ℓ top.rs hwt.1 hwt.2.1.toWF hwt.2.2
  have hinc : includes (content top) = targets top := includes_render top hwt
  let q0 := (targets top).map (resolve top.path)
  have hfuel : q0.length + cost (visit (filesOf files)) [top.path] univ < walkFuel (filesOf files) q0 := by
    have h1 := cost_le_total (visit (filesOf files)) [top.path] univ
    have h2 : ((filesOf files).map fun x => 1 + incCount (visit (filesOf files)) x.1).sum
        = (univ.map fun u => 1 + incCount (visit (filesOf files)) u).sum := by
      simp [univ, filesOf, List.map_map, Function.comp_def]
    unfold walkFuel
    rw [h2]; omega
  obtain ⟨r, hr, hc1, hc2⟩ := walk_complete (visit (filesOf files)) hnp univ hu _ q0 [top.path] hfuel
  obtain ⟨hs1, hs2, hs3, hs4⟩ := walk_safe (visit (filesOf files)) _ q0 [top.path] r hr
  have hholder : ∀ p, p ≠ top.path → holder files top p = fileAt files p := by
    intro p hp; simp [holder, hp]
  refine ⟨r.map (·.1), ?_, hs1, ?_⟩
  · unfold extractAll
    rw [hparse]
    simp only [hinc]
    rw [show walk (visit (filesOf files)) (walkFuel (filesOf files) (List.map (resolve top.path) (targets top)))
          (List.map (resolve top.path) (targets top)) [top.path] = .ok r from hr]
    simp only [flatMap_pins files hwfF top.path r hs3]
  · intro p
    constructor
    · intro hp
      refine ⟨fun e => hs2 p hp (by simp [e]), ?_⟩
      refine hs4 (Reach files top) ?_ ?_ p hp
      · intro y hy hv
        by_cases hyt : y = top.path
        · rw [hyt]; exact Reach.top
        · refine Reach.step Reach.top (by simp [holder]) hy ?_
          rw [hholder y hyt]; exact (hvis y).mp hv
      · intro x a i hR hx hvx y hy hv
        have hxt : x ≠ top.path := fun e => hx (by simp [e])
        by_cases hyt : y = top.path
        · rw [hyt]; exact Reach.top
        · cases hf : fileAt files x with
          | none => rw [visit_none files x hf] at hvx; cases hvx
          | some f =>
            rw [visit_some files hwfF x f hf] at hvx
            simp only [Outcome.ok.injEq, Prod.mk.injEq] at hvx
            refine Reach.step hR (by rw [hholder x hxt]; exact hf) (by rw [hvx.2]; exact hy) ?_
            rw [hholder y hyt]; exact (hvis y).mp hv
    · rintro ⟨hpt, hreach⟩
      have key : ∀ q, Reach files top q → q = top.path ∨ q ∈ r.map (·.1) := by
        intro q hq
        induction hq with
        | top => exact Or.inl rfl
        | @step p' q' f hp' hh hq' hsome ih =>
          by_cases hqt : q' = top.path
          · exact Or.inl hqt
          · right
            have hv : Visitable (visit (filesOf files)) q' := by
              rw [hholder q' hqt] at hsome; exact (hvis q').mpr hsome
            rcases ih with e | hm
            · subst e
              have hf : f = top := by simpa [holder] using hh.symm
              subst hf
              rcases hc1 q' hq' hv with h | h
              · simp at h; exact absurd h hqt
              · exact h
            · have hpt' : p' ≠ top.path := fun e => hs2 p' hm (by simp [e])
              rw [hholder p' hpt'] at hh
              rcases hc2 p' hm _ _ (visit_some files hwfF p' f hh) q' hq' hv with h | h
              · simp at h; exact absurd h hqt
              · exact h
      rcases key p hreach with e | h
      · exact absurd e hpt
      · exact h

/-- the same with a CHECKED enumeration of the reachable files (what the driver of the stream evaluates): if `ps` passes
`isReachCert`, the scan reports a permutation of `expectedTree files top ps` — the top-level pins and, once per reachable
file, that file's pins with their two locations -/
theorem C03_requirements_tree_cert_partial (files : List Requirements.FileSpec) (top : Requirements.FileSpec)
    (hwf : ∀ f ∈ top :: files, Requirements.WFfile f) (ps : List Line) (hc : Requirements.isReachCert files top ps = true) :
    ∃ out, Requirements.extractAll (Requirements.filesOf files) top.path (Requirements.content top) = .ok out
      ∧ out.Perm (Requirements.expectedTree files top ps) := by
  obtain ⟨order, hout, hnd, hmem⟩ := C03_requirements_tree_partial files top hwf
  obtain ⟨hnd', hmem'⟩ := Requirements.reachCert_iff files top ps hc
  have hperm : order.Perm ps := (List.perm_ext_iff_of_nodup hnd hnd').mpr (fun p => by rw [hmem p, hmem' p])
  exact ⟨_, hout, List.Perm.append_left _ (List.Perm.flatMap_right _ hperm)⟩

/-- fuel adequacy of the include work list on ARBITRARY file contents (no well-formedness): the Go loop has no
bound; above `walkFuel` the result of the model does not depend on the fuel -/
theorem C03_requirements_walk_fuel_adequate (fs : Requirements.Files) (q : List Line) (top : Line) (k : Nat) :
    Requirements.walk (Requirements.visit fs) (Requirements.walkFuel fs q + k) q [top]
      = Requirements.walk (Requirements.visit fs) (Requirements.walkFuel fs q) q [top] := by
  open Requirements in
  have hu : ∀ p, Visitable (visit fs) p → p ∈ fs.map (·.1) := by
    rintro p ⟨a, i, h⟩
    unfold visit at h
    cases ho : openFile fs p with
    | none => rw [ho] at h; cases h
    | some b =>
      unfold openFile at ho
      cases hf : fs.find? (fun x => x.1 = p) with
      | none => rw [hf] at ho; cases ho
      | some x =>
        have h1 := List.mem_of_find?_eq_some hf
        have h2 : x.1 = p := by simpa using List.find?_some hf
        exact List.mem_map.mpr ⟨x, h1, h2⟩
  have hb : q.length + cost (visit fs) [top] (fs.map (·.1)) < walkFuel fs q := by
    have h1 := cost_le_total (visit fs) [top] (fs.map (·.1))
    have h2 : (fs.map fun x => 1 + incCount (visit fs) x.1).sum = ((fs.map (·.1)).map fun u => 1 + incCount (visit fs) u).sum := by
      simp [List.map_map, Function.comp_def]
    unfold walkFuel
    rw [h2]; omega
  exact walk_fuel (visit fs) (fs.map (·.1)) hu _ _ q [top] (by omega) hb

/-- non-vacuity: `requirements.txt` includes `reqs/base.txt` (and a file that does not exist); `reqs/base.txt` includes
`pinned.txt` — its neighbour `reqs/pinned.txt`, NOT the same-named decoy next to the top-level file — and
`../common/shared.txt`, which includes `../requirements.txt` (a cycle back to the top) and `../reqs/base.txt` (a second route) -/
def Requirements.exTop : Requirements.FileSpec :=
  { path := "requirements.txt".toList, rs := [{ name := "top".toList, ver := "1".toList }],
    ℓ := { before := fun _ => [.incl [' '] "reqs/base.txt".toList, .incl [] "missing.txt".toList, .option "-requirement pinned.txt".toList] } }
def Requirements.exFiles : List Requirements.FileSpec :=
  [ { path := "reqs/base.txt".toList, rs := [{ name := "base".toList, ver := "2".toList }],
      ℓ := { after := [.incl [' '] "pinned.txt".toList, .incl ['\t'] "../common/shared.txt".toList] } },
    { path := "reqs/pinned.txt".toList, rs := [{ name := "leaf".toList, ver := "3.0".toList }], ℓ := {} },
    { path := "pinned.txt".toList, rs := [{ name := "decoy".toList, ver := "0".toList }], ℓ := {} },
    { path := "common/shared.txt".toList, rs := [{ name := "shared".toList, op := .ge, ver := "4".toList }],
      ℓ := { before := fun _ => [.incl [' '] "../requirements.txt".toList, .incl [' '] "../reqs/base.txt".toList] } },
    { path := "requirements.txt".toList, rs := [{ name := "top".toList, ver := "1".toList }], ℓ := {} } ]
example : ∀ f ∈ Requirements.exTop :: Requirements.exFiles, Requirements.WFfile f := by decide
example : Requirements.extractAll (Requirements.filesOf Requirements.exFiles) Requirements.exTop.path (Requirements.content Requirements.exTop)
    = .ok [("top".toList, "1".toList, ["requirements.txt".toList]),
           ("base".toList, "2".toList, ["requirements.txt".toList, "reqs/base.txt".toList]),
           ("leaf".toList, "3.0".toList, ["requirements.txt".toList, "reqs/pinned.txt".toList]),
           ("shared".toList, "4".toList, ["requirements.txt".toList, "common/shared.txt".toList])] := by decide

end Scalibr.Parsers

/-! ## (b) formats decoded by a library: the record loop over the decoded document equals a comprehension

LEVEL of these theorems: they start at the DECODED document (the Go struct the extractor ranges over). None of them covers a
layout clause of the property (record order in the file, CRLF, trailing newline, blank lines, comments, unrelated fields):
the decoder (encoding/json, BurntSushi/toml, x/mod/modfile) is trusted and not a Lean parameter; those clauses are checked
for these seven formats only by the generator/oracle stream. What IS proved is the part of "none dropped, duplicated, merged
or invented" that the extractor's own loop is responsible for: de-duplication keys, last/first-write-wins, flattening,
alias / file: / git handling, replace directives. What an entry denotes (`depEntry`, `pkgEntry`, `GoMod.step`) is taken from
the model — i.e. these are refinement statements "loop = fold of per-entry function", not an independent grammar of aliases
or of go.mod replace semantics (the go command's rule is stated separately, `GoMod.goFinal` / `expectedGo`, and is what the oracle uses;
since fix 22707b48 the extractor's loop — wildcard directives matched against the module as required, then the version-specific ones — follows it);
the theorems that rest on such a per-entry function carry `_model_semantics` in their names (`C03_packagelock*`, `C03_gomod*`).
`C03_pipfile` (`Pipfile.pinned`) and `C03_pkgslock` (`PackagesLock.listed`: distinct (id, resolved version) PAIRS over all target
frameworks) have spec-side definitions of their own.

LAYOUT CLAUSES, said plainly: for package-lock.json, composer.lock, Cargo.lock, poetry.lock, Pipfile.lock, packages.lock.json and
go.mod NOTHING in Lean speaks about key order, white space, indentation, CRLF, a final newline, comments or unrelated fields. Those
clauses rest on the decoder (encoding/json, BurntSushi/toml, golang.org/x/mod/modfile) — trusted, not modelled — and are
exercised by the generator/oracle stream only (c03gen writes every such layout; the document the extractor's own decoder makes of it is
what the Lean side sees). For four of the formats the stream's expected list is computed by the Lean Spec from that document
(`PackageLock.expected`, `Pipfile.expected`, `PackagesLock.expected`, `GoMod.expected`; theorems `C03_*_expected*`: the scan
reports a permutation of it); for composer / Cargo / poetry the loop is append / map and the expected list is the generator's. -/
namespace Scalibr.Lockfiles
open Scalibr.Parsers

/-! ### package-lock.json (v1: nested `dependencies`; v2/v3: `packages`) -/

/-- `Extract` on any decoded package-lock never panics and returns the values of a map with pairwise distinct
de-duplication keys in which a (key, details) pair is present exactly when it is the LAST write to its key
among the entries the document lists (flattened tree / packages map, aliases, file: and git versions resolved
by `depEntry` / `pkgEntry`). Nothing is invented, nothing with a fresh key is dropped. -/
theorem C03_packagelock_model_semantics (d : PackageLock.Doc) :
    ∃ m : PackageLock.PMap, PackageLock.extract d = .ok (m.map (·.2)) ∧ (keys m).Nodup ∧
      ∀ k x, (k, x) ∈ m ↔ lastOf (PackageLock.writes d) k = some x := by
  unfold PackageLock.extract PackageLock.writes
  cases hp : d.packages with
  | some ps =>
    refine ⟨PackageLock.parsePackages ps, rfl, ?_⟩
    rw [PackageLock.parsePackages_eq]
    exact insertAll_spec _
  | none =>
    obtain ⟨m, hm, hn, hl⟩ := PackageLock.parseDeps_spec d.dependencies [] (by simp [keys])
    refine ⟨m, by simp [hm], hn, fun k x => ?_⟩
    rw [mem_iff_lookup m hn, hl k, lookup_nil]
    cases lastOf (PackageLock.flatDeps d.dependencies) k <;> simp

/-- the executable form the driver evaluates: the scan reports the values of a permutation of `PackageLock.expected d` -/
theorem C03_packagelock_expected_model_semantics (d : PackageLock.Doc) :
    ∃ m : PackageLock.PMap, PackageLock.extract d = .ok (m.map (·.2)) ∧ m.Perm (PackageLock.expected d) := by
  obtain ⟨m, h1, h2, h3⟩ := C03_packagelock_model_semantics d
  refine ⟨m, h1, perm_of_keys_nodup m _ h2 (keys_tabulate_nodup _ _) fun e => ?_⟩
  obtain ⟨k, x⟩ := e
  rw [h3, PackageLock.expected, mem_tabulate]
  exact ⟨fun h => ⟨List.mem_map.mpr ⟨(k, x), lastOf_mem _ k x h, rfl⟩, h⟩, fun h => h.2⟩

/-- When entries that share a de-duplication key agree (the same package listed at several places of the tree),
the reported set is exactly the set of listed entries. -/
theorem C03_packagelock_exact_model_semantics (d : PackageLock.Doc)
    (hc : ∀ e ∈ PackageLock.writes d, ∀ e' ∈ PackageLock.writes d, e.1 = e'.1 → e.2 = e'.2) :
    ∃ m : PackageLock.PMap, PackageLock.extract d = .ok (m.map (·.2)) ∧ (keys m).Nodup ∧
      ∀ e, e ∈ m ↔ e ∈ PackageLock.writes d := by
  obtain ⟨m, h1, h2, h3⟩ := C03_packagelock_model_semantics d
  refine ⟨m, h1, h2, fun e => ?_⟩
  obtain ⟨k, x⟩ := e
  rw [h3]
  exact ⟨lastOf_mem _ k x, fun h => lastOf_of_mem _ k x h (fun e' he' hk => hc e' he' (k, x) h hk)⟩

/-- non-vacuity + the alias fix 7578723d: a v1 tree with a nested duplicate, an alias with and without version,
a file: dependency and a git dependency -/
def PackageLock.exDoc : PackageLock.Doc :=
  ⟨none, [ .mk "a".toList "1.0.0".toList [] [ .mk "b".toList "2.0.0".toList [] [] ],
           .mk "b".toList "2.0.0".toList [] [],
           .mk "al".toList "npm:real@3.0.0".toList [] [],
           .mk "al2".toList "npm:foo".toList [] [],
           .mk "loc".toList "file:../x".toList [] [],
           .mk "g".toList "git+https://github.com/a/g.git#abc".toList "abc".toList [] ]⟩
example : PackageLock.extract PackageLock.exDoc = .ok
    [⟨"b".toList, "2.0.0".toList, []⟩, ⟨"a".toList, "1.0.0".toList, []⟩, ⟨"real".toList, "3.0.0".toList, []⟩,
     ⟨"foo".toList, [], []⟩, ⟨"loc".toList, [], []⟩, ⟨"g".toList, [], "abc".toList⟩] := by decide
example : ∀ e ∈ PackageLock.writes PackageLock.exDoc, ∀ e' ∈ PackageLock.writes PackageLock.exDoc, e.1 = e'.1 → e.2 = e'.2 := by decide

/-! ### composer.lock, Cargo.lock, poetry.lock: DEFINITIONAL

For these three formats the extractor's record loop is `append` / `map` over the decoded arrays, and so is the model: the
three statements below are restatements of the model definitions (`rfl` / one `simp`), kept only so that the driver's use of
`Composer.extract` / `Cargo.extract` / `Poetry.extract` has a named reference. They carry NO property content of their own:
for these formats the whole of C03 sits in the trusted JSON / TOML decoder and is checked only by the generator/oracle
stream (all layouts, through the real Extract). They are not counted as proof obligations of C03 (checks/c03.py lists them
under `definitional`). -/

theorem C03_composer (d : Composer.Doc) :
    Composer.extract d = d.packages ++ d.packagesDev ∧
    ∀ p, (Composer.extract d).count p = d.packages.count p + d.packagesDev.count p := by
  refine ⟨rfl, fun p => ?_⟩
  simp [Composer.extract, List.count_append]

theorem C03_cargo (pkgs : List NV) : Cargo.extract pkgs = pkgs := by
  unfold Cargo.extract; induction pkgs with
  | nil => rfl
  | cons p ps ih => simp [ih]

theorem C03_poetry (pkgs : List NV) : Poetry.extract pkgs = pkgs := by
  unfold Poetry.extract; induction pkgs with
  | nil => rfl
  | cons p ps ih => simp [ih]

/-! ### Pipfile.lock -/

/-- `Extract` never panics; the reported packages are pairwise distinct; each comes from a pinned (`==version`)
entry of `default` or `develop` (nothing invented), and for every pinned entry the package stored under its
`name@version` key is reported (nothing dropped; the first entry of a key stays). -/
theorem C03_pipfile (d : Pipfile.Doc) :
    ∃ m : List (Str × NV), Pipfile.extract d = .ok (m.map (·.2)) ∧ (keys m).Nodup ∧ (m.map (·.2)).Nodup ∧
      ∀ k nv, (k, nv) ∈ m ↔ lookup ((d.default ++ d.develop).filterMap Pipfile.pinnedKV) k = some nv := by
  have h1 := Pipfile.addPkgs_eq d.default []
  have h2 := Pipfile.addPkgs_eq d.develop (insertFirst (d.default.filterMap Pipfile.pinnedKV) [])
  obtain ⟨n1, l1⟩ := insertFirst_spec (d.default.filterMap Pipfile.pinnedKV) ([] : List (Str × NV)) (by simp [keys])
  obtain ⟨n2, l2⟩ := insertFirst_spec (d.develop.filterMap Pipfile.pinnedKV) _ n1
  let m := insertFirst (d.develop.filterMap Pipfile.pinnedKV) (insertFirst (d.default.filterMap Pipfile.pinnedKV) [])
  have hlook : ∀ k, lookup m k = lookup ((d.default ++ d.develop).filterMap Pipfile.pinnedKV) k := by
    intro k
    rw [l2 k, l1 k, lookup_nil, List.filterMap_append]
    generalize d.default.filterMap Pipfile.pinnedKV = a
    generalize d.develop.filterMap Pipfile.pinnedKV = b
    induction a with
    | nil => simp [lookup_nil]
    | cons e a ih => simp only [List.cons_append, lookup_cons]; by_cases h : e.1 = k <;> simp [h, ih]
  have hkey : ∀ e ∈ m, e.1 = Pipfile.keyNV e.2 := by
    intro e he
    obtain ⟨k, nv⟩ := e
    have := (mem_iff_lookup m n2 k nv).mp he
    rw [hlook] at this
    have hm := mem_of_lookup _ _ _ this
    simp only [List.mem_filterMap, Pipfile.pinnedKV, Option.map_eq_some_iff] at hm
    obtain ⟨_, _, nv', _, h⟩ := hm
    cases h; rfl
  refine ⟨m, by simp [Pipfile.extract, h1, h2, m], n2, values_nodup m Pipfile.keyNV hkey n2, fun k nv => ?_⟩
  rw [mem_iff_lookup m n2, hlook]

/-- the executable form the driver evaluates: the scan reports the values of a permutation of `Pipfile.expected d` -/
theorem C03_pipfile_expected (d : Pipfile.Doc) :
    ∃ m : List (Str × NV), Pipfile.extract d = .ok (m.map (·.2)) ∧ m.Perm (Pipfile.expected d) := by
  obtain ⟨m, h1, h2, _, h4⟩ := C03_pipfile d
  refine ⟨m, h1, perm_of_keys_nodup m _ h2 (keys_tabulate_nodup _ _) fun e => ?_⟩
  obtain ⟨k, x⟩ := e
  rw [h4, Pipfile.expected, mem_tabulate]
  exact ⟨fun h => ⟨List.mem_map.mpr ⟨(k, x), mem_of_lookup _ k x h, rfl⟩, h⟩, fun h => h.2⟩

/-! ### packages.lock.json (after fix 455d5282) -/

/-- every (id, resolved version) pair listed under any target framework is reported, exactly once: membership is over
PAIRS — one id resolved to different versions under two target frameworks is two packages (`listed`, `expected`: Spec) -/
theorem C03_pkgslock (d : PackagesLock.Doc) :
    (PackagesLock.extract d).Nodup ∧ ∀ p, p ∈ PackagesLock.extract d ↔ p ∈ PackagesLock.listed d := by
  obtain ⟨h1, h2⟩ := foldl_addOnce (PackagesLock.entries d) [] List.nodup_nil
  exact ⟨h1, fun p => by rw [PackagesLock.extract, h2]; simp [PackagesLock.listed, PackagesLock.entries, PackagesLock.isProject]⟩

/-- the executable form the driver evaluates: the scan reports a permutation of the distinct listed pairs -/
theorem C03_pkgslock_expected (d : PackagesLock.Doc) : (PackagesLock.extract d).Perm (PackagesLock.expected d) :=
  perm_dedup_of_nodup _ _ (C03_pkgslock d).1 (C03_pkgslock d).2

/-- the same id at two versions under two frameworks is two packages; at the same version, one -/
example : PackagesLock.extract [("net6.0".toList, [("A".toList, "1.0".toList, "Direct".toList)]), ("net8.0".toList, [("A".toList, "2.0".toList, "Direct".toList), ("B".toList, "3".toList, "Transitive".toList)]),
    ("net48".toList, [("B".toList, "3".toList, "CentralTransitive".toList)])]
    = [⟨"A".toList, "1.0".toList⟩, ⟨"A".toList, "2.0".toList⟩, ⟨"B".toList, "3".toList⟩] := by decide

/-- since the fix: a project reference (`"type": "Project"`, no `resolved`) is not reported (it used to come out as a package with
an empty version: former known finding C03/pkgslock-project-reference) -/
theorem C03_pkgslock_project_skipped :
    PackagesLock.extract [("net6.0".toList, [("mylib".toList, [], "Project".toList), ("A".toList, "1.0".toList, "Direct".toList)])]
      = [⟨"A".toList, "1.0".toList⟩] := by decide

/-! ### go.mod -/

/-- The reported packages are pairwise distinct and are exactly: what every `require` line ends up as after
the `replace` directives (`finalOf`), plus `stdlib` at the toolchain / go version when there is one. A require
line whose own key is the stdlib key would be overwritten by the stdlib entry (it cannot come out of
`modfile.Parse`, which rejects an empty version; the clause is kept so that the statement is unconditional). -/
theorem C03_gomod_model_semantics (d : GoMod.Doc) :
    (GoMod.extract d).Nodup ∧
    ∀ nv, nv ∈ GoMod.extract d ↔
      ((GoMod.stdlibVersion d ≠ [] ∧ nv = ⟨"stdlib".toList, GoMod.stdlibVersion d⟩) ∨
       ∃ r ∈ d.requires, (GoMod.stdlibVersion d = [] ∨ GoMod.keyOf r ≠ GoMod.stdlibKey) ∧ nv = GoMod.finalOf d r) := by
  -- the three intermediate maps
  let es0 := d.requires.map fun r => (GoMod.keyOf r, (⟨r.1, trimPrefixV r.2⟩ : NV))
  let m0 := insertAll es0 []
  let m1 := m0.map fun kv => (GoMod.ordered d).foldl GoMod.step kv
  let sv := GoMod.stdlibVersion d
  let m2 := if sv.isEmpty then m1 else set m1 GoMod.stdlibKey ⟨"stdlib".toList, sv⟩
  let es3 := m2.map fun kv => ((kv.2.name, kv.2.version), kv.2)
  have hex : GoMod.extract d = (insertAll es3 []).map (·.2) := by
    simp only [GoMod.extract, GoMod.requires_eq, GoMod.foldl_applyReplace]
    have : ∀ (l : GoMod.KMap) (acc : GoMod.KMap), l.foldl (fun acc kv => set acc (kv.2.name, kv.2.version) kv.2) acc
        = insertAll (l.map fun kv => ((kv.2.name, kv.2.version), kv.2)) acc := by
      intro l; induction l with
      | nil => intro acc; rfl
      | cons x l ih => intro acc; simp only [List.foldl_cons, List.map_cons, insertAll]; exact ih _
    rw [this]; rfl
  -- m0: one entry per distinct require key
  have hc0 : ∀ e ∈ es0, ∀ e' ∈ es0, e.1 = e'.1 → e.2 = e'.2 := by
    intro e he e' he' hk
    simp only [es0, List.mem_map] at he he'
    obtain ⟨r, _, rfl⟩ := he; obtain ⟨r', _, rfl⟩ := he'
    simp only [GoMod.keyOf, Prod.mk.injEq] at hk
    simp [hk.1, hk.2]
  have hm0 : ∀ e, e ∈ m0 ↔ e ∈ es0 := insertAll_complete es0 hc0
  have hc3 : ∀ e ∈ es3, ∀ e' ∈ es3, e.1 = e'.1 → e.2 = e'.2 := by
    intro e he e' he' hk
    simp only [es3, List.mem_map] at he he'
    obtain ⟨x, _, rfl⟩ := he; obtain ⟨y, _, rfl⟩ := he'
    simp only [Prod.mk.injEq] at hk
    cases hx : x.2; cases hy : y.2; simp_all
  have hm3 : ∀ e, e ∈ insertAll es3 [] ↔ e ∈ es3 := insertAll_complete es3 hc3
  have hn3 := (insertAll_spec es3).1
  have hkey3 : ∀ e ∈ insertAll es3 [], e.1 = (fun v : NV => (v.name, v.version)) e.2 := by
    intro e he
    have := (hm3 e).mp he
    simp only [es3, List.mem_map] at this
    obtain ⟨x, _, rfl⟩ := this; rfl
  refine ⟨by rw [hex]; exact values_nodup _ (fun v : NV => (v.name, v.version)) hkey3 hn3, fun nv => ?_⟩
  have hmem : nv ∈ GoMod.extract d ↔ ∃ kv ∈ m2, kv.2 = nv := by
    rw [hex]
    simp only [List.mem_map]
    constructor
    · rintro ⟨e, he, rfl⟩
      have := (hm3 e).mp he
      simp only [es3, List.mem_map] at this
      obtain ⟨x, hx, rfl⟩ := this
      exact ⟨x, hx, rfl⟩
    · rintro ⟨kv, hkv, rfl⟩
      exact ⟨((kv.2.name, kv.2.version), kv.2), (hm3 _).mpr (by simp only [es3, List.mem_map]; exact ⟨kv, hkv, rfl⟩), rfl⟩
  have hm1 : ∀ kv, kv ∈ m1 ↔ ∃ r ∈ d.requires, kv = (GoMod.keyOf r, GoMod.finalOf d r) := by
    intro kv
    simp only [m1, List.mem_map]
    constructor
    · rintro ⟨kv0, h0, rfl⟩
      have := (hm0 kv0).mp h0
      simp only [es0, List.mem_map] at this
      obtain ⟨r, hr, rfl⟩ := this
      refine ⟨r, hr, ?_⟩
      apply Prod.ext
      · simp [GoMod.foldl_step_key]
      · rfl
    · rintro ⟨r, hr, rfl⟩
      refine ⟨(GoMod.keyOf r, ⟨r.1, trimPrefixV r.2⟩), (hm0 _).mpr (by simp only [es0, List.mem_map]; exact ⟨r, hr, rfl⟩), ?_⟩
      apply Prod.ext
      · simp [GoMod.foldl_step_key]
      · rfl
  rw [hmem]
  by_cases hsv : sv.isEmpty = true
  · have hsv' : GoMod.stdlibVersion d = [] := by simpa [sv] using hsv
    have : m2 = m1 := by simp only [m2, hsv, if_true]
    rw [this]
    constructor
    · rintro ⟨kv, hkv, rfl⟩
      obtain ⟨r, hr, rfl⟩ := (hm1 kv).mp hkv
      exact Or.inr ⟨r, hr, Or.inl hsv', rfl⟩
    · rintro (⟨h, _⟩ | ⟨r, hr, _, rfl⟩)
      · exact absurd hsv' h
      · exact ⟨_, (hm1 _).mpr ⟨r, hr, rfl⟩, rfl⟩
  · have hsv' : GoMod.stdlibVersion d ≠ [] := by
      intro e; apply hsv; simp [sv, e]
    have : m2 = set m1 GoMod.stdlibKey ⟨"stdlib".toList, sv⟩ := by simp only [m2, hsv]; rfl
    rw [this]
    constructor
    · rintro ⟨kv, hkv, rfl⟩
      rcases (mem_set m1 _ _ kv).mp hkv with rfl | ⟨h1, h2⟩
      · exact Or.inl ⟨hsv', rfl⟩
      · obtain ⟨r, hr, rfl⟩ := (hm1 kv).mp h1
        exact Or.inr ⟨r, hr, Or.inr h2, rfl⟩
    · rintro (⟨_, rfl⟩ | ⟨r, hr, hk, rfl⟩)
      · exact ⟨_, (mem_set m1 _ _ _).mpr (Or.inl rfl), rfl⟩
      · rcases hk with hk | hk
        · exact absurd hk hsv'
        · exact ⟨_, (mem_set m1 _ _ _).mpr (Or.inr ⟨(hm1 _).mpr ⟨r, hr, rfl⟩, hk⟩), rfl⟩

/-- non-vacuity: two requires, one replaced with its version, one directive for a version that is not required,
one unversioned directive, a toolchain line -/
def GoMod.exDoc : GoMod.Doc :=
  { requires := [("github.com/a/b".toList, "v1.2.3".toList), ("golang.org/x/net".toList, "v0.36.0".toList), ("example.com/c".toList, "v2.0.0+incompatible".toList)],
    replaces := [⟨"github.com/a/b".toList, "v1.2.3".toList, "example.org/fork/b".toList, "v1.2.4".toList⟩,
                 ⟨"golang.org/x/net".toList, "v0.1.0".toList, "example.org/fork/net".toList, "v9.9.9".toList⟩,
                 ⟨"example.com/c".toList, [], "example.org/fork/c".toList, "v2.0.1".toList⟩],
    goVersion := "1.22".toList, toolchain := "go1.23.4-custom".toList }
example : GoMod.extract GoMod.exDoc =
    [⟨"example.org/fork/b".toList, "1.2.4".toList⟩, ⟨"golang.org/x/net".toList, "0.36.0".toList⟩,
     ⟨"example.org/fork/c".toList, "2.0.1".toList⟩, ⟨"stdlib".toList, "1.23.4".toList⟩] := by decide

/-- the executable form the driver evaluates: the scan reports a permutation of `GoMod.expected d` -/
theorem C03_gomod_expected_model_semantics (d : GoMod.Doc) : (GoMod.extract d).Perm (GoMod.expected d) := by
  obtain ⟨h1, h2⟩ := C03_gomod_model_semantics d
  refine perm_dedup_of_nodup _ _ h1 fun nv => ?_
  rw [h2 nv]
  simp only [List.mem_append, List.mem_map, List.mem_filter, decide_eq_true_eq]
  constructor
  · rintro (⟨hs, rfl⟩ | ⟨r, hr, hc, rfl⟩)
    · left; simp [hs]
    · right; exact ⟨r, ⟨hr, hc⟩, rfl⟩
  · rintro (h | ⟨r, ⟨hr, hc⟩, rfl⟩)
    · left
      by_cases hs : GoMod.stdlibVersion d ≠ []
      · simp only [hs, ne_eq, not_false_eq_true, if_true, List.mem_singleton] at h
        exact ⟨hs, h⟩
      · simp [hs] at h
    · right; exact ⟨r, hr, hc, rfl⟩

theorem foldl_addSum (es : List NV) (acc : List NV) (h : acc.Nodup) :
    (es.foldl GoMod.addSum acc).Nodup ∧ ∀ p, p ∈ es.foldl GoMod.addSum acc ↔ p ∈ acc ∨ p ∈ es := by
  have e : GoMod.addSum = PackagesLock.addOnce := rfl
  rw [e]
  exact foldl_addOnce es acc h

/-- go.mod of a module older than go 1.17 with a readable go.sum next to it: the scan reports, once each, the packages of go.mod and
every module go.sum lists (`sumEntry`: version without the leading "v", `/go.mod` hash lines skipped) — a permutation of `expectedSum`.
Without go.sum, with a go.sum line that does not have three fields, or from go 1.17 on: the go.mod result alone. -/
theorem C03_gomod_sum_model_semantics (d : GoMod.Doc) (older : Bool) (sum : GoMod.Sum) :
    (GoMod.extractWithSum d older sum).Perm (GoMod.expectedSum d older sum) := by
  unfold GoMod.extractWithSum GoMod.expectedSum
  cases older with
  | false => exact C03_gomod_expected_model_semantics d
  | true =>
    cases sum with
    | none => exact C03_gomod_expected_model_semantics d
    | some es =>
      obtain ⟨h1, h2⟩ := foldl_addSum (es.filterMap GoMod.sumEntry) (GoMod.extract d) (C03_gomod_model_semantics d).1
      refine perm_dedup_of_nodup _ _ h1 fun p => ?_
      rw [h2 p, List.mem_append]
      have hp := (C03_gomod_expected_model_semantics d).mem_iff (a := p)
      rw [hp]

end Scalibr.Lockfiles
