/-
C10, clause "a scan never hands a file larger than the size limit to any extractor", for the layer trace
of `ScanContainer` (the walk engine's own clause is in Properties/C10.lean): the re-extractions of older
views obey the same `MaxFileSize` as the main scan. The model is tied to the real `scalibr.ScanContainer`
by the `sizes` stream of the C05 harness (a size-recording extractor); checks/c10.py audits this module.
-/
import Scalibr.Model.TraceSize
namespace Scalibr.TraceSize

theorem traceSizes_le (limit : Nat) (h : SHistory) (hl : limit > 0) :
    ∀ cnt s, s ∈ traceSizes limit h cnt → s ≤ limit := by
  intro cnt
  induction cnt with
  | zero => intro s hs; simp [traceSizes] at hs
  | succ i ih =>
    intro s hs
    unfold traceSizes at hs
    cases hv : viewSize h i with
    | none => simp [hv] at hs
    | some sz =>
      simp only [hv] at hs
      split at hs
      · split at hs
        · simp at hs
        · rename_i hsk
          simp only [List.mem_cons] at hs
          rcases hs with rfl | hs
          · simp only [skipped, Bool.and_eq_true, decide_eq_true_eq, not_and, Nat.not_lt] at hsk
            exact hsk hl
          · exact ih s hs
      · exact ih s hs

/-- THE clause: with a size limit set, every file size handed to an extractor during a container scan —
by the scan of the final view and by every re-extraction of the layer trace — is at most the limit. -/
theorem C10_trace_sizes (limit : Nat) (h : SHistory) (hl : limit > 0) :
    ∀ s ∈ handed limit h, s ≤ limit := by
  intro s hs
  unfold handed at hs
  cases hv : viewSize h (h.length - 1) with
  | none => simp [hv] at hs
  | some sz =>
    simp only [hv] at hs
    split at hs
    · simp at hs
    · rename_i hsk
      simp only [List.mem_cons] at hs
      rcases hs with rfl | hs
      · simp only [skipped, Bool.and_eq_true, decide_eq_true_eq, not_and, Nat.not_lt] at hsk
        exact hsk hl
      · exact traceSizes_le limit h hl _ s hs

/-- without a limit nothing is skipped: the trace reads every version down to the first layer that lacks the file -/
theorem C10_trace_sizes_nolimit (h : SHistory) (s : Nat) : skipped 0 s = false := by simp [skipped]

/-! ### DISCLOSURE: the inode limit and the trace's re-runs

C10 says "a scan processes no more inodes than the inode limit". `ScanContainer` hands `MaxInodes` to the trace as
well, but `trace.PopulateLayerDetails` calls `filesystem.Run` once per package location and older layer, and every such
run starts a fresh walk context with its own inode counter: each run visits exactly ONE inode (the package file), so no
single walk exceeds the limit, yet the TOTAL over one `ScanContainer` call is (inodes of the final view's walk) +
`traceInodes`, which is not bounded by `MaxInodes`. Witness (probe of round j, untouched tree): three layers adding
a.txt, b.txt, c.txt, extractor on a.txt, MaxInodes = 4: the main walk visits "/", a.txt, b.txt, c.txt (4), the trace
re-extracts a.txt in view 0 (1 more): 5 `AfterInodeVisited` calls, status SUCCEEDED.
Reading adopted here: the limit is a PER-WALK bound (that is how the engine implements and documents `MaxInodes`: "the
maximum number of inodes to visit in a scan run"), every re-run of the trace is a walk of a different file system (an
older view) and obeys it trivially; the sum is disclosed, not claimed. The `sizes` stream of the C05 harness counts the
trace's visits of the package file with a stats collector and compares them with `traceInodes` (field `runs`). -/

/-- every re-run of the trace visits one inode: the count of the trace's inode visits is the count of its runs, which
grows with the number of layers that rewrote the file — independently of any inode limit -/
theorem C10_trace_inodes_disclosed :
    traceInodes 0 [.write 5, .write 7, .write 9] = 2 ∧ traceInodes 0 [.write 5, .write 7, .write 9, .write 11, .write 13] = 4 ∧
    traceInodes 8 [.write 5, .write 40, .write 7] = 1 := by decide

-- non-vacuity: the older version (40 bytes, above the limit 16) is not handed out; without a limit it is
example : handed 16 [.write 40, .write 12, .keep, .write 16] = [16, 12] := by decide
example : handed 0 [.write 40, .write 12, .keep, .write 16] = [16, 12, 40] := by decide
example : handed 16 [.write 12, .write 40] = [] := by decide

end Scalibr.TraceSize
