/-
C10, clause "a scan never hands a file larger than the size limit to any extractor", for the layer trace
of `ScanContainer` (the walk engine's own clause is in Properties/C10.lean): the re-extractions of older
views obey the same `MaxFileSize` as the main scan. The model is tied to the real `scalibr.ScanContainer`
by the `sizes` stream of the C05 harness (a size-recording extractor); checks/c10.py audits this module.
-/
import Scalibr.Model.TraceSize
namespace Scalibr.TraceSize

theorem traceSizes_le (limit : Nat) (h : SHistory) (hl : limit > 0) :
    ∀ cnt s, s ∈ traceSizes limit h cnt → s ≤ limit := by
  intro cnt
  induction cnt with
  | zero => intro s hs; simp [traceSizes] at hs
  | succ i ih =>
    intro s hs
    unfold traceSizes at hs
    cases hv : viewSize h i with
    | none => simp [hv] at hs
    | some sz =>
      simp only [hv] at hs
      split at hs
      · split at hs
        · simp at hs
        · rename_i hsk
          simp only [List.mem_cons] at hs
          rcases hs with rfl | hs
          · simp only [skipped, Bool.and_eq_true, decide_eq_true_eq, not_and, Nat.not_lt] at hsk
            exact hsk hl
          · exact ih s hs
      · exact ih s hs

/-- THE clause: with a size limit set, every file size handed to an extractor during a container scan —
by the scan of the final view and by every re-extraction of the layer trace — is at most the limit. -/
theorem C10_trace_sizes (limit : Nat) (h : SHistory) (hl : limit > 0) :
    ∀ s ∈ handed limit h, s ≤ limit := by
  intro s hs
  unfold handed at hs
  cases hv : viewSize h (h.length - 1) with
  | none => simp [hv] at hs
  | some sz =>
    simp only [hv] at hs
    split at hs
    · simp at hs
    · rename_i hsk
      simp only [List.mem_cons] at hs
      rcases hs with rfl | hs
      · simp only [skipped, Bool.and_eq_true, decide_eq_true_eq, not_and, Nat.not_lt] at hsk
        exact hsk hl
      · exact traceSizes_le limit h hl _ s hs

/-- without a limit nothing is skipped: the trace reads every version down to the first layer that lacks the file -/
theorem C10_trace_sizes_nolimit (h : SHistory) (s : Nat) : skipped 0 s = false := by simp [skipped]

-- non-vacuity: the older version (40 bytes, above the limit 16) is not handed out; without a limit it is
example : handed 16 [.write 40, .write 12, .keep, .write 16] = [16, 12] := by decide
example : handed 0 [.write 40, .write 12, .keep, .write 16] = [16, 12, 40] := by decide
example : handed 16 [.write 12, .write 40] = [] := by decide

end Scalibr.TraceSize
