/-
C11, audit-2 finding 5: `C11_no_rank_of_cycle` instantiated with the Maven cycle C07 proves for the repository's own
`semantic` Maven comparator (`1 < 1.foo < 1rc` but `1 > 1rc`, known finding C07/maven-qualifier-cycle): that
comparator has NO rank function on these three strings, so none of the rank models could describe it.
Guided remediation does not use that comparator but deps.dev's `semver.Maven`, which orders the same triple
consistently (`1rc < 1 < 1.foo`; probed in the harness), and `c11gen` verifies for every generated universe that the
ranks it hands to the model agree with the real comparator on ALL pairs.
-/
import Scalibr.Proofs.VersionOrder
import Scalibr.Spec.Semantic
namespace Scalibr.Upgrade
open Scalibr.Semantic

/-- the repository's Maven comparison as an `Ordering` (errors and crashes count as "equal": they do not occur here) -/
def semanticMavenCmp (a b : List Char) : Ordering :=
  match compareStr .maven a b with
  | .lt => .lt
  | .gt => .gt
  | _ => .eq

theorem C11_semantic_maven_has_no_rank :
    ¬ ∃ rank, RankFor semanticMavenCmp [['1'], ['1', '.', 'f', 'o', 'o'], ['1', 'r', 'c']] rank :=
  no_rank_of_cycle semanticMavenCmp _ _ _ (by decide) (by decide) (by decide)

end Scalibr.Upgrade
