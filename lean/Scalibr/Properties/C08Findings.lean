/-
C08, clause "packages, FINDINGS and STATUSES are emitted in the documented sorted order" — the part of
`sortResults` that orders `Inventory.Findings` (`cmpFindings`: advisory reference, then Extra) and
`PluginStatus` (`cmpStatus`: plugin name), on the model of the tail of `Scan` (`Scalibr.Detector.scanTail`).
Keys are byte strings compared field by field with Go's bytewise `<` (`Scalibr.ltBytes`). For every
scan input (any extractor findings, any detectors — arbitrary functions of the index —, any statuses):
the emitted lists are sorted w.r.t. that order and are permutations of what was collected, and the
emitted KEY SEQUENCE and the emitted MULTISET are the same whatever order the detectors were listed in.
(The order of packages is `Properties/C08.lean`.)

What carries content here (audit note): the model's tail of `Scan` is DEFINED as `isort cmp xs`
(`slices.SortFunc` by contract), so "the output is sorted and a permutation" is the library lemma
`isort_sorted`/`isort_perm` for that definition. The property-relevant facts are (a) the comparator is the
documented one — field by field over byte strings, a strict total order on keys (`C08_cmp_findings`,
`C08_cmp_findings_fields`, `C08_cmp_status`), which is what makes the sorted key sequence unique — and (b)
the correspondence stream, which reads the real `Scan`'s findings/statuses in emitted order and compares
their key sequence with the documented order and their multiset with the collected one. Findings that
TIE on (reference, extra) — the same advisory on several targets — have no documented relative order:
`slices.SortFunc` is unstable, the model's `isort` is stable, so neither the theorems nor the oracle say
anything about the positions of tied findings (`C08_tied_findings_swap`).
-/
import Scalibr.Proofs.FindingsOrder
import Scalibr.Proofs.Detector
namespace Scalibr.Detector
open Scalibr.Index

/-- The findings comparator on keys `(reference, extra)` is a strict total order: `slices.SortFunc`'s
precondition, and the reason the emitted key sequence is unique. -/
theorem C08_cmp_findings : StrictTotal keyLt := keyLt_strictTotal

/-- … and it is FIELD BY FIELD: the reference decides; only for equal references does Extra decide. -/
theorem C08_cmp_findings_fields (r₁ e₁ r₂ e₂ : List Nat) :
    keyLt (r₁, e₁) (r₂, e₂) = (ltBytes r₁ r₂ || (decide (r₁ = r₂) && ltBytes e₁ e₂)) := by
  unfold keyLt prodLt
  by_cases h1 : ltBytes r₁ r₂ = true
  · simp [h1]
  · by_cases h2 : ltBytes r₂ r₁ = true
    · have hne : r₁ ≠ r₂ := by
        intro e; subst e; rw [ltBytes_strictTotal.irrefl] at h2; cases h2
      simp [h1, h2, hne]
    · have : r₁ = r₂ := ltBytes_strictTotal.total _ _ (by simpa using h1) (by simpa using h2)
      subst this
      simp [ltBytes_strictTotal.irrefl]

/-- The plugin-status comparator `statusLt` is, by definition, the bytewise order `ltBytes` of the plugin names;
that order is a strict total order on names. -/
theorem C08_cmp_status : StrictTotal ltBytes := ltBytes_strictTotal

/-- what `Scan` holds before `sortResults`: the extractors' findings, then what `detector.Run` returned — or nothing
when their joint validation failed (`scanFindings`) -/
def collectedFindings (i : ScanIn) : List Finding := (scanFindings i).1

def collectedStatus (i : ScanIn) : List Status :=
  i.fsStatus ++ i.stStatus ++ (run i.dets (Index.new (i.fsPkgs ++ i.stPkgs))).status

/-- The emitted findings are sorted by (reference, then Extra) and are a permutation of the collected
ones. Definitional for the model (`isort`), see the header. Every finding that reaches `sortResults` has a key
(`C08_findings_keyed`), so `optKeyLt`'s totalisation of keyless findings never matters and the order is the real
`cmpFindings` order (`C20_no_sort_panic`: the Go comparator cannot dereference nil). -/
theorem C08_findings_sorted (i : ScanIn) :
    (scanTail i).findings.Pairwise (fun a b => optKeyLt (sortKey b) (sortKey a) = false) ∧
    (scanTail i).findings.Perm (collectedFindings i) := by
  unfold scanTail collectedFindings
  exact ⟨isort_sorted_of_key optKeyLt_strictTotal sortKey _, isort_perm _ _⟩

/-- Every emitted finding has a sort key: what `Scan` sorts passed `ValidateAdvisories` (fix 89f87523). -/
theorem C08_findings_keyed (i : ScanIn) : ∀ f ∈ (scanTail i).findings, (sortKey f).isSome = true := by
  intro f hf
  exact consistent_keyed _ (scanFindings_consistent i) f ((C08_findings_sorted i).2.mem_iff.1 hf)

/-- In words of the keys: if `a` is emitted before `b` and both have keys, then NOT key(b) < key(a). -/
theorem C08_findings_sorted_keys (i : ScanIn) (a b : Finding) (ka kb : List Nat × List Nat)
    (hab : [a, b].Sublist (scanTail i).findings) (ha : sortKey a = some ka) (hb : sortKey b = some kb) :
    keyLt kb ka = false := by
  have h := ((C08_findings_sorted i).1.sublist hab)
  simp only [List.pairwise_cons, List.mem_singleton, forall_eq] at h
  have := h.1
  simpa [ha, hb, optKeyLt] using this

/-- The emitted KEY SEQUENCE is the sorted sequence of the collected keys — hence the same for any two
scans that collect the same findings in different orders (detectors listed differently, findings
returned in another order). This is "emitted order = documented order", uniquely. -/
theorem C08_findings_key_sequence (i : ScanIn) :
    (scanTail i).findings.map sortKey = isort optKeyLt ((collectedFindings i).map sortKey) := by
  unfold scanTail collectedFindings
  exact isort_map optKeyLt sortKey _

/-- ORDER INDEPENDENCE, as far as it goes: two scans that collect the same findings in different orders
(detectors listed differently, findings returned in another order) emit the same MULTISET of findings and
the same KEY SEQUENCE. Nothing more: see `C08_tied_findings_swap`. -/
theorem C08_findings_order_independent (i j : ScanIn) (h : (collectedFindings i).Perm (collectedFindings j)) :
    (scanTail i).findings.Perm (scanTail j).findings ∧
    (scanTail i).findings.map sortKey = (scanTail j).findings.map sortKey := by
  refine ⟨((C08_findings_sorted i).2.trans h).trans (C08_findings_sorted j).2.symm, ?_⟩
  rw [C08_findings_key_sequence, C08_findings_key_sequence]
  exact optKeyLt_strictTotal.isort_perm_eq _ _ (h.map sortKey)

/-- Findings that TIE on (reference, extra) are NOT emitted in an order-independent way: two detectors
reporting the same advisory for targets 100 and 200 come out in detector order (the model's `isort` is
stable; Go's `slices.SortFunc` promises nothing for ties). Key sequences agree, positions do not. -/
def tieA : Detector := ⟨"dA", fun _ => ([some ⟨1, some ⟨some (0, [67]), 0⟩, 100, [], []⟩], false), false⟩
def tieB : Detector := ⟨"dB", fun _ => ([some ⟨2, some ⟨some (0, [67]), 0⟩, 200, [], []⟩], false), false⟩
theorem C08_tied_findings_swap :
    (scanTail ⟨[], [], [], [], [], [], [tieA, tieB]⟩).findings.map (·.target) = [100, 200] ∧
    (scanTail ⟨[], [], [], [], [], [], [tieB, tieA]⟩).findings.map (·.target) = [200, 100] ∧
    (scanTail ⟨[], [], [], [], [], [], [tieA, tieB]⟩).findings.map sortKey =
      (scanTail ⟨[], [], [], [], [], [], [tieB, tieA]⟩).findings.map sortKey := by
  refine ⟨by decide, by decide, by decide⟩

/-- The emitted plugin statuses are sorted by name (bytewise) and are a permutation of the collected ones
(definitional for the model, see the header; several roots give several entries with one name: ties). -/
theorem C08_status_sorted (i : ScanIn) :
    (scanTail i).pluginStatus.Pairwise (fun a b => ltBytes (nameBytes b.name) (nameBytes a.name) = false) ∧
    (scanTail i).pluginStatus.Perm (collectedStatus i) := by
  unfold scanTail collectedStatus
  exact ⟨isort_sorted_of_key ltBytes_strictTotal (fun (s : Status) => nameBytes s.name) _, isort_perm _ _⟩

/-- … and the emitted NAME sequence is the sorted sequence of the collected names. -/
theorem C08_status_name_sequence (i : ScanIn) :
    (scanTail i).pluginStatus.map (fun (s : Status) => nameBytes s.name) =
      isort ltBytes ((collectedStatus i).map fun (s : Status) => nameBytes s.name) := by
  unfold scanTail collectedStatus
  exact isort_map ltBytes (fun (s : Status) => nameBytes s.name) _

/-! ### the prefix case, concretely (bytes of "CVE-2024-1234", "CVE-2024-12345", and ':' = 58) -/

def refShort : List Nat := [67, 86, 69, 45, 50, 48, 50, 52, 45, 49, 50, 51, 52]
def refLong : List Nat := refShort ++ [53]

/-- A reference that is a proper prefix of another sorts FIRST, whatever the Extras are. -/
theorem C08_prefix_reference_first (e₁ e₂ : List Nat) : keyLt (refShort, e₁) (refLong, e₂) = true := by
  rw [C08_cmp_findings_fields]
  have : ltBytes refShort refLong = true := by decide
  simp [this]

/-- Sharpness: comparing ONE concatenated key `reference ++ ":" ++ extra` is a different order — it puts
the longer reference first because '5' (53) < ':' (58). -/
theorem C08_concatenated_key_differs :
    ltBytes (refLong ++ [58] ++ []) (refShort ++ [58] ++ []) = true ∧ keyLt (refLong, []) (refShort, []) = false := by
  refine ⟨by decide, by decide⟩

/-- non-vacuity: three findings of two detectors, prefix-related references, come out in key order -/
example :
    let f := fun (p : Nat) (r e : List Nat) => (some (⟨p, some ⟨some (0, r), 0⟩, p, e, []⟩ : Finding))
    let ds : List Detector := [⟨"b", fun _ => ([f 1 refLong [], f 2 refShort [49]], false), false⟩,
                               ⟨"a", fun _ => ([f 3 refShort []], false), false⟩]
    ((scanTail ⟨[], [], [], [], [], [], ds⟩).findings.map (·.ptr)) = [3, 2, 1] := by decide

end Scalibr.Detector
