/-
C04 — Each image-up-to-layer view equals the OCI overlay of its layers.
Property theorems only; helper lemmas live in `Scalibr.Proofs.Overlay*`.

Full-strength statement (`C04_view`): for every image, every view `j` and every path `q`,
`obsOf ((viewOf layers j).get q) = obsOf ((specView layers j).get q)` — kind, mode, size, content id, link target.
The unchanged code does not satisfy it (`C04_view_fails_*` below: one `decide`d counterexample per class), so the
theorem in force is `C04_view_partial`, under the decidable hypothesis `H` (`Spec/Overlay.lean`) whose clauses are
exactly the class predicates of the known findings plus well-formedness of a single tar:
  * `freshB`          — finding 29 (a whiteout or file for a path created earlier in the same tar is dropped; a directory's
                        own entry after its contents is honoured since fix ac5627f0) / finding C04/same-layer-duplicate-first-wins
                        (a member name listed twice: the first entry counts, a tar extraction leaves the last; witness
                        `C04_view_fails_duplicate`; the stream judges these views against the overlay of the tars with the
                        repeats left out, `dedupFirst`, wherever `H` holds for that reading — no theorem for that step)
  * `noUnderBlocker`  — finding 30 (whiteout + re-creation in one tar) / entries below a non-directory
  * `noOpaque`        — finding 12 (opaque whiteouts hide nothing)
  * `noRecreateAt`    — finding 10 (deleted, re-created later, lower children reappear)
  * `noImplicitOverExplicitAt` — new: a directory a layer only implies loses the metadata of the lower layer's entry
  * (driver clause `rejected-shadow` / `rejected-parents`, Spec/OverlayRejected.lean) — an entry the loader cannot expose
    (regular file of MaxFileBytes or more, symbolic link out of the root) is read by the specification as a whiteout of its
    path; the loader leaves no node and the older object shows through: finding C04/rejected-entry-shows-older-file,
    witness `C04_view_fails_rejected`, bridge `C04_view_rejected_partial`

Audit-1 notes.
* `C04_squash` ("the squashed on-disk unpacking holds the regular files of the final view") has NO theorem: the unpack
  model (`Model/Unpack.lean`) and this model share no lemma.  It is a run-time comparison in the C04 stream (field
  `squash=` of c04gen: `unpack.UnpackSquashed` of the same image vs the final view, judged where `H` holds and the image
  has no links/fifos); two classes where it fails are recorded findings (C04/squash-*).
* Audit-2: the requirer clause is `C04_required_view` (declarative: `RequiredView`, `Needed`, `Reach` in
  Spec/OverlayRequired.lean, which no longer mentions the model) with `C04_required_unique`; `C04_required` (model =
  executable specification) is proved through `mem_chase_iff_Reach`, not `rfl`.
* `H` is sufficient, not necessary: `noRecreateAt` and `noImplicitOverExplicitAt` are syntactic over-approximations of
  their defect classes (they ignore an intervening deletion); for the opaque marker there is only the negative theorem
  `C04_view_fails_opaque` — the code has no opaque handling to prove anything positive about.  The evidence reports how
  many generated images satisfy `H`; a quarter of the stream is built to satisfy it.
* `C04_readdir_partial` / `C04_walk_partial` are congruence corollaries by design: `FS.ReadDir` and `fs.WalkDir` read the
  tree only through `Get`/`GetChildren`, which the model renders as `t.get` over the candidate paths `U`; that rendering
  (and `walk`'s fuel: the depth of `U` plus 2) is validated by the correspondence stream, not proved.
* Content: `Obs.file` carries the content id of the tar entry; that the bytes behind a node are the entry's bytes is
  checked through the modelled extraction directory by the stream only (driver flag `bigDup` marks the one way it fails:
  a size-rejected entry followed by an accepted entry of the same name in one tar — ill-formed, no theorem).
-/
import Scalibr.Proofs.OverlayView
import Scalibr.Proofs.OverlayLoad
import Scalibr.Model.OverlayImage
import Scalibr.Proofs.OverlayImage
import Scalibr.Spec.OverlayRequired
import Scalibr.Proofs.OverlayRequired
import Scalibr.Spec.OverlayRejected
namespace Scalibr.Overlay

/-- **C04, partial form.** For every image, view `j` and path: when `H` holds for the layers of the view, what the
loader's view answers at the path (absent / directory with mode / file with mode, size, content / symlink with mode,
target) is what the OCI visibility rule says. No bound on layers, entries or depth. -/
theorem C04_view_partial (layers : List Layer) (j : Nat) (h : H layers j = true) (q : Path) :
    obsOf ((viewOf layers j).get q) = obsOf ((specView layers j).get q) := by
  unfold H layersNewestFirst at h
  have hprov : Prov (rootTree j) [] := by
    intro q hq n hn _; simp [rootTree, hq] at hn
  have hvirt : ∀ q n, (rootTree j).get q = some n → n.virt = true → j + 1 ≤ n.layer := by
    intro q n hn hv
    unfold rootTree at hn
    simp only at hn
    split at hn
    · simp at hn; subst hn; simp [rootNode] at hv
    · cases hn
  obtain ⟨hroot, hq'⟩ := view_gen layers (j+1) [] (rootTree j) hprov hvirt h
  unfold viewOf specView
  by_cases hq : q = []
  · subst hq; rw [hroot]; simp [rootTree, rootNode, implDir, obsOf, Node.obs]
  · rw [hq' q hq]
    have hnone : (rootTree j).get q = none := by simp [rootTree, hq]
    have hw : inWhDir (rootTree j) q = false := by
      rw [inWhDir_false_iff]; intro d _
      unfold blocksAt rootTree
      by_cases hd : d = [] <;> simp [hd, rootNode, Node.blocks]
    simp [hnone, hw, hq]

/-- The literal lock-step loader (`loadCore`, the Go loops) computes exactly these views, for every image. -/
theorem C04_loader_views (layers : List Layer) (j : Nat) (hj : j < layers.length) :
    (loadCore layers).getD j emptyTree = viewOf layers j :=
  loadCore_eq_viewOf layers j hj

/-- `C04_view_partial` for the trees the lock-step loader builds. -/
theorem C04_loader_partial (layers : List Layer) (j : Nat) (hj : j < layers.length) (h : H layers j = true) (q : Path) :
    obsOf (((loadCore layers).getD j emptyTree).get q) = obsOf ((specView layers j).get q) := by
  rw [C04_loader_views layers j hj]; exact C04_view_partial layers j h q

/-- **The same for what `image.FromV1Image` is modelled by end to end** (`loadImage`: acceptance verdicts, extraction
directory, load errors): whenever the load succeeds, chain layer `j` answers every path as the OCI rule does on the
node-creating entries, under `H`.  (Audit-1: this is the missing `loadImage`/`loadCore` link.  Name cleaning,
`.wh.` parsing and the size / link rejections — `normEntry`, `classify` — are a pre-pass shared by model and
specification: the property speaks about tar *entries*, and which headers count as entries of which path is fixed by
that pre-pass and validated by the correspondence stream only.) -/
theorem C04_image_partial (limit : Nat) (layers : List (List PEntry)) (c : List Tree) (ds : List (Nat × Disk))
    (hload : loadImage limit layers = some (c, ds)) (j : Nat) (hj : j < layers.length)
    (h : H (layers.map effective) j = true) (q : Path) :
    obsOf ((c.getD j emptyTree).get q) = obsOf ((specView (layers.map effective) j).get q) := by
  rw [loadImage_chains limit layers c ds hload]
  exact C04_loader_partial _ j (by simpa using hj) h q

/-! ### whiteout-free images (the fragment of the design probe A.9, now with modes, symlinks and file-over-directory) -/

def noWhiteouts (layers : List Layer) : Bool := layers.all fun l => l.all fun e => !e.wh

/-- `H` without the clause about opaque markers -/
def HnoWh : List Layer → List Layer → Bool
  | _, [] => true
  | later, l :: older =>
    layerOK l && noRecreateAt later l older && noImplicitOverExplicitAt l older && HnoWh (l :: later) older

theorem Hfrom_of_noWh : ∀ (ls later : List Layer), (∀ l ∈ ls, ∀ e ∈ l, e.wh = false) → HnoWh later ls = true →
    Hfrom later ls = true := by
  intro ls
  induction ls with
  | nil => intro _ _ _; rfl
  | cons l older ih =>
    intro later hnw h
    simp only [HnoWh, Bool.and_eq_true] at h
    obtain ⟨⟨⟨h1, h2⟩, h3⟩, h4⟩ := h
    have hno : noOpaque l = true := by
      unfold noOpaque Entry.isOpq
      rw [List.all_eq_true]; intro e he; simp [hnw l (by simp) e he]
    simp only [Hfrom, Bool.and_eq_true]
    exact ⟨⟨⟨⟨h1, hno⟩, h2⟩, h3⟩, ih (l :: later) (fun l' hl' => hnw l' (by simp [hl'])) h4⟩

/-- **Whiteout-free images**: every view of every image without whiteout entries whose tars are well formed (no
duplicate / out-of-order names, nothing below a non-directory) and which does not re-create a replaced directory
over older children is the overlay of its layers. -/
theorem C04_view_nowhiteout_partial (layers : List Layer) (j : Nat)
    (hnw : ∀ l ∈ layersNewestFirst layers j, ∀ e ∈ l, e.wh = false)
    (h : HnoWh [] (layersNewestFirst layers j) = true) (q : Path) :
    obsOf ((viewOf layers j).get q) = obsOf ((specView layers j).get q) :=
  C04_view_partial layers j (Hfrom_of_noWh _ [] hnw h) q

/-! ### directory listings and walks -/

theorem shown_iff (o : Option Node) : shown o = true ↔ obsOf o ≠ .absent := by
  cases o with
  | none => simp [shown, obsOf]
  | some n =>
    rcases n with ⟨kind, wh, mode, size, cid, target, layer⟩
    cases kind <;> cases wh <;> simp [shown, obsOf, Node.obs]

theorem readDir_congr (U : List Path) (t t' : Tree) (d : Path)
    (h : ∀ c, obsOf (t.get c) = obsOf (t'.get c)) : readDir U t d = readDir U t' d := by
  unfold readDir
  apply List.filter_congr
  intro c _
  rw [Bool.eq_iff_iff, shown_iff, shown_iff, h c]

/-- **Directory listings**: `ReadDir(d)` of a view lists exactly the children the specification has at `d`
(over any finite universe `U` of candidate paths), under `H`. -/
theorem C04_readdir_partial (layers : List Layer) (j : Nat) (h : H layers j = true) (U : List Path) (d : Path) :
    readDir U (viewOf layers j) d = readDir U (specView layers j) d :=
  readDir_congr U _ _ d (C04_view_partial layers j h)

def isDirObs : Obs → Bool
  | .dir _ => true
  | _ => false

/-- one step of the walk only looks at what the view shows at the child -/
theorem walkStep_obs (W : Path → List Path) (o : Option Node) (c : Path) :
    walkStep W o c = (if obsOf o = .absent then [] else c :: (if isDirObs (obsOf o) then W c else [])) := by
  cases o with
  | none => simp [walkStep, obsOf]
  | some n =>
    rcases n with ⟨kind, wh, mode, size, cid, target, layer⟩
    cases kind <;> cases wh <;> simp [walkStep, obsOf, Node.obs, isDirObs]

theorem walk_congr (U : List Path) (t t' : Tree) (h : ∀ c, obsOf (t.get c) = obsOf (t'.get c)) :
    ∀ (f : Nat) (d : Path), walk U t f d = walk U t' f d := by
  intro f
  induction f with
  | zero => intro d; rfl
  | succ f ih =>
    intro d
    simp only [walk]
    congr 1
    funext c
    rw [walkStep_obs (walk U t f), walkStep_obs (walk U t' f), h c, ih]

/-- **Tree walks**: `fs.WalkDir` over a view visits exactly the paths it visits over the specification. -/
theorem C04_walk_partial (layers : List Layer) (j : Nat) (h : H layers j = true) (U : List Path) (f : Nat) (d : Path) :
    walk U (viewOf layers j) f d = walk U (specView layers j) f d :=
  walk_congr U _ _ (C04_view_partial layers j h) f d

/-! ### the requirer (final view) -/

/-- **Restriction to required files changes nothing except that non-required files are absent**: the view the loader
model prunes (`pruneFinal`: marks the paths listed by walking every required link, `neededSet`/`chase`) is the view the
specification describes (`specRequired`, Spec/OverlayRequired.lean: keeps a node when it is a directory, a whiteout
record or `neededB`, a yes/no test that lists nothing).  For every tree, requirer, depth and universe.  The content is
`mem_chase_iff_Reach`: the list built by the model's walk holds exactly the paths the relation `Reach` names. -/
theorem C04_required (U : List Path) (req : Path → Bool) (depth : Nat) (t : Tree) :
    pruneFinal U req depth t = specRequired U req depth t := by
  apply Tree.ext'
  intro q
  show (match t.get q with
        | some n => if n.kind = Kind.dir || n.wh || req q || (neededSet U t req depth).contains q then some n else none
        | none => none) =
       (match t.get q with
        | some n => if n.kind == Kind.dir || n.wh || neededB U t req depth q then some n else none
        | none => none)
  cases t.get q with
  | none => rfl
  | some n =>
    dsimp only
    rw [← keep_eq U t req depth q]
    have e : (decide (n.kind = Kind.dir) || n.wh || req q || (neededSet U t req depth).contains q)
        = ((n.kind == Kind.dir) || n.wh || (req q || (neededSet U t req depth).contains q)) := by
      rw [Bool.or_assoc (decide (n.kind = Kind.dir) || n.wh)]
      cases n.kind <;> rfl
    rw [e]

/-- **the clause as a statement about paths**: the pruned final view `r` of `t` has at `q` the node `t` has there, and
has one exactly when that node is a directory, a whiteout record, or `q` is needed: required, or reached from a required
symbolic link of `U` in at most `depth` hops (`Needed`, `Reach`: declarative, no walk, no list) -/
theorem C04_required_view (U : List Path) (req : Path → Bool) (depth : Nat) (t : Tree) :
    RequiredView U req depth t (pruneFinal U req depth t) := by
  intro q n
  rw [C04_required]
  show (match t.get q with
        | some n => if n.kind == Kind.dir || n.wh || neededB U t req depth q then some n else none
        | none => none) = some n ↔ _
  cases hg : t.get q with
  | none => simp
  | some m =>
    dsimp only
    have hk : (m.kind == Kind.dir || m.wh || neededB U t req depth q) = true ↔
        (m.kind = Kind.dir ∨ m.wh = true ∨ Needed U t req depth q) := by
      rw [Bool.or_eq_true, Bool.or_eq_true, beq_iff_eq, neededB_iff_Needed, or_assoc]
    constructor
    · intro h
      split at h
      · rename_i hc
        cases h
        exact ⟨rfl, hk.1 hc⟩
      · cases h
    · rintro ⟨he, hc⟩
      cases he
      rw [if_pos (hk.2 hc)]

/-- a view is determined by `RequiredView`: the clause has one solution, the model's -/
theorem C04_required_unique (U : List Path) (req : Path → Bool) (depth : Nat) (t r : Tree)
    (h : RequiredView U req depth t r) : r = pruneFinal U req depth t := by
  apply Tree.ext'
  intro q
  have hm := C04_required_view U req depth t
  cases hr : r.get q with
  | some n => exact ((hm q n).2 ((h q n).1 hr)).symm
  | none =>
    cases hp : (pruneFinal U req depth t).get q with
    | none => rfl
    | some n => rw [(h q n).2 ((hm q n).1 hp)] at hr; cases hr

/-- the universe `U` only has to list the links: when it does, "needed" is the universe-free notion -/
theorem C04_required_universe (U : List Path) (req : Path → Bool) (depth : Nat) (t : Tree) (q : Path)
    (hU : ∀ s n, t.get s = some n → n.kind = .link → s ∈ U) :
    Needed U t req depth q ↔ NeededAny t req depth q := by
  unfold Needed NeededAny
  constructor
  · rintro (h | ⟨s, n, _, hl, hr⟩)
    · exact Or.inl h
    · exact Or.inr ⟨s, n, hl, hr⟩
  · rintro (h | ⟨s, n, hl, hr⟩)
    · exact Or.inl h
    · exact Or.inr ⟨s, n, hU s n hl.1 hl.2.1, hl, hr⟩

/-- the same, spelled out per path, on the model's own marking -/
theorem C04_required_get (U : List Path) (req : Path → Bool) (depth : Nat) (t : Tree) (q : Path) :
    (pruneFinal U req depth t).get q =
      match t.get q with
      | some n => if n.kind = .dir || n.wh || req q || (neededSet U t req depth).contains q then some n else none
      | none => none := rfl

/-- nothing is invented or altered -/
theorem C04_required_subset (U : List Path) (req : Path → Bool) (depth : Nat) (t : Tree) (q : Path) (n : Node)
    (h : (pruneFinal U req depth t).get q = some n) : t.get q = some n := by
  rw [C04_required_get] at h
  cases hg : t.get q with
  | none => rw [hg] at h; cases h
  | some m =>
    rw [hg] at h
    simp only at h
    split at h
    · exact h
    · cases h

/-! ### the full statement fails on the unchanged code: one witness per class (replayed on the implementation from
`corpus/C04/`) -/

def dE (p : Path) (m : Nat := 0o755) : Entry := ⟨p, .dir, false, m, 0, 0, []⟩
def fE (p : Path) (c : Nat := 1) : Entry := ⟨p, .file, false, 0o644, 1, c, []⟩
def wE (p : Path) : Entry := ⟨p, .file, true, 0, 0, 0, []⟩

/-- finding 10: `d/foo` deleted in layer 1, re-created in layer 2: layer 0's `d/foo/old` is back in view 2 -/
def ex10 : List Layer :=
  [[dE ["d"], dE ["d","foo"], fE ["d","foo","old"]], [dE ["d"], wE ["d","foo"]], [dE ["d"], dE ["d","foo"], fE ["d","foo","new"]]]
theorem C04_view_fails_recreate :
    obsOf ((viewOf ex10 2).get ["d","foo","old"]) ≠ obsOf ((specView ex10 2).get ["d","foo","old"]) := by decide

/-- finding 12: the opaque marker `d/.wh..wh..opq` hides nothing -/
def ex12 : List Layer := [[dE ["d"], fE ["d","x"]], [dE ["d"], wE ["d",".wh..opq"], fE ["d","keep"]]]
theorem C04_view_fails_opaque :
    obsOf ((viewOf ex12 1).get ["d","x"]) ≠ obsOf ((specView ex12 1).get ["d","x"]) := by decide

/-- finding 29: `a/.wh.b` creates `a` implicitly, the following `.wh.a` is dropped: `a` survives -/
def ex29 : List Layer := [[dE ["a"], fE ["a","b"]], [wE ["a","b"], wE ["a"]]]
theorem C04_view_fails_dropped_entry :
    obsOf ((viewOf ex29 1).get ["a"]) ≠ obsOf ((specView ex29 1).get ["a"]) := by decide

/-- finding 29 in its mildest form, REPAIRED (fix ac5627f0): `a/y` precedes the tar's own entry for `a`; the entry now
overwrites the made-up node (mode 0700), and the tar satisfies `H` -/
def ex29b : List Layer := [[fE ["a","y"], dE ["a"] 0o700]]
example : obsOf ((viewOf ex29b 0).get ["a"]) = .dir 0o700 ∧ H ex29b 0 = true := by decide

/-- finding 30: whiteout and re-creation of `a/b` in one tar: the new `a/b/new` is hidden by its own layer's whiteout -/
def ex30 : List Layer := [[dE ["a"], dE ["a","b"], fE ["a","b","old"]], [dE ["a"], wE ["a","b"], dE ["a","b"], fE ["a","b","new"]]]
theorem C04_view_fails_wh_recreate :
    obsOf ((viewOf ex30 1).get ["a","b","new"]) ≠ obsOf ((specView ex30 1).get ["a","b","new"]) := by decide

/-- new: layer 1 lists `a/y` without an entry for `a`: view 1 reports `a` with mode 0 instead of layer 0's 0755 -/
def exImpl : List Layer := [[dE ["a"], fE ["a","x"]], [fE ["a","y"]]]
theorem C04_view_fails_implicit_dir :
    obsOf ((viewOf exImpl 1).get ["a"]) ≠ obsOf ((specView exImpl 1).get ["a"]) := by decide

/-- duplicate member names: `a/x` twice in the tar of layer 1; applying the tar leaves the second entry, the loader keeps
the first (known finding C04/same-layer-duplicate-first-wins) -/
def exDup : List Layer := [[dE ["a"], fE ["a","x"] 1], [dE ["a"], fE ["a","x"] 2, ⟨["a","x"], .file, false, 0o600, 2, 3, []⟩]]
theorem C04_view_fails_duplicate :
    obsOf ((viewOf exDup 1).get ["a","x"]) ≠ obsOf ((specView exDup 1).get ["a","x"]) := by decide

/-- ... and what the loader shows there is the overlay of the tars with the repeated entry left out, for which `H` holds -/
theorem C04_duplicate_first_wins_witness :
    failingOf exDup 1 = ["ill-dup"] ∧ H (exDup.map (dedupFirst [])) 1 = true ∧
    obsOf ((viewOf exDup 1).get ["a","x"]) = obsOf ((specView (exDup.map (dedupFirst [])) 1).get ["a","x"]) := by decide

/-- an entry the loader rejects (size limit: C10 forbids showing it; symbolic link out of the root): the specification reads
it as a whiteout of its path (`specEffective`), the loader drops it (`effective`).  Layer 1 replaces `a` by a file of
MaxFileBytes or more: view 1 has no `a` (since fix <P3>; before, layer 0's `a` showed through) -/
def exRej : List (List PEntry) :=
  [[⟨fE ["a"] 1, ["a"], .accept⟩], [⟨⟨["a"], .file, false, 0o644, 100, 2, []⟩, ["a"], .big⟩]]
theorem C04_view_rejected_fixed :
    obsOf ((viewOf (exRej.map effective) 1).get ["a"]) = .absent ∧
    obsOf ((specView (exRej.map specEffective) 1).get ["a"]) = .absent := by decide

/-- **C04 with rejected entries, partial form**: where `H` holds and reading the rejected entries as whiteouts changes
nothing in view `j` (decided by the driver path by path; it is so whenever no rejected entry has anything older, or of its
own archive, at or beneath its path), the loader's view is the view of the specification's reading. -/
theorem C04_view_rejected_partial (chain : List (List PEntry)) (j : Nat) (h : H (chain.map effective) j = true)
    (hr : ∀ q, obsOf ((specView (chain.map effective) j).get q) = obsOf ((specView (chain.map specEffective) j).get q)) (q : Path) :
    obsOf ((viewOf (chain.map effective) j).get q) = obsOf ((specView (chain.map specEffective) j).get q) := by
  rw [C04_view_partial _ j h q]; exact hr q

/-- the clauses of `H` each witness violates (29 and 30 necessarily overlap: both need a path mentioned twice in one tar) -/
theorem C04_witness_classes :
    failingOf ex10 2 = ["recreate"] ∧ failingOf ex12 1 = ["opaque"] ∧
    failingOf ex29 1 = ["dropped-entry", "wh-recreate", "implicit-dir"] ∧
    failingOf ex30 1 = ["dropped-entry", "wh-recreate"] ∧ failingOf exImpl 1 = ["implicit-dir"] := by decide

/-! ### non-vacuity: a three-layer image with explicit parents, a deletion two levels above a file, a file replacing a
directory and a symlink satisfies `H` for every view, and its views are not trivial -/
def exOK : List Layer :=
  [ [dE ["a"], dE ["a","b"], fE ["a","b","c"], dE ["e"], fE ["e","f"]],
    [dE ["a"], wE ["a","b"], ⟨["e"], .link, false, 0o777, 0, 0, ["a"]⟩],
    [dE ["a"], fE ["a","n"] 7, dE ["g"] 0o700] ]
example : H exOK 0 = true ∧ H exOK 1 = true ∧ H exOK 2 = true := by decide
example : obsOf ((viewOf exOK 2).get ["a","b","c"]) = .absent ∧ obsOf ((viewOf exOK 2).get ["e","f"]) = .absent ∧
    obsOf ((viewOf exOK 2).get ["e"]) = .link 0o777 ["a"] ∧ obsOf ((viewOf exOK 2).get ["a","n"]) = .file 0o644 1 7 ∧
    obsOf ((viewOf exOK 0).get ["a","b","c"]) = .file 0o644 1 1 := by decide
example : HnoWh [] (layersNewestFirst [[dE ["a"], fE ["a","x"]], [fE ["a"] 2]] 1) = true := by decide

end Scalibr.Overlay
