/-
C18 — consequences of `C18_range_decl` that a user of guided remediation relies on directly: the three sentences of the
property text read off the order-free specification, for EVERY well-formed range in any listing order, any number of
events, events sharing versions included. Helper lemmas are local and private; nothing here weakens `C18.lean`.
-/
import Scalibr.Properties.C18
namespace Scalibr.Vulns

private theorem osvDecl_false_of (es : List Ev) (q : Nat)
    (h : ∀ i ∈ es, i.k = .intro → i.v ≤ q →
      ∃ c ∈ es, (c.k = .fixed ∧ i.v < c.v ∧ c.v ≤ q) ∨ (c.k = .last ∧ i.v ≤ c.v ∧ c.v < q)) :
    osvDecl es q = false := by
  unfold osvDecl
  rw [List.any_eq_false]
  intro i hi
  by_cases hk : i.k = .intro
  · by_cases hv : i.v ≤ q
    · obtain ⟨c, hc, hcl⟩ := h i hi hk hv
      have : (es.any fun c => (c.k = .fixed && i.v < c.v && c.v ≤ q) || (c.k = .last && i.v ≤ c.v && c.v < q)) = true := by
        rw [List.any_eq_true]
        refine ⟨c, hc, ?_⟩
        rcases hcl with ⟨a, b, d⟩ | ⟨a, b, d⟩ <;> simp [a, b, d]
      simp [this]
    · simp [hv]
  · simp [hk]

private theorem osvDecl_true_of (es : List Ev) (q : Nat) (i : Ev) (hi : i ∈ es) (hk : i.k = .intro) (hv : i.v ≤ q)
    (h : ∀ c ∈ es, ¬ (c.k = .fixed ∧ i.v < c.v ∧ c.v ≤ q) ∧ ¬ (c.k = .last ∧ i.v ≤ c.v ∧ c.v < q)) :
    osvDecl es q = true := by
  unfold osvDecl
  rw [List.any_eq_true]
  refine ⟨i, hi, ?_⟩
  have : (es.any fun c => (c.k = .fixed && i.v < c.v && c.v ≤ q) || (c.k = .last && i.v ≤ c.v && c.v < q)) = false := by
    rw [List.any_eq_false]
    intro c hc
    have ⟨h1, h2⟩ := h c hc
    simp only [Bool.or_eq_true, Bool.and_eq_true, decide_eq_true_eq, not_or]
    exact ⟨fun ⟨⟨a, b⟩, d⟩ => h1 ⟨a, b, d⟩, fun ⟨⟨a, b⟩, d⟩ => h2 ⟨a, b, d⟩⟩
  simp [this, hk, hv]

/-- **A version below every `introduced` event is not affected** by the range. -/
theorem C18_before_introduced (es : List Ev) (q : Nat) (hw : WF es = true)
    (h : ∀ i ∈ es, i.k = .intro → q < i.v) : rangeDecision es q = false := by
  rw [C18_range_decl es q hw]
  apply osvDecl_false_of
  intro i hi hk hv
  exact absurd (h i hi hk) (by omega)

/-- **Upgrading to a `fixed` version (or past it) fixes**: a version at or above a `fixed` event, with no `introduced`
event between that `fixed` event and the version (both ends included), is not affected. -/
theorem C18_at_or_after_fixed (es : List Ev) (q : Nat) (hw : WF es = true) (f : Ev) (hf : f ∈ es) (hk : f.k = .fixed)
    (hq : f.v ≤ q) (h : ∀ i ∈ es, i.k = .intro → ¬ (f.v ≤ i.v ∧ i.v ≤ q)) : rangeDecision es q = false := by
  rw [C18_range_decl es q hw]
  apply osvDecl_false_of
  intro i hi hik hv
  refine ⟨f, hf, Or.inl ⟨hk, ?_, hq⟩⟩
  have := h i hi hik
  omega

/-- **Past a `last_affected` version is safe**: a version strictly above a `last_affected` event, with no `introduced`
event strictly above that event and at or below the version, is not affected. -/
theorem C18_after_last_affected (es : List Ev) (q : Nat) (hw : WF es = true) (l : Ev) (hl : l ∈ es) (hk : l.k = .last)
    (hq : l.v < q) (h : ∀ i ∈ es, i.k = .intro → ¬ (l.v < i.v ∧ i.v ≤ q)) : rangeDecision es q = false := by
  rw [C18_range_decl es q hw]
  apply osvDecl_false_of
  intro i hi hik hv
  refine ⟨l, hl, Or.inr ⟨hk, ?_, hq⟩⟩
  have := h i hi hik
  omega

/-- **The version that introduces the vulnerability is itself affected** — whatever else the range lists (a `fixed` or
`last_affected` event on the same version included: `fixed X, introduced X` are adjacent intervals, and
`introduced X, last_affected X` is exactly the version X). -/
theorem C18_introduced_version_affected (es : List Ev) (hw : WF es = true) (i : Ev) (hi : i ∈ es) (hk : i.k = .intro) :
    rangeDecision es i.v = true := by
  rw [C18_range_decl es i.v hw]
  apply osvDecl_true_of es i.v i hi hk (Nat.le_refl _)
  intro c _
  constructor <;> (rintro ⟨_, a, b⟩; omega)

/-- **Inside an interval**: between an `introduced` event and the version, if no event of any kind lies strictly between
the opening and the version and none closes AT the version (`fixed` at the version) or at the opening
(`last_affected` at the opening, for a later version), the version is affected. -/
theorem C18_inside_interval (es : List Ev) (q : Nat) (hw : WF es = true) (i : Ev) (hi : i ∈ es) (hk : i.k = .intro)
    (hv : i.v ≤ q) (h : ∀ c ∈ es, c.k ≠ .intro → ¬ (i.v ≤ c.v ∧ c.v ≤ q) ∨ (c.k = .last ∧ c.v = q) ∨ (c.k = .fixed ∧ c.v = i.v)) :
    rangeDecision es q = true := by
  rw [C18_range_decl es q hw]
  apply osvDecl_true_of es q i hi hk hv
  intro c hc
  constructor
  · rintro ⟨a, b, d⟩
    rcases h c hc (by simp [a]) with x | ⟨x, _⟩ | ⟨_, x⟩
    · omega
    · rw [a] at x; cases x
    · omega
  · rintro ⟨a, b, d⟩
    rcases h c hc (by simp [a]) with x | ⟨_, x⟩ | ⟨x, _⟩
    · omega
    · omega
    · rw [a] at x; cases x

/-! non-vacuity: a well-formed range with two intervals and a tie, and each theorem's premises met on it -/
def exRange : List Ev := [⟨.fixed, 5⟩, ⟨.intro, 2⟩, ⟨.intro, 5⟩, ⟨.last, 8⟩, ⟨.intro, 12⟩]
example : WF exRange = true := by decide
example : rangeDecision exRange 1 = false ∧ rangeDecision exRange 2 = true ∧ rangeDecision exRange 5 = true ∧
    rangeDecision exRange 8 = true ∧ rangeDecision exRange 9 = false ∧ rangeDecision exRange 12 = true := by decide
example : ∀ i ∈ exRange, i.k = .intro → 1 < i.v := by decide
example : ∀ i ∈ exRange, i.k = .intro → ¬ ((8 : Nat) < i.v ∧ i.v ≤ 11) := by decide

end Scalibr.Vulns
