/-
C01 — Every required file is extracted exactly once, and nothing else is.
Property theorems only (model: Model/Walk.lean, specification: Spec/Walk.lean).
`Benign c` = no inode limit, no cancellation, filesystem errors not fatal, extractors do not panic
(C09 / C10 / C02 cover the other configurations); `GiOK c` = the gitignore matcher obeys go-git's
domain rule (a pattern set parsed for directory d only matches paths strictly below d).
All statements hold for every forest, every fault plan and every combination of the scan options.
-/
import Scalibr.Proofs.WalkTop
import Scalibr.Proofs.WalkMore
import Scalibr.Model.Gitignore
import Scalibr.Proofs.WalkSubdir
namespace Scalibr.Walk

/-- The extraction attempts of a scan are exactly the ones the specification lists — as a list: in
enumeration order, each with its multiplicity — and the scan succeeds. `Extract` itself runs for the
attempts whose file can be opened (`opened`). -/
theorem C01_calls (c : Cfg) (hb : Benign c) (roots : List (Node × Faults)) (ho : GiOK c) :
    (run c roots).err = .none ∧ (run c roots).calls = mustExtract c roots :=
  run_spec c hb roots ho

/-- "Exactly once": on trees whose directories list distinct names, no (extractor, file) pair is owed —
hence, by `C01_calls`, attempted — twice within one walk. -/
theorem C01_once (c : Cfg) (f : Faults) (above : List GiEntry) (p : Path) (n : Node) (h : DistinctNames n) :
    (mustFrom c f above p n).Nodup :=
  mustFlat_nodup c f above p [] n h

/-- "and on no other file": every owed attempt is for a regular file (or a symlink when symlink reading
is on) that the extractor requires, that no configured rule excludes, and that is within the size limit. -/
theorem C01_only_required (c : Cfg) (f : Faults) (above : List GiEntry) (r : FileRec) (cl : Call)
    (h : cl ∈ mustOne c f above r) :
    cl.path = r.path ∧ c.required cl.ext r.path = true ∧ reached c f above r = true ∧ sizeOk c f r = true := by
  unfold mustOne at h
  split at h
  · rename_i hc
    simp only [Bool.and_eq_true] at hc
    simp only [List.mem_map, List.mem_filter] at h
    obtain ⟨e, ⟨_, hreq⟩, rfl⟩ := h
    exact ⟨rfl, hreq, hc.1, hc.2⟩
  · simp at h

/-- The size limit is shared: a file above the limit reaches NO extractor, not just the first one. -/
theorem C01_limit_shared (c : Cfg) (f : Faults) (above : List GiEntry) (r : FileRec)
    (hm : c.maxFileSize > 0) (hs : r.size > c.maxFileSize) : mustOne c f above r = [] := by
  unfold mustOne sizeOk; simp [hm, hs]

/-- The reported inventory is exactly the union of what the `Extract` invocations returned, each
package attributed to the extractor and file that produced it — in every configuration in which the
scan does not fail (limits, faults and cancellation included). -/
theorem C01_inv (c : Cfg) (hx : NoExtractorPanic c) (roots : List (Node × Faults))
    (hok : (run c roots).err = .none) : (run c roots).pkgs = pkgsOfCalls c (run c roots).calls := by
  unfold run at *
  exact runRoots_pkgs c hx roots _ [] [] (by simp [pkgsOfCalls]) hok

/-- … and in a benign scan that inventory is determined by the specification alone. -/
theorem C01_inv_spec (c : Cfg) (hb : Benign c) (roots : List (Node × Faults)) (ho : GiOK c) :
    (run c roots).pkgs = pkgsOfCalls c (mustExtract c roots) :=
  (run_results c hb roots ho).1

/-- Sub-directory equivalence (specification level): on a tree with distinct sibling names, in a
whole-tree configuration without the sub-directory cut-off, if the whole-tree scan reaches directory `d`
(every directory above it lets the walk through: `dirPasses` along the chain leading to `d`), then
requesting `d` explicitly owes exactly the whole-tree scan's attempts that lie under `d`, in order. -/
theorem C01_subdir_spec (c : Cfg) (hp : c.paths = []) (hisd : c.ignoreSubDirs = false) (f : Faults)
    (root : Node) (hdn : DistinctNames root) (d : Path) (gi : Option PatSet) (es : List (String × Node))
    (chain : List DirInfo) (hch : chainOf [] root d = some (chain, .dir gi es))
    (hreach : ∀ i, i < chain.length → dirPasses c f [] chain i = true)
    (hs0 : f.statFail [] = false) (hsd : f.statFail d = false) :
    mustRequested { c with paths := [d] } f root d = (mustRoot c f root).filter (fun cl => under d cl.path) :=
  mustRequested_subdir c hp hisd f root hdn d gi es chain hch hreach hs0 hsd

/-- … and for the engine: the scan that requests `d` makes exactly the attempts of the whole-tree scan
that lie under `d`. -/
theorem C01_subdir (c : Cfg) (hb : Benign c) (ho : GiOK c) (hp : c.paths = []) (hisd : c.ignoreSubDirs = false)
    (f : Faults) (root : Node) (hdn : DistinctNames root) (d : Path) (gi : Option PatSet) (es : List (String × Node))
    (chain : List DirInfo) (hch : chainOf [] root d = some (chain, .dir gi es))
    (hreach : ∀ i, i < chain.length → dirPasses c f [] chain i = true)
    (hs0 : f.statFail [] = false) (hsd : f.statFail d = false) :
    (run { c with paths := [d] } [(root, f)]).calls = (run c [(root, f)]).calls.filter (fun cl => under d cl.path) := by
  have hb' : Benign { c with paths := [d] } := hb
  have ho' : GiOK { c with paths := [d] } := ho
  rw [(run_spec _ hb' [(root, f)] ho').2, (run_spec c hb [(root, f)] ho).2]
  have := C01_subdir_spec c hp hisd f root hdn d gi es chain hch hreach hs0 hsd
  simp only [mustExtract, List.flatMap_cons, List.flatMap_nil, List.append_nil]
  rw [← this]
  simp [mustRoot]

/-- The concrete go-git matcher of the generated pattern sub-language satisfies the domain rule the
theorems rely on. -/
theorem C01_matcher_domainLaw : DomainLaw matcherMatch := matcherMatch_domain

/-- …and so does the matcher that answers from a table of the real go-git matcher's verdicts (full gitignore syntax:
globs, anchors, `**`, classes), whatever the table contains: all walk theorems cover such scans. -/
theorem C01_table_matcher_domainLaw (key : PatSet → Option String) (tbl : List (String × List String × Bool)) :
    DomainLaw (tableMatch key tbl) := tableMatch_domain key tbl

/-! Non-vacuity: a benign configuration with gitignore handling, a skip glob and a size limit, on a
tree with a nested `.gitignore`; both extractors are owed `a/x` once each, `a/b` is ignored. -/
def exCfg : Cfg where
  nExt := 2
  required := fun _ p => p.getLast? != some ".gitignore"
  extract := fun _ _ => {}
  glob := some fun p => p = ["skipme"]
  useGitignore := true
  maxFileSize := 10
  giMatch := matcherMatch
def exTree : Node :=
  .dir none [("a", .dir (some [⟨"b", false, false⟩]) [("x", .file .reg 3), ("b", .file .reg 3), (".gitignore", .file .reg 2)]),
             ("skipme", .dir none [("y", .file .reg 1)]), ("big", .file .reg 11)]
example : Benign exCfg := ⟨rfl, rfl, rfl, rfl, fun _ _ => rfl⟩
example : DistinctNames exTree := by simp [exTree, DistinctNames, DistinctNamesL]
theorem exGiOK : GiOK exCfg := matcherMatch_domain
example : (mustExtract exCfg [(exTree, {})]).map (fun cl => (cl.ext, cl.path)) = [(0, ["a", "x"]), (1, ["a", "x"])] := by decide
example : ((chainOf [] exTree ["a"]).map fun x => x.1.map (·.path)) = some [[]] := by decide
example : dirPasses exCfg {} [] [⟨[], none, 0⟩] 0 = true := by decide
example : (run exCfg [(exTree, {})]).calls = mustExtract exCfg [(exTree, {})] :=
  (C01_calls exCfg ⟨rfl, rfl, rfl, rfl, fun _ _ => rfl⟩ _ exGiOK).2

end Scalibr.Walk
