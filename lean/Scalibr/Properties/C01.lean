/-
C01 — Every required file is extracted exactly once, and nothing else is.
Property theorems only (model: Model/Walk.lean, specification: Spec/Walk.lean).
`GiOK c` = the gitignore matcher obeys go-git's domain rule (a pattern set parsed for directory d only
matches paths strictly below d).  All statements hold for every forest, every fault plan and every
combination of the scan options, within the stated configuration class.

NAMING AND CONFIGURATION CLASSES.  A theorem that holds only inside a class of configurations carries the class in its NAME
(`_benign`, `_fatalcfg`, `_limitcfg`, `_cancelcfg`): that is a restriction of the property's quantifier over configurations,
not a relabelling; `_partial` marks a hypothesis that narrows the quantifier over inputs (DistinctNames, one root, `paths = []`,
NoGiFaults, NoReadFaults).  Names without suffix hold for EVERY configuration (at most `NoExtractorPanic` / the matcher's domain law).
  * `Benign c` (no inode limit, no cancellation, `ErrorOnFSErrors` off, extractors do not panic): the EXACT
    theorems `C01_calls_benign`, `C01_inv_spec_benign`, `C01_once_run_partial`, `C01_subdir_partial`, `C01_requested_*` — the attempts are the
    specification's, as a list.
  * EVERY configuration (inode limit, size limit, cancellation before / inside any `Extract`, fatal errors,
    panicking extractors, and all their combinations): the invariant-style theorems `C01_only_required_run`,
    `C01_calls_are_files`, `C01_limit_shared_run`, `C01_limit_shared_step`, `C01_inv`.
  * The other exact classes are in C09 (`FatalCfg`: fatal errors; `C09_fatal_clean_fatalcfg`: fatal errors and no
    traversal fault = the benign scan; `C09_eofs_only_by_failing`: any configuration) and C10 (`LimitCfg`,
    `CancelCfg`, and `run_trace` for every non-fatal, non-panicking configuration).  Combinations limit+fatal,
    cancellation+fatal and any configuration with a panicking extractor have ONLY the invariant-style theorems
    (plus `C09_eofs_only_by_failing`, which reduces a fatal configuration that does not fail to its non-fatal twin).
Hypotheses that DO narrow the input carry the `_partial`-style caveat in their docstring: `DistinctNames`
(sibling names distinct — true of every real filesystem listing), one root, `paths = []`.
-/
import Scalibr.Proofs.WalkTop
import Scalibr.Proofs.WalkMore
import Scalibr.Model.Gitignore
import Scalibr.Proofs.WalkSubdir
import Scalibr.Proofs.WalkEngineInv
import Scalibr.Proofs.WalkOnce
import Scalibr.Proofs.WalkSubdirHyp
namespace Scalibr.Walk

/-- The extraction attempts of a scan are exactly the ones the specification lists — as a list: in
enumeration order, each with its multiplicity — and the scan succeeds. `Extract` itself runs for the
attempts whose file can be opened (`opened`). -/
theorem C01_calls_benign (c : Cfg) (hb : Benign c) (roots : List (Node × Faults)) (ho : GiOK c) :
    (run c roots).err = .none ∧ (run c roots).calls = mustExtract c roots :=
  run_spec c hb roots ho

/-- "Exactly once" (specification; narrowing hypothesis: `DistinctNames`, i.e. no directory lists a name twice):
no (extractor, file) PAIR is owed twice within one walk — stated on the pairs `(cl.ext, cl.path)`, not on the
attempt records (two equally named siblings of different sizes would give distinct records for the same pair). -/
theorem C01_once_partial (c : Cfg) (f : Faults) (above : List GiEntry) (p : Path) (n : Node) (h : DistinctNames n) :
    ((mustFrom c f above p n).map fun cl => (cl.ext, cl.path)).Nodup :=
  mustFrom_keys_nodup c f above p n h

/-- … and for the engine (class `Benign`; narrowing: one root, whole-tree scan, `DistinctNames`): no
(extractor, file) pair is ATTEMPTED twice by the scan.  (With several roots, or a path requested twice, the
same relative path is legitimately extracted once per root / request: see `C08_roots_benign`.) -/
theorem C01_once_run_partial (c : Cfg) (hb : Benign c) (ho : GiOK c) (hp : c.paths = []) (root : Node) (f : Faults)
    (h : DistinctNames root) : ((run c [(root, f)]).calls.map fun cl => (cl.ext, cl.path)).Nodup :=
  run_keys_nodup c hb ho hp root f h

/-- "Every file": `allFiles`, over which the specification quantifies, enumerates exactly the non-directory
nodes of the tree — `q` leads to a file of kind `k` and size `sz` iff the enumeration has a record with that
path, kind and size (`DistinctNames`: `lookup` resolves a name to its FIRST entry; the direction "every file
`lookup` finds is enumerated" needs no hypothesis: `C01_allFiles_complete`). -/
theorem C01_allFiles_exact (root : Node) (h : DistinctNames root) (q : Path) (k : Kind) (sz : Nat) :
    lookup root q = some (.file k sz) ↔ ∃ r ∈ allFiles [] [] root, r.path = q ∧ r.kind = k ∧ r.size = sz :=
  allFiles_iff_lookup root h q k sz

theorem C01_allFiles_complete (root : Node) (q : Path) (k : Kind) (sz : Nat) (h : lookup root q = some (.file k sz)) :
    ∃ r ∈ allFiles [] [] root, r.path = q ∧ r.kind = k ∧ r.size = sz :=
  allFiles_complete root q k sz h

/-- DEFINITIONAL (an unfolding of the specification function `mustOne`, kept as a reading aid — not in the audited list;
the statement about the ENGINE is `C01_only_required_run` / `C01_calls_are_files`).
"and on no other file": every owed attempt is for a regular file (or a symlink when symlink reading
is on) that the extractor requires, that no configured rule excludes, and that is within the size limit. -/
theorem C01_only_required (c : Cfg) (f : Faults) (above : List GiEntry) (r : FileRec) (cl : Call)
    (h : cl ∈ mustOne c f above r) :
    cl.path = r.path ∧ c.required cl.ext r.path = true ∧ reached c f above r = true ∧ sizeOk c f r = true := by
  unfold mustOne at h
  split at h
  · rename_i hc
    simp only [Bool.and_eq_true] at hc
    simp only [List.mem_map, List.mem_filter] at h
    obtain ⟨e, ⟨_, hreq⟩, rfl⟩ := h
    exact ⟨rfl, hreq, hc.1, hc.2⟩
  · simp at h

/-- DEFINITIONAL (an unfolding of `mustOne` / `sizeOk`; the statements about the ENGINE are `C01_limit_shared_run` and
`C01_limit_shared_step`).  The size limit is shared: a file above the limit reaches NO extractor, not just the first one. -/
theorem C01_limit_shared (c : Cfg) (f : Faults) (above : List GiEntry) (r : FileRec)
    (hm : c.maxFileSize > 0) (hs : r.size > c.maxFileSize) : mustOne c f above r = [] := by
  unfold mustOne sizeOk; simp [hm, hs]

/-- "and on no other file", ENGINE level, EVERY configuration (faults, limits, cancellation, fatal errors,
panicking extractors): each extraction attempt of a scan is made by an extractor whose `FileRequired` accepts
that path.  (`C01_only_required` above is the corresponding fact about the specification.) -/
theorem C01_only_required_run (c : Cfg) (roots : List (Node × Faults)) :
    ∀ cl ∈ (run c roots).calls, c.required cl.ext cl.path = true :=
  run_required c roots

/-- … and each attempt is for a non-directory node of one of the scanned trees (a record of the declarative
enumeration `allFiles`), carries that node's size, and that node is required by the extractor — ENGINE level,
EVERY configuration. -/
theorem C01_calls_are_files (c : Cfg) (roots : List (Node × Faults)) :
    ∀ cl ∈ (run c roots).calls, ∃ rf ∈ roots, ∃ r ∈ allFiles [] [] rf.1,
      r.path = cl.path ∧ r.size = cl.size ∧ c.required cl.ext r.path = true :=
  run_calls_files c roots

/-- The size limit is shared, ENGINE level, EVERY configuration: every attempt — by whichever extractor — is for
a file of the forest whose size is within the limit; so a file above the limit has no attempt from any extractor. -/
theorem C01_limit_shared_run (c : Cfg) (roots : List (Node × Faults)) (hm : c.maxFileSize > 0) :
    ∀ cl ∈ (run c roots).calls, ∃ rf ∈ roots, ∃ r ∈ allFiles [] [] rf.1,
      r.path = cl.path ∧ r.size = cl.size ∧ r.size ≤ c.maxFileSize := by
  intro cl hcl
  obtain ⟨rf, hrf, r, hr, h1, h2, _⟩ := run_calls_files c roots cl hcl
  refine ⟨rf, hrf, r, hr, h1, h2, ?_⟩
  rw [h2]
  unfold run at hcl
  exact runRoots_sizeInv c roots _ [] [] (by intro x hx; simp at hx) cl hcl hm

/-- … and step-wise: `handleFile` on a file above `MaxFileSize` changes NOTHING in the engine state — no
extractor gets an attempt, not just the first one that asked for the size (every configuration). -/
theorem C01_limit_shared_step (c : Cfg) (f : Faults) (s : St) (p : Path) (k : Kind) (size : Nat)
    (hm : c.maxFileSize > 0) (hs : size > c.maxFileSize) : (handleLeaf c f s p k size).1 = s :=
  handleLeaf_oversize c f s p k size hm hs

/-- The reported inventory is exactly the union of what the `Extract` invocations returned, each
package attributed to the extractor and file that produced it — in every configuration in which the
scan does not fail (limits, faults and cancellation included). -/
theorem C01_inv (c : Cfg) (hx : NoExtractorPanic c) (roots : List (Node × Faults))
    (hok : (run c roots).err = .none) : (run c roots).pkgs = pkgsOfCalls c (run c roots).calls := by
  unfold run at *
  exact runRoots_pkgs c hx roots _ [] [] (by simp [pkgsOfCalls]) hok

/-- … and in a benign scan that inventory is determined by the specification alone. -/
theorem C01_inv_spec_benign (c : Cfg) (hb : Benign c) (roots : List (Node × Faults)) (ho : GiOK c) :
    (run c roots).pkgs = pkgsOfCalls c (mustExtract c roots) :=
  (run_results c hb roots ho).1

/-- Sub-directory equivalence (specification level): on a tree with distinct sibling names, in a
whole-tree configuration without the sub-directory cut-off, if the whole-tree scan reaches directory `d`
(every directory above it lets the walk through: `dirPasses` along the chain leading to `d`), then
requesting `d` explicitly owes exactly the whole-tree scan's attempts that lie under `d`, in order. -/
theorem C01_subdir_spec_partial (c : Cfg) (hp : c.paths = []) (hisd : c.ignoreSubDirs = false) (f : Faults)
    (root : Node) (hdn : DistinctNames root) (d : Path) (gi : Option PatSet) (es : List (String × Node))
    (chain : List DirInfo) (hch : chainOf [] root d = some (chain, .dir gi es))
    (hreach : ∀ i, i < chain.length → dirPasses c f [] chain i = true)
    (hs0 : f.statFail [] = false) (hsd : f.statFail d = false) :
    mustRequested { c with paths := [d] } f root d = (mustRoot c f root).filter (fun cl => under d cl.path) :=
  mustRequested_subdir c hp hisd f root hdn d gi es chain hch hreach hs0 hsd

/-- … and for the engine: the scan that requests `d` makes exactly the attempts of the whole-tree scan
that lie under `d`. -/
theorem C01_subdir_partial (c : Cfg) (hb : Benign c) (ho : GiOK c) (hp : c.paths = []) (hisd : c.ignoreSubDirs = false)
    (f : Faults) (root : Node) (hdn : DistinctNames root) (d : Path) (gi : Option PatSet) (es : List (String × Node))
    (chain : List DirInfo) (hch : chainOf [] root d = some (chain, .dir gi es))
    (hreach : ∀ i, i < chain.length → dirPasses c f [] chain i = true)
    (hs0 : f.statFail [] = false) (hsd : f.statFail d = false) :
    (run { c with paths := [d] } [(root, f)]).calls = (run c [(root, f)]).calls.filter (fun cl => under d cl.path) := by
  have hb' : Benign { c with paths := [d] } := hb
  have ho' : GiOK { c with paths := [d] } := ho
  rw [(run_spec _ hb' [(root, f)] ho').2, (run_spec c hb [(root, f)] ho).2]
  have := C01_subdir_spec_partial c hp hisd f root hdn d gi es chain hch hreach hs0 hsd
  simp only [mustExtract, List.flatMap_cons, List.flatMap_nil, List.append_nil]
  rw [← this]
  simp [mustRoot]

/-- The same from the DECIDABLE form of the hypotheses (`subdirHyp`, Proofs/WalkSubdirHyp.lean: `paths = []`, no
sub-directory cut-off, distinct sibling names, `d` is a directory the whole-tree walk reaches, both start points can
be stat'ed) — this is the form the driver evaluates (`subdirhyp=`) so that the paired-scan oracle of checks/c01.py
judges the IMPLEMENTATION exactly where the theorem applies. -/
theorem C01_subdir_decidable_partial (c : Cfg) (hb : Benign c) (ho : GiOK c) (f : Faults) (root : Node) (d : Path)
    (h : subdirHyp c f root d = true) :
    (run { c with paths := [d] } [(root, f)]).calls = (run c [(root, f)]).calls.filter (fun cl => under d cl.path) := by
  have hb' : Benign { c with paths := [d] } := hb
  have ho' : GiOK { c with paths := [d] } := ho
  have hp : c.paths = [] := by
    unfold subdirHyp at h
    simp only [Bool.and_eq_true, List.isEmpty_iff] at h
    exact h.1.1.1.1.1
  rw [(run_spec _ hb' [(root, f)] ho').2, (run_spec c hb [(root, f)] ho).2]
  have := mustRequested_subdir_of_hyp c f root d h
  simp only [mustExtract, List.flatMap_cons, List.flatMap_nil, List.append_nil]
  rw [← this]
  simp [mustRoot]

/-- The gitignore context of a REQUESTED directory (`parentGis`, which `mustRequested` takes from the model's
`ParseParentGitignores`) is, declaratively, the `giEntryOf`s of the chain of directories leading from the root to it —
the same patterns the whole-tree enumeration puts above the files below that directory. -/
theorem C01_parentGis_is_chain (f : Faults) (root : Node) (d : Path) (chain : List DirInfo) (m : Node)
    (h : chainOf [] root d = some (chain, m)) : (parentGis f root d).1 = chain.map (giEntryOf f) :=
  parentGis_chain f root d chain m h

/-- `DistinctNames` is decidable: `distinctB` (printed by the driver as `distinct=`) -/
theorem C01_distinct_decidable (n : Node) : distinctB n = true ↔ DistinctNames n := distinctB_iff n

/-- The concrete go-git matcher of the generated pattern sub-language satisfies the domain rule the
theorems rely on. -/
theorem C01_matcher_domainLaw : DomainLaw matcherMatch := matcherMatch_domain

/-- …and so does the matcher that answers from a table of the real go-git matcher's verdicts (full gitignore syntax:
globs, anchors, `**`, classes), whatever the table contains: all walk theorems cover such scans. -/
theorem C01_table_matcher_domainLaw (key : PatSet → Option String) (tbl : List (String × List String × Bool)) :
    DomainLaw (tableMatch key tbl) := tableMatch_domain key tbl

/-! Non-vacuity: a benign configuration with gitignore handling, a skip glob and a size limit, on a
tree with a nested `.gitignore`; both extractors are owed `a/x` once each, `a/b` is ignored. -/
def exCfg : Cfg where
  nExt := 2
  required := fun _ p => p.getLast? != some ".gitignore"
  extract := fun _ _ => {}
  glob := some fun p => p = ["skipme"]
  useGitignore := true
  maxFileSize := 10
  giMatch := matcherMatch
def exTree : Node :=
  .dir none [("a", .dir (some [⟨"b", false, false⟩]) [("x", .file .reg 3), ("b", .file .reg 3), (".gitignore", .file .reg 2)]),
             ("skipme", .dir none [("y", .file .reg 1)]), ("big", .file .reg 11)]
example : Benign exCfg := ⟨rfl, rfl, rfl, rfl, fun _ _ => rfl⟩
example : DistinctNames exTree := by simp [exTree, DistinctNames, DistinctNamesL]
example : GiOK exCfg := matcherMatch_domain
example : (mustExtract exCfg [(exTree, {})]).map (fun cl => (cl.ext, cl.path)) = [(0, ["a", "x"]), (1, ["a", "x"])] := by decide
example : ((chainOf [] exTree ["a"]).map fun x => x.1.map (·.path)) = some [[]] := by decide
example : dirPasses exCfg {} [] [⟨[], none, 0⟩] 0 = true := by decide
example : (run exCfg [(exTree, {})]).calls = mustExtract exCfg [(exTree, {})] :=
  (C01_calls_benign exCfg ⟨rfl, rfl, rfl, rfl, fun _ _ => rfl⟩ _ matcherMatch_domain).2

/-- `C01_subdir_partial` at work on the example (its hypotheses are satisfiable on a tree with a nested `.gitignore`, a
skip glob and a size limit): requesting directory `a` makes exactly the whole-tree scan's attempts under `a`. -/
example : (run { exCfg with paths := [["a"]] } [(exTree, {})]).calls
    = (run exCfg [(exTree, {})]).calls.filter (fun cl => under ["a"] cl.path) :=
  C01_subdir_partial exCfg ⟨rfl, rfl, rfl, rfl, fun _ _ => rfl⟩ matcherMatch_domain rfl rfl {} exTree
    (by simp [exTree, DistinctNames, DistinctNamesL]) ["a"] _ _ [⟨[], none, 0⟩] rfl
    (by intro i hi; have : i = 0 := by simpa using hi
        subst this; decide) rfl rfl

/-! ### How an explicitly requested path is read (the interpretation of "reaches it")

`mustRequested` — and, by `C01_calls_benign`, the engine — treats a REQUESTED path as reached by the request itself:
  * a requested FILE is handed to the extractors that require it, whatever the skip list, regex, glob or any
    `.gitignore` says about it or about the directories above it (only kind, size limit and `FileRequired` apply;
    `fs.Stat` follows a requested symlink);
  * a requested DIRECTORY is walked even when a directory ABOVE it is excluded by a skip rule; the rules apply to
    the requested directory itself and to everything below it, and the `.gitignore` files of the directories above
    it are honoured for what lies below.
This mirrors `walkIndividualPaths`; it is the reading of "not excluded by a configured skip rule … explicitly
requested path that reaches it" recorded in DESIGN.md. -/

/-- A requested file bypasses every skip rule: two configurations that agree on the extractors, `FileRequired`,
the size limit and symlink reading owe the same attempts for it — skip list, regex, glob, gitignore handling,
sub-directory cut-off and requested-path list play no role. -/
theorem C01_requested_file_bypasses_skip_rules (c c' : Cfg) (f : Faults) (root : Node) (p : Path) (k : Kind) (sz : Nat)
    (hl : lookup root p = some (.file k sz))
    (h1 : c'.nExt = c.nExt) (h2 : c'.required = c.required) (h3 : c'.maxFileSize = c.maxFileSize)
    (h4 : c'.readSymlinks = c.readSymlinks) :
    mustRequested c' f root p = mustRequested c f root p := by
  unfold mustRequested
  rw [hl]
  simp only [mustOne, reached, fileEligible, sizeOk, List.length_nil, List.range_zero, List.all_nil, Bool.true_and,
    Bool.false_and, Bool.not_false, Bool.and_true, h1, h2, h3, h4]

/-- … for the engine: the benign scans requesting that file make the same attempts under both configurations. -/
theorem C01_requested_file_bypasses_skip_rules_run_benign (c c' : Cfg) (hb : Benign c) (hb' : Benign c') (ho : GiOK c) (ho' : GiOK c')
    (f : Faults) (root : Node) (p : Path) (k : Kind) (sz : Nat) (hl : lookup root p = some (.file k sz))
    (hp : c.paths = [p]) (hp' : c'.paths = [p])
    (h1 : c'.nExt = c.nExt) (h2 : c'.required = c.required) (h3 : c'.maxFileSize = c.maxFileSize)
    (h4 : c'.readSymlinks = c.readSymlinks) :
    (run c' [(root, f)]).calls = (run c [(root, f)]).calls := by
  rw [(run_spec c hb _ ho).2, (run_spec c' hb' _ ho').2]
  simp only [mustExtract, List.flatMap_cons, List.flatMap_nil, List.append_nil, mustRoot, hp, hp',
    List.isEmpty_cons, Bool.false_eq_true, if_false]
  rw [C01_requested_file_bypasses_skip_rules c c' f root p k sz hl h1 h2 h3 h4]

/-! decided witnesses on the example tree: `a/b` is ignored by `a/.gitignore` and `skipme` is excluded by the glob in
a whole-tree scan (see above: only `a/x` is owed), yet requesting them owes their extraction -/
example : (mustRequested { exCfg with paths := [["a", "b"]] } {} exTree ["a", "b"]).map (fun cl => (cl.ext, cl.path))
    = [(0, ["a", "b"]), (1, ["a", "b"])] := by decide
example : (mustRequested { exCfg with paths := [["skipme", "y"]] } {} exTree ["skipme", "y"]).map (fun cl => (cl.ext, cl.path))
    = [(0, ["skipme", "y"]), (1, ["skipme", "y"])] := by decide
/-- a requested DIRECTORY below an excluded directory is walked (`skipme` is excluded by the glob, `skipme/sub` is not) … -/
def exTreeSub : Node := .dir none [("skipme", .dir none [("sub", .dir none [("z", .file .reg 1)]), ("y", .file .reg 1)])]
example : mustExtract exCfg [(exTreeSub, {})] = [] := by decide
example : (mustRequested { exCfg with paths := [["skipme", "sub"]] } {} exTreeSub ["skipme", "sub"]).map (fun cl => (cl.ext, cl.path))
    = [(0, ["skipme", "sub", "z"]), (1, ["skipme", "sub", "z"])] := by decide
/-- … while a requested directory that is ITSELF excluded is not entered. -/
example : mustRequested { exCfg with paths := [["skipme"]] } {} exTreeSub ["skipme"] = [] := by decide

example : subdirHyp exCfg {} exTree ["a"] = true ∧ subdirHyp exCfg {} exTree ["skipme"] = true ∧
    subdirHyp exCfg {} exTreeSub ["skipme", "sub"] = false ∧ distinctB exTree = true := by decide

/-! ### Disclosed reading / finding candidate: NESTED requested paths under the sub-directory cut-off

`shouldSkipDir` (and `excludedDir`, which is its definition of "configured skip rule") exempts from the cut-off every directory
that is ITSELF a requested path, wherever the walk comes from.  With `PathsToExtract = [a, a/b]` and `IgnoreSubDirs` the walk of
request `a` therefore enters `a/b`, and the files directly in `a/b` are owed — and extracted — TWICE: once through `a` (which
the cut-off should have stopped at `a/b`) and once through `a/b`.  Below `a/b` the cut-off works (`a/b/c/h` is owed by nobody).
Engine = specification here (`C01_calls_benign`), so no stream can see it; against the property's "exactly once, per explicitly
requested path that reaches it" the first of the two extractions is one too many (request `a`, cut off, does not reach `a/b/g`).
Reported to the coordinator as a finding candidate (repair: compare with the CURRENT walk root instead of the whole list). -/
def exNested : Node := .dir none [("a", .dir none [("f", .file .reg 1), ("b", .dir none [("g", .file .reg 1), ("c", .dir none [("h", .file .reg 1)])])])]
def exNestedCfg : Cfg := { nExt := 1, required := fun _ _ => true, extract := fun _ _ => {}, paths := [["a"], ["a", "b"]], ignoreSubDirs := true,
                           giMatch := fun _ _ _ _ => false }
theorem C01_nested_requests_cutoff_witness :
    (mustExtract exNestedCfg [(exNested, {})]).map (·.path) = [["a", "f"], ["a", "b", "g"], ["a", "b", "g"]] := by decide

end Scalibr.Walk
