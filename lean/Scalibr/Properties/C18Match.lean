/-
C18, second entry point: the per-`affected[]` severity selection of `remediation.MatchVuln` (match.go) uses `vulns.IsAffected`
on a one-entry record per `affected[]` entry. Property theorems only.
-/
import Scalibr.Properties.C18
import Scalibr.Spec.MatchVuln
namespace Scalibr.Vulns

/-- On a well-formed record the code's test of one `affected[]` entry (a one-entry record) is the OSV rule. -/
theorem C18_match_entry (known : Nat → Bool) (x : AffS) (p : Pkg)
    (hwf : ∀ r ∈ x.a.ranges, WF r.events = true) :
    isAffected known [x.a] p = specAffectedB known [x.a] p := by
  have h := C18_record known [x.a] p (by
    intro a ha r hr
    rw [List.mem_singleton] at ha
    subst ha
    exact hwf r hr)
  rw [← specAffectedB_iff] at h
  cases h1 : isAffected known [x.a] p <;> cases h2 : specAffectedB known [x.a] p <;> simp_all

/-- **Selection.** With every range of the record well formed, the severities `matchSeverity` takes for a package are those
of the first `affected[]` entry that affects it by the OSV rule. -/
theorem C18_match_select (known : Nat → Bool) (affected : List AffS) (p : Pkg)
    (hwf : ∀ x ∈ affected, ∀ r ∈ x.a.ranges, WF r.events = true) :
    selectedFor known affected p = specSelectedFor known affected p := by
  unfold selectedFor specSelectedFor
  induction affected with
  | nil => rfl
  | cons x xs ih =>
    have hx := C18_match_entry known x p (hwf x (by simp))
    simp only [List.find?_cons, hx]
    cases specAffectedB known [x.a] p
    · exact ih (fun y hy => hwf y (by simp [hy]))
    · rfl

/-- The selection, said declaratively: if the entries before `x` do not affect the package by the OSV rule and `x` does,
`x`'s severities are taken (whatever follows `x`). -/
theorem C18_match_select_first (known : Nat → Bool) (pre post : List AffS) (x : AffS) (p : Pkg)
    (hwf : ∀ y ∈ pre ++ x :: post, ∀ r ∈ y.a.ranges, WF r.events = true)
    (hpre : ∀ y ∈ pre, ¬ specAffected known [y.a] p) (hx : specAffected known [x.a] p) :
    selectedFor known (pre ++ x :: post) p = x.sev := by
  rw [C18_match_select known _ p hwf]
  unfold specSelectedFor
  induction pre with
  | nil =>
    have : specAffectedB known [x.a] p = true := (specAffectedB_iff _ _ _).mpr hx
    simp [this]
  | cons y ys ih =>
    have hy : specAffectedB known [y.a] p = false := by
      cases h : specAffectedB known [y.a] p
      · rfl
      · exact absurd ((specAffectedB_iff _ _ _).mp h) (hpre y (by simp))
    simp only [List.cons_append, List.find?_cons, hy]
    exact ih (fun z hz => hwf z (by simp at hz ⊢; rcases hz with h | h | h <;> simp [h]))
      (fun z hz => hpre z (by simp [hz]))

/-- … and if no entry affects the package by the OSV rule, none is taken. -/
theorem C18_match_select_none (known : Nat → Bool) (affected : List AffS) (p : Pkg)
    (hwf : ∀ x ∈ affected, ∀ r ∈ x.a.ranges, WF r.events = true)
    (hnone : ∀ x ∈ affected, ¬ specAffected known [x.a] p) :
    selectedFor known affected p = [] := by
  rw [C18_match_select known _ p hwf]
  unfold specSelectedFor
  induction affected with
  | nil => rfl
  | cons y ys ih =>
    have hy : specAffectedB known [y.a] p = false := by
      cases h : specAffectedB known [y.a] p
      · rfl
      · exact absurd ((specAffectedB_iff _ _ _).mp h) (hnone y (by simp))
    simp only [List.find?_cons, hy]
    exact ih (fun z hz => hwf z (by simp [hz])) (fun z hz => hnone z (by simp [hz]))

/-- Entries for other packages or ecosystems are never selected — whatever their ranges contain (no well-formedness needed). -/
theorem C18_match_other (known : Nat → Bool) (affected : List AffS) (p : Pkg)
    (h : ∀ x ∈ affected, x.a.eco ≠ p.eco ∨ x.a.name ≠ p.name) :
    selectedFor known affected p = [] := by
  unfold selectedFor
  induction affected with
  | nil => rfl
  | cons y ys ih =>
    have hy : isAffected known [y.a] p = false :=
      C18_other known [y.a] p (by intro a ha; rw [List.mem_singleton] at ha; subst ha; exact h y (by simp))
    simp only [List.find?_cons, hy]
    exact ih (fun z hz => h z (by simp [hz]))

/-- `MatchVuln` with the selection read off the OSV rule: on well-formed records the model of `MatchVuln` is `specMatchVuln`. -/
theorem C18_matchvuln (score : Nat → Option Int) (known : Nat → Bool) (o : MOpts) (v : VulnM)
    (hwf : ∀ x ∈ v.affected, ∀ r ∈ x.a.ranges, WF r.events = true) :
    matchVuln score known o v = specMatchVuln score known o v := by
  have hs : severities known v = specSeverities known v := by
    unfold severities specSeverities
    have : (fun sg : SubG => selectedFor known v.affected sg.pkg) = (fun sg => specSelectedFor known v.affected sg.pkg) := by
      funext sg; exact C18_match_select known v.affected sg.pkg hwf
    rw [this]
  unfold matchVuln specMatchVuln matchSeverity
  rw [hs]
  cases matchID v o.ignore <;> cases (!o.devDeps && v.devOnly) <;> simp

/-- A top-level severity makes the `affected[]` entries (and `IsAffected`) irrelevant. -/
theorem C18_match_toplevel (known : Nat → Bool) (v : VulnM) (h : v.topSev ≠ []) : severities known v = v.topSev := by
  unfold severities
  cases hv : v.topSev with
  | nil => exact absurd hv h
  | cons a as => simp

/-! Non-vacuity and a witness that the selection matters: two entries for one package, `[2, 6)` with severity 0 and `[6, 10)`
with severity 3; version 7 selects the second entry, version 3 the first, version 11 none. -/
def exAffected : List AffS :=
  [⟨⟨0, 0, [], [⟨.ecosystem, [⟨.intro, 2⟩, ⟨.fixed, 6⟩]⟩]⟩, [0]⟩, ⟨⟨0, 0, [], [⟨.ecosystem, [⟨.fixed, 10⟩, ⟨.intro, 6⟩]⟩]⟩, [3]⟩]
example : ∀ x ∈ exAffected, ∀ r ∈ x.a.ranges, WF r.events = true := by decide
example : (selectedFor (fun e => e < 3) exAffected ⟨0, 0, 3, 3⟩, selectedFor (fun e => e < 3) exAffected ⟨0, 0, 7, 7⟩,
    selectedFor (fun e => e < 3) exAffected ⟨0, 0, 6, 6⟩, selectedFor (fun e => e < 3) exAffected ⟨0, 0, 11, 11⟩,
    selectedFor (fun e => e < 3) exAffected ⟨0, 1, 3, 3⟩) = ([0], [3], [3], [], []) := by decide

end Scalibr.Vulns
