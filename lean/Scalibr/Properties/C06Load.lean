/-
C06, load path — "Loading … a container image never creates, modifies or deletes anything outside the directory
designated for it (the image's own temporary extraction directory) … After clean-up the image's temporary directory is
gone."  Stated on the life-cycle model `Model/ImageLife.lean` of `image.FromV1Image` / `handleImageError` /
`Image.CleanUp`: whatever goes wrong and wherever (before the directory exists, creating it, at the root node, at any
chain layer while creating its directory, opening it or filling it from the tar), every exit path leaves TMPDIR as it
found it — a failed load immediately, a successful one after `CleanUp` — and no other directory of TMPDIR is ever
touched.  The tie to the Go code is the `c06load` stream (fresh TMPDIR per load; archives that fail part-way at the
first, a middle and the last layer).
-/
import Scalibr.Model.ImageLife
namespace Scalibr.ImageLife

theorem removeAll_addLayerDir (tmp : Tmp) (d i : Nat) : removeAll (addLayerDir tmp d i) d = removeAll tmp d := by
  unfold removeAll addLayerDir
  induction tmp with
  | nil => rfl
  | cons x tmp ih =>
    simp only [List.map_cons]
    by_cases hx : (x.name == d) = true
    · have h1 : (x.name != d) = false := by simp [bne, hx]
      simp only [hx, if_true, List.filter_cons, h1, Bool.false_eq_true, if_false]
      exact ih
    · have hx' : (x.name == d) = false := by cases h : (x.name == d) <;> simp_all
      have h1 : (x.name != d) = true := by simp [bne, hx']
      simp only [hx', Bool.false_eq_true, if_false, List.filter_cons, h1, if_true]
      rw [ih]

theorem removeAll_idem (tmp : Tmp) (d : Nat) : removeAll (removeAll tmp d) d = removeAll tmp d := by
  unfold removeAll; simp [List.filter_filter]

/-- whatever the loop does, it only ever touches the image's own directory -/
theorem loop_others (d : Nat) : ∀ (rs : List LayerRun) (tmp : Tmp), removeAll (loop d tmp rs).2 d = removeAll tmp d := by
  intro rs
  induction rs with
  | nil => intro tmp; rfl
  | cons r rest ih =>
    intro tmp
    unfold loop
    split
    · exact ih tmp
    · split
      · simp [handleImageError, removeAll_idem]
      · simp only
        split
        · simp [handleImageError, removeAll_idem, removeAll_addLayerDir]
        · split
          · simp [handleImageError, removeAll_idem, removeAll_addLayerDir]
          · split
            · simp [handleImageError, removeAll_idem, removeAll_addLayerDir]
            · rw [ih, removeAll_addLayerDir]

/-- a failing loop has removed the image's directory -/
theorem loop_failed (d : Nat) : ∀ (rs : List LayerRun) (tmp : Tmp), (loop d tmp rs).1 = none →
    (loop d tmp rs).2 = removeAll tmp d := by
  intro rs
  induction rs with
  | nil => intro tmp h; simp [loop] at h
  | cons r rest ih =>
    intro tmp h
    unfold loop at h ⊢
    split
    · rename_i he; rw [if_pos he] at h; exact ih tmp h
    · rename_i he; rw [if_neg he] at h
      split
      · rfl
      · rename_i hm; rw [if_neg hm] at h
        simp only at h ⊢
        split
        · simp [handleImageError, removeAll_addLayerDir]
        · rename_i hl; rw [if_neg hl] at h
          split
          · simp [handleImageError, removeAll_addLayerDir]
          · rename_i ho; rw [if_neg ho] at h
            split
            · simp [handleImageError, removeAll_addLayerDir]
            · rename_i hf; rw [if_neg hf] at h
              rw [ih _ h, removeAll_addLayerDir]

theorem loop_ok (d : Nat) : ∀ (rs : List LayerRun) (tmp : Tmp) (x : Nat), (loop d tmp rs).1 = some x → x = d := by
  intro rs
  induction rs with
  | nil => intro tmp x h; simp [loop] at h; exact h.symm
  | cons r rest ih =>
    intro tmp x h
    unfold loop at h
    split at h
    · exact ih tmp x h
    · split at h
      · simp [handleImageError] at h
      · simp only at h
        split at h
        · simp [handleImageError] at h
        · split at h
          · simp [handleImageError] at h
          · split at h
            · simp [handleImageError] at h
            · exact ih _ x h

theorem removeAll_fresh (tmp : Tmp) (fresh : Nat) (ls : List Nat) (hf : ∀ x ∈ tmp, x.name ≠ fresh) :
    removeAll (⟨fresh, ls⟩ :: tmp) fresh = tmp := by
  unfold removeAll
  simp only [List.filter_cons, bne_self_eq_false, Bool.false_eq_true, if_false]
  rw [List.filter_eq_self]
  intro x hx; simp [hf x hx]

/-- **A failed load leaves TMPDIR exactly as it found it** — whichever step failed. -/
theorem C06_load_failed_restores (tmp : Tmp) (fresh : Nat) (r : Run) (hf : ∀ x ∈ tmp, x.name ≠ fresh)
    (h : (fromV1Image tmp fresh r).1 = none) : (fromV1Image tmp fresh r).2 = tmp := by
  unfold fromV1Image at h ⊢
  split
  · rfl
  · rename_i hp; rw [if_neg hp] at h
    split
    · rfl
    · rename_i hm; rw [if_neg hm] at h
      simp only at h ⊢
      split
      · simp only [handleImageError]; exact removeAll_fresh tmp fresh [] hf
      · rename_i hr; rw [if_neg hr] at h
        rw [loop_failed fresh _ _ h]; exact removeAll_fresh tmp fresh [] hf

/-- **A successful load followed by `CleanUp` leaves TMPDIR exactly as it was**, and the image it returns is the
directory `MkdirTemp` made. -/
theorem C06_load_cleanup_restores (tmp : Tmp) (fresh : Nat) (r : Run) (hf : ∀ x ∈ tmp, x.name ≠ fresh) (d : Nat)
    (h : (fromV1Image tmp fresh r).1 = some d) : d = fresh ∧ cleanUp (fromV1Image tmp fresh r).2 d = tmp := by
  unfold fromV1Image at h ⊢
  split at h
  · cases h
  · split at h
    · cases h
    · simp only at h
      split at h
      · simp [handleImageError] at h
      · rename_i hp hm hr
        have hd := loop_ok fresh _ _ d h
        subst hd
        refine ⟨rfl, ?_⟩
        rw [if_neg hp, if_neg hm]
        simp only
        rw [if_neg hr]
        unfold cleanUp
        rw [loop_others]; exact removeAll_fresh tmp d [] hf

/-- **Nothing else in TMPDIR is ever touched**, on any path. -/
theorem C06_load_others_untouched (tmp : Tmp) (fresh : Nat) (r : Run) (hf : ∀ x ∈ tmp, x.name ≠ fresh) :
    removeAll (fromV1Image tmp fresh r).2 fresh = tmp := by
  unfold fromV1Image
  have hrm : removeAll tmp fresh = tmp := by
    unfold removeAll; rw [List.filter_eq_self]; intro x hx; simp [hf x hx]
  split
  · exact hrm
  · split
    · exact hrm
    · simp only
      split
      · simp only [handleImageError, removeAll_idem]; exact removeAll_fresh tmp fresh [] hf
      · rw [loop_others]; exact removeAll_fresh tmp fresh [] hf

/-! non-vacuity: three chain layers, the middle one fails while being filled: the two layer directories created so far
vanish with the image directory; and a clean run -/
def okL : LayerRun := ⟨false, true, true, true, true⟩
def exTmp : Tmp := [⟨7, [0]⟩]
example : fromV1Image exTmp 1 ⟨true, true, true, [okL, { okL with filled := false }, okL]⟩ = (none, exTmp) := by decide
example : fromV1Image exTmp 1 ⟨true, true, true, [okL, okL]⟩ = (some 1, [⟨1, [0, 1]⟩, ⟨7, [0]⟩]) := by decide

end Scalibr.ImageLife
