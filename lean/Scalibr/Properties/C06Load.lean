/-
C06, load path — "Loading … a container image never creates, modifies or deletes anything outside the directory
designated for it (the image's own temporary extraction directory) … After clean-up the image's temporary directory is
gone."  Stated on the life-cycle model `Model/ImageLife.lean` of `image.FromV1Image` / `handleImageError` /
`Image.CleanUp`: whatever goes wrong and wherever (before the directory exists, creating it, at the root node, at any
chain layer while creating its directory, opening it or filling it from the tar), every exit path leaves TMPDIR as it
found it — a failed load immediately, a successful one after `CleanUp` — and no other directory of TMPDIR is ever
touched.  The tie to the Go code is the `c06load` stream (fresh TMPDIR per load; archives that fail part-way at the
first, a middle and the last layer; every exit an input can reach, the other two — root node insertion, v1 layer index —
on the model alone).

Audit-2 (finding 4): the life-cycle model has no entry names, so it cannot say WHERE the loader writes.  That is the
second half of this file, on Model/LoadDisk.lean: the loader's disk operations over the sandbox file system of the
unpacker model — physical path resolution, `os.MkdirAll` and `os.OpenFile` that follow whatever symbolic link is in their
way, no containment test anywhere — for every sequence of layers and entries (any names: "..", absolute, prefix look-
alikes; any order; files, directories, links) and every choice of which entries the path tree lets through:
`C06_load_disk_outside_unchanged` (nothing outside the extraction directory `D` is created, modified or deleted, at the
end of a successful load and after a failed one), `C06_load_disk_no_link_inside` (no symbolic link exists below `D`, so
none resolves outside), `C06_load_disk_failed_gone`, `C06_load_disk_cleanup` (after `CleanUp` the sandbox is the one
`os.MkdirTemp` found, minus `D`).  Hypotheses: `D` is a directory and no symbolic link is below it when the load starts
(`os.MkdirTemp` has just made it: it is empty) and no layer directory is called ".." (they are `layer-<i>`:
`layerName_ne_dotdot`).  `C06_load_disk_link_would_escape` shows the model is not containment by construction: with one
symbolic link below `D` at the start, the same operations write outside.  Not tied by a stream of its own: the hostile
half of `c06load` observes the implementation (whole sandbox before / after load / after CleanUp); the model shares
`cleanComps`, `resolve` and `FS` with the unpacker model, which its stream validates.  Inherited from that model: the
directories above `D` are plain directories; an absolute link target is stored relative to `D`.
-/
import Scalibr.Model.ImageLife
import Scalibr.Proofs.ImageLife
import Scalibr.Proofs.LoadDisk
namespace Scalibr.ImageLife

/-- **A failed load leaves TMPDIR exactly as it found it** — whichever step failed. -/
theorem C06_load_failed_restores (tmp : Tmp) (fresh : Nat) (r : Run) (hf : ∀ x ∈ tmp, x.name ≠ fresh)
    (h : (fromV1Image tmp fresh r).1 = none) : (fromV1Image tmp fresh r).2 = tmp := by
  unfold fromV1Image at h ⊢
  split
  · rfl
  · rename_i hp; rw [if_neg hp] at h
    split
    · rfl
    · rename_i hm; rw [if_neg hm] at h
      simp only at h ⊢
      split
      · simp only [handleImageError]; exact removeAll_fresh tmp fresh [] hf
      · rename_i hr; rw [if_neg hr] at h
        rw [loop_failed fresh _ _ h]; exact removeAll_fresh tmp fresh [] hf

/-- **A successful load followed by `CleanUp` leaves TMPDIR exactly as it was**, and the image it returns is the
directory `MkdirTemp` made. -/
theorem C06_load_cleanup_restores (tmp : Tmp) (fresh : Nat) (r : Run) (hf : ∀ x ∈ tmp, x.name ≠ fresh) (d : Nat)
    (h : (fromV1Image tmp fresh r).1 = some d) : d = fresh ∧ cleanUp (fromV1Image tmp fresh r).2 d = tmp := by
  unfold fromV1Image at h ⊢
  split at h
  · cases h
  · split at h
    · cases h
    · simp only at h
      split at h
      · simp [handleImageError] at h
      · rename_i hp hm hr
        have hd := loop_ok fresh _ _ d h
        subst hd
        refine ⟨rfl, ?_⟩
        rw [if_neg hp, if_neg hm]
        simp only
        rw [if_neg hr]
        unfold cleanUp
        rw [loop_others]; exact removeAll_fresh tmp d [] hf

/-- **Nothing else in TMPDIR is ever touched**, on any path. -/
theorem C06_load_others_untouched (tmp : Tmp) (fresh : Nat) (r : Run) (hf : ∀ x ∈ tmp, x.name ≠ fresh) :
    removeAll (fromV1Image tmp fresh r).2 fresh = tmp := by
  unfold fromV1Image
  have hrm : removeAll tmp fresh = tmp := by
    unfold removeAll; rw [List.filter_eq_self]; intro x hx; simp [hf x hx]
  split
  · exact hrm
  · split
    · exact hrm
    · simp only
      split
      · simp only [handleImageError, removeAll_idem]; exact removeAll_fresh tmp fresh [] hf
      · rw [loop_others]; exact removeAll_fresh tmp fresh [] hf

/-! non-vacuity: three chain layers, the middle one fails while being filled: the two layer directories created so far
vanish with the image directory; and a clean run -/
def okL : LayerRun := ⟨false, true, true, true, true⟩
def exTmp : Tmp := [⟨7, [0]⟩]
example : fromV1Image exTmp 1 ⟨true, true, true, [okL, { okL with filled := false }, okL]⟩ = (none, exTmp) := by decide
example : fromV1Image exTmp 1 ⟨true, true, true, [okL, okL]⟩ = (some 1, [⟨1, [0, 1]⟩, ⟨7, [0]⟩]) := by decide

end Scalibr.ImageLife

namespace Scalibr.LoadDisk
open Scalibr.GoPath Scalibr.Unpack

/-- the loader's layer directories are called `layer-<i>` -/
def layerName (i : Nat) : String := "layer-" ++ toString i

theorem layerName_ne_dotdot (i : Nat) : layerName i ≠ ".." := by
  intro h
  have := congrArg String.length h
  unfold layerName at this
  rw [String.length_append] at this
  have h6 : "layer-".length = 6 := by decide
  have h2 : "..".length = 2 := by decide
  omega

/-- the state when the load starts satisfies the invariant -/
theorem NL_start (D : Path) (s0 : FS) (hD : s0.get D = some .dir)
    (hnl : ∀ p t, isPrefix D p = true → s0.get p ≠ some (.link t)) : NL D s0 s0 :=
  ⟨fun _ _ => rfl, fun p t hp hg => hnl p t hp hg, hD⟩

/-- **Loading never creates, modifies or deletes anything outside the image's extraction directory** — whatever entry
names, link targets, entry orders and layers the archives contain, whichever entries reach the disk, whether the load
succeeds or fails part-way (and is cleaned up). -/
theorem C06_load_disk_outside_unchanged (D : Path) (s0 : FS) (ls : List LayerIn) (hD : s0.get D = some .dir)
    (hnl : ∀ p t, isPrefix D p = true → s0.get p ≠ some (.link t)) (hn : ∀ l ∈ ls, l.name ≠ "..") :
    ∀ p, isPrefix D p = false → (load D s0 ls).2.get p = s0.get p := by
  intro p hp
  have hS := layers_safe ls s0 hn (NL_start D s0 hD hnl)
  unfold load
  cases hm : layers D s0 ls with
  | ok s1 => rw [hm] at hS; exact hS.1 p hp
  | outside s1 => rw [hm] at hS; simp only [removeTree, MkRes.state, hp, Bool.false_eq_true, if_false]; exact hS.1 p hp
  | fail s1 => rw [hm] at hS; simp only [removeTree, MkRes.state, hp, Bool.false_eq_true, if_false]; exact hS.1 p hp

/-- **No symbolic link is left inside the extraction directory** (so none resolves to a location outside it): links of
the image exist in the path tree only. -/
theorem C06_load_disk_no_link_inside (D : Path) (s0 : FS) (ls : List LayerIn) (hD : s0.get D = some .dir)
    (hnl : ∀ p t, isPrefix D p = true → s0.get p ≠ some (.link t)) (hn : ∀ l ∈ ls, l.name ≠ "..") :
    ∀ p t, isPrefix D p = true → (load D s0 ls).2.get p ≠ some (.link t) := by
  intro p t hp hg
  have hS := layers_safe ls s0 hn (NL_start D s0 hD hnl)
  unfold load at hg
  cases hm : layers D s0 ls with
  | ok s1 => rw [hm] at hS hg; exact hS.2.1 p t hp hg
  | outside s1 => rw [hm] at hg; simp [removeTree, hp] at hg
  | fail s1 => rw [hm] at hg; simp [removeTree, hp] at hg

/-- a failed load leaves nothing at or below the extraction directory -/
theorem C06_load_disk_failed_gone (D : Path) (s0 : FS) (ls : List LayerIn) (h : (load D s0 ls).1 = false) :
    ∀ p, isPrefix D p = true → (load D s0 ls).2.get p = none := by
  intro p hp
  unfold load at h ⊢
  cases hm : layers D s0 ls with
  | ok s1 => rw [hm] at h; cases h
  | outside s1 => simp [removeTree, hp]
  | fail s1 => simp [removeTree, hp]

/-- **After clean-up** (`os.RemoveAll` of the extraction directory, after a successful or a failed load) the sandbox is
what `os.MkdirTemp` found, and the extraction directory is gone. -/
theorem C06_load_disk_cleanup (D : Path) (s0 : FS) (ls : List LayerIn) (hD : s0.get D = some .dir)
    (hnl : ∀ p t, isPrefix D p = true → s0.get p ≠ some (.link t)) (hn : ∀ l ∈ ls, l.name ≠ "..") (p : Path) :
    (removeTree D (load D s0 ls).2).get p = if isPrefix D p then none else s0.get p := by
  cases hp : isPrefix D p with
  | true => simp [removeTree, hp]
  | false =>
    simp only [removeTree, hp, Bool.false_eq_true, if_false]
    exact C06_load_disk_outside_unchanged D s0 ls hD hnl hn p hp

/-! ### the model is not containment by construction, and the theorems are not vacuous -/

def mkFS (l : List (Path × Obj)) : FS := l.foldl (fun s x => s.put x.1 x.2) ⟨fun _ => none, []⟩
def exD : Path := ["tmp", "img"]
/-- an entry by the '/'-separated components of its name (`abs`: the name begins with "/") -/
def ent (typ : Char) (name : List String) (cid : Nat := 1) (abs : Bool := false) : TarEntry := ⟨typ, abs, name, cid, false, [], "", 1⟩
/-- sandbox: tmp/img (just made), victim/secret -/
def exS0 : FS := mkFS [(["tmp"], .dir), (["tmp","img"], .dir), (["victim"], .dir), (["victim","secret"], .file 7)]
/-- the same with a symbolic link `tmp/img/layer-0/k -> ../../../victim` already there -/
def exBad : FS := (exS0.put ["tmp","img","layer-0"] .dir).put ["tmp","img","layer-0","k"] (.link ⟨false, ["..","..","..","victim"], "../../../victim"⟩)

/-- with a link below `D` at the start (hypothesis `hnl` violated) the very same operations overwrite `victim/secret`
and create `victim/pwn`: `mkdirAllOS` / `openCreate` follow links and test nothing -/
theorem C06_load_disk_link_would_escape :
    let r := load exD exBad [⟨"layer-0", [(ent 'r' ["k","secret"] 9, true), (ent 'r' ["k","pwn"] 9, true)]⟩]
    r.1 = true ∧ r.2.get ["victim","secret"] = some (.file 9) ∧ r.2.get ["victim","pwn"] = some (.file 9) := by decide

/-- hostile names on the fresh directory: `../../victim/x`, `/victim/secret`, `..`, a link `k` and `k/secret`, `a/../../b/`, `./c//d`: all
inside (or skipped), `victim` untouched, and the files that are written are where the loader means them -/
def exHostile : List LayerIn :=
  [⟨"layer-0", [(ent 'r' ["..","..","victim","x"], true), (ent 'r' ["","victim","secret"] 5 true, true), (ent 'd' [".."], true),
                (ent 'l' ["k"], true), (ent 'r' ["k","secret"] 9, true), (ent 'd' ["a","..","..","b",""], true), (ent 'r' [".","c","","d"] 4, true)]⟩]
example :
    let r := load exD exS0 exHostile
    r.1 = true ∧ r.2.get ["victim","secret"] = some (.file 7) ∧ r.2.get ["victim","x"] = none ∧
    r.2.get ["tmp","img","layer-0","victim","secret"] = some (.file 5) ∧ r.2.get ["tmp","img","layer-0","k","secret"] = some (.file 9) ∧
    r.2.get ["tmp","img","layer-0","c","d"] = some (.file 4) ∧ r.2.get ["tmp","img","b"] = none := by decide
/-- a file used as a directory is the fatal kind `c`: the load fails and the directory is removed -/
example :
    let r := load exD exS0 [⟨"layer-0", [(ent 'r' ["a"], true), (ent 'r' ["a","b"], true)]⟩]
    r.1 = false ∧ r.2.get ["tmp","img"] = none ∧ r.2.get ["tmp","img","layer-0","a"] = none ∧ r.2.get ["victim","secret"] = some (.file 7) := by decide

end Scalibr.LoadDisk
