/-
C10, layer byte-limit clause (`C10_layer_bytes`): an image load never exposes a layer file at or above the per-file
byte limit in any view, and never writes more than that many bytes of it to disk.  Stated on the image model
(`Model/Overlay.lean`, `Model/OverlayImage.lean`); the tie to `image.FromV1Image` is the C04 correspondence stream
(`c04gen` emits file sizes L-1, L, L+1 with `Config.MaxFileBytes = L`).

What these theorems do NOT say: what a view shows IN PLACE of a rejected file.  `C10_layer_bytes*` only bound the sizes of the
file nodes that exist.  The loader leaves no node for a rejected entry, so an older layer's (small) file of the same path
stays visible — consistent with C10, wrong for C04, whose specification reads the rejected entry as a whiteout of its path
(Spec/OverlayRejected.lean; finding C04/rejected-entry-shows-older-file).
-/
import Scalibr.Model.OverlayImage
import Scalibr.Proofs.OverlayLoad
import Scalibr.Proofs.OverlayImage
namespace Scalibr.Overlay

/-- every regular-file node is below the limit -/
def SizeOK (limit : Nat) (t : Tree) : Prop := ∀ q n, t.get q = some n → n.kind = .file → n.size < limit

theorem linkEntry_kind (vp segs : Path) (w : Bool) (mode : Nat) (link : String) :
    (linkEntry vp segs w mode link).e.kind = .link := by
  unfold linkEntry; split
  · rfl
  · split <;> rfl

theorem classify_accept_size (limit : Nat) (r : RawEntry) (vp segs : Path) (w : Bool)
    (ha : (classify limit r vp segs w).act = .accept) (hk : (classify limit r vp segs w).e.kind = .file) :
    (classify limit r vp segs w).e.size < limit := by
  generalize hc : classify limit r vp segs w = pe at *
  unfold classify at hc
  split at hc
  · subst hc; simp at hk
  · subst hc
    simp only at ha hk ⊢
    by_cases hs : r.size ≥ limit
    · simp [hs] at ha
    · omega
  · subst hc; rw [linkEntry_kind] at hk; cases hk
  · subst hc; rw [linkEntry_kind] at hk; cases hk
  · subst hc; simp at hk

theorem normEntry_accept_size (limit : Nat) (r : RawEntry) (pe : PEntry) (h : normEntry limit r = some pe)
    (ha : pe.act = .accept) (hk : pe.e.kind = .file) : pe.e.size < limit := by
  unfold normEntry at h
  simp only at h
  split at h
  · cases h
  · simp only [Option.some.injEq] at h; subst h
    exact classify_accept_size limit r _ _ _ ha hk

theorem effective_sizes (limit : Nat) (raw : List RawEntry) :
    ∀ e ∈ effective (normLayer limit raw), e.kind = .file → e.size < limit := by
  intro e he hk
  unfold effective normLayer at he
  simp only [List.mem_filterMap] at he
  obtain ⟨pe, ⟨r, _, hr⟩, hpe⟩ := he
  unfold PEntry.node? at hpe
  cases ha : pe.act <;> rw [ha] at hpe <;> simp only [Option.some.injEq] at hpe
  · subst hpe; exact normEntry_accept_size limit r pe hr ha hk
  · subst hpe; cases hk        -- the whiteout left for a rejected file is no file node
  · subst hpe; cases hk
  · cases hpe
  · cases hpe

/-! the invariant through the folds -/

theorem SizeOK_fill1 {limit : Nat} {t : Tree} (ht : SizeOK limit t) (p : Path) (n : Node)
    (hn : n.kind = .file → n.size < limit) : SizeOK limit (fill1 t p n) := by
  intro q m hm hk
  unfold fill1 at hm
  split at hm
  · exact ht q m hm hk
  · split at hm
    · exact ht q m hm hk
    · unfold upd at hm
      simp only at hm
      split at hm
      · simp at hm; subst hm; exact hn hk
      · exact ht q m hm hk

theorem SizeOK_upgrade {limit : Nat} {t : Tree} (ht : SizeOK limit t) (i : Nat) (p : Path) (n : Node)
    (hn : n.kind = .file → n.size < limit) : SizeOK limit (upgrade i t p n) := by
  intro q m hm hk
  unfold upgrade at hm
  split at hm
  · split at hm
    · unfold upd at hm
      simp only at hm
      split at hm
      · simp at hm; subst hm; exact hn hk
      · exact ht q m hm hk
    · exact ht q m hm hk
  · exact ht q m hm hk

theorem implDir_size (limit i : Nat) : (implDir i).kind = .file → (implDir i).size < limit := by
  intro h; cases h

theorem SizeOK_parentsFold {limit : Nat} (i : Nat) (ds : List Path) : ∀ (ov : Tree × Tree),
    SizeOK limit ov.1 → SizeOK limit ov.2 →
    SizeOK limit (parentsFold i ov ds).1 ∧ SizeOK limit (parentsFold i ov ds).2 := by
  induction ds with
  | nil => intro ov h1 h2; exact ⟨h1, h2⟩
  | cons d ds ih =>
    intro ov h1 h2
    unfold parentsFold
    simp only [List.foldl_cons]
    split
    · exact ih ov h1 h2
    · exact ih _ (SizeOK_fill1 h1 d _ (implDir_size limit i)) (SizeOK_fill1 h2 d _ (implDir_size limit i))

theorem SizeOK_entryStep {limit : Nat} (i : Nat) (st : Tree × Tree) (e : Entry)
    (he : e.kind = .file → e.size < limit) (h1 : SizeOK limit st.1) (h2 : SizeOK limit st.2) :
    SizeOK limit (entryStep i st e).1 ∧ SizeOK limit (entryStep i st e).2 := by
  unfold entryStep
  split
  · split
    · exact ⟨SizeOK_upgrade h1 i e.p _ he, SizeOK_upgrade h2 i e.p _ he⟩
    · exact ⟨h1, h2⟩
  · obtain ⟨p1, p2⟩ := SizeOK_parentsFold (limit := limit) i (parents e.p) st h1 h2
    exact ⟨SizeOK_fill1 p1 e.p _ he, SizeOK_fill1 p2 e.p _ he⟩

theorem SizeOK_foldl {limit : Nat} (i : Nat) (l : Layer) (hl : ∀ e ∈ l, e.kind = .file → e.size < limit) :
    ∀ (st : Tree × Tree), SizeOK limit st.1 → SizeOK limit st.2 →
      SizeOK limit (l.foldl (entryStep i) st).1 ∧ SizeOK limit (l.foldl (entryStep i) st).2 := by
  induction l with
  | nil => intro st h1 h2; exact ⟨h1, h2⟩
  | cons e l ih =>
    intro st h1 h2
    simp only [List.foldl_cons]
    obtain ⟨q1, q2⟩ := SizeOK_entryStep i st e (hl e (by simp)) h1 h2
    exact ih (fun x hx => hl x (by simp [hx])) _ q1 q2

theorem SizeOK_root (limit i : Nat) : SizeOK limit (rootTree i) := by
  intro q n hn hk
  unfold rootTree at hn
  simp only at hn
  split at hn
  · simp at hn; subst hn; simp [rootNode] at hk
  · cases hn

theorem SizeOK_revFrom {limit : Nat} (layers : List Layer)
    (hl : ∀ l ∈ layers, ∀ e ∈ l, e.kind = .file → e.size < limit) :
    ∀ (k : Nat) (v : Tree), SizeOK limit v → SizeOK limit (revFrom layers k v) := by
  intro k
  induction k with
  | zero => intro v hv; exact hv
  | succ k ih =>
    intro v hv
    simp only [revFrom]
    apply ih
    unfold revLayer
    have hlk : ∀ e ∈ layers.getD k [], e.kind = .file → e.size < limit := by
      intro e he
      rw [List.getD_eq_getElem?_getD] at he
      cases hg : layers[k]? with
      | none => rw [hg] at he; simp at he
      | some l => rw [hg] at he; exact hl l (List.mem_of_getElem? hg) e he
    exact (SizeOK_foldl k _ hlk (rootTree k, v) (SizeOK_root limit k) hv).2

/-- **C10_layer_bytes (views).** Whatever tars the layers hold and whatever the limit is, no view of the image has a
regular-file node of size ≥ `MaxFileBytes`; a file of exactly the limit is dropped too. -/
theorem C10_layer_bytes (limit : Nat) (raws : List (List RawEntry)) (j : Nat) :
    SizeOK limit (viewOf (raws.map fun r => effective (normLayer limit r)) j) := by
  unfold viewOf
  apply SizeOK_revFrom _ _ _ _ (SizeOK_root limit j)
  intro l hl
  simp only [List.mem_map] at hl
  obtain ⟨r, _, rfl⟩ := hl
  exact effective_sizes limit r

/-- the same for the trees of the literal lock-step loader -/
theorem C10_layer_bytes_loader (limit : Nat) (raws : List (List RawEntry)) (j : Nat) (hj : j < raws.length) :
    SizeOK limit ((loadCore (raws.map fun r => effective (normLayer limit r))).getD j emptyTree) := by
  rw [loadCore_eq_viewOf _ j (by simpa using hj)]
  exact C10_layer_bytes limit raws j

/-- and for the final view after `removeUnnecessaryFileNodes` -/
theorem C10_layer_bytes_final (limit : Nat) (U : List Path) (req : Path → Bool) (depth : Nat) (t : Tree)
    (h : SizeOK limit t) : SizeOK limit (pruneFinal U req depth t) := by
  intro q n hn hk
  unfold pruneFinal at hn
  simp only at hn
  cases hg : t.get q with
  | none => rw [hg] at hn; cases hn
  | some m =>
    rw [hg] at hn
    simp only at hn
    split at hn
    · simp at hn; subst hn; exact h q m hg hk
    · cases hn

/-- at the limit: a regular file of exactly `MaxFileBytes` bytes is rejected, one byte less is accepted -/
theorem C10_layer_bytes_boundary (limit : Nat) (hl : 0 < limit) (name : String) (mode cid : Nat) (vp segs : Path) (w : Bool) :
    (classify limit ⟨'f', name, mode, limit, cid, ""⟩ vp segs w).act = .big ∧
    (classify limit ⟨'f', name, mode, limit - 1, cid, ""⟩ vp segs w).act = .accept := by
  have h1 : ¬ (limit - 1 ≥ limit) := by omega
  constructor <;> simp [classify, h1]

/-! ### bytes on disk -/

/-- every file object of a layer directory has at most `limit` bytes -/
def DiskOK (limit : Nat) (d : Disk) : Prop := ∀ x ∈ d, ∀ bs, x.2 = .file bs → bs.length ≤ limit

theorem DiskOK_mkdirAllAux {limit : Nat} : ∀ (rest : List String) (d : Disk) (pre : Path) (d' : Disk),
    DiskOK limit d → mkdirAllAux d pre rest = some d' → DiskOK limit d' := by
  intro rest
  induction rest with
  | nil => intro d pre d' hd h; simp [mkdirAllAux] at h; subst h; exact hd
  | cons s rest ih =>
    intro d pre d' hd h
    unfold mkdirAllAux at h
    split at h
    · exact ih d _ d' hd h
    · cases h
    · apply ih _ _ d' _ h
      intro x hx bs hb
      rcases List.mem_cons.mp hx with rfl | hx
      · cases hb
      · exact hd x hx bs hb

/-- **C10_layer_bytes (disk).** `handleFile` never leaves more than `MaxFileBytes` bytes of an entry on disk
(`io.LimitReader`), also when it overwrites an earlier file of the same name without truncation. -/
theorem C10_disk_bytes (limit : Nat) (d d' : Disk) (pe : PEntry) (hd : DiskOK limit d)
    (h : diskStep limit d pe = some d') : DiskOK limit d' := by
  unfold diskStep at h
  split at h
  · split at h
    · simp at h; subst h; exact hd
    · exact DiskOK_mkdirAllAux _ _ _ _ hd h
  · split at h
    · cases h
    · rename_i d1 hmk
      have hd1 : DiskOK limit d1 := DiskOK_mkdirAllAux _ _ _ _ hd hmk
      split at h
      · cases h
      · rename_i old hold
        simp at h; subst h
        intro x hx bs hb
        rcases List.mem_cons.mp hx with rfl | hx
        · simp at hb; subst hb
          have hfind : (pe.real, DObj.file old) ∈ d1 ∨ True := Or.inr trivial
          have hold' : old.length ≤ limit := by
            unfold Disk.get at hold
            split at hold
            · cases hold
            · simp only [Option.map_eq_some_iff] at hold
              obtain ⟨y, hy, hy2⟩ := hold
              exact hd1 y (List.mem_of_find?_eq_some hy) old hy2
          simp only [List.length_append, List.length_replicate, List.length_drop]
          omega
        · exact hd1 x hx bs hb
      · simp at h; subst h
        intro x hx bs hb
        rcases List.mem_cons.mp hx with rfl | hx
        · simp at hb; subst hb; simp; omega
        · exact hd1 x hx bs hb
  · simp at h; subst h; exact hd

/-! ### lifted to a whole load (`loadImage`: what the driver runs) -/

theorem foldlM_processEntry_disk (limit i : Nat) : ∀ (l : List PEntry) (st st' : LoadSt),
    l.foldlM (processEntry limit i) st = some st' → DiskOK limit st.disk → DiskOK limit st'.disk := by
  intro l
  induction l with
  | nil => intro st st' h hd; simp [List.foldlM] at h; subst h; exact hd
  | cons pe l ih =>
    intro st st' h hd
    rw [List.foldlM_cons] at h
    cases h1 : processEntry limit i st pe with
    | none => rw [h1] at h; simp at h
    | some st1 =>
      rw [h1] at h
      simp only [Option.bind_eq_bind, Option.bind_some] at h
      apply ih st1 st' h
      rcases processEntry_disk h1 with he | hs
      · rw [he]; exact hd
      · exact C10_disk_bytes limit _ _ pe hd hs

theorem loadLoop_disks (limit : Nat) (layers : List (List PEntry)) : ∀ (i : Nat) (chains : List Tree) (disks : List (Nat × Disk))
    (c : List Tree) (ds : List (Nat × Disk)), loadLoop limit layers i chains disks = some (c, ds) →
    (∀ x ∈ disks, DiskOK limit x.2) → ∀ x ∈ ds, DiskOK limit x.2 := by
  intro i
  induction i with
  | zero => intro chains disks c ds h hd; simp [loadLoop] at h; rw [← h.2]; exact hd
  | succ i ih =>
    intro chains disks c ds h hd
    unfold loadLoop at h
    cases hp : processLayer limit i chains (layers.getD i []) with
    | none => rw [hp] at h; cases h
    | some r =>
      obtain ⟨c1, d1⟩ := r
      rw [hp] at h
      simp only at h
      apply ih _ _ _ _ h
      intro x hx
      rcases List.mem_cons.mp hx with rfl | hx
      · unfold processLayer at hp
        simp only [Option.map_eq_some_iff] at hp
        obtain ⟨st', hf, heq⟩ := hp
        simp only [Prod.mk.injEq] at heq
        rw [← heq.2]
        exact foldlM_processEntry_disk limit i _ _ st' hf (fun y hy => by cases hy)
      · exact hd x hx

/-- **C10_layer_bytes (disk), whole load.** Whatever the tars contain, after a successful `FromV1Image` no file below
any layer's extraction directory holds more than `MaxFileBytes` bytes. -/
theorem C10_disk_bytes_load (limit : Nat) (layers : List (List PEntry)) (c : List Tree) (ds : List (Nat × Disk))
    (h : loadImage limit layers = some (c, ds)) : ∀ x ∈ ds, DiskOK limit x.2 :=
  loadLoop_disks limit layers _ _ _ _ _ h (fun x hx => by cases hx)

/-- **C10_layer_bytes, whole load.** For raw tar headers, `MaxFileBytes = limit`: every chain layer `loadImage` returns,
and the final one after `removeUnnecessaryFileNodes`, is free of file nodes of size ≥ `limit`.  (`limit = 0` cannot
occur: `validateConfig` rejects `MaxFileBytes <= 0`; the statement then says "no file nodes", which is what
`classify` does with `size ≥ 0`.) -/
theorem C10_layer_bytes_image (limit : Nat) (raws : List (List RawEntry)) (c : List Tree) (ds : List (Nat × Disk))
    (h : loadImage limit (raws.map (normLayer limit)) = some (c, ds)) (j : Nat) (hj : j < raws.length)
    (U : List Path) (req : Path → Bool) (depth : Nat) :
    SizeOK limit (c.getD j emptyTree) ∧ SizeOK limit (pruneFinal U req depth (c.getD j emptyTree)) := by
  have hc := loadImage_chains limit _ c ds h
  have : SizeOK limit (c.getD j emptyTree) := by
    rw [hc, List.map_map]
    exact C10_layer_bytes_loader limit raws j hj
  exact ⟨this, C10_layer_bytes_final limit U req depth _ this⟩

end Scalibr.Overlay
