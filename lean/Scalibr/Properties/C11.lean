/-
C11 — Guided remediation only upgrades, and only as far as the policy allows.
Property theorems only; helper lemmas live in `Scalibr.Proofs.Upgrade`.
-/
import Scalibr.Proofs.Upgrade
import Scalibr.Proofs.UpgradeConfig
import Scalibr.Gen.Allows

namespace Scalibr.Upgrade

/-- The model of `Level.Allows` agrees with the truth table regenerated from the Go method on this run,
and the table covers every level 0..4 (4 = an invalid level) and every diff 0..7. -/
theorem C11_allows_table :
    (∀ e ∈ Gen.allowsTable, allows e.1 e.2.1 = e.2.2) ∧
    (∀ l ∈ List.range 5, ∀ d ∈ List.range 8, (l, d, allows l d) ∈ Gen.allowsTable) := by
  decide

/-- what the levels mean, read off the function: None allows only "same"; Patch forbids major and
minor; Minor forbids major; Major allows everything. -/
theorem C11_allows_meaning (d : Nat) :
    (allows lNone d = true ↔ d = dSame) ∧ (allows lPatch d = true ↔ d ≠ dMajor ∧ d ≠ dMinor) ∧
    (allows lMinor d = true ↔ d ≠ dMajor) ∧ allows lMajor d = true := by
  unfold allows lNone lPatch lMinor lMajor dSame dMajor dMinor
  refine ⟨?_, ?_, ?_, ?_⟩
  · by_cases h : d = 0 <;> simp [h]
  · by_cases h : d = 0 <;> simp [h]
  · by_cases h : d = 0 <;> simp [h]
  · by_cases h : d = 0 <;> simp [h]

/-- The textual configuration (`NewConfigFromStrings`, the CLI's `--upgrade-config`) means what its entries say: for ANY list of
entries "pkg:word" / "word" whose words hold no colon — package names with any number of colons (Maven `group:artifact`),
repeated packages, unknown words, blanks anywhere — the level `Config.Get` returns for ANY package is the level of the last
entry naming it with one of the four level words, else that of the last such default entry, else Major. -/
theorem C11_config_strings_meaning (es : List Entry) (hwf : ∀ e ∈ es, WFentry e) (p : List Char) :
    configGet (configFromStrings (es.map render)) p = intended es p :=
  configGet_strings es hwf p

/-- … and so every strategy is handed the intended permission: `Allows` of the parsed level is `Allows` of the intended one. -/
theorem C11_config_strings_allows (es : List Entry) (hwf : ∀ e ∈ es, WFentry e) (p : List Char) (d : Nat) :
    allows (configGet (configFromStrings (es.map render)) p) d = allows (intended es p) d := by
  rw [C11_config_strings_meaning es hwf p]

/-- decided instances: a Maven entry splits at its LAST colon (`g:a:none` restricts `g:a`, it is not package `g` with the
non-level `a:none`); later entries win; unknown words and blanks around the word make the entry invalid (ignored), a blank
before the colon belongs to the package name. -/
theorem C11_config_strings_witnesses :
    parseEntry "g:a:none".toList = some ("g:a".toList, lNone) ∧
    configGet (configFromStrings ["minor".toList, "g:a:none".toList]) "g:a".toList = lNone ∧
    configGet (configFromStrings ["minor".toList, "g:a:none".toList]) "g".toList = lMinor ∧
    configGet (configFromStrings ["@s/p:patch".toList, "@s/p:major".toList, ":none".toList]) "@s/p".toList = lMajor ∧
    configGet (configFromStrings ["@s/p:patch".toList, "@s/p:major".toList, ":none".toList]) "q".toList = lNone ∧
    parseEntry "p:latest".toList = none ∧ parseEntry "p: minor".toList = none ∧ parseEntry "minor ".toList = none ∧
    parseEntry "p :minor".toList = some ("p ".toList, lMinor) ∧
    configGet (configFromStrings ["p:latest".toList]) "p".toList = lMajor := by
  decide

end Scalibr.Upgrade

namespace Scalibr.Upgrade

/-
The version order.  All C11 models read the ecosystem's comparator as a rank on version identifiers.
`C11_rank_exists_iff`: such a rank exists for a set of versions exactly when the comparator is a total
preorder on it; `C11_rank_is_order_partial`: then "rank a < rank b" IS "cmp a b = lt".  Maven's comparator is
not a total preorder on all accepted strings (C07_maven_trans_fails: 1 < 1.foo < 1rc, 1 > 1rc — shape of
`C11_no_rank_of_cycle`), so the upwardness theorems below are `_partial`: they speak about version sets on
which the real comparator is one.  The harness obtains the ranks by sorting with the real comparator.
-/
theorem C11_rank_exists_iff {α : Type} (cmp : α → α → Ordering) (vs : List α) :
    (∃ rank, RankFor cmp vs rank) ↔ TotalPreorderOn cmp vs := rank_exists_iff cmp vs

theorem C11_rank_is_order_partial {α : Type} (cmp : α → α → Ordering) (vs : List α) (rank : α → Nat)
    (R : RankFor cmp vs rank) (a b : α) (ha : a ∈ vs) (hb : b ∈ vs) :
    (rank a < rank b ↔ cmp a b = .lt) ∧ (rank a ≤ rank b ↔ cmp a b ≠ .gt) ∧ (rank a = rank b ↔ cmp a b = .eq) := by
  rw [R a ha b hb]
  refine ⟨Nat.compare_eq_lt.symm, ?_, Nat.compare_eq_eq.symm⟩
  rw [ne_eq, Nat.compare_eq_gt]; omega

theorem C11_no_rank_of_cycle {α : Type} (cmp : α → α → Ordering) (a b c : α)
    (h1 : cmp a b = .lt) (h2 : cmp b c = .lt) (h3 : cmp a c = .gt) : ¬ ∃ rank, RankFor cmp [a, b, c] rank :=
  no_rank_of_cycle cmp a b c h1 h2 h3

end Scalibr.Upgrade

namespace Scalibr.Override
open Scalibr.Upgrade

/-- Override, one round, one package — the part that needs no assumption: the pinned version is one of the
known versions, its difference to the resolved version is allowed by the package's level, the level is not
None, and strictly fewer of the vulnerabilities that affected the resolved version affect it. -/
theorem C11_override_step (u : U) (level vk b : Nat) (h : round u level vk = some b) :
    level ≠ lNone ∧ b ∈ u.vs ∧ allows level (u.diff vk b) = true ∧
    ((vulnsAt u vk).filter (u.aff · b)).length < (vulnsAt u vk).length := by
  obtain ⟨h1, h2, h3, h4⟩ := round_spec u level vk b h
  exact ⟨h1, versionsGreater_sub _ _ _ b h2, h3, h4⟩

/-- … and it is STRICTLY upward when the version list is sorted by the comparator (`slices.SortFunc`'s contract,
which needs the comparator to be a total preorder): since fix e2a59457 every spelling that compares equal to the
resolved version is skipped, so equal-comparing versions (`1.0` / `1.0.0`) are no obstacle any more.  Without
sortedness the model can move down (`C11_override_unsorted_witness`). -/
theorem C11_override_upward_partial (u : U) (level vk b : Nat) (h : round u level vk = some b)
    (hs : Sorted u.rank u.vs) : u.rank vk < u.rank b := by
  obtain ⟨_, h2, _, _⟩ := round_spec u level vk b h
  exact versionsGreater_gt _ _ _ hs b h2

/-- The same with the ecosystem's comparator in the statement (audit-2, finding 5).  `ver` names the version each
identifier stands for.  For EVERY comparator `cmp` that is a total preorder on the versions at hand (the resolved one
and the known ones) — whose rank is then necessarily the canonical one, `C11_rank_exists_iff` — and a version list
sorted by `cmp`, an override step goes to a version that `cmp` calls strictly greater than the resolved one. -/
theorem C11_override_upward_cmp_partial {α : Type} (cmp : α → α → Ordering) (ver : Nat → α) (u : U) (level vk b : Nat)
    (hT : TotalPreorderOn cmp ((vk :: u.vs).map ver))
    (hr : ∀ x, u.rank x = countBelow cmp ((vk :: u.vs).map ver) (ver x))
    (hs : u.vs.Pairwise (fun a b => cmp (ver a) (ver b) ≠ .gt))
    (h : round u level vk = some b) : cmp (ver vk) (ver b) = .lt := by
  have R := rank_of_total_preorder cmp _ hT
  have hmem : ∀ x ∈ vk :: u.vs, ver x ∈ (vk :: u.vs).map ver := fun x hx => List.mem_map_of_mem hx
  have hsorted : Sorted u.rank u.vs := by
    unfold Sorted
    refine List.Pairwise.imp_of_mem ?_ hs
    intro a b ha hb hab
    have e := R (ver a) (hmem a (by simp [ha])) (ver b) (hmem b (by simp [hb]))
    rw [← hr a, ← hr b] at e
    rw [e, ne_eq, Nat.compare_eq_gt] at hab
    omega
  have hlt := C11_override_upward_partial u level vk b h hsorted
  have hb : b ∈ u.vs := (C11_override_step u level vk b h).2.1
  have e := R (ver vk) (hmem vk (by simp)) (ver b) (hmem b (by simp [hb]))
  rw [← hr vk, ← hr b] at e
  rw [e, Nat.compare_eq_lt]
  exact hlt

theorem C11_override_unsorted_witness :
    round ⟨[5, 1], id, fun _ _ => dPatch, 1, fun _ x => x = 5⟩ lMajor 5 = some 1 := by decide

/-- regression example of fix e2a59457 (formerly the witness of C11/override-equal-version): two spellings of one
version (identifiers 0 and 1, both rank 0) and a record whose explicit `versions` list names only the first.  The
second spelling is no candidate any more; the override goes to the next real version. -/
theorem C11_override_equal_version_fixed :
    let u : U := ⟨[0, 1, 2], fun x => if x = 2 then 1 else 0, fun a b => if a = b then dSame else dPatch, 1, fun _ x => x = 0⟩
    Sorted u.rank u.vs ∧ versionsGreater u.rank u.vs 0 = [2] ∧ round u lMajor 0 = some 2 := by
  refine ⟨by unfold Sorted; decide, by decide, by decide⟩

/-- The level applies to the ORIGINAL base (one package): after any number of rounds the version reached is
not below the first resolved version and the difference between the two is allowed.  Assumes the
difference classes behave like semver's (`DiffClassLaws`) and a sorted version list. -/
theorem C11_cumulative_partial (u : U) (level : Nat) (L : DiffClassLaws u.diff) (hs : Sorted u.rank u.vs) (fuel vk : Nat) :
    u.rank vk ≤ u.rank (loop u level fuel vk) ∧ allows level (u.diff vk (loop u level fuel vk)) = true := by
  induction fuel generalizing vk with
  | zero => simp [loop, L.refl, allows, dSame]
  | succ f ih =>
    simp only [loop]
    cases hr : round u level vk with
    | none => simp [L.refl, allows, dSame]
    | some b =>
      simp only
      obtain ⟨_, _, h3, _⟩ := C11_override_step u level vk b hr
      have h4 := C11_override_upward_partial u level vk b hr hs
      obtain ⟨i1, i2⟩ := ih b
      exact ⟨Nat.le_trans (Nat.le_of_lt h4) i1, allows_trans u.diff L level vk b _ h3 i2⟩

/-- Termination (one package): every round moves strictly up inside the finite version list, so after at most
(number of versions above the start) rounds no round patches anything.  Sortedness is enough: since fix e2a59457
no round can move sideways between equal-comparing spellings. -/
theorem C11_terminates_partial (u : U) (level : Nat) (hs : Sorted u.rank u.vs) (fuel vk : Nat)
    (hf : above u.rank u.vs vk ≤ fuel) : round u level (loop u level fuel vk) = none := by
  induction fuel generalizing vk with
  | zero =>
    simp only [loop]
    cases hr : round u level vk with
    | none => rfl
    | some b =>
      obtain ⟨_, hb, _, _⟩ := C11_override_step u level vk b hr
      have := above_lt u.rank u.vs vk b hb (C11_override_upward_partial u level vk b hr hs)
      omega
  | succ f ih =>
    simp only [loop]
    cases hr : round u level vk with
    | none => exact hr
    | some b =>
      simp only
      obtain ⟨_, hb, _, _⟩ := C11_override_step u level vk b hr
      have := above_lt u.rank u.vs vk b hb (C11_override_upward_partial u level vk b hr hs)
      exact ih b (by omega)

theorem C11_terminates_bound_partial (u : U) (level : Nat) (hs : Sorted u.rank u.vs) (vk : Nat) :
    round u level (loop u level u.vs.length vk) = none :=
  C11_terminates_partial u level hs _ vk (above_le _ _ _)

/-- A package configured as not upgradable gets no override in any round (so its requirement stays as it is; its
RESOLVED version may still move when another package's override pulls it — see C11/override-pin-overtaken). -/
theorem C11_none_untouched_override (u : U) (fuel vk : Nat) :
    round u lNone vk = none ∧ loop u lNone fuel vk = vk := by
  have h : ∀ vk, round u lNone vk = none := by
    intro vk; unfold round pick; simp
  refine ⟨h vk, ?_⟩
  cases fuel <;> simp [loop, h]

/-! Satisfiability of the assumed laws, and a universe in which the loop needs two rounds. -/
def semverDiff (a b : Nat) : Nat :=
  if a / 100 ≠ b / 100 then dMajor else if a / 10 ≠ b / 10 then dMinor else if a ≠ b then dPatch else dSame

theorem sd_major (a b : Nat) : semverDiff a b ≠ dMajor ↔ a / 100 = b / 100 := by
  unfold semverDiff dMajor dMinor dPatch dSame
  by_cases x : a / 100 = b / 100
  · simp only [x, ne_eq, not_true_eq_false, if_false, iff_true]
    split
    · decide
    · split <;> decide
  · simp [x]
theorem sd_minor (a b : Nat) :
    (semverDiff a b ≠ dMajor ∧ semverDiff a b ≠ dMinor) ↔ (a / 100 = b / 100 ∧ a / 10 = b / 10) := by
  unfold semverDiff dMajor dMinor dPatch dSame
  by_cases x : a / 100 = b / 100 <;> by_cases y : a / 10 = b / 10 <;> simp [x, y]
  split <;> simp
theorem sd_same (a b : Nat) : semverDiff a b = dSame ↔ a = b := by
  unfold semverDiff dMajor dMinor dPatch dSame
  constructor
  · intro h
    by_cases x : a / 100 = b / 100 <;> by_cases y : a / 10 = b / 10 <;> by_cases z : a = b <;> simp_all
  · intro h; subst h; simp

/-- `DiffClassLaws` is satisfiable: the semver-like difference on ranks encoded as major*100+minor*10+patch -/
example : DiffClassLaws semverDiff := by
  constructor
  · intro a; exact (sd_same a a).mpr rfl
  · intro a b c h1 h2
    rw [sd_major] at *; omega
  · intro a b c h1 h2
    rw [sd_minor] at *; omega
  · intro a b c h1 h2
    rw [sd_same] at *; omega


/-- versions 1.0.0 1.0.1 1.1.0 2.0.0 (identifier = rank); vulnerability 0 affects < 1.0.1, vulnerability 1 affects 1.0.1 only -/
def exU : U := ⟨[100, 101, 110, 200], id, semverDiff, 2, fun v r => if v = 0 then r < 101 else r = 101⟩
example : Sorted exU.rank exU.vs := by unfold Sorted exU; decide
example : round exU lMinor 100 = some 101 ∧ round exU lMinor 101 = some 110 ∧ loop exU lMinor 4 100 = 110 := by decide
example : round exU lPatch 101 = none := by decide   -- 1.1.0 is a minor step from 1.0.1: the scan breaks

end Scalibr.Override

namespace Scalibr.OverrideMulti
open Scalibr.Upgrade Scalibr.Override

/-- Override with several packages, any round — the part that needs no assumption: the requirement a round
leaves for package `p` is either the one it found, or a known version of `p` chosen against the version `p`
resolves to IN THIS ROUND (whatever moved it there), with a difference the package's level allows, the level
not None, and with fewer of the vulnerabilities that affect the resolved version. -/
theorem C11_override_multi_step (u : MU) (res : Res) (pins : Pins) (p b : Nat) (h : stepP u res pins p = some b) :
    pins.getD p none = some b ∨
    ∃ r, res.getD p none = some r ∧ pickP u p r = some b ∧ u.level p ≠ lNone ∧ b ∈ u.vs p ∧
      allows (u.level p) (u.diff p r b) = true ∧
      ((vulnsAt u p r).filter (u.aff · p b)).length < (vulnsAt u p r).length := by
  unfold stepP at h
  cases hr : res.getD p none with
  | none => simp only [hr] at h; exact Or.inl h
  | some r =>
    simp only [hr] at h
    cases hp : pickP u p r with
    | none => simp only [hp] at h; exact Or.inl h
    | some c =>
      simp only [hp, Option.some.injEq] at h
      subst h
      obtain ⟨h1, h2, h3, h4⟩ := pickP_spec u p r c hp
      exact Or.inr ⟨r, rfl, hp, h1, versionsGreater_sub _ _ _ c h2, h3, h4⟩

/-- … and the version a round picks for a package is strictly above the version that package resolves to in that
round, when the package's version list is sorted by its comparator -/
theorem C11_override_multi_upward_partial (u : MU) (p r b : Nat) (h : pickP u p r = some b)
    (hs : Sorted (u.rank p) (u.vs p)) : u.rank p r < u.rank p b :=
  versionsGreater_gt _ _ _ hs b (pickP_spec u p r b h).2.1

/-- Termination for several packages, any resolver that honours pins (`HonoursPinsM`: a pinned package resolves to
its pin or is absent; everything else is unconstrained): the sum over the packages of "versions above the
requirement" (all versions plus one while there is none) drops in every round that patches something, so the
loop reports `done` — it never runs out of fuel — whenever the fuel exceeds that sum.  Needs each package's
version list sorted by its comparator (see `C11_terminates_partial`). -/
theorem C11_terminates_multi_partial (u : MU) (resolve : Pins → Res) (hh : HonoursPinsM resolve)
    (hs : ∀ p, Sorted (u.rank p) (u.vs p)) (fuel : Nat) (pins : Pins) (hf : measure u pins < fuel) :
    (loop u resolve fuel pins 0).done = true := loop_done u resolve hh hs fuel pins 0 hf

/-- in particular with the fuel the driver uses: one more than all versions and packages together -/
theorem C11_terminates_multi_bound_partial (u : MU) (resolve : Pins → Res) (hh : HonoursPinsM resolve)
    (hs : ∀ p, Sorted (u.rank p) (u.vs p)) (pins : Pins) :
    (loop u resolve (((List.range u.np).map fun p => (u.vs p).length + 1).sum + 1) pins 0).done = true :=
  loop_done u resolve hh hs _ pins 0 (by have := measure_le u pins; omega)

/-- The level applies to the ORIGINAL requirement of every package the manifest pinned from the start (direct
dependencies), after any number of rounds and whatever the other packages do: the final requirement is not
below the original one and the difference between the two is allowed.  (For a package that had no entry the
first pin is chosen against the version resolved in that round — `C11_override_multi_step` — which another
override may overtake: known finding C11/override-pin-overtaken.) -/
theorem C11_cumulative_multi_partial (u : MU) (resolve : Pins → Res) (hh : HonoursPinsM resolve)
    (L : ∀ p, DiffClassLaws (u.diff p)) (hs : ∀ p, Sorted (u.rank p) (u.vs p)) (pins0 : Pins) (fuel : Nat)
    (p a : Nat) (hp : p < u.np) (ha : pins0.getD p none = some a) :
    ∃ b, (loop u resolve fuel pins0 0).pins.getD p none = some b ∧ u.rank p a ≤ u.rank p b ∧
      allows (u.level p) (u.diff p a b) = true := by
  have h0 : Within u pins0 pins0 := by
    intro q _ x hx
    exact ⟨x, hx, Nat.le_refl _, by simp [(L q).refl, allows, dSame]⟩
  exact within_loop u resolve hh L hs pins0 fuel pins0 0 h0 p hp a ha

/-- a package at level None keeps its requirement in every round -/
theorem C11_none_untouched_multi (u : MU) (res : Res) (pins : Pins) (p : Nat) (h : u.level p = lNone) :
    stepP u res pins p = pins.getD p none := by
  have hp : ∀ r, pickP u p r = none := by
    intro r; unfold pickP pick; simp [h]
  unfold stepP
  cases res.getD p none <;> simp [hp]

/-! Non-vacuity: two packages, two rounds.  Package 0 = app {1.0.0, 1.1.0}, package 1 = lib {1.0.0, 1.0.1, 1.0.5,
1.0.6}; app 1.0.0 brings lib 1.0.0, app 1.1.0 brings lib 1.0.5.  Record 0 affects app 1.0.0 and lib ≤ 1.0.1, record 1
affects lib 1.0.5.  Round 1 moves app to 1.1.0 and lib to 1.0.5; round 2 scans lib's candidates from 1.0.5 and moves
it UP to 1.0.6.  The resolver honours pins. -/
def exMU : MU := ⟨2, fun p => if p = 0 then [0, 1] else [0, 1, 2, 3], fun _ x => x, fun _ a b => if a = b then dSame else dPatch, 2,
  fun v p r => if v = 0 then (if p = 0 then r = 0 else r ≤ 1) else (p = 1 && r = 2), fun _ => lMajor⟩
def exResolve : Pins → Res := fun pins =>
  let a := (pins.getD 0 none).getD 0
  [some a, some ((pins.getD 1 none).getD (if a = 0 then 0 else 2))]
example : loop exMU exResolve 5 [some 0, none] 0 = ⟨[some 1, some 3], 2, true⟩ := by decide
example : HonoursPinsM exResolve := by
  intro pins p b h
  unfold exResolve
  match p with
  | 0 => left; simp [List.getD] at h ⊢; simp [h]
  | 1 => left; simp [List.getD] at h ⊢; simp [h]
  | n + 2 => right; simp [List.getD]

/-
Full-strength statement for several packages — "every override written moves its package strictly upward
from the version it resolves to WITHOUT that override in the final manifest" — is FALSE for the unchanged
code: each round judges every package against the versions resolved at the START of the round, so a
dependencyManagement pin chosen for a transitive package can be overtaken by another package's override
(of the same or a later round) whose newer version requires something newer still.  Known finding
C11/override-pin-overtaken; in force: `C11_override_multi_step` (upward from the version resolved in the
round that chose it).
-/

/-- app {1.0.0, 1.1.0}, lib {1.0.0, 1.0.1, 1.0.5}; app 1.0.0 brings lib 1.0.0, app 1.1.0 brings lib 1.0.5; one record
affects app 1.0.0 and lib 1.0.0.  One round overrides app to 1.1.0 AND pins lib to 1.0.1; without that pin the
final manifest would resolve lib to 1.0.5. -/
theorem C11_override_pin_overtaken_witness :
    let u : MU := ⟨2, fun p => if p = 0 then [0, 1] else [0, 1, 2], fun _ x => x, fun _ a b => if a = b then dSame else dPatch, 1,
      fun _ _ r => r = 0, fun _ => lMajor⟩
    let resolve : Pins → Res := fun pins =>
      let a := (pins.getD 0 none).getD 0
      [some a, some ((pins.getD 1 none).getD (if a = 0 then 0 else 2))]
    loop u resolve 5 [some 0, none] 0 = ⟨[some 1, some 1], 1, true⟩ ∧ resolve [some 1, none] = [some 1, some 2] := by
  decide

end Scalibr.OverrideMulti

namespace Scalibr.Relax
open Scalibr.Upgrade

/-- Relax, one step: the version the relaxed requirement is built from lies strictly above the highest
version matching the old requirement (indices in `semver.NPM.Compare` order), the difference between
the two is allowed by the level, and the level is not None.  Any version table. -/
theorem C11_relax_step (t : T) (level : Nat) (o : Out) (h : relax t level = some o) :
    level ≠ lNone ∧ o.last < o.idx ∧ allows level ((t.diff o.last o.idx).getD dOther) = true := by
  unfold relax at h
  by_cases hl : level = lNone
  · simp [hl] at h
  · simp only [hl, if_false] at h
    cases hs : scanTop t t.n none true with
    | mk l rest =>
      obtain ⟨nx, p⟩ := rest
      rw [hs] at h
      cases l with
      | none => cases nx <;> simp at h
      | some last =>
        cases nx with
        | none => simp at h
        | some next =>
          simp only at h
          obtain ⟨hlk, hln⟩ := scanTop_spec t t.n none true last next p hs (by intro x hx; cases hx)
          by_cases ha : allows level ((t.diff last next).getD dOther) = true
          · simp only [ha, Bool.not_true, Bool.false_eq_true, if_false, Option.some.injEq] at h
            subst h
            simp only
            refine ⟨hl, ?_, ?_⟩
            · have := best_spec t level
                (if (t.diff last next).getD dOther = dMajor then (next, dMinor) else (last, (t.diff last next).getD dOther)).1
                (if (t.diff last next).getD dOther = dMajor then (next, dMinor) else (last, (t.diff last next).getD dOther)).2
                p (t.n + 1) (next + 1) next (by omega)
              simp only at this
              rcases this with e | ⟨e, _⟩ <;> omega
            · by_cases hm : (t.diff last next).getD dOther = dMajor
              · -- a major step was allowed, so the level allows everything
                rw [hm] at ha
                exact allows_major_all level _ ha
              · simp only [hm, if_false]
                have := best_spec t level last ((t.diff last next).getD dOther) p (t.n + 1) (next + 1) next (by omega)
                simp only at this
                rcases this with e | ⟨_, d, hd, hda⟩
                · rw [e]; exact ha
                · rw [hd]; exact hda
          · simp [ha] at h

/-- (definitional: the first test of `Relax` — it says that no requirement is rewritten for a package at level None; the
package's RESOLVED version can still move when something above it is relaxed, which the property's "never touches" has
to be read against: see the C12 side-effect cases) -/
theorem C11_none_untouched_relax (t : T) : relax t lNone = none := by simp [relax]

/-! Non-vacuity: versions 1.0.0 1.0.1 1.1.0 2.0.0 with requirement "1.0.0", level minor: `^1.1.0`. -/
def exT : T := ⟨4, fun i => i = 0, fun _ => false,
  fun i j => some (Scalibr.Override.semverDiff ([100, 101, 110, 200].getD i 0) ([100, 101, 110, 200].getD j 0))⟩
example : relax exT lPatch = some ⟨true, 1, 0⟩ ∧ relax exT lMajor = some ⟨true, 1, 0⟩ := by decide

end Scalibr.Relax

namespace Scalibr.Suggest
open Scalibr.Upgrade

/-- Bulk update, full strength (after fixes 3e9bb9ee and 63128997): for every level, requirement and
version table, a proposed version is one of the known versions, `current` is known, the proposal lies
STRICTLY above `current` in the order `mavenutil.CompareVersions` defines, and its difference to
`current` is allowed by the level.  The model has no panic outcome: every nil-able value of the Go code
is an `Option` matched before use (see `Model/SuggestMaven.lean`), which the correspondence stream checks
against the real function on every case, ranges that no known version satisfies included. -/
theorem C11_update_step (level : Nat) (simple : Bool) (cur : Option V) (vs : List V) (v : V)
    (h : suggest level simple cur vs = .update v) :
    ∃ c, cur = some c ∧ v ∈ vs ∧ allows level v.diff = true ∧ c.rank < v.rank := by
  unfold suggest at h
  cases cur with
  | none => simp at h
  | some c =>
    simp only at h
    cases hf : vs.foldl (step level c) none with
    | none => simp [hf] at h
    | some w =>
      simp only [hf] at h
      split at h
      · injection h with h; subst h
        obtain ⟨g1, g2, g3⟩ := fold_spec level c vs vs none (fun _ h => h) (by intro w hw; cases hw) w hf
        exact ⟨c, rfl, g1, g2, g3⟩
      · cases h

/-- The same with the comparator in the statement: `pos v` is the version each table row stands for, `c` the current
one; for every `cmp` that is a total preorder on them and whose rank the table carries, a proposed version is
strictly greater than the current one under `cmp`. -/
theorem C11_update_step_cmp_partial {α : Type} (cmp : α → α → Ordering) (pos : V → α) (level : Nat) (simple : Bool)
    (c : V) (vs : List V) (v : V) (hT : TotalPreorderOn cmp ((c :: vs).map pos))
    (hr : ∀ x ∈ c :: vs, x.rank = countBelow cmp ((c :: vs).map pos) (pos x))
    (h : suggest level simple (some c) vs = .update v) : cmp (pos c) (pos v) = .lt ∧ allows level v.diff = true := by
  obtain ⟨c', hc, hv, ha, hlt⟩ := C11_update_step level simple (some c) vs v h
  injection hc with hc; subst hc
  have R := rank_of_total_preorder cmp _ hT
  have e := R (pos c) (List.mem_map_of_mem (by simp)) (pos v) (List.mem_map_of_mem (by simp [hv]))
  rw [← hr c (by simp), ← hr v (by simp [hv])] at e
  exact ⟨by rw [e, Nat.compare_eq_lt]; exact hlt, ha⟩

/-- a range that no known version satisfies leaves the requirement alone (the former nil dereference) -/
theorem C11_update_no_current (level : Nat) (simple : Bool) (vs : List V) : suggest level simple none vs = .keep := rfl

/-- what `Suggest` finally reports: never for level None, and only versions strictly above `current`
with an allowed difference -/
theorem C11_update_reported (level : Nat) (simple : Bool) (cur : Option V) (curId : Option Nat) (vs : List V) (v : V)
    (h : suggestUpdate level simple cur curId vs = .update v) :
    level ≠ lNone ∧ ∃ c, cur = some c ∧ v ∈ vs ∧ allows level v.diff = true ∧ c.rank < v.rank := by
  unfold suggestUpdate suggestFn at h
  by_cases hl : level = lNone
  · simp [hl] at h
  · simp only [hl, if_false] at h
    cases hs : suggest level simple cur vs with
    | keep => simp [hs] at h
    | update w =>
      simp only [hs] at h
      split at h
      · cases h
      · injection h with h; subst h
        exact ⟨hl, C11_update_step level simple cur vs w hs⟩

/-- Bulk update of a whole manifest: EVERY requirement for which an update is reported — also one of several
requirements naming the same package with different versions — is moved to a known version strictly above
ITS OWN current version, with a difference the level of its package allows, and its level is not None. -/
theorem C11_update_patch (rbs : List RB) (i : Nat) (rb : RB) (v : V) (hi : rbs[i]? = some rb)
    (h : (suggestPatch rbs)[i]? = some (.update v)) :
    rb.level ≠ lNone ∧ ∃ c, rb.cur = some c ∧ v ∈ rb.vs ∧ allows rb.level v.diff = true ∧ c.rank < v.rank := by
  unfold suggestPatch at h
  rw [List.getElem?_map, hi] at h
  simp only [Option.map, Option.some.injEq] at h
  split at h
  · cases h
  · exact C11_update_reported rb.level rb.simple rb.cur rb.curId rb.vs v h

theorem C11_none_untouched_update (simple : Bool) (cur : Option V) (curId : Option Nat) (vs : List V) :
    suggestUpdate lNone simple cur curId vs = .keep := by simp [suggestUpdate]

/-- the repaired witnesses: a range nothing satisfies keeps the requirement (was: panic); requirement
`1.0` (id 9) with the equal known version `1.0.0` (id 0) keeps the requirement (was: an "update") -/
theorem C11_update_fixed_witnesses :
    suggest lMajor false none [⟨0, 0, dOther, false⟩] = .keep ∧
    suggestUpdate lPatch true (some ⟨9, 5, dSame, true⟩) (some 9) [⟨0, 5, dSame, true⟩] = .keep := by decide

/-! Non-vacuity: requirement 2.5.0 (rank 3) with {2.0.0, 2.1.0, 3.0.0} at level minor keeps the
requirement (the former downgrade witness); with 2.6.0 known it moves up to it. -/
example : suggest lMinor true (some ⟨9, 3, dSame, true⟩) [⟨0, 1, dMinor, false⟩, ⟨1, 2, dMinor, false⟩, ⟨2, 5, dMajor, false⟩] = .keep := by decide
example : suggest lMinor true (some ⟨9, 3, dSame, true⟩) [⟨0, 1, dMinor, false⟩, ⟨1, 4, dMinor, false⟩, ⟨2, 5, dMajor, false⟩] = .update ⟨1, 4, dMinor, false⟩ := by decide

/-! Non-vacuity: level minor, versions {1.2.0, 1.9.0, 2.1.0, 2.5.0}; one requirement at 2.1.0 and one at 1.2.0 for the
same package get DIFFERENT targets (2.5.0 and 1.9.0), each within its own major line. -/
example : suggestPatch
    [⟨lMinor, false, true, some ⟨2, 2, dSame, true⟩, some 2, [⟨0, 0, dMajor, false⟩, ⟨1, 1, dMajor, false⟩, ⟨2, 2, dSame, true⟩, ⟨3, 3, dMinor, false⟩]⟩,
     ⟨lMinor, false, true, some ⟨0, 0, dSame, true⟩, some 0, [⟨0, 0, dSame, true⟩, ⟨1, 1, dMinor, false⟩, ⟨2, 2, dMajor, false⟩, ⟨3, 3, dMajor, false⟩]⟩]
    = [.update ⟨3, 3, dMinor, false⟩, .update ⟨1, 1, dMinor, false⟩] := by decide

end Scalibr.Suggest
