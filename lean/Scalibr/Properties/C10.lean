/-
C10 — Resource limits and cancellation are hard bounds (walk-engine clauses; the image-layer byte
limit is `C10_layer_bytes` in Properties/C10Layer.lean).
-/
import Scalibr.Proofs.WalkInv
import Scalibr.Proofs.WalkMore
import Scalibr.Spec.Walk
namespace Scalibr.Walk

/-- Whatever the forest, fault plans, options and cancellation point: `AfterInodeVisited` — i.e. an inode
being processed — happens at most `MaxInodes` times over the whole scan (all roots together). -/
theorem C10_inodes (c : Cfg) (roots : List (Node × Faults)) (hm : c.maxInodes > 0) :
    (run c roots).visited ≤ c.maxInodes := by
  unfold run
  exact runRoots_visited c roots _ [] [] (by intro _; simp) hm

/-- No file larger than the size limit is ever handed to ANY extractor; a file of exactly the limit is
(see the non-vacuity example). -/
theorem C10_size (c : Cfg) (roots : List (Node × Faults)) (hm : c.maxFileSize > 0) :
    ∀ cl ∈ (run c roots).calls, cl.size ≤ c.maxFileSize := by
  intro cl hcl
  unfold run at hcl
  exact runRoots_sizeInv c roots _ [] [] (by intro x hx; simp at hx) cl hcl hm

/-- Once the context is cancelled, a walk step (a file, a directory with everything below it) starts no
extraction and reports an error, which every enclosing loop passes on. -/
theorem C10_cancel_walk (c : Cfg) (f : Faults) (s : St) (p : Path) (n : Node) (hc : s.cancelled = true) :
    (walkNode c f s p n).2 ≠ .none ∧ (walkNode c f s p n).1.calls = s.calls :=
  walkNode_cancelled c f s p n hc

/-- … and the extractions still started after a cancellation from inside `Extract` all concern the file
being handled at that moment: the loop over extractors only ever makes attempts for its own file. -/
theorem C10_cancel_same_file (c : Cfg) (f : Faults) (p : Path) (size : Nat) (rs : List Nat) (s : St) (chk : Bool) :
    ∃ cs, (extractLoop c f p size s rs chk).1.calls = s.calls ++ cs ∧ ∀ cl ∈ cs, cl.path = p :=
  extractLoop_paths c f p size rs s chk

/-- A scan whose context is already cancelled makes no extraction at all and fails (when there is
anything to scan). -/
theorem C10_cancel_before (c : Cfg) (hc : c.cancelBefore = true) (hp : c.paths = []) (r : Node) (f : Faults)
    (rest : List (Node × Faults)) :
    (run c ((r, f) :: rest)).err ≠ .none ∧ (run c ((r, f) :: rest)).calls = [] := by
  unfold run
  simp only [runRoots, runRoot, hp, List.isEmpty_nil, if_true, hc]
  have key : (walkFrom c f { cancelled := true } r []).2 ≠ .none ∧ (walkFrom c f { cancelled := true } r []).1.calls = [] := by
    unfold walkFrom
    split
    · exact fserrCall_cancelled c _ rfl
    · simp only [lookup]
      exact walkNode_cancelled c f _ [] r rfl
  generalize walkFrom c f { cancelled := true } r [] = x at key ⊢
  obtain ⟨s1, e1⟩ := x
  simp only [] at key ⊢
  simp [key.1, key.2]

/-! Non-vacuity: a file of exactly the limit is extracted, one byte more is not. -/
def exC : Cfg := { nExt := 1, required := fun _ _ => true, extract := fun _ _ => {}, maxFileSize := 5,
                   giMatch := fun _ _ _ _ => false }
example : (mustOne exC {} [] ⟨["at"], .reg, 5, []⟩).length = 1 ∧ mustOne exC {} [] ⟨["over"], .reg, 6, []⟩ = [] := by decide

end Scalibr.Walk
