/-
C10 — Resource limits and cancellation are hard bounds (walk-engine clauses; the image-layer byte
limit is `C10_layer_bytes` in Properties/C10Layer.lean).
-/
import Scalibr.Proofs.WalkInv
import Scalibr.Proofs.WalkMore
import Scalibr.Spec.Walk
import Scalibr.Proofs.WalkLimit
import Scalibr.Proofs.WalkCancel
namespace Scalibr.Walk

/-- Whatever the forest, fault plans, options and cancellation point: `AfterInodeVisited` — i.e. an inode
being processed — happens at most `MaxInodes` times over the whole scan (all roots together). -/
theorem C10_inodes (c : Cfg) (roots : List (Node × Faults)) (hm : c.maxInodes > 0) :
    (run c roots).visited ≤ c.maxInodes := by
  unfold run
  exact runRoots_visited c roots _ [] [] (by intro _; simp) hm

/-- No file larger than the size limit is ever handed to ANY extractor; a file of exactly the limit is
(see the non-vacuity example). -/
theorem C10_size (c : Cfg) (roots : List (Node × Faults)) (hm : c.maxFileSize > 0) :
    ∀ cl ∈ (run c roots).calls, cl.size ≤ c.maxFileSize := by
  intro cl hcl
  unfold run at hcl
  exact runRoots_sizeInv c roots _ [] [] (by intro x hx; simp at hx) cl hcl hm

/-- Once the context is cancelled, a walk step (a file, a directory with everything below it) starts no
extraction and reports an error, which every enclosing loop passes on. -/
theorem C10_cancel_walk (c : Cfg) (f : Faults) (s : St) (p : Path) (n : Node) (hc : s.cancelled = true) :
    (walkNode c f s p n).2 ≠ .none ∧ (walkNode c f s p n).1.calls = s.calls :=
  walkNode_cancelled c f s p n hc

/-- … and the extractions still started after a cancellation from inside `Extract` all concern the file
being handled at that moment: the loop over extractors only ever makes attempts for its own file. -/
theorem C10_cancel_same_file (c : Cfg) (f : Faults) (p : Path) (size : Nat) (rs : List Nat) (s : St) (chk : Bool) :
    ∃ cs, (extractLoop c f p size s rs chk).1.calls = s.calls ++ cs ∧ ∀ cl ∈ cs, cl.path = p :=
  extractLoop_paths c f p size rs s chk

/-- A scan whose context is already cancelled makes no extraction at all and fails (when there is
anything to scan). -/
theorem C10_cancel_before (c : Cfg) (hc : c.cancelBefore = true) (hp : c.paths = []) (r : Node) (f : Faults)
    (rest : List (Node × Faults)) :
    (run c ((r, f) :: rest)).err ≠ .none ∧ (run c ((r, f) :: rest)).calls = [] := by
  unfold run
  simp only [runRoots, runRoot, hp, List.isEmpty_nil, if_true, hc]
  have key : (walkFrom c f { cancelled := true } r []).2 ≠ .none ∧ (walkFrom c f { cancelled := true } r []).1.calls = [] := by
    unfold walkFrom
    split
    · exact fserrCall_cancelled c _ rfl
    · simp only [lookup]
      exact walkNode_cancelled c f _ [] r rfl
  generalize walkFrom c f { cancelled := true } r [] = x at key ⊢
  obtain ⟨s1, e1⟩ := x
  simp only [] at key ⊢
  simp [key.1, key.2]

/-! Non-vacuity: a file of exactly the limit is extracted, one byte more is not. -/
def exC : Cfg := { nExt := 1, required := fun _ _ => true, extract := fun _ _ => {}, maxFileSize := 5,
                   giMatch := fun _ _ _ _ => false }
example : (mustOne exC {} [] ⟨["at"], .reg, 5, []⟩).length = 1 ∧ mustOne exC {} [] ⟨["over"], .reg, 6, []⟩ = [] := by decide

/-! ### exact behaviour at the inode limit and under cancellation (refinement to the specification)

Both follow from `run_trace` (Proofs/WalkTrace.lean): whenever filesystem errors are not fatal and
extractors do not panic, model A behaves — for every forest, fault plan, option combination, limit and
cancellation point — like the sequential machine "count the inode, check the context, make the attempts"
run over `traceScan`, the specification's list of `handleFile` calls. -/

/-- "… fails when the tree holds more": with an inode limit (errors not fatal, no cancellation, no extractor
panic) the scan fails with the MaxInodes error EXACTLY when the forest holds more inodes to visit than the
limit, and reports exactly `min visitsScan MaxInodes` visited inodes.  `visitsScan` (Spec/WalkCount.lean) is
defined on the trees, fault plans and skip rules only; the counter is shared by all roots. -/
theorem C10_inodes_exact (c : Cfg) (hl : LimitCfg c) (hd : DomainLaw c.giMatch) (roots : List (Node × Faults)) :
    (run c roots).err = (if visitsScan c roots > c.maxInodes then .maxInodes else .none) ∧
    (run c roots).visited = min (visitsScan c roots) c.maxInodes :=
  run_limit c hl hd roots

/-- "… once its context is cancelled starts no extraction on any further file … reporting failure whenever
work remained": the context is cancelled from inside the k-th `Extract` (no inode limit, errors not fatal,
no extractor panic).  `mustExtract` = the attempts owed without cancellation; `traceScan` = the
`handleFile` calls of the uncancelled scan in order, each with its attempts (first two conjuncts: it is
`mustExtract` grouped by call, and all attempts of one call concern one file).
* fewer than `k` `Extract` calls owed: never cancelled — success, exactly `mustExtract`, every inode visited;
* otherwise, with `blk` the call in which the k-th `Extract` happens (`pre`/`post` = the calls before/after;
  the decomposition is unique): the scan makes exactly the attempts of `pre` and ALL of `blk` (the remaining
  extractors of the file being handled still run), nothing of `post`; it fails with the context error iff
  a `handleFile` call remained (`post ≠ []`: a further file, directory or error report), which is still
  counted as visited. -/
theorem C10_cancel_trace (c : Cfg) (k : Nat) (hc : CancelCfg c k) (hd : DomainLaw c.giMatch) (roots : List (Node × Faults)) :
    (traceScan c roots).flatten = mustExtract c roots ∧ (∀ b ∈ traceScan c roots, OnePath b) ∧
    (openedCount (mustExtract c roots) < k →
      (run c roots).err = .none ∧ (run c roots).calls = mustExtract c roots ∧
      (run c roots).visited = visitsScan c roots) ∧
    (k ≤ openedCount (mustExtract c roots) → ∃ pre blk post, traceScan c roots = pre ++ blk :: post ∧
      openedCount pre.flatten < k ∧ k ≤ openedCount (pre.flatten ++ blk) ∧
      (run c roots).calls = pre.flatten ++ blk ∧
      (run c roots).err = (if post = [] then .none else .ctx) ∧
      (run c roots).visited = pre.length + 1 + (if post = [] then 0 else 1)) :=
  run_cancel c k hc hd roots

/-- … and in terms of `mustExtract` alone: the attempts made are a prefix of the attempts owed; the scan
fails — with the context error — whenever an owed attempt was not made; the attempts from the cancelling
one on (`blk`) all concern one file. -/
theorem C10_cancel_prefix (c : Cfg) (k : Nat) (hc : CancelCfg c k) (hd : DomainLaw c.giMatch) (roots : List (Node × Faults)) :
    ∃ rest, mustExtract c roots = (run c roots).calls ++ rest ∧
      (rest ≠ [] → (run c roots).err = .ctx) ∧
      ((run c roots).err = .none ∨ (run c roots).err = .ctx) ∧
      (openedCount (mustExtract c roots) < k → rest = [] ∧ (run c roots).err = .none) ∧
      (k ≤ openedCount (mustExtract c roots) → ∃ done blk, (run c roots).calls = done ++ blk ∧
        openedCount done < k ∧ k ≤ openedCount (done ++ blk) ∧ OnePath blk) :=
  run_cancel_prefix c k hc hd roots

/-- … and as a function: the attempts, the error and the visited-inode count are exactly what
`cancelOutcome` (Spec/WalkCount.lean: "every `handleFile` call up to and including the one holding the k-th
`Extract`, nothing after it, failure iff a call remained") reads off the specification's trace. -/
theorem C10_cancel_outcome (c : Cfg) (k : Nat) (hc : CancelCfg c k) (hd : DomainLaw c.giMatch) (roots : List (Node × Faults)) :
    ((run c roots).calls, (run c roots).err, (run c roots).visited) = cancelOutcome k 0 (traceScan c roots) :=
  run_cancel_outcome c k hc hd roots

/-! Non-vacuity (specification side only).  A tree with 5 inodes to visit (also 5 when directory `d` cannot be
opened: the failure is reported by a second call and `b` is not reached; 6 + 1 with a failing end-of-listing
read of the root and a second root, since the counter is shared) against a limit of 3 / of 5. -/
def exL (n : Nat) : Cfg := { nExt := 1, required := fun _ _ => true, extract := fun _ _ => {}, maxInodes := n,
                             giMatch := fun _ _ _ _ => false }
def exTree : Node := .dir none [("a", .file .reg 1), ("d", .dir none [("b", .file .reg 2)]), ("e", .file .reg 3)]
example : LimitCfg (exL 3) ∧ DomainLaw (exL 3).giMatch := ⟨⟨by decide, rfl, rfl, rfl, fun _ _ => rfl⟩, fun _ _ _ _ _ => rfl⟩
example : visitsScan (exL 3) [(exTree, {})] = 5 ∧ visitsScan (exL 3) [(exTree, { openFail := fun p => p = ["d"] })] = 5 ∧
    visitsScan (exL 3) [(exTree, { readEntryFail := fun p k => p = [] ∧ k = 3 }), (.file .reg 1, {})] = 7 := by decide
/-- the theorem at work: over the limit the scan fails after exactly 3 visits, at the limit it succeeds -/
example : (run (exL 3) [(exTree, {})]).err = .maxInodes ∧ (run (exL 3) [(exTree, {})]).visited = 3 ∧
    (run (exL 5) [(exTree, {})]).err = .none := by
  have h3 := C10_inodes_exact (exL 3) ⟨by decide, rfl, rfl, rfl, fun _ _ => rfl⟩ (fun _ _ _ _ _ => rfl) [(exTree, {})]
  have h5 := C10_inodes_exact (exL 5) ⟨by decide, rfl, rfl, rfl, fun _ _ => rfl⟩ (fun _ _ _ _ _ => rfl) [(exTree, {})]
  rw [h3.1, h3.2, h5.1]
  decide

/-! Two extractors, cancellation from inside the 1st `Extract`: the second extractor still gets file `a`,
file `b` gets nothing, and the scan fails because `b` remained. -/
def exK (k : Nat) : Cfg := { nExt := 2, required := fun _ _ => true, extract := fun _ _ => {}, cancelAt := some k,
                             giMatch := fun _ _ _ _ => false }
def exTree2 : Node := .dir none [("a", .file .reg 1), ("b", .file .reg 2)]
example : CancelCfg (exK 1) 1 ∧ DomainLaw (exK 1).giMatch := ⟨⟨rfl, rfl, rfl, rfl, by decide, fun _ _ => rfl⟩, fun _ _ _ _ _ => rfl⟩
example : traceScan (exK 1) [(exTree2, {})] =
    [[]] ++ [⟨0, ["a"], 1, true⟩, ⟨1, ["a"], 1, true⟩] :: [[⟨0, ["b"], 2, true⟩, ⟨1, ["b"], 2, true⟩]] ∧
    openedCount (mustExtract (exK 1) [(exTree2, {})]) = 4 := by decide
/-- the theorem at work: both extractors get `a`, nothing for `b`, the scan fails; root, `a` and `b` are counted -/
example : (run (exK 1) [(exTree2, {})]).calls = [⟨0, ["a"], 1, true⟩, ⟨1, ["a"], 1, true⟩] ∧
    (run (exK 1) [(exTree2, {})]).err = .ctx ∧ (run (exK 1) [(exTree2, {})]).visited = 3 := by
  have h := C10_cancel_outcome (exK 1) 1 ⟨rfl, rfl, rfl, rfl, by decide, fun _ _ => rfl⟩ (fun _ _ _ _ _ => rfl) [(exTree2, {})]
  have h' : cancelOutcome 1 0 (traceScan (exK 1) [(exTree2, {})]) = ([⟨0, ["a"], 1, true⟩, ⟨1, ["a"], 1, true⟩], .ctx, 3) := by decide
  rw [h'] at h
  simp only [Prod.mk.injEq] at h
  exact h
/-- cancellation inside the LAST attempt of the LAST file: nothing remained, the scan succeeds -/
example : cancelOutcome 4 0 (traceScan (exK 4) [(exTree2, {})]) = (mustExtract (exK 4) [(exTree2, {})], .none, 3) := by decide
/-- never reached: 4 `Extract` calls owed, cancellation in the 5th -/
example : openedCount (mustExtract (exK 5) [(exTree2, {})]) < 5 := by decide

end Scalibr.Walk
